// group `addresses`: src/addresses.rs default address generator   (C11, C19)
//@ include prelude/macros.rs
use vstd::prelude::*;
use vstd::std_specs::iter::IteratorSpec;
verus! {
//@ rewrite R2 "dyn CosmosRouter<ExecC = ExecC, QueryC = QueryC>" => "dyn CosmosRouter<ExecC, QueryC>"
//@ include prelude/base.rs
//@ include spec/lex.rs
//@ include spec/lp.rs
//@ include prelude/std_ext.rs
//@ include prelude/cosmwasm.rs
//@ include contracts/repo_types.rs
//@ include prelude/router_traits.rs
//@ include prelude/wasm_traits.rs
//@ include contracts/addresses.rs
} // verus!
fn main() {}
