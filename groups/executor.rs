// group `executor`: default methods of trait Executor in src/executor.rs   (C01, C05)
//@ include prelude/macros.rs
use vstd::prelude::*;
use vstd::std_specs::iter::IteratorSpec;
use std::fmt::Debug;
verus! {
//@ include prelude/base.rs
//@ include spec/lex.rs
//@ include prelude/std_ext.rs
//@ include prelude/cosmwasm.rs
//@ include contracts/executor.rs
} // verus!
fn main() {}
