// group `wasm_call`: WasmKeeper::{with_storage, call_*, verify_*, contract_storage(_mut), get_env, contract_code}   (C05, C08, C10, C11, C13)
//@ include prelude/macros.rs
use vstd::prelude::*;
use vstd::std_specs::iter::IteratorSpec;
use std::collections::BTreeMap;
verus! {
//@ rewrite R2 "dyn CosmosRouter<ExecC = ExecC, QueryC = QueryC>" => "dyn CosmosRouter<ExecC, QueryC>"
//@ include prelude/base.rs
//@ include spec/lex.rs
//@ include spec/lp.rs
//@ include spec/range.rs
//@ include prelude/std_ext.rs
//@ include prelude/cosmwasm.rs
//@ include contracts/repo_types.rs
//@ include prelude/router_traits.rs
//@ include prelude/wasm_traits.rs
//@ include prelude/cw_plus.rs
//@ include contracts/wasm_types.rs
//@ include spec/wasm_sem.rs
//@ include spec/wasm_resp.rs
//@ include spec/wasm_exec.rs
//@ include spec/wasm_call.rs
//@ include spec/isolation.rs
//@ include spec/isolation_inst.rs
//@ include_stubs contracts/transactional_only.rs
//@ include_stubs contracts/prefixed_ns.rs
//@ include_stubs contracts/prefixed_mod.rs
//@ include_stubs contracts/wasm_registry.rs
//@ include_stubs contracts/app_querier.rs
//@ include contracts/wasm_call.rs
} // verus!
fn main() {}
