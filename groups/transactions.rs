// group `transactions`: src/transactions.rs   (C06, C01)
#![feature(allocator_api)]
use vstd::prelude::*;
use vstd::std_specs::iter::IteratorSpec;
use std::collections::BTreeMap;
use std::cmp::Ordering;
use std::iter::Peekable;
use std::iter;
use std::ops::{Bound, RangeBounds};
verus! {
//@ rewrite R22 "self\\.(left|right)\\.peek\\(\\)" => "Peekable::peek(&mut self.\\1)"
//@ include prelude/base.rs
//@ include spec/lex.rs
//@ include prelude/std_ext.rs
//@ include prelude/peekable.rs
//@ include prelude/btree_range.rs
//@ include contracts/transactions.rs
} // verus!
fn main() {}
