// group `transactions`: src/transactions.rs   (C06, C01)
use vstd::prelude::*;
use vstd::std_specs::iter::IteratorSpec;
use std::collections::BTreeMap;
verus! {
//@ include prelude/base.rs
//@ include spec/lex.rs
//@ include contracts/transactions.rs
} // verus!
fn main() {}
