// group `prefixed_ns`: src/prefixed_storage/{length_prefixed,namespace_helpers,mod}.rs   (C07, feeds C08)
use vstd::prelude::*;
use vstd::std_specs::iter::IteratorSpec;
verus! {
//@ include prelude/base.rs
//@ include spec/lex.rs
//@ include spec/lp.rs
//@ include spec/range.rs

//@ include contracts/prefixed_ns.rs
} // verus!
fn main() {}
