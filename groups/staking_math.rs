// group `staking_math`: reward arithmetic of src/staking.rs   (C15)
//@ include prelude/macros.rs
use vstd::prelude::*;
use vstd::std_specs::iter::IteratorSpec;
use std::collections::BTreeSet;
verus! {
//@ rewrite R2 "dyn CosmosRouter<ExecC = ExecC, QueryC = QueryC>" => "dyn CosmosRouter<ExecC, QueryC>"
//@ include prelude/base.rs
//@ include spec/lex.rs
//@ include spec/lp.rs
//@ include prelude/std_ext.rs
//@ include prelude/cosmwasm.rs
//@ include prelude/staking_prelude.rs
//@ include contracts/staking_math.rs
} // verus!
fn main() {}
