// group `bank`: src/bank.rs BankKeeper   (C09)
//@ include prelude/macros.rs
use vstd::prelude::*;
use vstd::std_specs::iter::IteratorSpec;
verus! {
//@ rewrite R2 "dyn CosmosRouter<ExecC = ExecC, QueryC = QueryC>" => "dyn CosmosRouter<ExecC, QueryC>"
//@ include prelude/base.rs
//@ include spec/lex.rs
//@ include spec/lp.rs
//@ include spec/range.rs
//@ include prelude/std_ext.rs
//@ include prelude/cosmwasm.rs
//@ include prelude/cw_plus.rs
//@ include prelude/cw_utils.rs
//@ include prelude/staking_prelude.rs
//@ include contracts/repo_types.rs
//@ include prelude/router_traits.rs
//@ include spec/bank_sem.rs
//@ include_stubs contracts/prefixed_ns.rs
//@ include_stubs contracts/prefixed_mod.rs
//@ include contracts/bank.rs
} // verus!
fn main() {}
