// group `wasm_submsg`: WasmKeeper::execute_submsg against the oracle of reply   (C02, C03, C04, C05)
#![feature(allocator_api)]
//@ include prelude/macros.rs
use vstd::prelude::*;
use vstd::std_specs::iter::IteratorSpec;
use std::collections::BTreeMap;
verus! {
//@ rewrite R2 "dyn CosmosRouter<ExecC = ExecC, QueryC = QueryC>" => "dyn CosmosRouter<ExecC, QueryC>"
//@ include prelude/base.rs
//@ include spec/lex.rs
//@ include spec/lp.rs
//@ include prelude/std_ext.rs
//@ include prelude/cosmwasm.rs
//@ include contracts/repo_types.rs
//@ include prelude/router_traits.rs
//@ include prelude/wasm_traits.rs
//@ include prelude/cw_plus.rs
//@ include contracts/wasm_types.rs
//@ include spec/wasm_sem.rs
//@ include_stubs contracts/transactional_only.rs
//@ include_stubs contracts/wasm_oracle_reply.rs
//@ include contracts/wasm_submsg.rs
} // verus!
fn main() {}
