// group `module_defaults`: src/module.rs FailingModule / AcceptingModule   (C17, C10)
//@ include prelude/macros.rs
use vstd::prelude::*;
use vstd::std_specs::iter::IteratorSpec;
verus! {
//@ rewrite R2 "dyn CosmosRouter<ExecC = ExecC, QueryC = QueryC>" => "dyn CosmosRouter<ExecC, QueryC>"
//@ include prelude/base.rs
//@ include spec/lex.rs
//@ include spec/lp.rs
//@ include prelude/std_ext.rs
//@ include prelude/cosmwasm.rs
//@ include contracts/repo_types.rs
//@ include prelude/router_traits.rs
pub open spec fn default_app() -> AppResponse { AppResponse { events: vec_of(Seq::<Event>::empty()), data: None } }
pub open spec fn empty_binary() -> Binary { Binary { b: vec_of(Seq::<u8>::empty()) } }
//@ include contracts/module_defaults.rs
} // verus!
fn main() {}
