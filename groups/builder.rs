// group `builder`: src/app_builder.rs AppBuilder::{with_*, build}   (C20)
//@ include prelude/macros.rs
use vstd::prelude::*;
use vstd::std_specs::iter::IteratorSpec;
verus! {
//@ rewrite R2 "dyn CosmosRouter<ExecC = ExecC, QueryC = QueryC>" => "dyn CosmosRouter<ExecC, QueryC>"
//@ include prelude/base.rs
//@ include spec/lex.rs
//@ include prelude/std_ext.rs
//@ include prelude/cosmwasm.rs
//@ include contracts/repo_types.rs
//@ include prelude/router_traits.rs
//@ include_stubs contracts/transactional_only.rs
//@ include_stubs contracts/app.rs
//@ include contracts/builder.rs
//@ include contracts/builder_defaults.rs
} // verus!
fn main() {}
