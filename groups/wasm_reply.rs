// group `wasm_reply`: WasmKeeper::{reply, process_response, build_app_response}   (C02, C03, C04)
//@ include prelude/macros.rs
use vstd::prelude::*;
use vstd::std_specs::iter::IteratorSpec;
use std::collections::BTreeMap;
verus! {
//@ rewrite R2 "dyn CosmosRouter<ExecC = ExecC, QueryC = QueryC>" => "dyn CosmosRouter<ExecC, QueryC>"
//@ include prelude/base.rs
//@ include spec/lex.rs
//@ include spec/lp.rs
//@ include prelude/std_ext.rs
//@ include prelude/cosmwasm.rs
//@ include contracts/repo_types.rs
//@ include prelude/router_traits.rs
//@ include prelude/wasm_traits.rs
//@ include prelude/cw_plus.rs
//@ include contracts/wasm_types.rs
//@ include spec/wasm_sem.rs
//@ include spec/wasm_resp.rs
//@ include_stubs contracts/wasm_stub_submsg.rs
//@ include contracts/wasm_reply.rs
} // verus!
fn main() {}
