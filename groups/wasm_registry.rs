// group `wasm_registry`: registry records and code tables of WasmKeeper   (C11, C12)
//@ include prelude/macros.rs
use vstd::prelude::*;
use vstd::std_specs::iter::IteratorSpec;
use std::collections::BTreeMap;
verus! {
//@ rewrite R2 "dyn CosmosRouter<ExecC = ExecC, QueryC = QueryC>" => "dyn CosmosRouter<ExecC, QueryC>"
//@ include prelude/base.rs
//@ include spec/lex.rs
//@ include spec/lp.rs
//@ include spec/range.rs
//@ include prelude/std_ext.rs
//@ include prelude/cosmwasm.rs
//@ include contracts/repo_types.rs
//@ include prelude/router_traits.rs
//@ include prelude/wasm_traits.rs
//@ include prelude/cw_plus.rs
//@ include contracts/wasm_types.rs
//@ include spec/wasm_registry.rs
//@ include_stubs contracts/prefixed_ns.rs
//@ include_stubs contracts/prefixed_mod.rs
//@ include contracts/wasm_registry.rs
} // verus!
fn main() {}
