// group `wasm_exec`: WasmKeeper::{execute_wasm, process_wasm_msg_instantiate, send}, Wasm::{execute, sudo}   (C04, C05, C11, C12)
//@ include prelude/macros.rs
use vstd::prelude::*;
use vstd::std_specs::iter::IteratorSpec;
use std::collections::BTreeMap;
verus! {
//@ rewrite R2 "dyn CosmosRouter<ExecC = ExecC, QueryC = QueryC>" => "dyn CosmosRouter<ExecC, QueryC>"
//@ include prelude/base.rs
//@ include spec/lex.rs
//@ include spec/lp.rs
//@ include spec/range.rs
//@ include prelude/std_ext.rs
//@ include prelude/cosmwasm.rs
//@ include contracts/repo_types.rs
//@ include prelude/router_traits.rs
//@ include prelude/wasm_traits.rs
//@ include prelude/cw_plus.rs
//@ include contracts/wasm_types.rs
//@ include spec/wasm_sem.rs
//@ include spec/wasm_resp.rs
//@ include spec/wasm_exec.rs
//@ include_stubs contracts/wasm_stub_submsg.rs
//@ include_stubs contracts/wasm_reply.rs
//@ include_stubs contracts/wasm_stub_calls.rs
//@ include_stubs contracts/prefixed_ns.rs
//@ include_stubs contracts/prefixed_mod.rs
//@ include_stubs contracts/wasm_registry.rs
//@ include contracts/wasm_exec.rs
} // verus!
fn main() {}
