// group `staking_module`: src/staking.rs module entry points (execute / sudo / process_queue, distribution) on the chain store (C14, C15, C16)
#![feature(allocator_api)]
//@ include prelude/macros.rs
use vstd::prelude::*;
use vstd::std_specs::iter::IteratorSpec;
use std::collections::{BTreeSet, VecDeque};
verus! {
//@ rewrite R2 "dyn CosmosRouter<ExecC = ExecC, QueryC = QueryC>" => "dyn CosmosRouter<ExecC, QueryC>"
//@ include prelude/base.rs
//@ include spec/lex.rs
//@ include spec/lp.rs
//@ include spec/range.rs
//@ include prelude/std_ext.rs
//@ include prelude/cosmwasm.rs
//@ include prelude/cw_plus.rs
//@ include prelude/cw_plus_ext.rs
//@ include prelude/staking_prelude.rs
//@ include contracts/repo_types.rs
//@ include prelude/router_traits.rs
//@ include_stubs contracts/prefixed_ns.rs
//@ include_stubs contracts/prefixed_mod.rs
//@ include contracts/staking_types.rs
//@ include spec/staking_math.rs
//@ include spec/staking_sem.rs
//@ include_stubs contracts/staking_core.rs
//@ include contracts/staking_module.rs
} // verus!
fn main() {}
