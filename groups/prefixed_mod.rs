// group `prefixed_mod`: src/prefixed_storage/{length_prefixed,namespace_helpers,mod}.rs   (C07, feeds C08)
use vstd::prelude::*;
use vstd::std_specs::iter::IteratorSpec;
verus! {
//@ include prelude/base.rs
//@ include spec/lex.rs
//@ include spec/lp.rs
//@ include spec/range.rs

//@ include_stubs contracts/prefixed_ns.rs
//@ include contracts/prefixed_mod.rs
} // verus!
fn main() {}
