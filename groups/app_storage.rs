// group `app_storage`: App's storage accessors (dump_wasm_raw, contract_storage(_mut), prefixed_*storage*)   (C07, C08)
//@ include prelude/macros.rs
use vstd::prelude::*;
use vstd::std_specs::iter::IteratorSpec;
verus! {
//@ rewrite R2 "dyn CosmosRouter<ExecC = ExecC, QueryC = QueryC>" => "dyn CosmosRouter<ExecC, QueryC>"
//@ include prelude/base.rs
//@ include spec/lex.rs
//@ include spec/lp.rs
//@ include spec/range.rs
//@ include prelude/std_ext.rs
//@ include prelude/cosmwasm.rs
//@ include contracts/repo_types.rs
//@ include prelude/router_traits.rs
//@ include_stubs contracts/transactional_only.rs
//@ include_stubs contracts/prefixed_ns.rs
//@ include_stubs contracts/prefixed_mod.rs
//@ include_stubs contracts/app.rs
//@ include contracts/app_storage.rs
} // verus!
fn main() {}
