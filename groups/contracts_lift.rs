// group `contracts_lift`: src/contracts.rs customize_msg   (C17)
//@ include prelude/macros.rs
use vstd::prelude::*;
use vstd::std_specs::iter::IteratorSpec;
verus! {
//@ include prelude/base.rs
//@ include spec/lex.rs
//@ include prelude/std_ext.rs
//@ include prelude/cosmwasm.rs
//@ include prelude/wasm_traits.rs
//@ include contracts/contracts_lift.rs
} // verus!
fn main() {}
