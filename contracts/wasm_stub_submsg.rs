// callee stubs seen by reply / process_response: execute_submsg (its contract is proved in group wasm_submsg),
// call_reply (oracle call_sem; proved against the with_storage unfolding in group wasm_call)
//@ impl_open src/wasm.rs :: WasmKeeper
//@   pick fn execute_submsg
//@   replace "ExecC: CustomMsg + DeserializeOwned + 'static," => ""
//@   replace "QueryC: CustomQuery + DeserializeOwned + 'static," => ""
//@ end
//@ fn src/wasm.rs :: WasmKeeper :: execute_submsg
//@   ret r
//@   drop_body
//@   ensures [C02.submsg.sem_assumed] (r, final(storage).view()) == self.submsg_sem(router, old(storage).view(), *block, contract, msg)
//@ end
//@ fn src/wasm.rs :: WasmKeeper :: call_reply
//@   ret r
//@   drop_body
//@   ensures [C03.call_reply.oracle] (r, final(storage).view()) == self.call_sem(Entry::Reply, router, old(storage).view(), *block, address, None, Seq::<u8>::empty(), Some(reply))
//@ end
}
