// ------------------------------------------------------------------ staking.rs : module entry points on the chain store
// The staking module acts on its own window lp("staking") of the root store and calls the bank through the router.
pub open spec fn ns_staking() -> Seq<u8> { seq![115u8, 116u8, 97u8, 107u8, 105u8, 110u8, 103u8] }   // b"staking"
pub open spec fn ns_distribution() -> Seq<u8> { seq![100u8, 105u8, 115u8, 116u8, 114u8, 105u8, 98u8, 117u8, 116u8, 105u8, 111u8, 110u8] }   // b"distribution"
pub open spec fn sw(s: St) -> St { window(s, lp(ns_staking())) }
// s1 differs from s0 only inside the staking window
pub open spec fn only_staking(s0: St, s1: St) -> bool { s1 == splice(s0, lp(ns_staking()), sw(s1)) }

//@ item src/staking.rs :: const NAMESPACE_DISTRIBUTION
//@   replace "&[u8]" => "&'static [u8]"
//@ end
//@ item src/staking.rs :: const WITHDRAW_ADDRESS
//@   replace "Map<&Addr, Addr>" => "Map<&'static Addr, Addr>"
//@   exec_const WITHDRAW_ADDRESS.ns() == str_bytes("withdraw_address"@)
//@ end
//@ item! src/staking.rs :: struct DistributionKeeper
impl CwVal for Addr { uninterp spec fn ser(&self) -> Seq<u8>; open spec fn ser_ok(&self) -> bool { true } uninterp spec fn de(b: Seq<u8>) -> StdResult<Self>; }

//@ impl_open src/app.rs :: From<BankSudo> for SudoMsg
//@ end
//@ fn src/app.rs :: From<BankSudo> for SudoMsg :: from
//@   ret r
//@ end
}
impl vstd::std_specs::convert::FromSpecImpl<BankSudo> for SudoMsg {
    open spec fn obeys_from_spec() -> bool { true }
    open spec fn from_spec(m: BankSudo) -> SudoMsg { SudoMsg::Bank(m) }
}

// the bank transfer a delegation performs: `amount` from the delegator to the staking pool
pub open spec fn send_msg<ExecC>(to: Seq<char>, amount: Seq<Coin>) -> CosmosMsg<ExecC> {
    CosmosMsg::Bank(BankMsg::Send { to_address: str_of(to), amount: vec_of(amount) })
}
pub open spec fn unbonding_entry(d: Addr, v: Seq<char>, amount: Uint128, now: Timestamp, unbonding_time: u64) -> Unbonding {
    Unbonding { delegator: d, validator: str_of(v), amount: amount, payout_at: Timestamp { nanos: (now.nanos + unbonding_time * 1_000_000_000) as u64 } }
}

//@ impl_open src/staking.rs :: Module for StakeKeeper
//@   replace "impl Module for StakeKeeper" => "impl StakeKeeper"
//@ end
//@ fn src/staking.rs :: Module for StakeKeeper :: sudo
//@   ret r
//@   requires [C16.sudo.pre_swf] swf(sw(old(storage).view()))
//@   ensures [C16.sudo.pct_rejected] (match msg { StakingSudo::Slash { validator, percentage } => percentage.atomics > dec_one() }) ==> r is Err && final(storage).view() == old(storage).view()
//@   ensures [C16.sudo.unknown_validator] (match msg { StakingSudo::Slash { validator, percentage } => get_vinfo(sw(old(storage).view()), validator@) matches Ok(None) }) ==> r is Err && final(storage).view() == old(storage).view()
//@   ensures [C16.sudo.effect,C14,C15] r is Ok ==> (match msg { StakingSudo::Slash { validator, percentage } => percentage.atomics <= dec_one() && exists|sm: St| upd_post(sw(old(storage).view()), sm, validator@, block.time) && swf(sm) && slashed(sm, sw(final(storage).view()), validator@, (dec_one() - percentage.atomics) as nat) })
//@   ensures [C16.sudo.only_staking,C14] only_staking(old(storage).view(), final(storage).view())
//@   ensures [C16.sudo.swf,C14,C15] r is Ok ==> swf(sw(final(storage).view()))
//@   begin proof { lemma_splice_same(storage.view(), lp(ns_staking())); }
//@ end
//@ fn src/staking.rs :: Module for StakeKeeper :: query
//@   ret r
//@   slice_match request keep Delegation
//@   requires [C16.query.pre_kind] request is Delegation
//@   requires [C16.query.pre_swf] swf(sw(storage.view()))
//@   requires [C15.query.pre_time] match request { StakingQuery::Delegation { delegator, validator } => (get_vinfo(sw(storage.view()), validator@) matches Ok(Some(i)) ==> i.last_rewards_calculation.nanos <= block.time.nanos), _ => true }
//@   after "let delegator = api.addr_validate(&delegator)?;" proof { assert(vobj_ok_at(sw(storage.view()), validator@)); }
//@   ensures [C16.query.delegation,C14,C15] match request { StakingQuery::Delegation { delegator, validator } => (r matches Ok(b) ==> exists|resp: DelegationResponse| b == spec_json(resp) && delegation_shown(sw(storage.view()), *block, delegator@, validator@, resp)), _ => true }
//@ end
//@ fn src/staking.rs :: Module for StakeKeeper :: execute
//@   ret r
//@   requires [C14.exec.pre_swf] swf(sw(old(storage).view()))
//@   ensures [C14.exec.delegate_zero] (msg matches StakingMsg::Delegate { validator, amount } && amount.amount.u == 0) ==> r is Err && final(storage).view() == old(storage).view()
//@   ensures [C14.exec.undelegate_zero] (msg matches StakingMsg::Undelegate { validator, amount } && amount.amount.u == 0) ==> r is Err && final(storage).view() == old(storage).view()
//@   ensures [C14.exec.delegate] match msg { StakingMsg::Delegate { validator, amount } => r is Ok ==> delegated(router, *self, old(storage).view(), final(storage).view(), *block, sender, validator@, amount), _ => true }
//@   ensures [C14.exec.undelegate] match msg { StakingMsg::Undelegate { validator, amount } => r is Ok ==> undelegated(old(storage).view(), final(storage).view(), *block, sender, validator@, amount), _ => true }
//@   ensures [C14.exec.redelegate] match msg { StakingMsg::Redelegate { src_validator, dst_validator, amount } => r is Ok ==> redelegated(old(storage).view(), final(storage).view(), *block, sender, src_validator@, dst_validator@, amount), _ => true }
//@   ensures [C15.exec.self_redelegate_keeps_rewards] match msg { StakingMsg::Redelegate { src_validator, dst_validator, amount } => (r is Ok && src_validator@ == dst_validator@) ==> exists|sm: St| upd_post(sw(old(storage).view()), sm, src_validator@, block.time) && accrued_of(sw(final(storage).view()), sender, src_validator@) == accrued_of(sm, sender, src_validator@), _ => true }
//@   begin broadcast use {axiom_vec_canon, axiom_vec_of_view, axiom_str_canon, axiom_str_of_view, lemma_str_ext_b, lemma_vec_ext_b}; let ghost s0 = storage.view(); let ghost sender0 = sender; proof { lemma_splice_same(storage.view(), lp(ns_staking())); }
//@   replace* "..Default::default()" => "data: None"
//@   after "re:^\\s*\\)\\?;\\s*$@@0" let ghost w1 = staking_storage.view(); let ghost amount0 = amount; proof { assert(w1 == sw(staking_storage.base_view())); }
//@   after "re:^\\s*\\)\\?;\\s*$@@2" let ghost w1 = staking_storage.view(); let ghost amount0 = amount; let ghost v0 = validator@; proof { assert(w1 == sw(staking_storage.base_view())); }
//@   before "re:^\\s*Ok\\(AppResponse \\{\\s*$@@1" proof { axiom_cw_roundtrip(unbonding_queue); let sm = choose|sm: St| upd_post(sw(s0), sm, v0, block.time) && swf(sm) && stake_changed(sm, w1, sender0, v0, amount0.amount.u as nat, true); assert(upd_post(sw(s0), sm, v0, block.time) && swf(sm) && stake_changed(sm, w1, sender0, v0, amount0.amount.u as nat, true)); assert(swf(w1)); let wf = w1.insert(k_queue(), unbonding_queue.ser()); lemma_splice_window(s0, lp(ns_staking()), wf); assert(storage.view() == splice(s0, lp(ns_staking()), wf)); assert(sw(storage.view()) == wf); assert(only_staking(s0, storage.view())); assert(amount0.amount.u > 0); assert(amount0.denom@ == sinfo_denom(sw(s0))); assert(get_queue(wf) matches Ok(Some(q1)) && q1 == unbonding_queue); assert(forall|k: Seq<u8>| k != k_queue() ==> #[trigger] same_at(wf, w1, k)); assert(block.time.nanos + sinfo_unbonding(w1) * 1_000_000_000 <= u64::MAX ==> unbonding_queue@ == queue_of(w1).push(unbonding_entry(sender0, v0, amount0.amount, block.time, sinfo_unbonding(w1)))); assert(undelegated(s0, storage.view(), *block, sender0, v0, amount0)); }
//@   after "re:^\\s*\\)\\?;\\s*$@@3" let ghost w1 = staking_storage.view(); let ghost amount0 = amount;
//@   before "re:^\\s*Ok\\(AppResponse \\{\\s*$@@2" proof { let sm1 = choose|sm1: St| upd_post(sw(s0), sm1, src_validator@, block.time) && swf(sm1) && stake_changed(sm1, w1, sender0, src_validator@, amount0.amount.u as nat, true); let w2 = staking_storage.view(); let sm2 = choose|sm2: St| upd_post(w1, sm2, dst_validator@, block.time) && swf(sm2) && stake_changed(sm2, w2, sender0, dst_validator@, amount0.amount.u as nat, false); assert(amount0.denom@ == sinfo_denom(sw(s0))); lemma_splice_window(s0, lp(ns_staking()), w2); assert(storage.view() == splice(s0, lp(ns_staking()), w2)); assert(sw(storage.view()) == w2); assert(only_staking(s0, storage.view())); assert(upd_post(sw(s0), sm1, src_validator@, block.time) && swf(sm1) && stake_changed(sm1, w1, sender0, src_validator@, amount0.amount.u as nat, true)); assert(swf(w1)); assert(upd_post(w1, sm2, dst_validator@, block.time) && swf(sm2) && stake_changed(sm2, w2, sender0, dst_validator@, amount0.amount.u as nat, false)); assert(redelegated(s0, storage.view(), *block, sender0, src_validator@, dst_validator@, amount0)); }
//@   before "re:^\\s*router\\.execute\\(\\s*$@@0" let ghost s_mid = storage.view(); let ghost to0 = self.module_addr.s@; proof { assert(s_mid == splice(s0, lp(ns_staking()), w1)); }
//@   before "re:^\\s*Ok\\(AppResponse \\{\\s*$@@0" proof { let sm = choose|sm: St| upd_post(sw(s0), sm, validator@, block.time) && swf(sm) && stake_changed(sm, w1, sender0, validator@, amount0.amount.u as nat, false); assert(amount0.amount.u > 0); assert(amount0.denom@ == sinfo_denom(sw(s0))); assert(upd_post(sw(s0), sm, validator@, block.time) && swf(sm) && stake_changed(sm, w1, sender0, validator@, amount0.amount.u as nat, false)); assert(swf(w1)); let mid = splice(s0, lp(ns_staking()), w1); let pr = router.exec_sem(mid, *block, sender0, send_msg::<ExecC>(self.module_addr.s@, seq![amount0])); assert(exists|m: CosmosMsg<ExecC>| router.exec_sem(s_mid, *block, sender0, m).0 is Ok && (m matches CosmosMsg::Bank(BankMsg::Send{to_address, amount}) && to_address@ == to0 && amount@ == seq![amount0] && router.exec_sem(s_mid, *block, sender0, m).1 == storage.view())); assert(pr.0 is Ok); assert(storage.view() == pr.1); assert(delegated(router, *self, s0, storage.view(), *block, sender0, validator@, amount0)); }
//@ end
}

// what StakingQuery::Delegation shows for (delegator text d, validator v) on the staking window w at `block`
pub open spec fn delegation_shown(w: St, block: BlockInfo, d: Seq<char>, v: Seq<char>, resp: DelegationResponse) -> bool {
    exists|a: Addr| a.s@ == d && ({
        &&& get_vobj(w, v) matches Ok(Some(vo))
        &&& get_vinfo(w, v) matches Ok(Some(i))
        &&& get_shares(w, a, v) matches Ok(o)
        &&& ({
            let sh = match o { Some(x) => x, None => Shares { stake: Decimal { atomics: 0 }, rewards: Decimal { atomics: 0 } } };
            let whole = sh.stake.atomics / 1_000_000_000_000_000_000;
            let p_fits = pending_fits(sh, i, sinfo_apr(w), vo.commission.atomics as nat, block.time);
            let p = pending_spec(sh, i, sinfo_apr(w), vo.commission.atomics as nat, block.time);
            // C15, from the statement ("a withdrawal pays exactly the pending reward shown beforehand"): a delegation is
            // hidden only when there is neither a whole token of stake nor a whole token of pending reward
            &&& (whole != 0 ==> resp.delegation is Some)
            &&& (p_fits ==> ((resp.delegation is None) == (whole == 0 && p == 0)))
            &&& (resp.delegation matches Some(fd) ==> {
                &&& fd.delegator == a && fd.validator@ == v
                // the delegation is shown rounded DOWN to whole tokens, in the bonded denomination
                &&& fd.amount.amount.u == whole && fd.amount.denom@ == sinfo_denom(w) && fd.can_redelegate == fd.amount
                &&& (p_fits ==> (if p == 0 { fd.accumulated_rewards@.len() == 0 } else { fd.accumulated_rewards@.len() == 1 && fd.accumulated_rewards@[0].amount.u == p && fd.accumulated_rewards@[0].denom@ == sinfo_denom(w) }))
            })
        })
    })
}

// Delegate: rewards brought up to date, the delegator's stake at the validator raised by exactly `amount`, and exactly
// `amount` sent by the bank from the delegator to the staking pool (module_addr)
pub open spec fn delegated<ExecC, QueryC>(router: &dyn CosmosRouter<ExecC, QueryC>, k: StakeKeeper, s0: St, s1: St, block: BlockInfo, sender: Addr, v: Seq<char>, amount: Coin) -> bool {
    &&& amount.amount.u > 0
    &&& amount.denom@ == sinfo_denom(sw(s0))
    &&& exists|sm: St, w1: St| upd_post(sw(s0), sm, v, block.time) && swf(sm) && stake_changed(sm, w1, sender, v, amount.amount.u as nat, false) && swf(w1) && ({
            let mid = splice(s0, lp(ns_staking()), w1);
            let (rb, sb) = router.exec_sem(mid, block, sender, send_msg::<ExecC>(k.module_addr.s@, seq![amount]));
            rb is Ok && s1 == sb
        })
}
// Undelegate: the amount leaves the delegation at once and is queued for payout at block time + unbonding time
pub open spec fn undelegated(s0: St, s1: St, block: BlockInfo, sender: Addr, v: Seq<char>, amount: Coin) -> bool {
    &&& amount.amount.u > 0
    &&& amount.denom@ == sinfo_denom(sw(s0))
    &&& only_staking(s0, s1)
    &&& exists|sm: St, w1: St| upd_post(sw(s0), sm, v, block.time) && swf(sm) && stake_changed(sm, w1, sender, v, amount.amount.u as nat, true) && swf(w1) && ({
            &&& get_queue(sw(s1)) matches Ok(Some(q1))
            &&& (block.time.nanos + sinfo_unbonding(w1) * 1_000_000_000 <= u64::MAX ==> q1@ == queue_of(w1).push(unbonding_entry(sender, v, amount.amount, block.time, sinfo_unbonding(w1))))
            &&& forall|k: Seq<u8>| k != k_queue() ==> #[trigger] same_at(sw(s1), w1, k)
        })
}
// the reward already credited to d's delegation with v (0 when there is no entry)
pub open spec fn accrued_of(w: St, d: Addr, v: Seq<char>) -> nat { match get_shares(w, d, v) { Ok(Some(x)) => x.rewards.atomics as nat, _ => 0 } }
// Redelegate: remove from the source validator, then add to the destination validator; no tokens move
pub open spec fn redelegated(s0: St, s1: St, block: BlockInfo, sender: Addr, src: Seq<char>, dst: Seq<char>, amount: Coin) -> bool {
    &&& amount.denom@ == sinfo_denom(sw(s0))
    &&& only_staking(s0, s1)
    &&& exists|sm1: St, w1: St, sm2: St| upd_post(sw(s0), sm1, src, block.time) && swf(sm1) && stake_changed(sm1, w1, sender, src, amount.amount.u as nat, true) && swf(w1)
            && upd_post(w1, sm2, dst, block.time) && swf(sm2) && stake_changed(sm2, sw(s1), sender, dst, amount.amount.u as nat, false)
}

// ---- setup: staking parameters and validators
pub proof fn lemma_deque_keys(k: Seq<u8>, d: Addr, v: Seq<char>)
    ensures !starts_with(k_stake(d, v), lp(str_bytes("validators"@))), !starts_with(k_vinfo(v), lp(str_bytes("validators"@))), !starts_with(k_vmap(v), lp(str_bytes("validators"@))),
        !starts_with(k_queue(), lp(str_bytes("validators"@))), !starts_with(k_sinfo(), lp(str_bytes("validators"@)))
{
    lemma_ns_facts();
    reveal_strlit("validators");
    axiom_str_bytes_ascii("validators"@);
    let p = lp(str_bytes("validators"@));
    assert(p.len() == 12 && p[0] == 0u8 && p[1] == 10u8);
    assert(k_stake(d, v)[1] == 6u8);
    assert(k_vinfo(v)[1] == 14u8);
    assert(k_vmap(v)[1] == 13u8);
    assert(k_queue()[0] == 117u8);
    assert(k_sinfo()[0] == 115u8);
    if starts_with(k_stake(d, v), p) { assert(k_stake(d, v).subrange(0, 12)[1] == p[1]); }
    if starts_with(k_vinfo(v), p) { assert(k_vinfo(v).subrange(0, 12)[1] == p[1]); }
    if starts_with(k_vmap(v), p) { assert(k_vmap(v).subrange(0, 12)[1] == p[1]); }
    if starts_with(k_queue(), p) { assert(k_queue().subrange(0, 12)[0] == p[0]); }
    if starts_with(k_sinfo(), p) { assert(k_sinfo().subrange(0, 12)[0] == p[0]); }
}
// a validator was added: its record stored under its own address, a fresh info record, every other typed entry as before
pub open spec fn validator_added(w0: St, w1: St, val: Validator, now: Timestamp) -> bool {
    &&& get_vobj(w0, val.address@) matches Ok(None)
    &&& get_vobj(w1, val.address@) == Ok::<Option<Validator>, StdError>(Some(val))
    &&& get_vinfo(w1, val.address@) matches Ok(Some(i)) && i.stakers@ == Set::<Addr>::empty() && i.stake.u == 0 && i.last_rewards_calculation == now
    &&& forall|v2: Seq<char>, d: Addr| v2 != val.address@ ==> get_vobj(w1, v2) == get_vobj(w0, v2) && get_vinfo(w1, v2) == get_vinfo(w0, v2) && #[trigger] get_shares(w1, d, v2) == get_shares(w0, d, v2)
    &&& forall|d: Addr| #[trigger] get_shares(w1, d, val.address@) == get_shares(w0, d, val.address@)
    &&& get_queue(w1) == get_queue(w0) && get_sinfo(w1) == get_sinfo(w0)
}

//@ impl_open src/staking.rs :: StakeKeeper
//@ end
//@ fn src/staking.rs :: StakeKeeper :: setup
//@   ret r
//@   requires [C14.setup.pre_swf] swf(sw(old(storage).view()))
//@   ensures [C14.setup.sem] r is Ok && only_staking(old(storage).view(), final(storage).view()) && get_sinfo(sw(final(storage).view())) == Ok::<Option<StakingInfo>, StdError>(Some(staking_info)) && forall|k: Seq<u8>| k != k_sinfo() ==> #[trigger] same_at(sw(final(storage).view()), sw(old(storage).view()), k)
//@   ensures [C14.setup.swf] swf(sw(final(storage).view()))
//@   begin let ghost s0 = storage.view(); proof { lemma_splice_same(storage.view(), lp(ns_staking())); axiom_cw_roundtrip(staking_info); }
//@   before "re:^\\s*Ok\\(\\(\\)\\)\\s*$" proof { let wf = storage.view(); lemma_splice_window(s0, lp(ns_staking()), wf); assert(forall|k: Seq<u8>| k != k_sinfo() ==> #[trigger] same_at(wf, sw(s0), k)); lemma_sinfo_write_swf(sw(s0), wf); }
//@ end
//@ fn src/staking.rs :: StakeKeeper :: add_validator
//@   ret r
//@   requires [C14.addval.pre_swf] swf(sw(old(storage).view()))
//@   requires [C14.addval.pre_commission] validator.commission.atomics <= dec_one()
//@   ensures [C14.addval.duplicate] get_vobj(sw(old(storage).view()), validator.address@) matches Ok(Some(_)) ==> r is Err && final(storage).view() == old(storage).view()
//@   ensures [C14.addval.sem] r is Ok ==> validator_added(sw(old(storage).view()), sw(final(storage).view()), validator, block.time)
//@   ensures [C14.addval.swf,C15,C16] r is Ok ==> swf(sw(final(storage).view()))
//@   ensures [C14.addval.only_staking] only_staking(old(storage).view(), final(storage).view())
//@   begin let ghost s0 = storage.view(); proof { lemma_splice_same(storage.view(), lp(ns_staking())); axiom_cw_roundtrip(validator); assert forall|w: St| only_staking(s0, #[trigger] splice(s0, lp(ns_staking()), w)) by { lemma_splice_window(s0, lp(ns_staking()), w); } assert forall|w1: St, w2: St| #[trigger] splice(splice(s0, lp(ns_staking()), w1), lp(ns_staking()), w2) == splice(s0, lp(ns_staking()), w2) by { lemma_splice_twice(s0, lp(ns_staking()), w1, w2); } }
//@   after "re:^\\s*VALIDATOR_MAP\\.save\\(&mut storage, &validator\\.address, &validator\\)\\?;\\s*$" let ghost w_a = storage.view();
//@   after "re:^\\s*VALIDATORS\\.push_back\\(&mut storage, &validator\\)\\?;\\s*$" let ghost w_b = storage.view();
//@   before "re:^\\s*Ok\\(\\(\\)\\)\\s*$" proof { let w1 = storage.view(); let i1 = choose|i1: ValidatorInfo| w1 == w_b.insert(k_vinfo(validator.address@), i1.ser()) && i1.stakers@ == Set::<Addr>::empty() && i1.stake.u == 0 && i1.last_rewards_calculation == block.time; lemma_addval(sw(s0), w_a, w_b, w1, validator, block.time, i1); lemma_splice_window(s0, lp(ns_staking()), w1); }
//@ end
}
pub proof fn lemma_addval(w0: St, w_a: St, w_b: St, w1: St, val: Validator, now: Timestamp, i1: ValidatorInfo)
    requires
        swf(w0), get_vobj(w0, val.address@) matches Ok(None), val.commission.atomics <= dec_one(),
        w_a == w0.insert(k_vmap(val.address@), val.ser()),
        forall|k: Seq<u8>| !starts_with(k, lp(str_bytes("validators"@))) ==> #[trigger] same_at(w_b, w_a, k),
        w1 == w_b.insert(k_vinfo(val.address@), i1.ser()),
        i1.stakers@ == Set::<Addr>::empty() && i1.stake.u == 0 && i1.last_rewards_calculation == now,
    ensures validator_added(w0, w1, val, now), swf(w1)
{
    let a = val.address@;
    axiom_cw_roundtrip(val);
    axiom_cw_roundtrip(i1);
    lemma_keys_disjoint(arbitrary(), a, a);
    lemma_deque_keys(arbitrary(), arbitrary(), a);
    assert(same_at(w_b, w_a, k_vmap(a)));
    assert(get_vobj(w1, a) == Ok::<Option<Validator>, StdError>(Some(val)));
    assert forall|v2: Seq<char>, d: Addr| v2 != a implies get_vobj(w1, v2) == get_vobj(w0, v2) && get_vinfo(w1, v2) == get_vinfo(w0, v2) && #[trigger] get_shares(w1, d, v2) == get_shares(w0, d, v2) by {
        lemma_deque_keys(arbitrary(), d, v2);
        lemma_keys_disjoint(d, v2, a); lemma_keys_disjoint(d, v2, v2); lemma_keys_disjoint(d, a, v2);
        if k_vmap(v2) == k_vmap(a) { lemma_k_vmap_inj(v2, a); }
        if k_vinfo(v2) == k_vinfo(a) { lemma_k_vinfo_inj(v2, a); }
        assert(same_at(w_b, w_a, k_vmap(v2))); assert(same_at(w_b, w_a, k_vinfo(v2))); assert(same_at(w_b, w_a, k_stake(d, v2)));
    }
    assert forall|d: Addr| #[trigger] get_shares(w1, d, a) == get_shares(w0, d, a) by {
        lemma_deque_keys(arbitrary(), d, a);
        lemma_keys_disjoint(d, a, a);
        assert(same_at(w_b, w_a, k_stake(d, a)));
    }
    assert(same_at(w_b, w_a, k_queue())); assert(same_at(w_b, w_a, k_sinfo()));
    assert(validator_added(w0, w1, val, now));
    // the store invariant
    assert forall|v2: Seq<char>, d2: Addr| #[trigger] has_staker(w1, v2, d2) implies has_shares(w1, d2, v2) by {
        if v2 != a { assert(get_shares(w1, d2, v2) == get_shares(w0, d2, v2)); assert(has_staker(w0, v2, d2)); }
    }
    assert forall|d2: Addr, v2: Seq<char>| #[trigger] has_shares(w1, d2, v2) implies has_staker(w1, v2, d2) by {
        if v2 == a { assert(get_shares(w1, d2, a) == get_shares(w0, d2, a)); } else { assert(get_shares(w1, d2, v2) == get_shares(w0, d2, v2)); }
        assert(has_shares(w0, d2, v2));
        assert(has_staker(w0, v2, d2));
        assert(vinfo_has_vobj_at(w0, v2));
    }
    assert forall|v2: Seq<char>| #[trigger] vobj_ok_at(w1, v2) by {
        if v2 != a { assert(get_shares(w1, arbitrary::<Addr>(), v2) == get_shares(w0, arbitrary::<Addr>(), v2)); assert(vobj_ok_at(w0, v2)); }
    }
    assert forall|v2: Seq<char>| #[trigger] vinfo_has_vobj_at(w1, v2) by {
        if v2 != a { assert(get_shares(w1, arbitrary::<Addr>(), v2) == get_shares(w0, arbitrary::<Addr>(), v2)); assert(vinfo_has_vobj_at(w0, v2)); }
    }
}
pub proof fn lemma_sinfo_write_swf(w: St, w2: St)
    requires swf(w), forall|k: Seq<u8>| k != k_sinfo() ==> #[trigger] same_at(w2, w, k)
    ensures swf(w2)
{
    assert forall|v2: Seq<char>, d2: Addr| #[trigger] has_staker(w2, v2, d2) implies has_shares(w2, d2, v2) by {
        lemma_keys_disjoint(d2, v2, v2);
        assert(same_at(w2, w, k_vinfo(v2))); assert(same_at(w2, w, k_stake(d2, v2)));
        assert(has_staker(w, v2, d2));
    }
    assert forall|d2: Addr, v2: Seq<char>| #[trigger] has_shares(w2, d2, v2) implies has_staker(w2, v2, d2) by {
        lemma_keys_disjoint(d2, v2, v2);
        assert(same_at(w2, w, k_vinfo(v2))); assert(same_at(w2, w, k_stake(d2, v2)));
        assert(has_shares(w, d2, v2));
    }
    assert forall|v2: Seq<char>| #[trigger] vobj_ok_at(w2, v2) by {
        lemma_keys_disjoint(arbitrary(), v2, v2);
        assert(same_at(w2, w, k_vmap(v2)));
        assert(vobj_ok_at(w, v2));
    }
    assert forall|v2: Seq<char>| #[trigger] vinfo_has_vobj_at(w2, v2) by {
        lemma_keys_disjoint(arbitrary(), v2, v2);
        assert(same_at(w2, w, k_vmap(v2))); assert(same_at(w2, w, k_vinfo(v2)));
        assert(vinfo_has_vobj_at(w, v2));
    }
}

// ---- process_queue: pay out the matured unbondings
// ASSUMPTION on the router (proved for the repo's Router + BankKeeper: C17 dispatch in group app, C09 splice in group
// bank): executing a BANK message through the router does not touch the staking module's window of the store
pub axiom fn axiom_router_bank_frame<ExecC, QueryC>(router: &dyn CosmosRouter<ExecC, QueryC>, s: St, block: BlockInfo, sender: Addr, m: BankMsg)
    ensures sw(router.exec_sem(s, block, sender, CosmosMsg::Bank(m)).1) == sw(s);

pub open spec fn pq_due(u: Unbonding, now: Timestamp) -> bool { u.payout_at.nanos <= now.nanos }
// the housekeeping before paying entry u: only u's stake entry and its validator's info record may change, invariant kept
pub open spec fn pq_cleaned(w0: St, w1: St, u: Unbonding) -> bool {
    swf(w1) && (w1 == w0 || dust_removed(w0, w1, u.delegator, u.validator@))
}
// C14 / C15, from the statements: paying out an unbonding takes nothing else from a delegation.  The one thing the
// housekeeping may do is drop an entry that holds NOTHING: no stake (not even a fraction of a token, which would still
// earn rewards) and no accrued rewards; the validator's record loses that staker and keeps its total and its reward clock
pub open spec fn dust_removed(w0: St, w1: St, d: Addr, v: Seq<char>) -> bool {
    &&& frame2(w0, w1, d, v)
    &&& get_shares(w0, d, v) matches Ok(Some(x))
    &&& x.stake.atomics == 0 && x.rewards.atomics == 0
    &&& !w1.contains_key(k_stake(d, v))
    &&& get_vinfo(w0, v) matches Ok(Some(i0))
    &&& get_vinfo(w1, v) matches Ok(Some(i1))
    &&& i1.stakers@ == i0.stakers@.remove(d) && i1.stake == i0.stake && i1.last_rewards_calculation == i0.last_rewards_calculation
}
pub open spec fn pay_msg<ExecC>(u: Unbonding, denom: Seq<char>) -> CosmosMsg<ExecC> {
    send_msg::<ExecC>(u.delegator.s@, seq![Coin { denom: str_of(denom), amount: u.amount }])
}
// one matured entry u processed: the full amount is sent by the bank from the staking pool to the delegator
pub open spec fn pq_step<ExecC, QueryC>(router: &dyn CosmosRouter<ExecC, QueryC>, k: StakeKeeper, s: St, s2: St, block: BlockInfo, u: Unbonding) -> bool {
    exists|w1: St| pq_cleaned(sw(s), w1, u) && ({
        let sc = splice(s, lp(ns_staking()), w1);
        if u.amount.u == 0 { s2 == sc } else {
            let pr = router.exec_sem(sc, block, k.module_addr, pay_msg::<ExecC>(u, sinfo_denom(w1)));
            pr.0 is Ok && s2 == pr.1
        }
    })
}
// the run over queue q from store s: entries are taken from the front while they are due (payout_at <= block time),
// each is paid in full; the first entry that is not yet due stops the run (nothing is paid before its time)
pub open spec fn pq_run<ExecC, QueryC>(router: &dyn CosmosRouter<ExecC, QueryC>, k: StakeKeeper, s: St, block: BlockInfo, q: Seq<Unbonding>, s_end: St, q_end: Seq<Unbonding>) -> bool
    decreases q.len()
{
    if q.len() == 0 || !pq_due(q[0], block.time) { s_end == s && q_end == q }
    else { exists|s2: St| pq_step(router, k, s, s2, block, q[0]) && pq_run(router, k, s2, block, q.drop_first(), s_end, q_end) }
}
pub proof fn lemma_pq_step<ExecC, QueryC>(router: &dyn CosmosRouter<ExecC, QueryC>, k: StakeKeeper, s: St, s2: St, block: BlockInfo, q: Seq<Unbonding>, s_end: St, q_end: Seq<Unbonding>)
    requires q.len() > 0, pq_due(q[0], block.time), pq_step(router, k, s, s2, block, q[0]), pq_run(router, k, s2, block, q.drop_first(), s_end, q_end)
    ensures pq_run(router, k, s, block, q, s_end, q_end)
{
}
pub proof fn lemma_pay_msg<ExecC>(m: CosmosMsg<ExecC>, u: Unbonding, denom: Seq<char>)
    requires m is Bank && (m->Bank_0) is Send && (m->Bank_0)->to_address@ == u.delegator.s@ && (m->Bank_0)->Send_amount@.len() == 1 && (m->Bank_0)->Send_amount@[0].amount == u.amount && (m->Bank_0)->Send_amount@[0].denom@ == denom
    ensures m == pay_msg::<ExecC>(u, denom)
{
    broadcast use {axiom_vec_canon, axiom_vec_of_view, axiom_str_canon, axiom_str_of_view, lemma_str_ext_b, lemma_vec_ext_b};
    let amount = (m->Bank_0)->Send_amount;
    let c = Coin { denom: str_of(denom), amount: u.amount };
    axiom_str_canon(amount@[0].denom);
    assert(amount@[0] == c);
    assert(amount@ =~= seq![c]);
    axiom_vec_canon(amount);
    axiom_str_canon((m->Bank_0)->to_address);
}
// loop invariant: every run from the current (store, queue) is a run from the initial one
pub open spec fn pq_inv<ExecC, QueryC>(router: &dyn CosmosRouter<ExecC, QueryC>, k: StakeKeeper, s0: St, q0: Seq<Unbonding>, s: St, q: Seq<Unbonding>, block: BlockInfo) -> bool {
    forall|se: St, qe: Seq<Unbonding>| #[trigger] pq_run(router, k, s, block, q, se, qe) ==> pq_run(router, k, s0, block, q0, se, qe)
}
pub proof fn lemma_pq_inv_step<ExecC, QueryC>(router: &dyn CosmosRouter<ExecC, QueryC>, k: StakeKeeper, s0: St, q0: Seq<Unbonding>, s: St, q: Seq<Unbonding>, s2: St, block: BlockInfo)
    requires pq_inv(router, k, s0, q0, s, q, block), q.len() > 0, pq_due(q[0], block.time), pq_step(router, k, s, s2, block, q[0])
    ensures pq_inv(router, k, s0, q0, s2, q.drop_first(), block)
{
    assert forall|se: St, qe: Seq<Unbonding>| #[trigger] pq_run(router, k, s2, block, q.drop_first(), se, qe) implies pq_run(router, k, s0, block, q0, se, qe) by {
        lemma_pq_step(router, k, s, s2, block, q, se, qe);
    }
}
// writing the queue record does not disturb the typed entries
pub proof fn lemma_queue_write_swf(w: St, w2: St)
    requires swf(w), forall|k: Seq<u8>| k != k_queue() ==> #[trigger] same_at(w2, w, k)
    ensures swf(w2)
{
    assert forall|v2: Seq<char>, d2: Addr| #[trigger] has_staker(w2, v2, d2) implies has_shares(w2, d2, v2) by {
        lemma_keys_disjoint(d2, v2, v2);
        assert(same_at(w2, w, k_vinfo(v2))); assert(same_at(w2, w, k_stake(d2, v2)));
        assert(has_staker(w, v2, d2));
    }
    assert forall|d2: Addr, v2: Seq<char>| #[trigger] has_shares(w2, d2, v2) implies has_staker(w2, v2, d2) by {
        lemma_keys_disjoint(d2, v2, v2);
        assert(same_at(w2, w, k_vinfo(v2))); assert(same_at(w2, w, k_stake(d2, v2)));
        assert(has_shares(w, d2, v2));
    }
    assert forall|v2: Seq<char>| #[trigger] vobj_ok_at(w2, v2) by {
        lemma_keys_disjoint(arbitrary(), v2, v2);
        assert(same_at(w2, w, k_vmap(v2)));
        assert(vobj_ok_at(w, v2));
    }
    assert forall|v2: Seq<char>| #[trigger] vinfo_has_vobj_at(w2, v2) by {
        lemma_keys_disjoint(arbitrary(), v2, v2);
        assert(same_at(w2, w, k_vmap(v2))); assert(same_at(w2, w, k_vinfo(v2)));
        assert(vinfo_has_vobj_at(w, v2));
    }
}
// what process_queue did: a run from the stored queue, then the remaining queue is stored
pub open spec fn queue_processed<ExecC, QueryC>(router: &dyn CosmosRouter<ExecC, QueryC>, k: StakeKeeper, s0: St, s1: St, block: BlockInfo) -> bool {
    exists|se: St, qe: Seq<Unbonding>| pq_run(router, k, s0, block, queue_of(sw(s0)), se, qe) && only_staking(se, s1)
        && (get_queue(sw(s1)) matches Ok(Some(q1)) && q1@ == qe) && forall|kk: Seq<u8>| kk != k_queue() ==> #[trigger] same_at(sw(s1), sw(se), kk)
}

//@ impl_open src/staking.rs :: StakeKeeper
//@ end
//@ fn src/staking.rs :: StakeKeeper :: process_queue
//@   ret r
//@   requires [C14.pq.pre_swf] swf(sw(old(storage).view()))
//@   ensures [C14.pq.run,C15] r is Ok ==> queue_processed(router, *self, old(storage).view(), final(storage).view(), *block)
//@   ensures [C14.pq.swf,C15,C16] r is Ok ==> swf(sw(final(storage).view()))
//@   replace_re "(?P<Q>\\w+)\\s*\\.iter\\(\\)\\s*\\.filter\\(\\|(?P<X>\\w+)\\| (?P<C>[^\\n]*)\\)\\s*\\n\\s*\\.map\\(\\|(?P<Y>\\w+)\\| (?P<E>[^\\n]*)\\)\\s*\\n\\s*\\.sum::<Uint128>\\(\\)" => "{ let mut vx_s = Uint128::zero(); let mut vx_j: usize = 0;\n while vx_j < \\g<Q>.len()\n invariant vx_j <= \\g<Q>@.len(),\n decreases \\g<Q>@.len() - vx_j,\n { let \\g<X> = &\\g<Q>[vx_j]; if \\g<C> { let \\g<Y> = \\g<X>; vx_s = vx_s + \\g<E>; }\n vx_j += 1; }\n vx_s }"
//@   replace "_ => break," => "_ => { vx_release_ps(staking_storage); break }"
//@   replace_re? "\\.map\\(\\|mut stake\\| \\{" => ".map(|vx_stake0: Coin| -> (vx_c: Coin) ensures vx_c.amount.u >= vx_stake0.amount.u { let mut stake = vx_stake0;"
//@   replace_re? "\\|shares\\| \\{\\s*shares\\.stake\\.is_zero\\(\\) && shares\\.rewards\\.is_zero\\(\\)\\s*\\}" => "|shares: Shares| -> (vx_b: bool) ensures vx_b == (shares.stake.atomics == 0 && shares.rewards.atomics == 0) { shares.stake.is_zero() && shares.rewards.is_zero() }"
//@   before "re:^\\s*match delegation \\{\\s*$" let ghost dg = delegation;
//@   before "re:^\\s*if is_empty \\{\\s*$" proof { let d = u.delegator; let v = u.validator@; assert(get_shares(w_a, d, v) matches Ok(Some(x)) && (is_empty == (x.stake.atomics == 0 && x.rewards.atomics == 0))); }
//@   replace_re? "if (?P<A>\\w+) <= &(?P<B>[\\w.]+) =>" => "if *\\g<A> <= *(&\\g<B>) =>"
//@   begin broadcast use {axiom_vec_canon, axiom_vec_of_view, axiom_str_canon, axiom_str_of_view, lemma_str_ext_b, lemma_vec_ext_b}; let ghost s0 = storage.view(); proof { axiom_addr_key_laws(); lemma_splice_same(storage.view(), lp(ns_staking())); }
//@   after "re:^\\s*\\.unwrap_or_default\\(\\);\\s*$" let ghost q0 = unbonding_queue@; proof { assert(q0 == queue_of(sw(s0))); }
//@   loop 0 invariant [C14.pq.loop_inv0] s0 == old(storage).view()
//@   loop 0 invariant [C14.pq.loop_inv_swf,C15] swf(sw(storage.view()))
//@   loop 0 invariant [C14.pq.loop_inv,C15] pq_inv(router, *self, s0, q0, storage.view(), unbonding_queue@, *block)
//@   loop 0 ensures [C14.pq.loop_exit] unbonding_queue@.len() == 0 || !pq_due(unbonding_queue@[0], block.time)
//@   loop 0 decreases unbonding_queue@.len()
//@   after "re:^\\s*let mut staking_storage = prefixed\\(storage, NAMESPACE_STAKING\\);\\s*$@@0" let ghost s_it = staking_storage.base_view(); let ghost q_it = unbonding_queue@; proof { axiom_addr_key_laws(); lemma_splice_same(s_it, lp(ns_staking())); }
//@   after "re:^\\s*\\} = unbonding_queue\\.pop_front\\(\\)\\.unwrap\\(\\);\\s*$" let ghost u = q_it[0]; let ghost w_a = staking_storage.view(); proof { assert(unbonding_queue@ =~= q_it.drop_first()); assert(u.delegator == delegator && u.validator == validator && u.amount == amount); }
//@   after "re:^\\s*\\} = unbonding_queue\\.pop_front\\(\\)\\.unwrap\\(\\);\\s*$" proof { assert( /*VXCLAUSE C14.pq.only_due*/ (pq_due(u, block.time))); }
//@   before "re:^\\s*validator_info\\.stakers\\.remove\\(&delegator\\);\\s*$" let ghost vi0 = validator_info; proof { assert(get_vinfo(w_a, validator@) == Ok::<Option<ValidatorInfo>, StdError>(Some(vi0))); }
//@   after "re:^\\s*\\)\\?;\\s*$@@0" proof { axiom_cw_roundtrip(validator_info); assert(validator_info.stakers@ == vi0.stakers@.remove(delegator)); assert(get_vinfo(staking_storage.view(), validator@) == Ok::<Option<ValidatorInfo>, StdError>(Some(validator_info))); }
//@   before "re:^\\s*let staking_info = Self::get_staking_info\\(&staking_storage\\)\\?;\\s*$" let ghost w1 = staking_storage.view(); proof { let d = u.delegator; let v = u.validator@; lemma_keys_disjoint(d, v, v); let ks = k_stake(d, v); if w_a.contains_key(ks) && !w1.contains_key(ks) { assert(has_shares(w_a, d, v)); assert(has_staker(w_a, v, d)); assert(frame2(w_a, w1, d, v)); assert(get_vinfo(w_a, v) matches Ok(Some(_))); assert(w1.contains_key(k_vinfo(v))); assert(get_vinfo(w1, v) matches Ok(Some(_))); assert((get_vinfo(w1, v)->Ok_0->0).stakers@ == (get_vinfo(w_a, v)->Ok_0->0).stakers@.remove(d)); lemma_frame2_swf(w_a, w1, d, v); assert(dust_removed(w_a, w1, d, v)); } else { assert(w1 =~= w_a); } assert(pq_cleaned(w_a, w1, u)); }
//@   before "re:^\\s*router\\.execute\\(\\s*$" let ghost s_mid = storage.view(); proof { assert(s_mid == splice(s_it, lp(ns_staking()), w1)); }
//@   after "re:^\\s*\\)\\?;\\s*$@@1" proof { assert(exists|m: CosmosMsg<ExecC>| router.exec_sem(s_mid, *block, self.module_addr, m).0 is Ok && router.exec_sem(s_mid, *block, self.module_addr, m).1 == storage.view()); }
//@   after "re:^ {20}\\}\\s*$@@1" proof { let sc = splice(s_it, lp(ns_staking()), w1); lemma_splice_window(s_it, lp(ns_staking()), w1); if u.amount.u != 0 { assert(exists|m: CosmosMsg<ExecC>| router.exec_sem(sc, *block, self.module_addr, m).0 is Ok && router.exec_sem(sc, *block, self.module_addr, m).1 == storage.view()); assert(exists|m: CosmosMsg<ExecC>| m is Bank && (m->Bank_0) is Send && router.exec_sem(sc, *block, self.module_addr, m).0 is Ok && router.exec_sem(sc, *block, self.module_addr, m).1 == storage.view()); assert(exists|m: CosmosMsg<ExecC>| m is Bank && (m->Bank_0) is Send && (m->Bank_0)->to_address@ == u.delegator.s@ && router.exec_sem(sc, *block, self.module_addr, m).0 is Ok && router.exec_sem(sc, *block, self.module_addr, m).1 == storage.view()); assert(exists|m: CosmosMsg<ExecC>| m is Bank && (m->Bank_0) is Send && (m->Bank_0)->to_address@ == u.delegator.s@ && (m->Bank_0)->Send_amount@.len() == 1 && (m->Bank_0)->Send_amount@[0].amount == u.amount && router.exec_sem(sc, *block, self.module_addr, m).0 is Ok && router.exec_sem(sc, *block, self.module_addr, m).1 == storage.view()); assert(exists|m: CosmosMsg<ExecC>| m is Bank && (m->Bank_0) is Send && (m->Bank_0)->to_address@ == u.delegator.s@ && (m->Bank_0)->Send_amount@.len() == 1 && (m->Bank_0)->Send_amount@[0].amount == u.amount && (m->Bank_0)->Send_amount@[0].denom@ == sinfo_denom(w1) && router.exec_sem(sc, *block, self.module_addr, m).0 is Ok && router.exec_sem(sc, *block, self.module_addr, m).1 == storage.view()); let m = choose|m: CosmosMsg<ExecC>| m is Bank && (m->Bank_0) is Send && (m->Bank_0)->to_address@ == u.delegator.s@ && (m->Bank_0)->Send_amount@.len() == 1 && (m->Bank_0)->Send_amount@[0].amount == u.amount && (m->Bank_0)->Send_amount@[0].denom@ == sinfo_denom(w1) && router.exec_sem(sc, *block, self.module_addr, m).0 is Ok && router.exec_sem(sc, *block, self.module_addr, m).1 == storage.view(); lemma_pay_msg::<ExecC>(m, u, sinfo_denom(w1)); axiom_router_bank_frame(router, sc, *block, self.module_addr, m->Bank_0); } assert(w_a == sw(s_it)); assert(pq_cleaned(sw(s_it), w1, u)); if u.amount.u == 0 { assert(storage.view() == sc); } else { let pr = router.exec_sem(sc, *block, self.module_addr, pay_msg::<ExecC>(u, sinfo_denom(w1))); assert(pr.0 is Ok); assert(pr.1 == storage.view()); } assert(pq_step(router, *self, s_it, storage.view(), *block, u)); lemma_pq_inv_step(router, *self, s0, q0, s_it, q_it, storage.view(), *block); }
//@   before "re:^\\s*let mut staking_storage = prefixed\\(storage, NAMESPACE_STAKING\\);\\s*$@@1" let ghost se = storage.view(); let ghost qe = unbonding_queue@; proof { assert(pq_run(router, *self, se, *block, qe, se, qe)); assert(pq_run(router, *self, s0, *block, q0, se, qe)); }
//@   before "re:^\\s*Ok\\(AppResponse::default\\(\\)\\)\\s*$" proof { axiom_cw_roundtrip(unbonding_queue); let wf = sw(se).insert(k_queue(), unbonding_queue.ser()); lemma_splice_window(se, lp(ns_staking()), wf); assert(storage.view() == splice(se, lp(ns_staking()), wf)); assert(forall|kk: Seq<u8>| kk != k_queue() ==> #[trigger] same_at(wf, sw(se), kk)); lemma_queue_write_swf(sw(se), wf); assert(queue_processed(router, *self, s0, storage.view(), *block)); }
//@ end
}

// ---- distribution: reward withdrawal
pub open spec fn dw(s: St) -> St { window(s, lp(ns_distribution())) }
pub open spec fn k_withdraw(d: Addr) -> Seq<u8> { lp(str_bytes("withdraw_address"@)) + d.bytes() }
// the address rewards of delegator d are paid to: the registered withdraw address, else d itself
pub open spec fn wd_addr_of(s: St, d: Addr) -> Addr {
    match map_may_load::<Addr>(dw(s), k_withdraw(d)) { Ok(Some(a)) => a, _ => d }
}
// remove_rewards: rewards brought up to date, the delegator's accrued rewards x (floored to whole tokens) taken out
pub open spec fn rewards_removed(s0: St, s1: St, d: Addr, v: Seq<char>, now: Timestamp, x: Uint128) -> bool {
    &&& only_staking(s0, s1)
    &&& exists|sm: St| upd_post(sw(s0), sm, v, now) && swf(sm) && ({
            &&& get_shares(sm, d, v) matches Ok(Some(sh))
            &&& get_shares(sw(s1), d, v) matches Ok(Some(s2))
            &&& x.u == sh.rewards.atomics / 1_000_000_000_000_000_000
            &&& s2.stake == sh.stake && s2.rewards.atomics == 0
            &&& forall|k: Seq<u8>| k != k_stake(d, v) ==> #[trigger] same_at(sw(s1), sm, k)
        })
}
pub open spec fn mint_msg(to: Seq<char>, amount: Uint128, denom: Seq<char>) -> SudoMsg {
    SudoMsg::Bank(BankSudo::Mint { to_address: str_of(to), amount: vec_of(seq![Coin { denom: str_of(denom), amount: amount }]) })
}
pub open spec fn withdrawn<ExecC, QueryC>(router: &dyn CosmosRouter<ExecC, QueryC>, s0: St, s1: St, block: BlockInfo, sender: Addr, v: Seq<char>) -> bool {
    exists|sr: St, x: Uint128| rewards_removed(s0, sr, sender, v, block.time, x) && swf(sw(sr)) && ({
        let (rm, sb) = router.sudo_sem(sr, block, mint_msg(wd_addr_of(sr, sender).s@, x, sinfo_denom(sw(sr))));
        rm is Ok && s1 == sb
    })
}

//@ impl_open src/staking.rs :: DistributionKeeper
//@ end
//@ fn src/staking.rs :: DistributionKeeper :: remove_rewards
//@   ret r
//@   requires [C15.rm_rewards.pre_swf] swf(sw(old(storage).view()))
//@   ensures [C15.rm_rewards.effect] r matches Ok(x) ==> rewards_removed(old(storage).view(), final(storage).view(), *delegator, validator@, block.time, x)
//@   ensures [C15.rm_rewards.swf,C14] r is Ok ==> swf(sw(final(storage).view()))
//@   ensures [C15.rm_rewards.only_staking] only_staking(old(storage).view(), final(storage).view())
//@   begin let ghost s0 = storage.view(); proof { lemma_splice_same(storage.view(), lp(ns_staking())); }
//@   after "StakeKeeper::update_rewards(api, &mut staking_storage, block, validator)?;" let ghost sm = staking_storage.view();
//@   before "re:^\\s*Ok\\(rewards\\)\\s*$" proof { axiom_cw_roundtrip(shares); let wf = sm.insert(k_stake(*delegator, validator@), shares.ser()); lemma_splice_window(s0, lp(ns_staking()), wf); assert(storage.view() == splice(s0, lp(ns_staking()), wf)); assert(forall|k: Seq<u8>| k != k_stake(*delegator, validator@) ==> #[trigger] same_at(wf, sm, k)); lemma_rm_rewards_swf(sm, wf, *delegator, validator@); }
//@ end
//@ fn src/staking.rs :: DistributionKeeper :: get_withdraw_address
//@   ret r
//@   ensures [C15.wd_addr.get] r matches Ok(a) ==> a == wd_addr_of(storage.view(), *delegator_addr)
//@   ensures [C15.wd_addr.get_err] (r is Err) == (map_may_load::<Addr>(dw(storage.view()), k_withdraw(*delegator_addr)) is Err)
//@ end
//@ fn src/staking.rs :: DistributionKeeper :: set_withdraw_address
//@   ret r
//@   replace? ".map_err(|e| e.into())" => ""
//@   replace? "WITHDRAW_ADDRESS\n                .save(" => "std_to_any(WITHDRAW_ADDRESS\n                .save("
//@   replace? "delegator_addr, withdraw_addr)" => "delegator_addr, withdraw_addr))"
//@   ensures [C15.wd_addr.set] r is Ok && final(storage).view() == splice(old(storage).view(), lp(ns_distribution()), if *delegator_addr == *withdraw_addr { dw(old(storage).view()).remove(k_withdraw(*delegator_addr)) } else { dw(old(storage).view()).insert(k_withdraw(*delegator_addr), withdraw_addr.ser()) })
//@   ensures [C15.wd_addr.set_get] wd_addr_of(final(storage).view(), *delegator_addr) == *withdraw_addr
//@   begin proof { lemma_splice_same(storage.view(), lp(ns_distribution())); axiom_cw_roundtrip(*withdraw_addr); }
//@ end
}

pub proof fn lemma_mint_msg(m: SudoMsg, to: Seq<char>, x: Uint128, denom: Seq<char>)
    requires m is Bank && (m->Bank_0)->to_address@ == to && (m->Bank_0)->amount@.len() == 1 && (m->Bank_0)->amount@[0].amount == x && (m->Bank_0)->amount@[0].denom@ == denom
    ensures m == mint_msg(to, x, denom)
{
    broadcast use {axiom_vec_canon, axiom_vec_of_view, axiom_str_canon, axiom_str_of_view, lemma_str_ext_b, lemma_vec_ext_b};
    match m {
        SudoMsg::Bank(BankSudo::Mint { to_address, amount }) => {
            let c = Coin { denom: str_of(denom), amount: x };
            axiom_str_canon(amount@[0].denom);
            assert(amount@[0] == c);
            assert(amount@ =~= seq![c]);
            axiom_vec_canon(amount);
            axiom_str_canon(to_address);
        }
        _ => {}
    }
}
// zeroing the rewards of an existing stake entry keeps the store invariant
pub proof fn lemma_rm_rewards_swf(sm: St, wf: St, d: Addr, v: Seq<char>)
    requires swf(sm), has_shares(sm, d, v), has_shares(wf, d, v), forall|k: Seq<u8>| k != k_stake(d, v) ==> #[trigger] same_at(wf, sm, k)
    ensures swf(wf)
{
    assert forall|v2: Seq<char>, d2: Addr| #[trigger] has_staker(wf, v2, d2) implies has_shares(wf, d2, v2) by {
        lemma_keys_disjoint(d, v, v2);
        assert(same_at(wf, sm, k_vinfo(v2)));
        assert(has_staker(sm, v2, d2));
        if k_stake(d2, v2) == k_stake(d, v) { lemma_k_stake_inj(d2, v2, d, v); } else { assert(same_at(wf, sm, k_stake(d2, v2))); }
    }
    assert forall|d2: Addr, v2: Seq<char>| #[trigger] has_shares(wf, d2, v2) implies has_staker(wf, v2, d2) by {
        lemma_keys_disjoint(d, v, v2);
        assert(same_at(wf, sm, k_vinfo(v2)));
        if k_stake(d2, v2) == k_stake(d, v) { lemma_k_stake_inj(d2, v2, d, v); assert(has_staker(sm, v, d)); } else { assert(same_at(wf, sm, k_stake(d2, v2))); assert(has_shares(sm, d2, v2)); assert(has_staker(sm, v2, d2)); }
    }
    assert forall|v2: Seq<char>| #[trigger] vobj_ok_at(wf, v2) by {
        lemma_keys_disjoint(d, v, v2);
        assert(same_at(wf, sm, k_vmap(v2)));
        assert(vobj_ok_at(sm, v2));
    }
    assert forall|v2: Seq<char>| #[trigger] vinfo_has_vobj_at(wf, v2) by {
        lemma_keys_disjoint(d, v, v2);
        assert(same_at(wf, sm, k_vmap(v2))); assert(same_at(wf, sm, k_vinfo(v2)));
        assert(vinfo_has_vobj_at(sm, v2));
    }
}

//@ impl_open src/staking.rs :: Module for DistributionKeeper
//@   replace "impl Module for DistributionKeeper" => "impl DistributionKeeper"
//@ end
//@ fn src/staking.rs :: Module for DistributionKeeper :: execute
//@   ret r
//@   requires [C15.withdraw.pre_swf] swf(sw(old(storage).view()))
//@   ensures [C15.withdraw.effect] match msg { DistributionMsg::WithdrawDelegatorReward { validator } => r is Ok ==> withdrawn(router, old(storage).view(), final(storage).view(), *block, sender, validator@), _ => true }
//@   ensures [C15.withdraw.set_addr] match msg { DistributionMsg::SetWithdrawAddress { address } => r is Ok ==> spec_valid_addr(address@) && wd_addr_of(final(storage).view(), sender) == (Addr { s: address }) && final(storage).view() == splice(old(storage).view(), lp(ns_distribution()), dw(final(storage).view())), _ => true }
//@   replace* "..Default::default()" => "data: None"
//@   begin broadcast use {axiom_vec_canon, axiom_vec_of_view, axiom_str_canon, axiom_str_of_view, lemma_str_ext_b, lemma_vec_ext_b}; let ghost s0 = storage.view(); let ghost sender0 = sender;
//@   before "re:^\\s*router\\.sudo\\(\\s*$" let ghost sr = storage.view(); let ghost x = rewards; let ghost v0 = validator@; let ghost rc0 = receiver; proof { assert(rc0 == wd_addr_of(sr, sender0)); }
//@   before "re:^\\s*Ok\\(AppResponse \\{\\s*$@@0" proof { assert(exists|m: SudoMsg| m is Bank && (m->Bank_0)->to_address@ == rc0.s@ && (m->Bank_0)->amount@.len() == 1 && (m->Bank_0)->amount@[0].amount == x && (m->Bank_0)->amount@[0].denom@ == sinfo_denom(sw(sr)) && router.sudo_sem(sr, *block, m).0 is Ok && router.sudo_sem(sr, *block, m).1 == storage.view()); let m = choose|m: SudoMsg| m is Bank && (m->Bank_0)->to_address@ == rc0.s@ && (m->Bank_0)->amount@.len() == 1 && (m->Bank_0)->amount@[0].amount == x && (m->Bank_0)->amount@[0].denom@ == sinfo_denom(sw(sr)) && router.sudo_sem(sr, *block, m).0 is Ok && router.sudo_sem(sr, *block, m).1 == storage.view(); lemma_mint_msg(m, rc0.s@, x, sinfo_denom(sw(sr))); assert(withdrawn(router, s0, storage.view(), *block, sender0, v0)); }
//@   before "let address = api.addr_validate(&address)?;" let ghost a0 = address;
//@   before "re:^\\s*Ok\\(AppResponse \\{\\s*$@@1" proof { axiom_addr_ext(address, Addr { s: a0 }); lemma_splice_window(s0, lp(ns_distribution()), if sender0 == address { dw(s0).remove(k_withdraw(sender0)) } else { dw(s0).insert(k_withdraw(sender0), address.ser()) }); }
//@ end
}
