// ------------------------------------------------------------------ mod.rs
//@ item! src/prefixed_storage/mod.rs :: struct PrefixedStorage

//@ impl_open src/prefixed_storage/mod.rs :: PrefixedStorage
//@ end
    pub closed spec fn base_view(&self) -> St { self.storage.view() }
    pub closed spec fn prefix_view(&self) -> Seq<u8> { self.prefix@ }
    // the base store as it will be when this view is dropped (prophecy of the held &mut)
    #[verifier::prophetic]
    pub closed spec fn final_base_view(&self) -> St { final(self.storage).view() }
//@ fn src/prefixed_storage/mod.rs :: PrefixedStorage :: new
//@   ret r
//@   requires [C07.ps.new_pre] namespace@.len() <= 0xFFFF
//@   ensures [C07.ps.new_window] r.view() == window(old(storage).view(), lp(namespace@)) && r.base_view() == old(storage).view() && r.prefix_view() == lp(namespace@)
//@   ensures [C07.ps.new_writes_through] final(storage).view() == r.final_base_view()
//@ end
//@ fn src/prefixed_storage/mod.rs :: PrefixedStorage :: multilevel
//@   ret r
//@   requires [C07.ps.multi_pre] path_ok(slices_view(namespaces@)) && namespaces@.len() < 0x1_0000_0000
//@   ensures [C07.ps.multi_window] r.view() == window(old(storage).view(), lp_nested(slices_view(namespaces@))) && r.base_view() == old(storage).view() && r.prefix_view() == lp_nested(slices_view(namespaces@))
//@   ensures [C07.ps.multi_writes_through] final(storage).view() == r.final_base_view()
//@ end
}

// identity coercion &mut PrefixedStorage -> &mut dyn Storage (rule R3) with the type-invariant principle: through
// `&mut dyn Storage` only `set` / `remove` can change the view; both are PROVED (C07.ps.set_frame / remove_frame) to
// change the base exactly at prefix+key, keep the prefix, and not to touch the prophecy of the held reference.  TRUSTED.
#[verifier::external_body]
pub fn ps_as_dyn_mut<'a, 'b>(x: &'a mut PrefixedStorage<'b>) -> (r: &'a mut dyn Storage)
    ensures r.view() == old(x).view(), final(x).view() == final(r).view(),
        final(x).prefix_view() == old(x).prefix_view(),
        final(x).final_base_view() == old(x).final_base_view(),
        final(x).base_view() == splice(old(x).base_view(), old(x).prefix_view(), final(r).view()),
{ x }

// explicit drop of a prefixed view (rule R21, inserted before a `break` that leaves the scope of a view that another
// match arm writes through): the held reference is released, so its prophecy is its current value.  TRUSTED (no-op).
#[verifier::external_body]
pub fn vx_release_ps<'b>(x: PrefixedStorage<'b>)
    ensures x.final_base_view() == x.base_view()
{ }

//@ impl_open src/prefixed_storage/mod.rs :: Storage for PrefixedStorage
//@ end
    closed spec fn view(&self) -> St { window(self.storage.view(), self.prefix@) }
//@ fn src/prefixed_storage/mod.rs :: Storage for PrefixedStorage :: get
//@   ret r
//@   ensures [C07.ps.get_window] match r { Some(v) => self.view().contains_key(key@) && self.view()[key@] == v@, None => !self.view().contains_key(key@) }
//@ end
//@ fn src/prefixed_storage/mod.rs :: Storage for PrefixedStorage :: range
//@   ret r
//@   ensures [C07.ps.range_window] is_range_of(recs_view(r.remaining()), self.view(), opt_view(start), opt_view(end), order)
//@   replace "Box<dyn Iterator<Item = Record> + 'b>" => "RecordIter<'b>"
//@ end
//@ fn src/prefixed_storage/mod.rs :: Storage for PrefixedStorage :: set
//@   ensures [C07.ps.set_window] final(self).view() == old(self).view().insert(key@, value@)
//@   ensures [C07.ps.set_frame] final(self).base_view() == old(self).base_view().insert(old(self).prefix_view() + key@, value@) && final(self).prefix_view() == old(self).prefix_view() && final(self).final_base_view() == old(self).final_base_view()
//@   after? "set_with_prefix(" proof { lemma_window_insert(old(self).storage.view(), self.prefix@, key@, value@); }
//@ end
//@ fn src/prefixed_storage/mod.rs :: Storage for PrefixedStorage :: remove
//@   ensures [C07.ps.remove_window] final(self).view() == old(self).view().remove(key@)
//@   ensures [C07.ps.remove_frame] final(self).base_view() == old(self).base_view().remove(old(self).prefix_view() + key@) && final(self).prefix_view() == old(self).prefix_view() && final(self).final_base_view() == old(self).final_base_view()
//@   after? "remove_with_prefix(" proof { lemma_window_remove(old(self).storage.view(), self.prefix@, key@); }
//@ end
}

//@ item! src/prefixed_storage/mod.rs :: struct ReadonlyPrefixedStorage

//@ impl_open src/prefixed_storage/mod.rs :: ReadonlyPrefixedStorage
//@ end
//@ fn src/prefixed_storage/mod.rs :: ReadonlyPrefixedStorage :: new
//@   ret r
//@   requires [C07.ro.new_pre] namespace@.len() <= 0xFFFF
//@   ensures [C07.ro.new_window] r.view() == window(storage.view(), lp(namespace@))
//@ end
//@ fn src/prefixed_storage/mod.rs :: ReadonlyPrefixedStorage :: multilevel
//@   ret r
//@   requires [C07.ro.multi_pre] path_ok(slices_view(namespaces@)) && namespaces@.len() < 0x1_0000_0000
//@   ensures [C07.ro.multi_window] r.view() == window(storage.view(), lp_nested(slices_view(namespaces@)))
//@ end
}

// identity coercion &ReadonlyPrefixedStorage -> &dyn Storage through a function (Verus' built-in shared unsizing
// does not record the dynamic type, which blocks quantifier instantiation over structs holding the reference)  TRUSTED (identity)
#[verifier::external_body]
pub fn ro_as_dyn<'a, 'b>(x: &'a ReadonlyPrefixedStorage<'b>) -> (r: &'a dyn Storage)
    ensures r.view() == x.view()
{ x }

//@ impl_open src/prefixed_storage/mod.rs :: Storage for ReadonlyPrefixedStorage
//@ end
    closed spec fn view(&self) -> St { window(self.storage.view(), self.prefix@) }
//@ fn src/prefixed_storage/mod.rs :: Storage for ReadonlyPrefixedStorage :: get
//@   ret r
//@   ensures [C07.ro.get_window] match r { Some(v) => self.view().contains_key(key@) && self.view()[key@] == v@, None => !self.view().contains_key(key@) }
//@ end
//@ fn src/prefixed_storage/mod.rs :: Storage for ReadonlyPrefixedStorage :: range
//@   ret r
//@   ensures [C07.ro.range_window] is_range_of(recs_view(r.remaining()), self.view(), opt_view(start), opt_view(end), order)
//@   replace "Box<dyn Iterator<Item = Record> + 'b>" => "RecordIter<'b>"
//@ end
// read-only views reject writes: the bodies must diverge (checked syntactically: sole statement is a diverging macro);
// for Verus they are external_body with `ensures false` (= never returns).
//@ fn src/prefixed_storage/mod.rs :: Storage for ReadonlyPrefixedStorage :: set
//@   diverges [C07.ro.rejects_set]
//@ end
//@ fn src/prefixed_storage/mod.rs :: Storage for ReadonlyPrefixedStorage :: remove
//@   diverges [C07.ro.rejects_remove]
//@ end
}

//@ fn src/prefixed_storage/mod.rs :: prefixed
//@   ret r
//@   requires [C07.free.prefixed_pre] namespace@.len() <= 0xFFFF
//@   ensures [C07.free.prefixed] r.view() == window(old(storage).view(), lp(namespace@)) && r.base_view() == old(storage).view() && r.prefix_view() == lp(namespace@) && final(storage).view() == r.final_base_view()
//@ end
//@ fn src/prefixed_storage/mod.rs :: prefixed_read
//@   ret r
//@   requires [C07.free.prefixed_read_pre] namespace@.len() <= 0xFFFF
//@   ensures [C07.free.prefixed_read] r.view() == window(storage.view(), lp(namespace@))
//@ end
//@ fn src/prefixed_storage/mod.rs :: prefixed_multilevel
//@   ret r
//@   requires [C07.free.multi_pre] path_ok(slices_view(namespaces@)) && namespaces@.len() < 0x1_0000_0000
//@   ensures [C07.free.multi] r.view() == window(old(storage).view(), lp_nested(slices_view(namespaces@))) && r.base_view() == old(storage).view() && final(storage).view() == r.final_base_view()
//@ end
//@ fn src/prefixed_storage/mod.rs :: prefixed_multilevel_read
//@   ret r
//@   requires [C07.free.multi_read_pre] path_ok(slices_view(namespaces@)) && namespaces@.len() < 0x1_0000_0000
//@   ensures [C07.free.multi_read] r.view() == window(storage.view(), lp_nested(slices_view(namespaces@)))
//@ end

