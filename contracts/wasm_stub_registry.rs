// callee stubs: registry functions (oracles; defined and proved in group wasm_registry)
//@ impl_open src/wasm.rs :: WasmKeeper
//@   pick fn register_contract
//@   replace "ExecC: CustomMsg + DeserializeOwned + 'static," => ""
//@   replace "QueryC: CustomQuery + DeserializeOwned + 'static," => ""
//@ end
//@ fn src/wasm.rs :: WasmKeeper :: register_contract
//@   ret r
//@   drop_body
//@   replace "admin: impl Into<Option<Addr>>," => "admin: Option<Addr>,"
//@   replace "salt: impl Into<Option<Binary>>," => "salt: Option<Binary>,"
//@   ensures [C11.register.oracle] (r, final(storage).view()) == self.register_sem(old(storage).view(), code_id, creator, admin, label, created, salt)
//@ end
//@ fn src/wasm.rs :: WasmKeeper :: update_admin
//@   ret r
//@   drop_body
//@   ensures [C12.update_admin.oracle] (r, final(storage).view()) == self.update_admin_sem(old(storage).view(), sender, contract_addr@, new_admin)
//@ end
//@ fn src/wasm.rs :: WasmKeeper :: save_contract
//@   ret r
//@   drop_body
//@   ensures [C12.save_contract.oracle] (r, final(storage).view()) == self.save_contract_sem(old(storage).view(), *address, *contract)
//@ end
// rule R12: methods of `impl Wasm for WasmKeeper` other than execute/query/sudo are emitted as inherent methods
// (the prelude trait Wasm declares only the three dyn-dispatched entry points)
//@ fn src/wasm.rs :: Wasm for WasmKeeper :: contract_data
//@   ret r
//@   drop_body
//@   ensures [C12.contract_data.oracle] r == self.contract_data_sem(storage.view(), *address)
//@ end
}
