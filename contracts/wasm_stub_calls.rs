// callee stubs: the call_* wrappers (oracle call_sem; proved against the with_storage unfolding in group wasm_call)
//@ impl_open src/wasm.rs :: WasmKeeper
//@   pick fn call_execute
//@   replace "ExecC: CustomMsg + DeserializeOwned + 'static," => ""
//@   replace "QueryC: CustomQuery + DeserializeOwned + 'static," => ""
//@ end
//@ fn src/wasm.rs :: WasmKeeper :: call_execute
//@   ret r
//@   drop_body
//@   ensures [C05.call_execute.oracle] (r, final(storage).view()) == self.call_sem(Entry::Execute, router, old(storage).view(), *block, address, Some(info), msg@, None)
//@ end
//@ fn src/wasm.rs :: WasmKeeper :: call_instantiate
//@   ret r
//@   drop_body
//@   ensures [C05.call_instantiate.oracle] (r, final(storage).view()) == self.call_sem(Entry::Instantiate, router, old(storage).view(), *block, address, Some(info), msg@, None)
//@ end
//@ fn src/wasm.rs :: WasmKeeper :: call_sudo
//@   ret r
//@   drop_body
//@   ensures [C05.call_sudo.oracle] (r, final(storage).view()) == self.call_sem(Entry::Sudo, router, old(storage).view(), *block, address, None, msg@, None)
//@ end
//@ fn src/wasm.rs :: WasmKeeper :: call_migrate
//@   ret r
//@   drop_body
//@   ensures [C05.call_migrate.oracle] (r, final(storage).view()) == self.call_sem(Entry::Migrate, router, old(storage).view(), *block, address, None, msg@, None)
//@ end
}
