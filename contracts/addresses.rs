// ------------------------------------------------------------------ src/addresses.rs : the default address generator (the default
// methods of trait AddressGenerator, which SimpleAddressGenerator uses unchanged; emitted as its inherent methods,
// rule R12).  C11: with a salt, the address is a function of only the code checksum, creator and salt.
//@ fn src/addresses.rs :: instantiate_address
//@   ret r
//@   replace "fn instantiate_address(code_id: u64, instance_id: u64) -> CanonicalAddr" => "fn instantiate_address(code_id: u64, instance_id: u64) -> CanonicalAddr"
//@   drop_body
//@   ensures [C11.addr.instantiate_address_fn] r == spec_instantiate_address(code_id, instance_id)
//@ end
impl SimpleAddressGenerator {
//@ fn src/addresses.rs :: trait AddressGenerator :: contract_address
//@   ret r
//@   ensures [C11.addr.plain_fn,C19] r == plain_addr(code_id, instance_id) && final(_storage).view() == old(_storage).view()
//@ end
//@ fn src/addresses.rs :: trait AddressGenerator :: predictable_contract_address
//@   ret r
//@   ensures [C11.addr.salted_fn,C19] r == salted_addr(checksum@, *creator, salt@) && final(_storage).view() == old(_storage).view()
//@ end
}
