// callee stubs seen by execute_submsg: reply (Skolem oracle, see spec/wasm_sem.rs) and response_type_url
//@ impl_open src/wasm.rs :: WasmKeeper
//@   pick fn reply
//@   replace "ExecC: CustomMsg + DeserializeOwned + 'static," => ""
//@   replace "QueryC: CustomQuery + DeserializeOwned + 'static," => ""
//@ end
//@ fn src/wasm.rs :: WasmKeeper :: reply
//@   ret r
//@   drop_body
//@   ensures [C02.oracle.reply] (r, final(storage).view()) == self.reply_sem(router, old(storage).view(), *block, contract, reply)
//@ end
//@ fn src/wasm.rs :: WasmKeeper :: response_type_url
//@   ret r
//@   replace "fn response_type_url(msg: &CosmosMsg<ExecC>) -> String" => "fn response_type_url(msg: &CosmosMsg<ExecC>) -> String"
//@   drop_body
//@   ensures [C03.type_url.fn] r == spec_type_url(*msg)
//@ end
}
