// ------------------------------------------------------------------ wasm.rs : execute_submsg  (C02, C03, C04, C05)
//@ impl_open src/wasm.rs :: WasmKeeper
//@   pick fn execute_submsg
//@   replace "ExecC: CustomMsg + DeserializeOwned + 'static," => ""
//@   replace "QueryC: CustomQuery + DeserializeOwned + 'static," => ""
//@ end
//@ fn src/wasm.rs :: WasmKeeper :: execute_submsg
//@   ret r
//@   no_decreases
//@   ensures [C02.submsg.sem,C01,C03,C04,C05,C10,C17] (r, final(storage).view()) == self.submsg_sem(router, old(storage).view(), *block, contract, msg)
//@   begin broadcast use {axiom_vec_canon, axiom_vec_of_view};
//@   replace_re? "\\|write_cache, (?P<U>_vx\\d+)\\| \\{" => "|write_cache: &mut dyn Storage, \\g<U>: &dyn Storage| -> (cr: AnyResult<AppResponse>) ensures (cr, final(write_cache).view()) == router.exec_sem(old(write_cache).view(), *block, contract, msg) {"
//@   before? "let reply_res = self.reply(" proof { let sr = reply.result->Ok_0; assert(sr.events@ =~= r.events@); lemma_vec_eq(sr.events, r.events); assert(sr.msg_responses@.len() == 1); let v = sr.msg_responses@[0].value; assert(r.data is None ==> v.b@ =~= Seq::<u8>::empty()); if r.data is None { axiom_vec_canon(v.b); } assert(r.data is None ==> v == empty_binary()); assert(sr.msg_responses@ =~= seq![MsgResponse { type_url: spec_type_url(msg), value: match r.data { Some(d) => d, None => empty_binary() } }]); }
//@   before? "r.data = reply_res.data;" let ghost vx_ev0 = r.events@;
//@   after? "r.events.extend_from_slice(&reply_res.events);" proof { axiom_vec_canon(r.events); assert(r.events@ =~= vx_ev0 + reply_res.events@); }
//@   replace? "SubMsgResult::Err(format!(\"{:?}\", e))" => "SubMsgResult::Err(fmt_debug_err(&e))"
//@ end
}
