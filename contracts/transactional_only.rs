// transactional(base, action): run `action` on a fresh cache over `base`; commit iff it returns Ok.
//@ fn src/transactions.rs :: transactional
//@   ret r
//@   requires [C01.tx.pre] forall|c: &mut dyn Storage, b: &dyn Storage| (c.view() == old(base).view() && b.view() == old(base).view()) ==> #[trigger] action.requires((c, b))
//@   ensures [C01.tx.sem,C02,C06] exists|c: &mut dyn Storage, b: &dyn Storage| c.view() == old(base).view() && b.view() == old(base).view() && #[trigger] action.ensures((c, b), r) && (r is Ok ==> final(base).view() == final(c).view()) && (r is Err ==> final(base).view() == old(base).view())
//@   replace "action(&mut cache, base)" => "action(tx_as_dyn_mut(&mut cache), base)"
//@ end
