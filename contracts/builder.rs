// ------------------------------------------------------------------ app_builder.rs  (C20)
//@ item! src/app_builder.rs :: struct AppBuilder

//@ impl_open src/app_builder.rs :: AppBuilder
//@   pick fn with_wasm
//@ end
//@ fn src/app_builder.rs :: AppBuilder :: with_wasm
//@   ret r
//@   ensures [C20.app.with_wasm] r.wasm == wasm
//@   ensures [C20.app.with_wasm_keeps] r.api == self.api && r.block == self.block && r.storage == self.storage && r.bank == self.bank && r.custom == self.custom && r.staking == self.staking && r.distribution == self.distribution && r.ibc == self.ibc && r.gov == self.gov && r.stargate == self.stargate
//@ end
//@ fn src/app_builder.rs :: AppBuilder :: with_bank
//@   ret r
//@   ensures [C20.app.with_bank] r.bank == bank
//@   ensures [C20.app.with_bank_keeps] r.api == self.api && r.block == self.block && r.storage == self.storage && r.wasm == self.wasm && r.custom == self.custom && r.staking == self.staking && r.distribution == self.distribution && r.ibc == self.ibc && r.gov == self.gov && r.stargate == self.stargate
//@ end
//@ fn src/app_builder.rs :: AppBuilder :: with_api
//@   ret r
//@   ensures [C20.app.with_api] r.api == api
//@   ensures [C20.app.with_api_keeps] r.block == self.block && r.storage == self.storage && r.bank == self.bank && r.wasm == self.wasm && r.custom == self.custom && r.staking == self.staking && r.distribution == self.distribution && r.ibc == self.ibc && r.gov == self.gov && r.stargate == self.stargate
//@ end
//@ fn src/app_builder.rs :: AppBuilder :: with_storage
//@   ret r
//@   ensures [C20.app.with_storage] r.storage == storage
//@   ensures [C20.app.with_storage_keeps] r.api == self.api && r.block == self.block && r.bank == self.bank && r.wasm == self.wasm && r.custom == self.custom && r.staking == self.staking && r.distribution == self.distribution && r.ibc == self.ibc && r.gov == self.gov && r.stargate == self.stargate
//@ end
//@ fn src/app_builder.rs :: AppBuilder :: with_custom
//@   ret r
//@   ensures [C20.app.with_custom] r.custom == custom
//@   ensures [C20.app.with_custom_keeps] r.api == self.api && r.block == self.block && r.storage == self.storage && r.bank == self.bank && r.wasm == self.wasm && r.staking == self.staking && r.distribution == self.distribution && r.ibc == self.ibc && r.gov == self.gov && r.stargate == self.stargate
//@ end
//@ fn src/app_builder.rs :: AppBuilder :: with_staking
//@   ret r
//@   ensures [C20.app.with_staking] r.staking == staking
//@   ensures [C20.app.with_staking_keeps] r.api == self.api && r.block == self.block && r.storage == self.storage && r.bank == self.bank && r.wasm == self.wasm && r.custom == self.custom && r.distribution == self.distribution && r.ibc == self.ibc && r.gov == self.gov && r.stargate == self.stargate
//@ end
//@ fn src/app_builder.rs :: AppBuilder :: with_distribution
//@   ret r
//@   ensures [C20.app.with_distribution] r.distribution == distribution
//@   ensures [C20.app.with_distribution_keeps] r.api == self.api && r.block == self.block && r.storage == self.storage && r.bank == self.bank && r.wasm == self.wasm && r.custom == self.custom && r.staking == self.staking && r.ibc == self.ibc && r.gov == self.gov && r.stargate == self.stargate
//@ end
//@ fn src/app_builder.rs :: AppBuilder :: with_ibc
//@   ret r
//@   ensures [C20.app.with_ibc] r.ibc == ibc
//@   ensures [C20.app.with_ibc_keeps] r.api == self.api && r.block == self.block && r.storage == self.storage && r.bank == self.bank && r.wasm == self.wasm && r.custom == self.custom && r.staking == self.staking && r.distribution == self.distribution && r.gov == self.gov && r.stargate == self.stargate
//@ end
//@ fn src/app_builder.rs :: AppBuilder :: with_gov
//@   ret r
//@   ensures [C20.app.with_gov] r.gov == gov
//@   ensures [C20.app.with_gov_keeps] r.api == self.api && r.block == self.block && r.storage == self.storage && r.bank == self.bank && r.wasm == self.wasm && r.custom == self.custom && r.staking == self.staking && r.distribution == self.distribution && r.ibc == self.ibc && r.stargate == self.stargate
//@ end
//@ fn src/app_builder.rs :: AppBuilder :: with_stargate
//@   ret r
//@   ensures [C20.app.with_stargate] r.stargate == stargate
//@   ensures [C20.app.with_stargate_keeps] r.api == self.api && r.block == self.block && r.storage == self.storage && r.bank == self.bank && r.wasm == self.wasm && r.custom == self.custom && r.staking == self.staking && r.distribution == self.distribution && r.ibc == self.ibc && r.gov == self.gov
//@ end
//@ fn src/app_builder.rs :: AppBuilder :: with_block
//@   ret r
//@   ensures [C20.app.with_block] r.block == block
//@   ensures [C20.app.with_block_keeps] r.api == self.api && r.storage == self.storage && r.bank == self.bank && r.wasm == self.wasm && r.custom == self.custom && r.staking == self.staking && r.distribution == self.distribution && r.ibc == self.ibc && r.gov == self.gov && r.stargate == self.stargate
//@   replace "pub fn with_block(mut self, block: BlockInfo)" => "pub fn with_block(self, block: BlockInfo)"
//@   replace "self.block = block;" => "let mut self_ = self; self_.block = block;"
//@   replace_re "\\n(\\s*)self\\n" => "\\n\\1self_\\n"
//@ end
//@ fn src/app_builder.rs :: AppBuilder :: build
//@   ret r
//@   requires [C20.app.build_pre] forall|r0: &mut Router<BankT, CustomT, WasmT, StakingT, DistrT, IbcT, GovT, StargateT>, a: &ApiT, st: &mut dyn Storage| #[trigger] init_fn.requires((r0, a, st))
//@   ensures [C20.app.build_components] r.api == self.api && r.block == self.block
//@   ensures [C20.app.init_once] exists|r0: &mut Router<BankT, CustomT, WasmT, StakingT, DistrT, IbcT, GovT, StargateT>, a: &ApiT, st: &mut dyn Storage| #[trigger] init_fn.ensures((r0, a, st), ()) && *a == self.api && st.view() == self.storage.view() && r0.wasm == self.wasm && r0.bank == self.bank && r0.custom == self.custom && r0.staking == self.staking && r0.distribution == self.distribution && r0.ibc == self.ibc && r0.gov == self.gov && r0.stargate == self.stargate && r.router == *final(r0) && r.storage.view() == final(st).view()
//@ end
}
