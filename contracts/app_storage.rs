// ------------------------------------------------------------------ app.rs : App's storage accessors (C07, C08: what a state
// dump lists and what App's contract-storage / prefixed-storage accessors show is the App's own committed root store,
// under the namespace / address that was asked for)
//@ impl_open src/app.rs :: App
//@   pick fn dump_wasm_raw
//@ end
//@ fn src/app.rs :: App :: dump_wasm_raw
//@   ret r
//@   replace "&self.storage" => "as_dyn_ref(&self.storage)"
//@   ensures [C08.app.dump] r@ == self.router.wasm.dump_sem(self.storage.view(), *address)
//@ end
//@ fn src/app.rs :: App :: contract_storage
//@   ret r
//@   replace "&self.storage" => "as_dyn_ref(&self.storage)"
//@   ensures [C08.app.contract_storage] r.view() == self.router.wasm.cs_window(self.storage.view(), *contract_addr)
//@ end
//@ fn src/app.rs :: App :: contract_storage_mut
//@   ret r
//@   ensures [C08.app.contract_storage_mut] r.view() == old(self).router.wasm.cs_window(old(self).storage.view(), *contract_addr)
//@ end
//@ fn src/app.rs :: App :: prefixed_storage
//@   ret r
//@   replace "&self.storage" => "as_dyn_ref(&self.storage)"
//@   replace "Box<dyn Storage + 'a>" => "Box<ReadonlyPrefixedStorage<'a>>"
//@   requires [C07.app.prefixed_pre] namespace@.len() <= 0xFFFF
//@   ensures [C07.app.prefixed] r.view() == window(self.storage.view(), lp(namespace@))
//@ end
//@ fn src/app.rs :: App :: prefixed_storage_mut
//@   ret r
//@   replace "Box<dyn Storage + 'a>" => "Box<PrefixedStorage<'a>>"
//@   requires [C07.app.prefixed_mut_pre] namespace@.len() <= 0xFFFF
//@   ensures [C07.app.prefixed_mut] r.view() == window(old(self).storage.view(), lp(namespace@)) && r.base_view() == old(self).storage.view() && r.prefix_view() == lp(namespace@) && final(self).storage.view() == r.final_base_view()
//@ end
//@ fn src/app.rs :: App :: prefixed_multilevel_storage
//@   ret r
//@   replace "&self.storage" => "as_dyn_ref(&self.storage)"
//@   replace "Box<dyn Storage + 'a>" => "Box<ReadonlyPrefixedStorage<'a>>"
//@   requires [C07.app.multilevel_pre] path_ok(slices_view(namespaces@)) && namespaces@.len() < 0x1_0000_0000
//@   ensures [C07.app.multilevel] r.view() == window(self.storage.view(), lp_nested(slices_view(namespaces@)))
//@ end
//@ fn src/app.rs :: App :: prefixed_multilevel_storage_mut
//@   ret r
//@   replace "Box<dyn Storage + 'a>" => "Box<PrefixedStorage<'a>>"
//@   requires [C07.app.multilevel_mut_pre] path_ok(slices_view(namespaces@)) && namespaces@.len() < 0x1_0000_0000
//@   ensures [C07.app.multilevel_mut] r.view() == window(old(self).storage.view(), lp_nested(slices_view(namespaces@))) && r.base_view() == old(self).storage.view() && final(self).storage.view() == r.final_base_view()
//@ end
}
