// ------------------------------------------------------------------ executor.rs : the helpers built on Executor::execute
// The trait header and its one required method are re-declared with a semantic function exec_sem (what `execute` does
// to the executor, e.g. App: proved in group app as C01.exec.single); the DEFAULT METHODS are extracted from the repo.
// Each helper is proved to be exactly ONE call of `execute` with the message it is documented to build, on behalf of
// the given sender (C01: atomicity is inherited; C05: the true caller, funds and target are passed on unchanged).
pub struct MsgInstantiateContractResponse { pub contract_address: String, pub data: Option<Binary> }
pub struct MsgExecuteContractResponse { pub data: Option<Binary> }
pub struct ParseReplyError;
} // verus!
impl std::fmt::Debug for ParseReplyError { fn fmt(&self, f: &mut std::fmt::Formatter<'_>) -> std::fmt::Result { Ok(()) } }
verus! {
impl vstd::std_specs::convert::FromSpecImpl<ParseReplyError> for AnyError {
    open spec fn obeys_from_spec() -> bool { true }
    open spec fn from_spec(e: ParseReplyError) -> AnyError { AnyError }
}
impl From<ParseReplyError> for AnyError { fn from(e: ParseReplyError) -> (r: AnyError) { AnyError } }
// cw_utils::parse_{instantiate,execute}_response_data: protobuf decoding, an uninterpreted function of the bytes
pub uninterp spec fn spec_parse_instantiate(b: Seq<u8>) -> Result<MsgInstantiateContractResponse, ParseReplyError>;
pub uninterp spec fn spec_parse_execute(b: Seq<u8>) -> Result<MsgExecuteContractResponse, ParseReplyError>;
#[verifier::external_body]
pub fn parse_instantiate_response_data(data: &[u8]) -> (r: Result<MsgInstantiateContractResponse, ParseReplyError>)
    ensures r == spec_parse_instantiate(data@)
{ unimplemented!() }
#[verifier::external_body]
pub fn parse_execute_response_data(data: &[u8]) -> (r: Result<MsgExecuteContractResponse, ParseReplyError>)
    ensures r == spec_parse_execute(data@)
{ unimplemented!() }
impl Default for Binary { #[verifier::external_body] fn default() -> (r: Self) ensures r.b@.len() == 0 { Binary { b: Vec::new() } } }

// (spec_into / vx_into / vx_into_string, rule R25, are in prelude/std_ext.rs)
pub open spec fn wasm_instantiate2<C>(admin: Option<String>, code_id: u64, msg: Binary, funds: Seq<Coin>, label: String, salt: Binary) -> CosmosMsg<C> {
    CosmosMsg::Wasm(WasmMsg::Instantiate2 { admin, code_id, label, msg, funds: vec_of(funds), salt })
}
pub open spec fn wasm_instantiate<C>(admin: Option<String>, code_id: u64, msg: Binary, funds: Seq<Coin>, label: String) -> CosmosMsg<C> {
    CosmosMsg::Wasm(WasmMsg::Instantiate { admin, code_id, msg, funds: vec_of(funds), label })
}
pub open spec fn wasm_execute<C>(contract: Seq<char>, msg: Binary, funds: Seq<Coin>) -> CosmosMsg<C> {
    CosmosMsg::Wasm(WasmMsg::Execute { contract_addr: str_of(contract), msg, funds: vec_of(funds) })
}
pub open spec fn wasm_migrate<C>(contract: Seq<char>, msg: Binary, new_code_id: u64) -> CosmosMsg<C> {
    CosmosMsg::Wasm(WasmMsg::Migrate { contract_addr: str_of(contract), new_code_id, msg })
}
pub open spec fn bank_send<C>(to: Seq<char>, amount: Seq<Coin>) -> CosmosMsg<C> {
    CosmosMsg::Bank(BankMsg::Send { to_address: str_of(to), amount: vec_of(amount) })
}

// instantiate_contract: one `execute` of the Instantiate message m; the new address is read from the response data
pub open spec fn inst_post<E>(run: (AnyResult<AppResponse>, E), e1: E, r: AnyResult<Addr>) -> bool {
    e1 == run.1 && match run.0 {
        Err(_) => r is Err,
        Ok(res) => match spec_parse_instantiate(match res.data { Some(d) => d.b@, None => Seq::<u8>::empty() }) { Ok(x) => r matches Ok(a) && a.s@ == x.contract_address@, Err(_) => r is Err },
    }
}
pub trait Executor<C>: Sized {
    spec fn exec_sem(&self, sender: Addr, msg: CosmosMsg<C>) -> (AnyResult<AppResponse>, Self);
    fn execute(&mut self, sender: Addr, msg: CosmosMsg<C>) -> (r: AnyResult<AppResponse>)
        ensures (r, *final(self)) == old(self).exec_sem(sender, msg);
//@ fn src/executor.rs :: trait Executor :: instantiate_contract
//@   ret r
//@   begin broadcast use {axiom_vec_canon, axiom_vec_of_view, axiom_str_canon, axiom_str_of_view, lemma_str_ext_b, lemma_vec_ext_b};
//@   replace "label: label.into()," => "label: vx_into_string(label),"
//@   replace? "res.data.unwrap_or_default().as_slice()" => "opt_binary_unwrap_or_default(res.data).as_slice()"
//@   before "re:^\\s*let data = parse_instantiate_response_data" proof { assert forall|b: Binary| (#[trigger] b.b@).len() == 0 implies b.b@ == Seq::<u8>::empty() by { assert(b.b@ =~= Seq::<u8>::empty()); } }
//@   ensures [C01.helper.instantiate,C05] !spec_json_ok(*init_msg) ==> r is Err && *final(self) == *old(self)
//@   ensures [C01.helper.instantiate_atomic] (spec_json_ok(*init_msg) && r is Err) ==> old(self).exec_sem(sender, wasm_instantiate::<C>(admin, code_id, spec_json(*init_msg), send_funds@, spec_into_string(label))).0 is Err
//@   ensures [C01.helper.instantiate_one_execute,C05] spec_json_ok(*init_msg) ==> inst_post(old(self).exec_sem(sender, wasm_instantiate::<C>(admin, code_id, spec_json(*init_msg), send_funds@, spec_into_string(label))), *final(self), r)
//@ end
//@ fn src/executor.rs :: trait Executor :: instantiate2_contract
//@   ret r
//@   begin broadcast use {axiom_vec_canon, axiom_vec_of_view, axiom_str_canon, axiom_str_of_view, lemma_str_ext_b, lemma_vec_ext_b};
//@   replace "admin: admin.into()," => "admin: vx_into::<A, Option<String>>(admin),"
//@   replace "label: label.into()," => "label: vx_into::<L, String>(label),"
//@   replace "salt: salt.into()," => "salt: vx_into::<S, Binary>(salt),"
//@   replace? "execute_response.data.unwrap_or_default().as_slice()" => "opt_binary_unwrap_or_default(execute_response.data).as_slice()"
//@   before "re:^\\s*let instantiate_response =\\s*$" proof { assert forall|b: Binary| (#[trigger] b.b@).len() == 0 implies b.b@ == Seq::<u8>::empty() by { assert(b.b@ =~= Seq::<u8>::empty()); } }
//@   ensures [C01.helper.instantiate2,C05] !spec_json_ok(*init_msg) ==> r is Err && *final(self) == *old(self)
//@   ensures [C01.helper.instantiate2_atomic] (spec_json_ok(*init_msg) && r is Err) ==> old(self).exec_sem(sender, wasm_instantiate2::<C>(spec_into::<A, Option<String>>(admin), code_id, spec_json(*init_msg), funds@, spec_into::<L, String>(label), spec_into::<S, Binary>(salt))).0 is Err
//@   ensures [C01.helper.instantiate2_one_execute,C05,C11] spec_json_ok(*init_msg) ==> inst_post(old(self).exec_sem(sender, wasm_instantiate2::<C>(spec_into::<A, Option<String>>(admin), code_id, spec_json(*init_msg), funds@, spec_into::<L, String>(label), spec_into::<S, Binary>(salt))), *final(self), r)
//@ end
//@ fn src/executor.rs :: trait Executor :: execute_contract
//@   ret r
//@   begin broadcast use {axiom_vec_canon, axiom_vec_of_view, axiom_str_canon, axiom_str_of_view, lemma_str_ext_b, lemma_vec_ext_b};
//@   requires [C01.helper.execute_pre] spec_json_ok(*msg) ==> ({ let run = old(self).exec_sem(sender, wasm_execute::<C>(contract_addr.s@, spec_json(*msg), send_funds@)); run.0 matches Ok(res) && res.data matches Some(d) ==> spec_parse_execute(d.b@) is Ok })
//@   replace_re? "\\|d\\| parse_execute_response_data\\(d\\.as_slice\\(\\)\\)\\.unwrap\\(\\)\\.data" => "|d: Binary| -> (o: Option<Binary>) requires spec_parse_execute(d.b@) is Ok ensures o == spec_parse_execute(d.b@)->Ok_0.data { parse_execute_response_data(d.as_slice()).unwrap().data }"
//@   ensures [C01.helper.execute,C05] !spec_json_ok(*msg) ==> r is Err && *final(self) == *old(self)
//@   ensures [C01.helper.execute_one_execute,C05] spec_json_ok(*msg) ==> ({ let run = old(self).exec_sem(sender, wasm_execute::<C>(contract_addr.s@, spec_json(*msg), send_funds@)); *final(self) == run.1 && match run.0 { Err(_) => r is Err, Ok(res) => r matches Ok(out) && out.events == res.events && out.data == (match res.data { Some(d) => spec_parse_execute(d.b@)->Ok_0.data, None => None }) } })
//@ end
//@ fn src/executor.rs :: trait Executor :: migrate_contract
//@   ret r
//@   begin broadcast use {axiom_vec_canon, axiom_vec_of_view, axiom_str_canon, axiom_str_of_view, lemma_str_ext_b, lemma_vec_ext_b};
//@   ensures [C01.helper.migrate,C05,C12] if spec_json_ok(*msg) { (r, *final(self)) == old(self).exec_sem(sender, wasm_migrate::<C>(contract_addr.s@, spec_json(*msg), new_code_id)) } else { r is Err && *final(self) == *old(self) }
//@ end
//@ fn src/executor.rs :: trait Executor :: send_tokens
//@   ret r
//@   begin broadcast use {axiom_vec_canon, axiom_vec_of_view, axiom_str_canon, axiom_str_of_view, lemma_str_ext_b, lemma_vec_ext_b};
//@   ensures [C01.helper.send_tokens,C05,C09] (r, *final(self)) == old(self).exec_sem(sender, bank_send::<C>(recipient.s@, amount@))
//@ end
}
