// ------------------------------------------------------------------ bank.rs
//@ item src/bank.rs :: const BALANCES
//@   replace "Map<&Addr, NativeBalance>" => "Map<&'static Addr, NativeBalance>"
//@   exec_const BALANCES.ns() == str_bytes("balances"@)
//@ end
//@ item src/bank.rs :: const NAMESPACE_BANK
//@   replace "&[u8]" => "&'static [u8]"
//@ end
//@ item! src/bank.rs :: struct BankKeeper

//@ impl_open src/bank.rs :: BankKeeper
//@ end
//@ fn src/bank.rs :: BankKeeper :: get_balance
//@   ret r
//@   ensures [C09.get.ledger] match ledger(bank_storage.view(), *addr) { Ok(v) => r is Ok && r.unwrap()@ == v, Err(_) => r is Err }
//@ end
//@ fn src/bank.rs :: BankKeeper :: set_balance
//@   ret r
//@   ensures [C09.set.sem] r is Ok && final(bank_storage).view() == set_bal(old(bank_storage).view(), *account, amount@)
//@   replace? ".map_err(Into::into)" => ""
//@   replace? "BALANCES\n            .save(" => "std_to_any(BALANCES\n            .save("
//@   replace? "account, &balance)" => "account, &balance))"
//@   begin broadcast use {axiom_vec_canon, axiom_vec_of_view};
//@ end
//@ fn src/bank.rs :: BankKeeper :: normalize_amount
//@   ret r
//@   ensures [C09.norm.sem] match r { Ok(v) => v@ == positives(amount@) && v@.len() > 0, Err(_) => positives(amount@).len() == 0 }
//@   replace? "amount.into_iter().filter(|x| !x.amount.is_zero()).collect();" => "vec_filter_pos(amount);"
//@ end
//@ fn src/bank.rs :: BankKeeper :: burn
//@   ret r
//@   ensures [C09.burn.sem,C05] (r is Ok, final(bank_storage).view()) == ({ let x = burn_w(old(bank_storage).view(), from_address, amount@); (x.0 is Ok, x.1) })
//@ end
//@ fn src/bank.rs :: BankKeeper :: mint
//@   ret r
//@   ensures [C09.mint.sem] (r is Ok, final(bank_storage).view()) == ({ let x = mint_w(old(bank_storage).view(), to_address, amount@); (x.0 is Ok, x.1) })
//@ end
//@ fn src/bank.rs :: BankKeeper :: send
//@   ret r
//@   ensures [C09.send.burn_then_mint,C05] (r is Ok, final(bank_storage).view()) == ({ let x = send_w(old(bank_storage).view(), from_address, to_address, amount@); (x.0 is Ok, x.1) })
//@ end
//@ fn src/bank.rs :: BankKeeper :: get_supply
//@   ret r
//@   replace_re "let supply: Uint128 = (?P<SRC>BALANCES\\s*\\.range\\([^;]*?\\))\\s*\\.collect::<StdResult<Vec<_>>>\\(\\)\\?\\s*\\.into_iter\\(\\)\\s*\\.map\\(\\|(?P<A>\\w+)\\| (?P<E>[^\\n]*)\\)\\s*\\.fold\\((?P<I>[^,]*), \\|(?P<ACC>\\w+), (?P<IT>\\w+)\\| \\{(?P<B>.*?)\\}\\);" => "let vx_it0 = \\g<SRC>; let ghost vx_items = vx_it0.rem(); let vx_entries = entries_collect(vx_it0)?; let ghost vx_bals = bals(vx_entries@); let ghost vx_e0 = vx_entries@;\n let mut vx_acc: Uint128 = \\g<I>;\n for \\g<A> in vx_entries.into_iter()\n { let \\g<IT> = \\g<E>; let \\g<ACC> = vx_acc; let ghost vx_item_coins = \\g<IT>.0@; vx_acc = { \\g<B> }; }\n let supply: Uint128 = vx_acc;"
//@   loop 0 binder it
//@   loop 0 invariant [C09.supply.outer_inv] it.seq() == vx_entries@ && vx_bals == bals(vx_entries@) && (supply_sum(vx_bals.subrange(0, it.index@ as int), denom@) <= u128::MAX ==> vx_acc.u == supply_sum(vx_bals.subrange(0, it.index@ as int), denom@))
//@   loop 1 binder jt
//@   loop 1 invariant [C09.supply.inner_inv] jt.seq() == vx_item_coins && (amt(vx_item_coins.subrange(0, jt.index@ as int), denom@) <= u128::MAX ==> subtotal.u == amt(vx_item_coins.subrange(0, jt.index@ as int), denom@))
//@   before "re:^\\s*if coin\\.denom == denom \\{\\s*$" proof { assert(vx_item_coins.subrange(0, jt.index@ + 1).drop_last() =~= vx_item_coins.subrange(0, jt.index@ as int)); assert(vx_item_coins.subrange(0, jt.index@ + 1).last() == coin); }
//@   before "re:^\\s*accum \\+ subtotal\\s*$" proof { assert(vx_item_coins.subrange(0, vx_item_coins.len() as int) =~= vx_item_coins); let k = it.index@ as int; assert(vx_bals.subrange(0, k + 1).drop_last() =~= vx_bals.subrange(0, k)); assert(vx_bals.subrange(0, k + 1).last() == vx_item_coins); }
//@   before "re:^\\s*Ok\\(coin\\(supply\\.into\\(\\), denom\\)\\)\\s*$" proof { assert(vx_bals.subrange(0, vx_bals.len() as int) =~= vx_bals); let recs = choose|recs: Seq<RecV>| entries_of::<NativeBalance>(window(bank_storage.view(), lp(ns_balances())), recs, vx_items, Order::Ascending); assert forall|i: int| 0 <= i < recs.len() implies (NativeBalance::de((#[trigger] recs[i]).1) matches Ok(b) && b.0@ == vx_bals[i]) by { assert(vx_items[i] == Ok::<(Addr, NativeBalance), StdError>(vx_e0[i])); } }
//@   ensures [C09.supply.sum] r matches Ok(c) ==> c.denom@ == denom@ && exists|recs: Seq<RecV>, vals: Seq<Seq<Coin>>| is_range_of(recs, window(bank_storage.view(), lp(ns_balances())), None, None, Order::Ascending) && vals.len() == recs.len() && (forall|i: int| 0 <= i < recs.len() ==> (NativeBalance::de((#[trigger] recs[i]).1) matches Ok(b) && b.0@ == vals[i])) && (supply_sum(vals, denom@) <= u128::MAX ==> c.amount.u == supply_sum(vals, denom@))
//@ end
//@ fn src/bank.rs :: BankKeeper :: init_balance
//@   ret r
//@   ensures [C09.init.sem] r is Ok && final(storage).view() == splice(old(storage).view(), lp(ns_bank()), set_bal(window(old(storage).view(), lp(ns_bank())), *account, amount@))
//@ end
}

// the supply of a denomination: the sum, over every account record of the bank in key order, of that account's amount
pub open spec fn supply_sum(vals: Seq<Seq<Coin>>, d: Seq<char>) -> nat
    decreases vals.len()
{
    if vals.len() == 0 { 0 } else { supply_sum(vals.drop_last(), d) + amt(vals.last(), d) }
}
pub open spec fn bals(s: Seq<(Addr, NativeBalance)>) -> Seq<Seq<Coin>> { Seq::new(s.len(), |i: int| s[i].1.0@) }

// `amount.into_iter().filter(|x| !x.amount.is_zero()).collect()`  (rule D4: filter-collect by its std definition)
#[verifier::external_body]
pub fn vec_filter_pos(amount: Vec<Coin>) -> (r: Vec<Coin>)
    ensures r@ == positives(amount@)
{ amount.into_iter().filter(|x| !x.amount.is_zero()).collect() }

//@ fn src/bank.rs :: coins_to_string
//@   ret r
//@   replace "fn coins_to_string(coins: &[Coin]) -> String" => "fn coins_to_string(coins: &[Coin]) -> String"
//@   drop_body
//@   ensures [C04.bank.coins_text] r@ == spec_coins_text(coins@)
//@ end
pub uninterp spec fn spec_coins_text(coins: Seq<Coin>) -> Seq<char>;
// C04: bank transfer event  transfer{recipient, sender, amount}
pub open spec fn transfer_event(to: Seq<char>, sender: Addr, amount: Seq<Coin>) -> Event {
    Event { ty: str_of("transfer"@), attributes: vec_of(seq![attr_of("recipient"@, to), attr_of("sender"@, sender.s@), attr_of("amount"@, spec_coins_text(amount))]) }
}
pub open spec fn attr_of(k: Seq<char>, v: Seq<char>) -> Attribute { Attribute { key: str_of(k), value: str_of(v) } }
pub open spec fn default_app() -> AppResponse { AppResponse { events: vec_of(Seq::<Event>::empty()), data: None } }

impl Bank for BankKeeper {}
//@ impl_open src/bank.rs :: Module for BankKeeper
//@ end
    type ExecT = BankMsg;
    type QueryT = BankQuery;
    type SudoT = BankSudo;
    // the bank acts only on its own window lp("bank") of the store; what it does there is send_w / burn_w / mint_w
    open spec fn exec_sem<ExecC, QueryC>(&self, router: &dyn CosmosRouter<ExecC, QueryC>, pre: St, block: BlockInfo, sender: Addr, msg: BankMsg) -> (AnyResult<AppResponse>, St) {
        let w = window(pre, lp(ns_bank()));
        match msg {
            BankMsg::Send { to_address, amount } => {
                let (r, w1) = send_w(w, sender, Addr { s: to_address }, amount@);
                (match r { Ok(_) => Ok(AppResponse { events: vec_of(seq![transfer_event(to_address@, sender, amount@)]), data: None }), Err(e) => Err(AnyError) }, splice(pre, lp(ns_bank()), w1))
            }
            BankMsg::Burn { amount } => {
                let (r, w1) = burn_w(w, sender, amount@);
                (match r { Ok(_) => Ok(default_app()), Err(e) => Err(AnyError) }, splice(pre, lp(ns_bank()), w1))
            }
        }
    }
    uninterp spec fn query_sem(&self, qsnap: (St, BlockInfo), st: St, block: BlockInfo, request: BankQuery) -> AnyResult<Binary>;
    open spec fn sudo_sem<ExecC, QueryC>(&self, router: &dyn CosmosRouter<ExecC, QueryC>, pre: St, block: BlockInfo, msg: BankSudo) -> (AnyResult<AppResponse>, St) {
        let w = window(pre, lp(ns_bank()));
        match msg {
            BankSudo::Mint { to_address, amount } => {
                if !spec_valid_addr(to_address@) { (Err(AnyError), pre) } else {
                    let (r, w1) = mint_w(w, Addr { s: to_address }, amount@);
                    (match r { Ok(_) => Ok(default_app()), Err(e) => Err(AnyError) }, splice(pre, lp(ns_bank()), w1))
                }
            }
        }
    }
//@ fn src/bank.rs :: Module for BankKeeper :: execute
//@   ret r
//@   ensures [C09.exec.sem,C04,C05,C17] (r, final(storage).view()) == self.exec_sem(_router, old(storage).view(), *_block, sender, msg)
//@   begin broadcast use {axiom_vec_canon, axiom_vec_of_view, axiom_str_canon, axiom_str_of_view, lemma_str_ext_b, lemma_vec_ext_b}; proof { lemma_splice_same(storage.view(), lp(ns_bank())); }
//@   replace? "other => unimplemented!()," => ""
//@   replace? "..Default::default()" => "data: None"
//@   before? "self.send(" proof { lemma_transfer_event(events@[0], to_address@, sender, amount@); assert(events@ =~= seq![transfer_event(to_address@, sender, amount@)]); lemma_vec_eq(events, vec_of(seq![transfer_event(to_address@, sender, amount@)])); }
//@ end
//@ fn src/bank.rs :: Module for BankKeeper :: query
//@   ret r
//@   drop_body
//@ end
//@ fn src/bank.rs :: Module for BankKeeper :: sudo
//@   ret r
//@   ensures [C09.sudo.sem,C17] (r, final(storage).view()) == self.sudo_sem(_router, old(storage).view(), *_block, msg)
//@   begin broadcast use {axiom_vec_canon, axiom_vec_of_view, axiom_str_canon, axiom_str_of_view, lemma_str_ext_b, lemma_vec_ext_b}; proof { lemma_splice_same(storage.view(), lp(ns_bank())); }
//@ end
}

pub proof fn lemma_transfer_event(e: Event, to: Seq<char>, sender: Addr, amount: Seq<Coin>)
    requires e.ty@ == "transfer"@, e.attributes@.len() == 3,
        e.attributes@[0].key@ == "recipient"@, e.attributes@[0].value@ == to,
        e.attributes@[1].key@ == "sender"@, e.attributes@[1].value@ == sender.s@,
        e.attributes@[2].key@ == "amount"@, e.attributes@[2].value@ == spec_coins_text(amount),
    ensures e == transfer_event(to, sender, amount)
{
    broadcast use {axiom_vec_canon, axiom_vec_of_view, axiom_str_canon, axiom_str_of_view, lemma_str_ext_b, lemma_vec_ext_b};
    let want = seq![attr_of("recipient"@, to), attr_of("sender"@, sender.s@), attr_of("amount"@, spec_coins_text(amount))];
    assert forall|i: int| 0 <= i < 3 implies e.attributes@[i] == want[i] by { }
    assert(e.attributes@ =~= want);
}

// ---- bank queries (the same source function as Module::query above, read as an inherent method so that it can carry
// a precondition; arms for denomination metadata are sliced away under that precondition)
pub open spec fn bw(s: St) -> St { window(s, lp(ns_bank())) }
// the coin a Balance query reports: the first entry of that denomination, else a zero coin
pub open spec fn balance_coin(v: Seq<Coin>, d: Seq<char>, c: Coin) -> bool {
    ||| exists|i: int| 0 <= i < v.len() && #[trigger] v[i] == c && c.denom@ == d && forall|j: int| 0 <= j < i ==> (#[trigger] v[j]).denom@ != d
    ||| (forall|j: int| 0 <= j < v.len() ==> (#[trigger] v[j]).denom@ != d) && c.amount.u == 0 && c.denom@ == d
}
// `v.into_iter().find(p)` (rule D10, by the std definition of find): the first element satisfying p
#[verifier::external_body]
pub fn vec_find<T, P: FnMut(&T) -> bool>(v: Vec<T>, p: P) -> (r: Option<T>)
    requires forall|i: int| 0 <= i < v@.len() ==> #[trigger] p.requires((&v@[i],))
    ensures match r {
        Some(x) => exists|i: int| 0 <= i < v@.len() && #[trigger] v@[i] == x && p.ensures((&v@[i],), true) && forall|j: int| 0 <= j < i ==> p.ensures((&#[trigger] v@[j],), false),
        None => forall|j: int| 0 <= j < v@.len() ==> p.ensures((&#[trigger] v@[j],), false),
    }
{ v.into_iter().find(p) }
// when every denomination occurs at most once (a normalised balance), the reported coin carries that denomination's total
pub open spec fn denoms_unique(v: Seq<Coin>) -> bool { forall|i: int, j: int| 0 <= i < j < v.len() ==> (#[trigger] v[i]).denom@ != (#[trigger] v[j]).denom@ }
pub proof fn lemma_amt_unique(v: Seq<Coin>, d: Seq<char>)
    requires denoms_unique(v)
    ensures
        forall|i: int| 0 <= i < v.len() && (#[trigger] v[i]).denom@ == d ==> amt(v, d) == v[i].amount.u,
        (forall|j: int| 0 <= j < v.len() ==> (#[trigger] v[j]).denom@ != d) ==> amt(v, d) == 0,
    decreases v.len()
{
    if v.len() > 0 {
        let w = v.drop_last();
        assert(denoms_unique(w)) by { assert forall|i: int, j: int| 0 <= i < j < w.len() implies (#[trigger] w[i]).denom@ != (#[trigger] w[j]).denom@ by { assert(v[i].denom@ != v[j].denom@); } }
        lemma_amt_unique(w, d);
        assert forall|i: int| 0 <= i < v.len() && (#[trigger] v[i]).denom@ == d implies amt(v, d) == v[i].amount.u by {
            if i == v.len() - 1 {
                assert forall|j: int| 0 <= j < w.len() implies (#[trigger] w[j]).denom@ != d by { assert(v[j].denom@ != v[i].denom@); }
            } else {
                assert(w[i].denom@ == d);
                assert(v[i].denom@ != v[v.len() - 1].denom@);
            }
        }
        if forall|j: int| 0 <= j < v.len() ==> (#[trigger] v[j]).denom@ != d {
            assert forall|j: int| 0 <= j < w.len() implies (#[trigger] w[j]).denom@ != d by { assert(v[j].denom@ != d); }
        }
    }
}
pub proof fn lemma_balance_agrees(v: Seq<Coin>, d: Seq<char>, c: Coin)
    requires denoms_unique(v), balance_coin(v, d, c)
    ensures /*VXCLAUSE C09.lemma.balance_agrees*/ (c.amount.u == amt(v, d) && c.denom@ == d)
{
    lemma_amt_unique(v, d);
}

// ... and a stored balance IS normalised (bank_wf), so the Balance query, the AllBalances query and the supply agree
pub proof fn lemma_wf_balance_agrees(v: Seq<Coin>, d: Seq<char>, c: Coin)
    requires nb_wf(v), balance_coin(v, d, c)
    ensures /*VXCLAUSE C09.lemma.wf_balance_agrees*/ (c.amount.u == amt(v, d) && c.denom@ == d)
{
    axiom_nb_wf_unique(v);
    assert(denoms_unique(v));
    lemma_balance_agrees(v, d, c);
}

//@ impl_open src/bank.rs :: Module for BankKeeper
//@   replace "impl Module for BankKeeper" => "impl BankKeeper"
//@ end
//@ fn src/bank.rs :: Module for BankKeeper :: query
//@   ret r
//@   slice_match request keep AllBalances|Balance|Supply
//@   replace* ".map_err(Into::into)" => ""
//@   replace_re "to_json_binary\\(&res\\)" => "std_to_any(to_json_binary(&res))"
//@   replace_re? "all_amounts\\s*\\.into_iter\\(\\)\\s*\\.find\\(\\|c\\| c\\.denom == denom\\)" => "vec_find(all_amounts, |c: &Coin| -> (b: bool) ensures b == (c.denom@ == denom@) { c.denom == denom })"
//@   replace_re? "\\.unwrap_or_else\\(\\|\\| coin\\(0, denom\\)\\)" => ".unwrap_or_else(|| -> (c0: Coin) ensures c0.amount.u == 0 && c0.denom@ == denom@ { coin(0, denom) })"
//@   requires [C09.query.pre_kind] request is AllBalances || request is Balance || request is Supply
//@   ensures [C09.query.all_balances] match request { BankQuery::AllBalances { address } => (r matches Ok(b) ==> exists|a: Addr, v: Vec<Coin>| a.s@ == address@ && ledger(bw(storage.view()), a) == Ok::<Seq<Coin>, AnyError>(v@) && b == spec_json(AllBalanceResponse { amount: v })), _ => true }
//@   after "re:^\\s*let res = AllBalanceResponse::new\\(amount\\);\\s*$" proof { assert(ledger(bw(storage.view()), address) == Ok::<Seq<Coin>, AnyError>(res.amount@)); }
//@   after "re:^\\s*let res = BalanceResponse::new\\(amount\\);\\s*$" proof { assert(balance_coin(vx_all, denom0, res.amount)); }
//@   before "re:^\\s*let amount = (/\\*VXOPT \\d+\\*/)?(vec_find\\()?all_amounts" let ghost vx_all = all_amounts@; let ghost denom0 = denom@;
//@   ensures [C09.query.balance] match request { BankQuery::Balance { address, denom } => (r matches Ok(b) ==> exists|a: Addr, v: Seq<Coin>, c: Coin| a.s@ == address@ && ledger(bw(storage.view()), a) == Ok::<Seq<Coin>, AnyError>(v) && balance_coin(v, denom@, c) && b == spec_json(BalanceResponse { amount: c })), _ => true }
//@   ensures [C09.query.supply] match request { BankQuery::Supply { denom } => (r matches Ok(b) ==> exists|c: Coin, recs: Seq<RecV>, vals: Seq<Seq<Coin>>| b == spec_json(SupplyResponse { amount: c }) && c.denom@ == denom@ && is_range_of(recs, window(bw(storage.view()), lp(ns_balances())), None, None, Order::Ascending) && vals.len() == recs.len() && (forall|i: int| 0 <= i < recs.len() ==> (NativeBalance::de((#[trigger] recs[i]).1) matches Ok(nb) && nb.0@ == vals[i])) && (supply_sum(vals, denom@) <= u128::MAX ==> c.amount.u == supply_sum(vals, denom@))), _ => true }
//@ end
}
