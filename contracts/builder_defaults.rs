// ------------------------------------------------------------------ app_builder.rs  (C20: "defaults for the rest")
// The stock components are opaque values in this group: every constructor returns ONE fixed value of its type
// (stubs, assumed here; WasmKeeper::new / default are PROVED to start with empty, well-formed code tables in group
// `wasm_registry`, C11.new.empty; FailingModule's behaviour is proved in group `module_defaults`).  What is proved
// here is the repository's own text of `AppBuilder::new`, `new_custom` and `Default::default`: every field of a fresh
// builder is the stock constructor's value of that component, the block is `mock_env().block`, the storage is
// `MockStorage::new()`, and `new`, `new_custom` and `default` agree with each other.
#[verifier::external_body] pub struct MockApi { _o: u8 }
#[verifier::external_body] pub struct MockStorage { _o: u8 }
#[verifier::external_body] pub struct BankKeeper { _o: u8 }
#[verifier::external_body] pub struct StakeKeeper { _o: u8 }
#[verifier::external_body] pub struct DistributionKeeper { _o: u8 }
#[verifier::external_body] #[verifier::reject_recursive_types(ExecC)] #[verifier::reject_recursive_types(QueryC)] pub struct WasmKeeper<ExecC, QueryC> { _o: u8, _p: core::marker::PhantomData<(ExecC, QueryC)> }
#[verifier::external_body] #[verifier::reject_recursive_types(ExecT)] #[verifier::reject_recursive_types(QueryT)] #[verifier::reject_recursive_types(SudoT)] pub struct FailingModule<ExecT, QueryT, SudoT> { _o: u8, _p: core::marker::PhantomData<(ExecT, QueryT, SudoT)> }
//@ item! src/stargate.rs :: struct StargateFailing
pub type IbcFailingModule = FailingModule<IbcMsg, IbcQuery, Empty>;
pub type GovFailingModule = FailingModule<GovMsg, Empty, Empty>;
pub uninterp spec fn stock_api() -> MockApi;
pub uninterp spec fn stock_storage() -> MockStorage;
pub uninterp spec fn stock_bank() -> BankKeeper;
pub uninterp spec fn stock_staking() -> StakeKeeper;
pub uninterp spec fn stock_distribution() -> DistributionKeeper;
pub uninterp spec fn stock_wasm<ExecC, QueryC>() -> WasmKeeper<ExecC, QueryC>;
pub uninterp spec fn stock_failing<ExecT, QueryT, SudoT>() -> FailingModule<ExecT, QueryT, SudoT>;
impl MockApi { #[verifier::external_body] pub fn default() -> (r: Self) ensures r == stock_api() { unimplemented!() } }
impl MockStorage { #[verifier::external_body] pub fn new() -> (r: Self) ensures r == stock_storage() { unimplemented!() } }
impl BankKeeper { #[verifier::external_body] pub fn new() -> (r: Self) ensures r == stock_bank() { unimplemented!() } }
impl StakeKeeper { #[verifier::external_body] pub fn new() -> (r: Self) ensures r == stock_staking() { unimplemented!() } }
impl DistributionKeeper { #[verifier::external_body] pub fn new() -> (r: Self) ensures r == stock_distribution() { unimplemented!() } }
impl<ExecC, QueryC> WasmKeeper<ExecC, QueryC> { #[verifier::external_body] pub fn new() -> (r: Self) ensures r == stock_wasm::<ExecC, QueryC>() { unimplemented!() } }
impl<ExecT, QueryT, SudoT> FailingModule<ExecT, QueryT, SudoT> { #[verifier::external_body] pub fn new() -> (r: Self) ensures r == stock_failing::<ExecT, QueryT, SudoT>() { unimplemented!() } }

// the default block is compared field by field, the chain id by its text (a string is determined by its characters),
// so that a spelled-out copy of `mock_env().block` is accepted and any other block is not
pub open spec fn same_block(a: BlockInfo, b: BlockInfo) -> bool {
    a.height == b.height && a.time.nanos == b.time.nanos && a.chain_id@ == b.chain_id@
}
pub open spec fn is_stock_builder<ExecC, QueryC>(r: AppBuilder<BankKeeper, MockApi, MockStorage, FailingModule<ExecC, QueryC, Empty>, WasmKeeper<ExecC, QueryC>, StakeKeeper, DistributionKeeper, IbcFailingModule, GovFailingModule, StargateFailing>) -> bool {
    r.api == stock_api()
    && same_block(r.block, spec_mock_env().block)
    && r.storage == stock_storage()
    && r.bank == stock_bank()
    && r.wasm == stock_wasm::<ExecC, QueryC>()
    && r.custom == stock_failing::<ExecC, QueryC, Empty>()
    && r.staking == stock_staking()
    && r.distribution == stock_distribution()
    && r.ibc == stock_failing::<IbcMsg, IbcQuery, Empty>()
    && r.gov == stock_failing::<GovMsg, Empty, Empty>()
    && r.stargate == StargateFailing
}

//@ impl_open src/app_builder.rs :: AppBuilder
//@   pick fn new
//@ end
//@ fn src/app_builder.rs :: AppBuilder :: new
//@   ret r
//@   ensures [C20.app.new_defaults] is_stock_builder::<Empty, Empty>(r)
//@   begin proof { axiom_mock_env_block(); }
//@ end
// `impl Default for AppBuilder<..stock types..>` read as an inherent method of the same impl block
//@ fn src/app_builder.rs :: Default for AppBuilder :: default
//@   ret r
//@   ensures [C20.app.default_is_new] is_stock_builder::<Empty, Empty>(r)
//@ end
}
//@ impl_open src/app_builder.rs :: AppBuilder
//@   pick fn new_custom
//@   replace_re "where\\s*ExecC: [^\\n]*\\n\\s*QueryC: [^\\n]*\\n" => ""
//@ end
//@ fn src/app_builder.rs :: AppBuilder :: new_custom
//@   ret r
//@   ensures [C20.app.new_custom_defaults] is_stock_builder::<ExecC, QueryC>(r)
//@   begin proof { axiom_mock_env_block(); }
//@ end
}

// ---- the stock components as router components: opaque semantics (uninterpreted), so that `AppBuilder::new().build(f)`
// type-checks in this group.  Nothing here says what the stock modules DO (groups bank, staking_*, wasm_*, module_defaults).
impl Api for MockApi {
    #[verifier::external_body] fn addr_validate(&self, human: &str) -> (r: StdResult<Addr>) { unimplemented!() }
    #[verifier::external_body] fn addr_canonicalize(&self, human: &str) -> (r: StdResult<CanonicalAddr>) { unimplemented!() }
    #[verifier::external_body] fn addr_humanize(&self, canonical: &CanonicalAddr) -> (r: StdResult<Addr>) { unimplemented!() }
}
impl Storage for MockStorage {
    uninterp spec fn view(&self) -> St;
    #[verifier::external_body] fn get(&self, key: &[u8]) -> (r: Option<Vec<u8>>) { unimplemented!() }
    #[verifier::external_body] fn range<'a>(&'a self, start: Option<&[u8]>, end: Option<&[u8]>, order: Order) -> (r: RecordIter<'a>) { unimplemented!() }
    #[verifier::external_body] fn set(&mut self, key: &[u8], value: &[u8]) { unimplemented!() }
    #[verifier::external_body] fn remove(&mut self, key: &[u8]) { unimplemented!() }
}
impl Module for BankKeeper {
    type ExecT = BankMsg;
    type QueryT = BankQuery;
    type SudoT = BankSudo;
    uninterp spec fn exec_sem<ExecC, QueryC>(&self, router: &dyn CosmosRouter<ExecC, QueryC>, pre: St, block: BlockInfo, sender: Addr, msg: Self::ExecT) -> (AnyResult<AppResponse>, St);
    uninterp spec fn query_sem(&self, qsnap: (St, BlockInfo), st: St, block: BlockInfo, request: Self::QueryT) -> AnyResult<Binary>;
    uninterp spec fn sudo_sem<ExecC, QueryC>(&self, router: &dyn CosmosRouter<ExecC, QueryC>, pre: St, block: BlockInfo, msg: Self::SudoT) -> (AnyResult<AppResponse>, St);
    #[verifier::external_body] fn execute<ExecC, QueryC>(&self, api: &dyn Api, storage: &mut dyn Storage, router: &dyn CosmosRouter<ExecC, QueryC>, block: &BlockInfo, sender: Addr, msg: Self::ExecT) -> (r: AnyResult<AppResponse>) { unimplemented!() }
    #[verifier::external_body] fn query(&self, api: &dyn Api, storage: &dyn Storage, querier: &dyn Querier, block: &BlockInfo, request: Self::QueryT) -> (r: AnyResult<Binary>) { unimplemented!() }
    #[verifier::external_body] fn sudo<ExecC, QueryC>(&self, api: &dyn Api, storage: &mut dyn Storage, router: &dyn CosmosRouter<ExecC, QueryC>, block: &BlockInfo, msg: Self::SudoT) -> (r: AnyResult<AppResponse>) { unimplemented!() }
}
impl Module for StakeKeeper {
    type ExecT = StakingMsg;
    type QueryT = StakingQuery;
    type SudoT = StakingSudo;
    uninterp spec fn exec_sem<ExecC, QueryC>(&self, router: &dyn CosmosRouter<ExecC, QueryC>, pre: St, block: BlockInfo, sender: Addr, msg: Self::ExecT) -> (AnyResult<AppResponse>, St);
    uninterp spec fn query_sem(&self, qsnap: (St, BlockInfo), st: St, block: BlockInfo, request: Self::QueryT) -> AnyResult<Binary>;
    uninterp spec fn sudo_sem<ExecC, QueryC>(&self, router: &dyn CosmosRouter<ExecC, QueryC>, pre: St, block: BlockInfo, msg: Self::SudoT) -> (AnyResult<AppResponse>, St);
    #[verifier::external_body] fn execute<ExecC, QueryC>(&self, api: &dyn Api, storage: &mut dyn Storage, router: &dyn CosmosRouter<ExecC, QueryC>, block: &BlockInfo, sender: Addr, msg: Self::ExecT) -> (r: AnyResult<AppResponse>) { unimplemented!() }
    #[verifier::external_body] fn query(&self, api: &dyn Api, storage: &dyn Storage, querier: &dyn Querier, block: &BlockInfo, request: Self::QueryT) -> (r: AnyResult<Binary>) { unimplemented!() }
    #[verifier::external_body] fn sudo<ExecC, QueryC>(&self, api: &dyn Api, storage: &mut dyn Storage, router: &dyn CosmosRouter<ExecC, QueryC>, block: &BlockInfo, msg: Self::SudoT) -> (r: AnyResult<AppResponse>) { unimplemented!() }
}
impl Module for DistributionKeeper {
    type ExecT = DistributionMsg;
    type QueryT = Empty;
    type SudoT = Empty;
    uninterp spec fn exec_sem<ExecC, QueryC>(&self, router: &dyn CosmosRouter<ExecC, QueryC>, pre: St, block: BlockInfo, sender: Addr, msg: Self::ExecT) -> (AnyResult<AppResponse>, St);
    uninterp spec fn query_sem(&self, qsnap: (St, BlockInfo), st: St, block: BlockInfo, request: Self::QueryT) -> AnyResult<Binary>;
    uninterp spec fn sudo_sem<ExecC, QueryC>(&self, router: &dyn CosmosRouter<ExecC, QueryC>, pre: St, block: BlockInfo, msg: Self::SudoT) -> (AnyResult<AppResponse>, St);
    #[verifier::external_body] fn execute<ExecC, QueryC>(&self, api: &dyn Api, storage: &mut dyn Storage, router: &dyn CosmosRouter<ExecC, QueryC>, block: &BlockInfo, sender: Addr, msg: Self::ExecT) -> (r: AnyResult<AppResponse>) { unimplemented!() }
    #[verifier::external_body] fn query(&self, api: &dyn Api, storage: &dyn Storage, querier: &dyn Querier, block: &BlockInfo, request: Self::QueryT) -> (r: AnyResult<Binary>) { unimplemented!() }
    #[verifier::external_body] fn sudo<ExecC, QueryC>(&self, api: &dyn Api, storage: &mut dyn Storage, router: &dyn CosmosRouter<ExecC, QueryC>, block: &BlockInfo, msg: Self::SudoT) -> (r: AnyResult<AppResponse>) { unimplemented!() }
}
impl<ExecT, QueryT, SudoT> Module for FailingModule<ExecT, QueryT, SudoT> {
    type ExecT = ExecT;
    type QueryT = QueryT;
    type SudoT = SudoT;
    uninterp spec fn exec_sem<ExecC, QueryC>(&self, router: &dyn CosmosRouter<ExecC, QueryC>, pre: St, block: BlockInfo, sender: Addr, msg: Self::ExecT) -> (AnyResult<AppResponse>, St);
    uninterp spec fn query_sem(&self, qsnap: (St, BlockInfo), st: St, block: BlockInfo, request: Self::QueryT) -> AnyResult<Binary>;
    uninterp spec fn sudo_sem<ExecC, QueryC>(&self, router: &dyn CosmosRouter<ExecC, QueryC>, pre: St, block: BlockInfo, msg: Self::SudoT) -> (AnyResult<AppResponse>, St);
    #[verifier::external_body] fn execute<ExecC, QueryC>(&self, api: &dyn Api, storage: &mut dyn Storage, router: &dyn CosmosRouter<ExecC, QueryC>, block: &BlockInfo, sender: Addr, msg: Self::ExecT) -> (r: AnyResult<AppResponse>) { unimplemented!() }
    #[verifier::external_body] fn query(&self, api: &dyn Api, storage: &dyn Storage, querier: &dyn Querier, block: &BlockInfo, request: Self::QueryT) -> (r: AnyResult<Binary>) { unimplemented!() }
    #[verifier::external_body] fn sudo<ExecC, QueryC>(&self, api: &dyn Api, storage: &mut dyn Storage, router: &dyn CosmosRouter<ExecC, QueryC>, block: &BlockInfo, msg: Self::SudoT) -> (r: AnyResult<AppResponse>) { unimplemented!() }
}
impl Bank for BankKeeper {}
impl Distribution for DistributionKeeper {}
impl Ibc for IbcFailingModule {}
impl Gov for GovFailingModule {}
impl Staking for StakeKeeper {
    uninterp spec fn queue_sem<ExecC, QueryC>(&self, router: &dyn CosmosRouter<ExecC, QueryC>, pre: St, block: BlockInfo) -> (AnyResult<AppResponse>, St);
    #[verifier::external_body] fn process_queue<ExecC, QueryC>(&self, api: &dyn Api, storage: &mut dyn Storage, router: &dyn CosmosRouter<ExecC, QueryC>, block: &BlockInfo) -> (r: AnyResult<AppResponse>) { unimplemented!() }
}
impl Stargate for StargateFailing {
    uninterp spec fn stargate_sem<ExecC, QueryC>(&self, router: &dyn CosmosRouter<ExecC, QueryC>, pre: St, block: BlockInfo, sender: Addr, type_url: String, value: Binary) -> (AnyResult<AppResponse>, St);
    uninterp spec fn any_sem<ExecC, QueryC>(&self, router: &dyn CosmosRouter<ExecC, QueryC>, pre: St, block: BlockInfo, sender: Addr, msg: AnyMsg) -> (AnyResult<AppResponse>, St);
    uninterp spec fn query_stargate_sem(&self, qsnap: (St, BlockInfo), st: St, block: BlockInfo, path: String, data: Binary) -> AnyResult<Binary>;
    uninterp spec fn query_grpc_sem(&self, qsnap: (St, BlockInfo), st: St, block: BlockInfo, request: GrpcQuery) -> AnyResult<Binary>;
    #[verifier::external_body] fn execute_stargate<ExecC, QueryC>(&self, api: &dyn Api, storage: &mut dyn Storage, router: &dyn CosmosRouter<ExecC, QueryC>, block: &BlockInfo, sender: Addr, type_url: String, value: Binary) -> (r: AnyResult<AppResponse>) { unimplemented!() }
    #[verifier::external_body] fn execute_any<ExecC, QueryC>(&self, api: &dyn Api, storage: &mut dyn Storage, router: &dyn CosmosRouter<ExecC, QueryC>, block: &BlockInfo, sender: Addr, msg: AnyMsg) -> (r: AnyResult<AppResponse>) { unimplemented!() }
    #[verifier::external_body] fn query_stargate(&self, api: &dyn Api, storage: &dyn Storage, querier: &dyn Querier, block: &BlockInfo, path: String, data: Binary) -> (r: AnyResult<Binary>) { unimplemented!() }
    #[verifier::external_body] fn query_grpc(&self, api: &dyn Api, storage: &dyn Storage, querier: &dyn Querier, block: &BlockInfo, request: GrpcQuery) -> (r: AnyResult<Binary>) { unimplemented!() }
}
impl<ExecC, QueryC> Wasm<ExecC, QueryC> for WasmKeeper<ExecC, QueryC> {
    uninterp spec fn exec_sem(&self, router: &dyn CosmosRouter<ExecC, QueryC>, pre: St, block: BlockInfo, sender: Addr, msg: WasmMsg) -> (AnyResult<AppResponse>, St);
    uninterp spec fn query_sem(&self, qsnap: (St, BlockInfo), st: St, block: BlockInfo, request: WasmQuery) -> AnyResult<Binary>;
    uninterp spec fn sudo_sem(&self, router: &dyn CosmosRouter<ExecC, QueryC>, pre: St, block: BlockInfo, msg: WasmSudo) -> (AnyResult<AppResponse>, St);
    uninterp spec fn dump_sem(&self, st: St, address: Addr) -> Seq<Record>;
    uninterp spec fn cs_window(&self, st: St, address: Addr) -> St;
    #[verifier::external_body] fn execute(&self, api: &dyn Api, storage: &mut dyn Storage, router: &dyn CosmosRouter<ExecC, QueryC>, block: &BlockInfo, sender: Addr, msg: WasmMsg) -> (r: AnyResult<AppResponse>) { unimplemented!() }
    #[verifier::external_body] fn query(&self, api: &dyn Api, storage: &dyn Storage, querier: &dyn Querier, block: &BlockInfo, request: WasmQuery) -> (r: AnyResult<Binary>) { unimplemented!() }
    #[verifier::external_body] fn sudo(&self, api: &dyn Api, storage: &mut dyn Storage, router: &dyn CosmosRouter<ExecC, QueryC>, block: &BlockInfo, msg: WasmSudo) -> (r: AnyResult<AppResponse>) { unimplemented!() }
    #[verifier::external_body] fn dump_wasm_raw(&self, storage: &dyn Storage, address: &Addr) -> (r: Vec<Record>) { unimplemented!() }
    #[verifier::external_body] fn contract_storage<'a>(&self, storage: &'a dyn Storage, address: &Addr) -> (r: Box<dyn Storage + 'a>) { unimplemented!() }
    #[verifier::external_body] fn contract_storage_mut<'a>(&self, storage: &'a mut dyn Storage, address: &Addr) -> (r: Box<dyn Storage + 'a>) { unimplemented!() }
}

// ---- src/app.rs: the stock application = stock builder + build(init_fn)   (C20: "defaults for the rest ... runs the
// initialisation function once against that storage")
pub type BasicApp<ExecC = Empty, QueryC = Empty> = App<BankKeeper, MockApi, MockStorage, FailingModule<ExecC, QueryC, Empty>, WasmKeeper<ExecC, QueryC>, StakeKeeper, DistributionKeeper, IbcFailingModule, GovFailingModule, StargateFailing>;
//@ fn src/app.rs :: custom_app
//@   ret r
//@   requires [C20.app.custom_app_pre] forall|r0: &mut Router<BankKeeper, FailingModule<ExecC, QueryC, Empty>, WasmKeeper<ExecC, QueryC>, StakeKeeper, DistributionKeeper, IbcFailingModule, GovFailingModule, StargateFailing>, a: &MockApi, st: &mut dyn Storage| #[trigger] init_fn.requires((r0, a, st))
//@   begin proof { axiom_mock_env_block(); }
//@   ensures [C20.app.custom_app_stock] r.api == stock_api() && same_block(r.block, spec_mock_env().block) && exists|r0: &mut Router<BankKeeper, FailingModule<ExecC, QueryC, Empty>, WasmKeeper<ExecC, QueryC>, StakeKeeper, DistributionKeeper, IbcFailingModule, GovFailingModule, StargateFailing>, a: &MockApi, st: &mut dyn Storage| #[trigger] init_fn.ensures((r0, a, st), ()) && *a == stock_api() && st.view() == stock_storage().view() && r0.wasm == stock_wasm::<ExecC, QueryC>() && r0.bank == stock_bank() && r0.custom == stock_failing::<ExecC, QueryC, Empty>() && r0.staking == stock_staking() && r0.distribution == stock_distribution() && r0.ibc == stock_failing::<IbcMsg, IbcQuery, Empty>() && r0.gov == stock_failing::<GovMsg, Empty, Empty>() && r0.stargate == StargateFailing && r.router == *final(r0) && r.storage.view() == final(st).view()
//@   replace_re "ExecC: CustomMsg \\+ DeserializeOwned \\+ 'static,\\s*QueryC: Debug \\+ CustomQuery \\+ DeserializeOwned \\+ 'static,\\s*" => ""
//@ end
//@ impl_open src/app.rs :: BasicApp
//@   pick fn new
//@ end
//@ fn src/app.rs :: BasicApp :: new
//@   ret r
//@   requires [C20.app.basic_new_pre] forall|r0: &mut Router<BankKeeper, FailingModule<Empty, Empty, Empty>, WasmKeeper<Empty, Empty>, StakeKeeper, DistributionKeeper, IbcFailingModule, GovFailingModule, StargateFailing>, a: &MockApi, st: &mut dyn Storage| #[trigger] init_fn.requires((r0, a, st))
//@   begin proof { axiom_mock_env_block(); }
//@   ensures [C20.app.basic_new_stock] r.api == stock_api() && same_block(r.block, spec_mock_env().block) && exists|r0: &mut Router<BankKeeper, FailingModule<Empty, Empty, Empty>, WasmKeeper<Empty, Empty>, StakeKeeper, DistributionKeeper, IbcFailingModule, GovFailingModule, StargateFailing>, a: &MockApi, st: &mut dyn Storage| #[trigger] init_fn.ensures((r0, a, st), ()) && *a == stock_api() && st.view() == stock_storage().view() && r0.wasm == stock_wasm::<Empty, Empty>() && r0.bank == stock_bank() && r0.custom == stock_failing::<Empty, Empty, Empty>() && r0.staking == stock_staking() && r0.distribution == stock_distribution() && r0.ibc == stock_failing::<IbcMsg, IbcQuery, Empty>() && r0.gov == stock_failing::<GovMsg, Empty, Empty>() && r0.stargate == StargateFailing && r.router == *final(r0) && r.storage.view() == final(st).view()
//@ end
}
