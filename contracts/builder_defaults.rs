// ------------------------------------------------------------------ app_builder.rs  (C20: "defaults for the rest")
// The stock components are opaque values in this group: every constructor returns ONE fixed value of its type
// (stubs, assumed here; WasmKeeper::new / default are PROVED to start with empty, well-formed code tables in group
// `wasm_registry`, C11.new.empty; FailingModule's behaviour is proved in group `module_defaults`).  What is proved
// here is the repository's own text of `AppBuilder::new`, `new_custom` and `Default::default`: every field of a fresh
// builder is the stock constructor's value of that component, the block is `mock_env().block`, the storage is
// `MockStorage::new()`, and `new`, `new_custom` and `default` agree with each other.
#[verifier::external_body] pub struct MockApi { _o: u8 }
#[verifier::external_body] pub struct MockStorage { _o: u8 }
#[verifier::external_body] pub struct BankKeeper { _o: u8 }
#[verifier::external_body] pub struct StakeKeeper { _o: u8 }
#[verifier::external_body] pub struct DistributionKeeper { _o: u8 }
#[verifier::external_body] #[verifier::reject_recursive_types(ExecC)] #[verifier::reject_recursive_types(QueryC)] pub struct WasmKeeper<ExecC, QueryC> { _o: u8, _p: core::marker::PhantomData<(ExecC, QueryC)> }
#[verifier::external_body] #[verifier::reject_recursive_types(ExecT)] #[verifier::reject_recursive_types(QueryT)] #[verifier::reject_recursive_types(SudoT)] pub struct FailingModule<ExecT, QueryT, SudoT> { _o: u8, _p: core::marker::PhantomData<(ExecT, QueryT, SudoT)> }
//@ item! src/stargate.rs :: struct StargateFailing
pub type IbcFailingModule = FailingModule<IbcMsg, IbcQuery, Empty>;
pub type GovFailingModule = FailingModule<GovMsg, Empty, Empty>;
pub uninterp spec fn stock_api() -> MockApi;
pub uninterp spec fn stock_storage() -> MockStorage;
pub uninterp spec fn stock_bank() -> BankKeeper;
pub uninterp spec fn stock_staking() -> StakeKeeper;
pub uninterp spec fn stock_distribution() -> DistributionKeeper;
pub uninterp spec fn stock_wasm<ExecC, QueryC>() -> WasmKeeper<ExecC, QueryC>;
pub uninterp spec fn stock_failing<ExecT, QueryT, SudoT>() -> FailingModule<ExecT, QueryT, SudoT>;
impl MockApi { #[verifier::external_body] pub fn default() -> (r: Self) ensures r == stock_api() { unimplemented!() } }
impl MockStorage { #[verifier::external_body] pub fn new() -> (r: Self) ensures r == stock_storage() { unimplemented!() } }
impl BankKeeper { #[verifier::external_body] pub fn new() -> (r: Self) ensures r == stock_bank() { unimplemented!() } }
impl StakeKeeper { #[verifier::external_body] pub fn new() -> (r: Self) ensures r == stock_staking() { unimplemented!() } }
impl DistributionKeeper { #[verifier::external_body] pub fn new() -> (r: Self) ensures r == stock_distribution() { unimplemented!() } }
impl<ExecC, QueryC> WasmKeeper<ExecC, QueryC> { #[verifier::external_body] pub fn new() -> (r: Self) ensures r == stock_wasm::<ExecC, QueryC>() { unimplemented!() } }
impl<ExecT, QueryT, SudoT> FailingModule<ExecT, QueryT, SudoT> { #[verifier::external_body] pub fn new() -> (r: Self) ensures r == stock_failing::<ExecT, QueryT, SudoT>() { unimplemented!() } }

// the default block is compared field by field, the chain id by its text (a string is determined by its characters),
// so that a spelled-out copy of `mock_env().block` is accepted and any other block is not
pub open spec fn same_block(a: BlockInfo, b: BlockInfo) -> bool {
    a.height == b.height && a.time.nanos == b.time.nanos && a.chain_id@ == b.chain_id@
}
pub open spec fn is_stock_builder<ExecC, QueryC>(r: AppBuilder<BankKeeper, MockApi, MockStorage, FailingModule<ExecC, QueryC, Empty>, WasmKeeper<ExecC, QueryC>, StakeKeeper, DistributionKeeper, IbcFailingModule, GovFailingModule, StargateFailing>) -> bool {
    r.api == stock_api()
    && same_block(r.block, spec_mock_env().block)
    && r.storage == stock_storage()
    && r.bank == stock_bank()
    && r.wasm == stock_wasm::<ExecC, QueryC>()
    && r.custom == stock_failing::<ExecC, QueryC, Empty>()
    && r.staking == stock_staking()
    && r.distribution == stock_distribution()
    && r.ibc == stock_failing::<IbcMsg, IbcQuery, Empty>()
    && r.gov == stock_failing::<GovMsg, Empty, Empty>()
    && r.stargate == StargateFailing
}

//@ impl_open src/app_builder.rs :: AppBuilder
//@   pick fn new
//@ end
//@ fn src/app_builder.rs :: AppBuilder :: new
//@   ret r
//@   ensures [C20.app.new_defaults] is_stock_builder::<Empty, Empty>(r)
//@   begin proof { axiom_mock_env_block(); }
//@ end
// `impl Default for AppBuilder<..stock types..>` read as an inherent method of the same impl block
//@ fn src/app_builder.rs :: Default for AppBuilder :: default
//@   ret r
//@   ensures [C20.app.default_is_new] is_stock_builder::<Empty, Empty>(r)
//@ end
}
//@ impl_open src/app_builder.rs :: AppBuilder
//@   pick fn new_custom
//@   replace_re "where\\s*ExecC: [^\\n]*\\n\\s*QueryC: [^\\n]*\\n" => ""
//@ end
//@ fn src/app_builder.rs :: AppBuilder :: new_custom
//@   ret r
//@   ensures [C20.app.new_custom_defaults] is_stock_builder::<ExecC, QueryC>(r)
//@   begin proof { axiom_mock_env_block(); }
//@ end
}
