// ------------------------------------------------------------------ contracts.rs : lifting sub-messages of Empty-typed contracts (C17)
// kind by kind, payload intact; a Custom(Empty) message has no image (excluded by precondition: an Empty-typed
// contract has no custom messages; the code has unreachable!() there)
pub open spec fn lift_msg<C>(m: CosmosMsg<Empty>) -> CosmosMsg<C> {
    match m {
        CosmosMsg::Wasm(x) => CosmosMsg::Wasm(x),
        CosmosMsg::Bank(x) => CosmosMsg::Bank(x),
        CosmosMsg::Staking(x) => CosmosMsg::Staking(x),
        CosmosMsg::Distribution(x) => CosmosMsg::Distribution(x),
        CosmosMsg::Ibc(x) => CosmosMsg::Ibc(x),
        CosmosMsg::Any(x) => CosmosMsg::Any(x),
        CosmosMsg::Gov(x) => CosmosMsg::Gov(x),
        CosmosMsg::Stargate { type_url, value } => CosmosMsg::Stargate { type_url, value },
        CosmosMsg::Custom(_) => arbitrary(),
    }
}
//@ fn src/contracts.rs :: customize_msg
//@   ret r
//@   requires [C17.lift.pre] !(msg.msg is Custom)
//@   ensures [C17.lift.kind] r.msg == lift_msg::<C>(msg.msg)
//@   ensures [C17.lift.frame] r.id == msg.id && r.payload == msg.payload && r.gas_limit == msg.gas_limit && r.reply_on == msg.reply_on
//@   replace_re? "where\\s*C: CustomMsg,\\s*" => ""
//@ end

// cosmwasm_std::Response builder calls used by customize_response   (ASSUMED: std docs of cosmwasm-std 2.2.2 results/response.rs)
impl<T> Response<T> {
    #[verifier::external_body]
    pub fn new() -> (r: Self) ensures r.messages@.len() == 0, r.attributes@.len() == 0, r.events@.len() == 0, r.data is None { unimplemented!() }
    #[verifier::external_body]
    pub fn add_submessages<I: Iterator<Item = SubMsg<T>>>(self, msgs: I) -> (r: Self)
        ensures r.messages@ == self.messages@ + msgs.remaining(), r.attributes == self.attributes, r.events == self.events, r.data == self.data
    { unimplemented!() }
    #[verifier::external_body]
    pub fn add_events(self, events: Vec<Event>) -> (r: Self)
        ensures r.events@ == self.events@ + events@, r.attributes == self.attributes, r.messages == self.messages, r.data == self.data
    { unimplemented!() }
    #[verifier::external_body]
    pub fn add_attributes(self, attrs: Vec<Attribute>) -> (r: Self)
        ensures r.attributes@ == self.attributes@ + attrs@, r.events == self.events, r.messages == self.messages, r.data == self.data
    { unimplemented!() }
}
pub open spec fn lift_sub<C>(m: SubMsg<Empty>) -> SubMsg<C> {
    SubMsg { id: m.id, payload: m.payload, msg: lift_msg::<C>(m.msg), gas_limit: m.gas_limit, reply_on: m.reply_on }
}
//@ fn src/contracts.rs :: customize_response
//@   ret r
//@   replace_re? "where\\s*C: CustomMsg,\\s*" => ""
//@   replace_re "resp\\.messages\\.into_iter\\(\\)\\.map\\(customize_msg::<C>\\)" => "iter_map(resp.messages.into_iter(), |vx_m: SubMsg<Empty>| -> (o: SubMsg<C>) requires !(vx_m.msg is Custom) ensures o == lift_sub::<C>(vx_m) { customize_msg::<C>(vx_m) })"
//@   requires [C17.lift_resp.pre] forall|i: int| 0 <= i < resp.messages@.len() ==> !((#[trigger] resp.messages@[i]).msg is Custom)
//@   ensures [C17.lift_resp.messages,C04] r.messages@.len() == resp.messages@.len() && forall|i: int| 0 <= i < resp.messages@.len() ==> #[trigger] r.messages@[i] == lift_sub::<C>(resp.messages@[i])
//@   ensures [C17.lift_resp.rest,C04] r.events@ == resp.events@ && r.attributes@ == resp.attributes@ && r.data == resp.data
//@ end

// ------------------------------------------------------------------ contracts.rs : the closures that adapt an Empty-typed entry
// point to the chain's custom message / query types (ContractWrapper::new_with_empty, with_sudo_empty, with_migrate_empty).
// rule R26: a fn-pointer parameter `raw_fn: XFn<..>` is read as a generic `F: Fn(..) -> ..` (Verus has no fn-pointer
// types); rule R27: the `Box<dyn Fn(..)>` result is read as `impl Fn(..)` and `Box::new(` .. `)` is dropped (Verus has no
// dyn-Fn objects).  What is dropped: the boxing and the unsizing coercion; the closure text is the repository's.
//@ fn src/contracts.rs :: decustomize_deps_mut
//@   ret r
//@   replace_re? "where\\s*Q: CustomQuery \\+ DeserializeOwned,\\s*" => ""
//@   ensures [C17.decust.same_state] r.storage.view() == old(deps).storage.view() && r.querier.snap() == old(deps).querier.snap()
//@   ensures [C17.decust.writes_through] final(deps).storage.view() == final(r.storage).view() && final(final(deps).storage).view() == final(old(deps).storage).view()
//@ end
//@ fn src/contracts.rs :: decustomize_deps
//@   ret r
//@   replace_re? "where\\s*Q: CustomQuery \\+ DeserializeOwned,\\s*" => ""
//@   ensures [C17.decust_ro.same_state] r.storage.view() == deps.storage.view() && r.querier.snap() == deps.querier.snap()
//@ end
pub open spec fn no_custom(resp: Response<Empty>) -> bool {
    forall|i: int| 0 <= i < resp.messages@.len() ==> !((#[trigger] resp.messages@[i]).msg is Custom)
}
// `o` is the lifted image of `o0`: errors pass through, a response is customize_response of the raw one
pub open spec fn lifted_result<C, E>(o0: Result<Response<Empty>, E>, o: Result<Response<C>, E>) -> bool {
    match o0 {
        Err(e) => o == Result::<Response<C>, E>::Err(e),
        Ok(resp) => o is Ok && {
            let r = o->Ok_0;
            &&& r.messages@.len() == resp.messages@.len()
            &&& forall|i: int| 0 <= i < resp.messages@.len() ==> #[trigger] r.messages@[i] == lift_sub::<C>(resp.messages@[i])
            &&& r.events@ == resp.events@ && r.attributes@ == resp.attributes@ && r.data == resp.data
        },
    }
}
// the customised closure ran the raw entry point exactly once, on the caller's storage and querier snapshot, with the
// same env and message, and its writes are the caller's writes
#[verifier::prophetic]
pub open spec fn perm_lifted<T, C, E, Q, F: Fn(DepsMut<Empty>, Env, T) -> Result<Response<Empty>, E>>(raw_fn: F, d: DepsMut<Q>, env: Env, msg: T, o: Result<Response<C>, E>) -> bool {
    exists|d0: DepsMut<Empty>, o0: Result<Response<Empty>, E>| d0.storage.view() == d.storage.view() && d0.querier.snap() == d.querier.snap()
        && final(d0.storage).view() == final(d.storage).view() && #[trigger] raw_fn.ensures((d0, env, msg), o0) && lifted_result::<C, E>(o0, o)
}
pub open spec fn perm_ready<T, E, Q, F: Fn(DepsMut<Empty>, Env, T) -> Result<Response<Empty>, E>>(raw_fn: F, d: DepsMut<Q>, env: Env, msg: T) -> bool {
    &&& forall|d0: DepsMut<Empty>| d0.storage.view() == d.storage.view() && d0.querier.snap() == d.querier.snap() ==> #[trigger] raw_fn.requires((d0, env, msg))
    &&& forall|d0: DepsMut<Empty>, o0: Result<Response<Empty>, E>| #[trigger] raw_fn.ensures((d0, env, msg), o0) && o0 is Ok ==> no_custom(o0->Ok_0)
}
//@ fn src/contracts.rs :: customize_permissioned_fn
//@   ret r
//@   replace_re "fn customize_permissioned_fn<T, C, E, Q>\\(\\s*raw_fn: PermissionedFn<T, Empty, E, Empty>,\\s*\\) -> PermissionedClosure<T, C, E, Q>\\s*where[\\s\\S]*?\\{" => "fn customize_permissioned_fn<T, C, E, Q, F: Fn(DepsMut<Empty>, Env, T) -> Result<Response<Empty>, E>>(raw_fn: F) -> impl Fn(DepsMut<Q>, Env, T) -> Result<Response<C>, E> {"
//@   replace_re "Box::new\\(\\s*(?P<B>move[\\s\\S]*\\}),\\s*\\)" => "\\g<B>"
//@   replace_re "-> Result<Response<C>, E> \\{\\s*let deps" => "-> (o: Result<Response<C>, E>) requires perm_ready::<T, E, Q, F>(raw_fn, deps, env, msg) ensures perm_lifted::<T, C, E, Q, F>(raw_fn, deps, env, msg, o) { let deps"
//@   ensures [C17.perm_fn.ready] forall|d: DepsMut<Q>, env: Env, msg: T| perm_ready::<T, E, Q, F>(raw_fn, d, env, msg) ==> #[trigger] r.requires((d, env, msg))
//@   ensures [C17.perm_fn.sem,C04,C13] forall|d: DepsMut<Q>, env: Env, msg: T, o: Result<Response<C>, E>| #[trigger] r.ensures((d, env, msg), o) ==> perm_lifted::<T, C, E, Q, F>(raw_fn, d, env, msg, o)
//@ end
#[verifier::prophetic]
pub open spec fn contract_lifted<T, C, E, Q, F: Fn(DepsMut<Empty>, Env, MessageInfo, T) -> Result<Response<Empty>, E>>(raw_fn: F, d: DepsMut<Q>, env: Env, info: MessageInfo, msg: T, o: Result<Response<C>, E>) -> bool {
    exists|d0: DepsMut<Empty>, o0: Result<Response<Empty>, E>| d0.storage.view() == d.storage.view() && d0.querier.snap() == d.querier.snap()
        && final(d0.storage).view() == final(d.storage).view() && #[trigger] raw_fn.ensures((d0, env, info, msg), o0) && lifted_result::<C, E>(o0, o)
}
pub open spec fn contract_ready<T, E, Q, F: Fn(DepsMut<Empty>, Env, MessageInfo, T) -> Result<Response<Empty>, E>>(raw_fn: F, d: DepsMut<Q>, env: Env, info: MessageInfo, msg: T) -> bool {
    &&& forall|d0: DepsMut<Empty>| d0.storage.view() == d.storage.view() && d0.querier.snap() == d.querier.snap() ==> #[trigger] raw_fn.requires((d0, env, info, msg))
    &&& forall|d0: DepsMut<Empty>, o0: Result<Response<Empty>, E>| #[trigger] raw_fn.ensures((d0, env, info, msg), o0) && o0 is Ok ==> no_custom(o0->Ok_0)
}
//@ fn src/contracts.rs :: customize_contract_fn
//@   ret r
//@   replace_re "fn customize_contract_fn<T, C, E, Q>\\(\\s*raw_fn: ContractFn<T, Empty, E, Empty>,\\s*\\) -> ContractClosure<T, C, E, Q>\\s*where[\\s\\S]*?\\{" => "fn customize_contract_fn<T, C, E, Q, F: Fn(DepsMut<Empty>, Env, MessageInfo, T) -> Result<Response<Empty>, E>>(raw_fn: F) -> impl Fn(DepsMut<Q>, Env, MessageInfo, T) -> Result<Response<C>, E> {"
//@   replace_re "Box::new\\(\\s*(?P<B>move[\\s\\S]*\\}),\\s*\\)" => "\\g<B>"
//@   replace_re "-> Result<Response<C>, E> \\{\\s*let deps" => "-> (o: Result<Response<C>, E>) requires contract_ready::<T, E, Q, F>(raw_fn, deps, env, info, msg) ensures contract_lifted::<T, C, E, Q, F>(raw_fn, deps, env, info, msg, o) { let deps"
//@   ensures [C17.contract_fn.ready] forall|d: DepsMut<Q>, env: Env, info: MessageInfo, msg: T| contract_ready::<T, E, Q, F>(raw_fn, d, env, info, msg) ==> #[trigger] r.requires((d, env, info, msg))
//@   ensures [C17.contract_fn.sem,C04,C13] forall|d: DepsMut<Q>, env: Env, info: MessageInfo, msg: T, o: Result<Response<C>, E>| #[trigger] r.ensures((d, env, info, msg), o) ==> contract_lifted::<T, C, E, Q, F>(raw_fn, d, env, info, msg, o)
//@ end
pub open spec fn query_lifted<T, E, Q, F: Fn(Deps<Empty>, Env, T) -> Result<Binary, E>>(raw_fn: F, d: Deps<Q>, env: Env, msg: T, o: Result<Binary, E>) -> bool {
    exists|d0: Deps<Empty>| d0.storage.view() == d.storage.view() && d0.querier.snap() == d.querier.snap() && #[trigger] raw_fn.ensures((d0, env, msg), o)
}
//@ fn src/contracts.rs :: customize_query_fn
//@   ret r
//@   replace_re "fn customize_query_fn<T, E, Q>\\(raw_fn: QueryFn<T, E, Empty>\\) -> QueryClosure<T, E, Q>\\s*where[\\s\\S]*?\\{" => "fn customize_query_fn<T, E, Q, F: Fn(Deps<Empty>, Env, T) -> Result<Binary, E>>(raw_fn: F) -> impl Fn(Deps<Q>, Env, T) -> Result<Binary, E> {"
//@   replace_re "Box::new\\(\\s*(?P<B>move[\\s\\S]*\\}),\\s*\\)" => "\\g<B>"
//@   replace_re "-> Result<Binary, E> \\{\\s*let deps" => "-> (o: Result<Binary, E>) requires forall|d0: Deps<Empty>| d0.storage.view() == deps.storage.view() && d0.querier.snap() == deps.querier.snap() ==> #[trigger] raw_fn.requires((d0, env, msg)) ensures query_lifted::<T, E, Q, F>(raw_fn, deps, env, msg, o) { let deps"
//@   ensures [C17.query_fn.ready] forall|d: Deps<Q>, env: Env, msg: T| (forall|d0: Deps<Empty>| d0.storage.view() == d.storage.view() && d0.querier.snap() == d.querier.snap() ==> #[trigger] raw_fn.requires((d0, env, msg))) ==> #[trigger] r.requires((d, env, msg))
//@   ensures [C17.query_fn.sem] forall|d: Deps<Q>, env: Env, msg: T, o: Result<Binary, E>| #[trigger] r.ensures((d, env, msg), o) ==> query_lifted::<T, E, Q, F>(raw_fn, d, env, msg, o)
//@ end
