// ------------------------------------------------------------------ contracts.rs : lifting sub-messages of Empty-typed contracts (C17)
// kind by kind, payload intact; a Custom(Empty) message has no image in CosmosMsg<C> (the code has unreachable!() there:
// a contract built with new_with_empty that emits CosmosMsg::Custom(Empty {}) panics -- known finding, DESIGN §6)
pub open spec fn lift_msg<C>(m: CosmosMsg<Empty>) -> CosmosMsg<C> {
    match m {
        CosmosMsg::Wasm(x) => CosmosMsg::Wasm(x),
        CosmosMsg::Bank(x) => CosmosMsg::Bank(x),
        CosmosMsg::Staking(x) => CosmosMsg::Staking(x),
        CosmosMsg::Distribution(x) => CosmosMsg::Distribution(x),
        CosmosMsg::Ibc(x) => CosmosMsg::Ibc(x),
        CosmosMsg::Any(x) => CosmosMsg::Any(x),
        CosmosMsg::Gov(x) => CosmosMsg::Gov(x),
        CosmosMsg::Stargate { type_url, value } => CosmosMsg::Stargate { type_url, value },
        CosmosMsg::Custom(_) => arbitrary(),
    }
}
//@ fn src/contracts.rs :: customize_msg
//@   ret r
//@   ensures [C17.lift.kind] r.msg == lift_msg::<C>(msg.msg)
//@   ensures [C17.lift.frame] r.id == msg.id && r.payload == msg.payload && r.gas_limit == msg.gas_limit && r.reply_on == msg.reply_on
//@   replace_re? "where\\s*C: CustomMsg,\\s*" => ""
//@ end

// cosmwasm_std::Response builder calls used by customize_response   (ASSUMED: std docs of cosmwasm-std 2.2.2 results/response.rs)
impl<T> Response<T> {
    #[verifier::external_body]
    pub fn set_data(self, data: Binary) -> (r: Self)
        ensures r.data == Some(data), r.messages == self.messages, r.attributes == self.attributes, r.events == self.events
    { unimplemented!() }
    #[verifier::external_body]
    pub fn new() -> (r: Self) ensures r.messages@.len() == 0, r.attributes@.len() == 0, r.events@.len() == 0, r.data is None { unimplemented!() }
    #[verifier::external_body]
    pub fn add_submessages<I: Iterator<Item = SubMsg<T>>>(self, msgs: I) -> (r: Self)
        ensures r.messages@ == self.messages@ + msgs.remaining(), r.attributes == self.attributes, r.events == self.events, r.data == self.data
    { unimplemented!() }
    #[verifier::external_body]
    pub fn add_events(self, events: Vec<Event>) -> (r: Self)
        ensures r.events@ == self.events@ + events@, r.attributes == self.attributes, r.messages == self.messages, r.data == self.data
    { unimplemented!() }
    #[verifier::external_body]
    pub fn add_attributes(self, attrs: Vec<Attribute>) -> (r: Self)
        ensures r.attributes@ == self.attributes@ + attrs@, r.events == self.events, r.messages == self.messages, r.data == self.data
    { unimplemented!() }
}
pub open spec fn lift_sub<C>(m: SubMsg<Empty>) -> SubMsg<C> {
    SubMsg { id: m.id, payload: m.payload, msg: lift_msg::<C>(m.msg), gas_limit: m.gas_limit, reply_on: m.reply_on }
}
//@ fn src/contracts.rs :: customize_response
//@   ret r
//@   replace_re? "where\\s*C: CustomMsg,\\s*" => ""
//@   replace_re "resp\\.messages\\.into_iter\\(\\)\\.map\\(customize_msg::<C>\\)" => "iter_map(resp.messages.into_iter(), |vx_m: SubMsg<Empty>| -> (o: SubMsg<C>) ensures o == lift_sub::<C>(vx_m) { customize_msg::<C>(vx_m) })"
//@   ensures [C17.lift_resp.messages,C04] r.messages@.len() == resp.messages@.len() && forall|i: int| 0 <= i < resp.messages@.len() ==> #[trigger] r.messages@[i] == lift_sub::<C>(resp.messages@[i])
//@   ensures [C17.lift_resp.rest,C04] r.events@ == resp.events@ && r.attributes@ == resp.attributes@ && r.data == resp.data
//@ end

// ------------------------------------------------------------------ contracts.rs : the closures that adapt an Empty-typed entry
// point to the chain's custom message / query types (ContractWrapper::new_with_empty, with_sudo_empty, with_migrate_empty).
// rule R26: a fn-pointer parameter `raw_fn: XFn<..>` is read as a generic `F: Fn(..) -> ..` (Verus has no fn-pointer
// types); rule R27: the `Box<dyn Fn(..)>` result is read as `impl Fn(..)` and `Box::new(` .. `)` is dropped (Verus has no
// dyn-Fn objects).  What is dropped: the boxing and the unsizing coercion; the closure text is the repository's.
//@ fn src/contracts.rs :: decustomize_deps_mut
//@   ret r
//@   replace_re? "where\\s*Q: CustomQuery \\+ DeserializeOwned,\\s*" => ""
//@   ensures [C17.decust.same_state] r.storage.view() == old(deps).storage.view() && r.querier.snap() == old(deps).querier.snap()
//@   ensures [C17.decust.writes_through] final(deps).storage.view() == final(r.storage).view() && final(final(deps).storage).view() == final(old(deps).storage).view()
//@ end
//@ fn src/contracts.rs :: decustomize_deps
//@   ret r
//@   replace_re? "where\\s*Q: CustomQuery \\+ DeserializeOwned,\\s*" => ""
//@   ensures [C17.decust_ro.same_state] r.storage.view() == deps.storage.view() && r.querier.snap() == deps.querier.snap()
//@ end
pub open spec fn no_custom(resp: Response<Empty>) -> bool {
    forall|i: int| 0 <= i < resp.messages@.len() ==> !((#[trigger] resp.messages@[i]).msg is Custom)
}
// `o` is the lifted image of `o0`: errors pass through, a response is customize_response of the raw one
pub open spec fn lifted_result<C, E>(o0: Result<Response<Empty>, E>, o: Result<Response<C>, E>) -> bool {
    match o0 {
        Err(e) => o == Result::<Response<C>, E>::Err(e),
        Ok(resp) => o is Ok && {
            let r = o->Ok_0;
            &&& r.messages@.len() == resp.messages@.len()
            &&& forall|i: int| 0 <= i < resp.messages@.len() ==> #[trigger] r.messages@[i] == lift_sub::<C>(resp.messages@[i])
            &&& r.events@ == resp.events@ && r.attributes@ == resp.attributes@ && r.data == resp.data
        },
    }
}
// the customised closure ran the raw entry point exactly once, on the caller's storage and querier snapshot, with the
// same env and message, and its writes are the caller's writes
#[verifier::prophetic]
pub open spec fn perm_lifted<T, C, E, Q, F: Fn(DepsMut<Empty>, Env, T) -> Result<Response<Empty>, E>>(raw_fn: F, d: DepsMut<Q>, env: Env, msg: T, o: Result<Response<C>, E>) -> bool {
    exists|d0: DepsMut<Empty>, o0: Result<Response<Empty>, E>| d0.storage.view() == d.storage.view() && d0.querier.snap() == d.querier.snap()
        && final(d0.storage).view() == final(d.storage).view() && #[trigger] raw_fn.ensures((d0, env, msg), o0) && lifted_result::<C, E>(o0, o)
}
pub open spec fn perm_ready<T, E, Q, F: Fn(DepsMut<Empty>, Env, T) -> Result<Response<Empty>, E>>(raw_fn: F, d: DepsMut<Q>, env: Env, msg: T) -> bool {
    &&& forall|d0: DepsMut<Empty>| d0.storage.view() == d.storage.view() && d0.querier.snap() == d.querier.snap() ==> #[trigger] raw_fn.requires((d0, env, msg))
}
//@ fn src/contracts.rs :: customize_permissioned_fn
//@   ret r
//@   replace_re "fn customize_permissioned_fn<T, C, E, Q>\\(\\s*raw_fn: PermissionedFn<T, Empty, E, Empty>,\\s*\\) -> PermissionedClosure<T, C, E, Q>\\s*where[\\s\\S]*?\\{" => "fn customize_permissioned_fn<T, C, E, Q, F: Fn(DepsMut<Empty>, Env, T) -> Result<Response<Empty>, E>>(raw_fn: F) -> impl Fn(DepsMut<Q>, Env, T) -> Result<Response<C>, E> {"
//@   replace_re "Box::new\\(\\s*(?P<B>move[\\s\\S]*\\}),\\s*\\)" => "\\g<B>"
//@   replace_re "-> Result<Response<C>, E> \\{\\s*let deps" => "-> (o: Result<Response<C>, E>) requires perm_ready::<T, E, Q, F>(raw_fn, deps, env, msg) ensures perm_lifted::<T, C, E, Q, F>(raw_fn, deps, env, msg, o) { let deps"
//@   ensures [C17.perm_fn.ready] forall|d: DepsMut<Q>, env: Env, msg: T| perm_ready::<T, E, Q, F>(raw_fn, d, env, msg) ==> #[trigger] r.requires((d, env, msg))
//@   ensures [C17.perm_fn.sem,C04,C13] forall|d: DepsMut<Q>, env: Env, msg: T, o: Result<Response<C>, E>| #[trigger] r.ensures((d, env, msg), o) ==> perm_lifted::<T, C, E, Q, F>(raw_fn, d, env, msg, o)
//@ end
#[verifier::prophetic]
pub open spec fn contract_lifted<T, C, E, Q, F: Fn(DepsMut<Empty>, Env, MessageInfo, T) -> Result<Response<Empty>, E>>(raw_fn: F, d: DepsMut<Q>, env: Env, info: MessageInfo, msg: T, o: Result<Response<C>, E>) -> bool {
    exists|d0: DepsMut<Empty>, o0: Result<Response<Empty>, E>| d0.storage.view() == d.storage.view() && d0.querier.snap() == d.querier.snap()
        && final(d0.storage).view() == final(d.storage).view() && #[trigger] raw_fn.ensures((d0, env, info, msg), o0) && lifted_result::<C, E>(o0, o)
}
pub open spec fn contract_ready<T, E, Q, F: Fn(DepsMut<Empty>, Env, MessageInfo, T) -> Result<Response<Empty>, E>>(raw_fn: F, d: DepsMut<Q>, env: Env, info: MessageInfo, msg: T) -> bool {
    &&& forall|d0: DepsMut<Empty>| d0.storage.view() == d.storage.view() && d0.querier.snap() == d.querier.snap() ==> #[trigger] raw_fn.requires((d0, env, info, msg))
}
//@ fn src/contracts.rs :: customize_contract_fn
//@   ret r
//@   replace_re "fn customize_contract_fn<T, C, E, Q>\\(\\s*raw_fn: ContractFn<T, Empty, E, Empty>,\\s*\\) -> ContractClosure<T, C, E, Q>\\s*where[\\s\\S]*?\\{" => "fn customize_contract_fn<T, C, E, Q, F: Fn(DepsMut<Empty>, Env, MessageInfo, T) -> Result<Response<Empty>, E>>(raw_fn: F) -> impl Fn(DepsMut<Q>, Env, MessageInfo, T) -> Result<Response<C>, E> {"
//@   replace_re "Box::new\\(\\s*(?P<B>move[\\s\\S]*\\}),\\s*\\)" => "\\g<B>"
//@   replace_re "-> Result<Response<C>, E> \\{\\s*let deps" => "-> (o: Result<Response<C>, E>) requires contract_ready::<T, E, Q, F>(raw_fn, deps, env, info, msg) ensures contract_lifted::<T, C, E, Q, F>(raw_fn, deps, env, info, msg, o) { let deps"
//@   ensures [C17.contract_fn.ready] forall|d: DepsMut<Q>, env: Env, info: MessageInfo, msg: T| contract_ready::<T, E, Q, F>(raw_fn, d, env, info, msg) ==> #[trigger] r.requires((d, env, info, msg))
//@   ensures [C17.contract_fn.sem,C04,C13] forall|d: DepsMut<Q>, env: Env, info: MessageInfo, msg: T, o: Result<Response<C>, E>| #[trigger] r.ensures((d, env, info, msg), o) ==> contract_lifted::<T, C, E, Q, F>(raw_fn, d, env, info, msg, o)
//@ end
pub open spec fn query_lifted<T, E, Q, F: Fn(Deps<Empty>, Env, T) -> Result<Binary, E>>(raw_fn: F, d: Deps<Q>, env: Env, msg: T, o: Result<Binary, E>) -> bool {
    exists|d0: Deps<Empty>| d0.storage.view() == d.storage.view() && d0.querier.snap() == d.querier.snap() && #[trigger] raw_fn.ensures((d0, env, msg), o)
}
//@ fn src/contracts.rs :: customize_query_fn
//@   ret r
//@   replace_re "fn customize_query_fn<T, E, Q>\\(raw_fn: QueryFn<T, E, Empty>\\) -> QueryClosure<T, E, Q>\\s*where[\\s\\S]*?\\{" => "fn customize_query_fn<T, E, Q, F: Fn(Deps<Empty>, Env, T) -> Result<Binary, E>>(raw_fn: F) -> impl Fn(Deps<Q>, Env, T) -> Result<Binary, E> {"
//@   replace_re "Box::new\\(\\s*(?P<B>move[\\s\\S]*\\}),\\s*\\)" => "\\g<B>"
//@   replace_re "-> Result<Binary, E> \\{\\s*let deps" => "-> (o: Result<Binary, E>) requires forall|d0: Deps<Empty>| d0.storage.view() == deps.storage.view() && d0.querier.snap() == deps.querier.snap() ==> #[trigger] raw_fn.requires((d0, env, msg)) ensures query_lifted::<T, E, Q, F>(raw_fn, deps, env, msg, o) { let deps"
//@   ensures [C17.query_fn.ready] forall|d: Deps<Q>, env: Env, msg: T| (forall|d0: Deps<Empty>| d0.storage.view() == d.storage.view() && d0.querier.snap() == d.querier.snap() ==> #[trigger] raw_fn.requires((d0, env, msg))) ==> #[trigger] r.requires((d, env, msg))
//@   ensures [C17.query_fn.sem] forall|d: Deps<Q>, env: Env, msg: T, o: Result<Binary, E>| #[trigger] r.ensures((d, env, msg), o) ==> query_lifted::<T, E, Q, F>(raw_fn, d, env, msg, o)
//@ end

// ------------------------------------------------------------------ contracts.rs : impl Contract for ContractWrapper -- the last
// hop between the chain and the user's entry points.  Rule R30: the six `Box<dyn Fn(..)>` fields of ContractWrapper are
// read as type parameters F1..F6 bounded by the same Fn signatures (Verus has no dyn-Fn objects); what is dropped is the
// boxing.  Each entry point decodes the message (execute / instantiate / query / sudo / migrate) or takes the Reply as
// it is, calls exactly the closure registered for it with deps, env, info and the decoded message unchanged, passes an
// Ok response through unchanged and turns the closure's error into an error; sudo / reply / migrate fail when no
// closure is registered.
//@ item src/contracts.rs :: struct ContractWrapper
//@   attr #[verifier::reject_recursive_types(T1)]
//@   attr #[verifier::reject_recursive_types(T2)]
//@   attr #[verifier::reject_recursive_types(T3)]
//@   attr #[verifier::reject_recursive_types(E1)]
//@   attr #[verifier::reject_recursive_types(E2)]
//@   attr #[verifier::reject_recursive_types(E3)]
//@   attr #[verifier::reject_recursive_types(C)]
//@   attr #[verifier::reject_recursive_types(Q)]
//@   attr #[verifier::reject_recursive_types(T4)]
//@   attr #[verifier::reject_recursive_types(E4)]
//@   attr #[verifier::reject_recursive_types(E5)]
//@   attr #[verifier::reject_recursive_types(T6)]
//@   attr #[verifier::reject_recursive_types(E6)]
//@   replace_re "pub struct ContractWrapper<[\\s\\S]*?> where[\\s\\S]*?\\{" => "pub struct ContractWrapper<T1, T2, T3, E1, E2, E3, C, Q, T4, E4, E5, T6, E6, F1, F2, F3, F4, F5, F6> {"
//@   replace "execute_fn: ContractClosure<T1, C, E1, Q>," => "execute_fn: F1, vx_p: core::marker::PhantomData<(T1, T2, T3, E1, E2, E3, C, Q, T4, E4, E5, T6, E6)>,"
//@   replace "instantiate_fn: ContractClosure<T2, C, E2, Q>," => "instantiate_fn: F2,"
//@   replace "query_fn: QueryClosure<T3, E3, Q>," => "query_fn: F3,"
//@   replace "sudo_fn: Option<PermissionedClosure<T4, C, E4, Q>>," => "sudo_fn: Option<F4>,"
//@   replace "reply_fn: Option<ReplyClosure<C, E5, Q>>," => "reply_fn: Option<F5>,"
//@   replace "migrate_fn: Option<PermissionedClosure<T6, C, E6, Q>>," => "migrate_fn: Option<F6>,"
//@ end
// `o` (what the user's entry point returned) seen through the wrapper: Ok unchanged, Err as an error
pub open spec fn wrapped<R, E>(o: Result<R, E>, r: AnyResult<R>) -> bool {
    match o { Ok(x) => r == Ok::<R, AnyError>(x), Err(_) => r is Err }
}
//@ impl_open src/contracts.rs :: Contract for ContractWrapper
//@   replace_re "impl<T1, T2, T3, E1, E2, E3, C, T4, E4, E5, T6, E6, Q> Contract<C, Q>\\s*for ContractWrapper<T1, T2, T3, E1, E2, E3, C, Q, T4, E4, E5, T6, E6>\\s*where[\\s\\S]*$" => "impl<T1: DeserializeOwned, T2: DeserializeOwned, T3: DeserializeOwned, E1, E2, E3, C, T4: DeserializeOwned, E4, E5, T6: DeserializeOwned, E6, Q, F1: Fn(DepsMut<Q>, Env, MessageInfo, T1) -> Result<Response<C>, E1>, F2: Fn(DepsMut<Q>, Env, MessageInfo, T2) -> Result<Response<C>, E2>, F3: Fn(Deps<Q>, Env, T3) -> Result<Binary, E3>, F4: Fn(DepsMut<Q>, Env, T4) -> Result<Response<C>, E4>, F5: Fn(DepsMut<Q>, Env, Reply) -> Result<Response<C>, E5>, F6: Fn(DepsMut<Q>, Env, T6) -> Result<Response<C>, E6>> ContractWrapper<T1, T2, T3, E1, E2, E3, C, Q, T4, E4, E5, T6, E6, F1, F2, F3, F4, F5, F6>"
//@ end
//@ fn src/contracts.rs :: Contract for ContractWrapper :: execute
//@   ret r
//@   requires [C05.wrapper.execute_pre] forall|m: T1| spec_from_json::<T1>(msg@) == Ok::<T1, StdError>(m) ==> #[trigger] self.execute_fn.requires((deps, env, info, m))
//@   ensures [C05.wrapper.execute,C03,C04,C17] match spec_from_json::<T1>(msg@) { Err(_) => r is Err, Ok(m) => exists|o: Result<Response<C>, E1>| #[trigger] self.execute_fn.ensures((deps, env, info, m), o) && wrapped(o, r) }
//@ end
//@ fn src/contracts.rs :: Contract for ContractWrapper :: instantiate
//@   ret r
//@   requires [C05.wrapper.instantiate_pre] forall|m: T2| spec_from_json::<T2>(msg@) == Ok::<T2, StdError>(m) ==> #[trigger] self.instantiate_fn.requires((deps, env, info, m))
//@   ensures [C05.wrapper.instantiate,C03,C04,C11] match spec_from_json::<T2>(msg@) { Err(_) => r is Err, Ok(m) => exists|o: Result<Response<C>, E2>| #[trigger] self.instantiate_fn.ensures((deps, env, info, m), o) && wrapped(o, r) }
//@ end
//@ fn src/contracts.rs :: Contract for ContractWrapper :: query
//@   ret r
//@   requires [C10.wrapper.query_pre] forall|m: T3| spec_from_json::<T3>(msg@) == Ok::<T3, StdError>(m) ==> #[trigger] self.query_fn.requires((deps, env, m))
//@   ensures [C10.wrapper.query,C08] match spec_from_json::<T3>(msg@) { Err(_) => r is Err, Ok(m) => exists|o: Result<Binary, E3>| #[trigger] self.query_fn.ensures((deps, env, m), o) && wrapped(o, r) }
//@ end
//@ fn src/contracts.rs :: Contract for ContractWrapper :: sudo
//@   ret r
//@   requires [C05.wrapper.sudo_pre] forall|m: T4| (spec_from_json::<T4>(msg@) == Ok::<T4, StdError>(m) && self.sudo_fn is Some) ==> #[trigger] (self.sudo_fn->0).requires((deps, env, m))
//@   ensures [C05.wrapper.sudo,C01,C20] match spec_from_json::<T4>(msg@) { Err(_) => r is Err, Ok(m) => match self.sudo_fn { None => r is Err, Some(f) => exists|o: Result<Response<C>, E4>| #[trigger] f.ensures((deps, env, m), o) && wrapped(o, r) } }
//@ end
//@ fn src/contracts.rs :: Contract for ContractWrapper :: reply
//@   ret r
//@   requires [C03.wrapper.reply_pre] self.reply_fn is Some ==> (self.reply_fn->0).requires((deps, env, reply_data))
//@   ensures [C03.wrapper.reply,C02,C20] match self.reply_fn { None => r is Err, Some(f) => exists|o: Result<Response<C>, E5>| #[trigger] f.ensures((deps, env, reply_data), o) && wrapped(o, r) }
//@ end
//@ fn src/contracts.rs :: Contract for ContractWrapper :: migrate
//@   ret r
//@   requires [C12.wrapper.migrate_pre] forall|m: T6| (spec_from_json::<T6>(msg@) == Ok::<T6, StdError>(m) && self.migrate_fn is Some) ==> #[trigger] (self.migrate_fn->0).requires((deps, env, m))
//@   ensures [C12.wrapper.migrate,C20] match spec_from_json::<T6>(msg@) { Err(_) => r is Err, Ok(m) => match self.migrate_fn { None => r is Err, Some(f) => exists|o: Result<Response<C>, E6>| #[trigger] f.ensures((deps, env, m), o) && wrapped(o, r) } }
//@ end
//@ fn src/contracts.rs :: Contract for ContractWrapper :: checksum
//@   ret r
//@   ensures [C20.wrapper.checksum_reported] r == self.checksum
//@ end
}
