// ------------------------------------------------------------------ contracts.rs : lifting sub-messages of Empty-typed contracts (C17)
// kind by kind, payload intact; a Custom(Empty) message has no image (excluded by precondition: an Empty-typed
// contract has no custom messages; the code has unreachable!() there)
pub open spec fn lift_msg<C>(m: CosmosMsg<Empty>) -> CosmosMsg<C> {
    match m {
        CosmosMsg::Wasm(x) => CosmosMsg::Wasm(x),
        CosmosMsg::Bank(x) => CosmosMsg::Bank(x),
        CosmosMsg::Staking(x) => CosmosMsg::Staking(x),
        CosmosMsg::Distribution(x) => CosmosMsg::Distribution(x),
        CosmosMsg::Ibc(x) => CosmosMsg::Ibc(x),
        CosmosMsg::Any(x) => CosmosMsg::Any(x),
        CosmosMsg::Gov(x) => CosmosMsg::Gov(x),
        CosmosMsg::Stargate { type_url, value } => CosmosMsg::Stargate { type_url, value },
        CosmosMsg::Custom(_) => arbitrary(),
    }
}
//@ fn src/contracts.rs :: customize_msg
//@   ret r
//@   requires [C17.lift.pre] !(msg.msg is Custom)
//@   ensures [C17.lift.kind] r.msg == lift_msg::<C>(msg.msg)
//@   ensures [C17.lift.frame] r.id == msg.id && r.payload == msg.payload && r.gas_limit == msg.gas_limit && r.reply_on == msg.reply_on
//@   replace_re? "where\\s*C: CustomMsg,\\s*" => ""
//@ end

// cosmwasm_std::Response builder calls used by customize_response   (ASSUMED: std docs of cosmwasm-std 2.2.2 results/response.rs)
impl<T> Response<T> {
    #[verifier::external_body]
    pub fn new() -> (r: Self) ensures r.messages@.len() == 0, r.attributes@.len() == 0, r.events@.len() == 0, r.data is None { unimplemented!() }
    #[verifier::external_body]
    pub fn add_submessages<I: Iterator<Item = SubMsg<T>>>(self, msgs: I) -> (r: Self)
        ensures r.messages@ == self.messages@ + msgs.remaining(), r.attributes == self.attributes, r.events == self.events, r.data == self.data
    { unimplemented!() }
    #[verifier::external_body]
    pub fn add_events(self, events: Vec<Event>) -> (r: Self)
        ensures r.events@ == self.events@ + events@, r.attributes == self.attributes, r.messages == self.messages, r.data == self.data
    { unimplemented!() }
    #[verifier::external_body]
    pub fn add_attributes(self, attrs: Vec<Attribute>) -> (r: Self)
        ensures r.attributes@ == self.attributes@ + attrs@, r.events == self.events, r.messages == self.messages, r.data == self.data
    { unimplemented!() }
}
pub open spec fn lift_sub<C>(m: SubMsg<Empty>) -> SubMsg<C> {
    SubMsg { id: m.id, payload: m.payload, msg: lift_msg::<C>(m.msg), gas_limit: m.gas_limit, reply_on: m.reply_on }
}
//@ fn src/contracts.rs :: customize_response
//@   ret r
//@   replace_re? "where\\s*C: CustomMsg,\\s*" => ""
//@   replace_re "resp\\.messages\\.into_iter\\(\\)\\.map\\(customize_msg::<C>\\)" => "iter_map(resp.messages.into_iter(), |vx_m: SubMsg<Empty>| -> (o: SubMsg<C>) requires !(vx_m.msg is Custom) ensures o == lift_sub::<C>(vx_m) { customize_msg::<C>(vx_m) })"
//@   requires [C17.lift_resp.pre] forall|i: int| 0 <= i < resp.messages@.len() ==> !((#[trigger] resp.messages@[i]).msg is Custom)
//@   ensures [C17.lift_resp.messages,C04] r.messages@.len() == resp.messages@.len() && forall|i: int| 0 <= i < resp.messages@.len() ==> #[trigger] r.messages@[i] == lift_sub::<C>(resp.messages@[i])
//@   ensures [C17.lift_resp.rest,C04] r.events@ == resp.events@ && r.attributes@ == resp.attributes@ && r.data == resp.data
//@ end
