// ------------------------------------------------------------------ contracts.rs : lifting sub-messages of Empty-typed contracts (C17)
// kind by kind, payload intact; a Custom(Empty) message has no image (excluded by precondition: an Empty-typed
// contract has no custom messages; the code has unreachable!() there)
pub open spec fn lift_msg<C>(m: CosmosMsg<Empty>) -> CosmosMsg<C> {
    match m {
        CosmosMsg::Wasm(x) => CosmosMsg::Wasm(x),
        CosmosMsg::Bank(x) => CosmosMsg::Bank(x),
        CosmosMsg::Staking(x) => CosmosMsg::Staking(x),
        CosmosMsg::Distribution(x) => CosmosMsg::Distribution(x),
        CosmosMsg::Ibc(x) => CosmosMsg::Ibc(x),
        CosmosMsg::Any(x) => CosmosMsg::Any(x),
        CosmosMsg::Gov(x) => CosmosMsg::Gov(x),
        CosmosMsg::Stargate { type_url, value } => CosmosMsg::Stargate { type_url, value },
        CosmosMsg::Custom(_) => arbitrary(),
    }
}
//@ fn src/contracts.rs :: customize_msg
//@   ret r
//@   requires [C17.lift.pre] !(msg.msg is Custom)
//@   ensures [C17.lift.kind] r.msg == lift_msg::<C>(msg.msg)
//@   ensures [C17.lift.frame] r.id == msg.id && r.payload == msg.payload && r.gas_limit == msg.gas_limit && r.reply_on == msg.reply_on
//@   replace_re? "where\\s*C: CustomMsg,\\s*" => ""
//@ end
