// ------------------------------------------------------------------ src/module.rs : the two stock modules an application is
// built with for the message kinds it does not support (FailingModule: every call is an error) or ignores
// (AcceptingModule: every call succeeds with the default response).  Neither touches the store.
//@ item! src/module.rs :: struct FailingModule
//@ item! src/module.rs :: struct AcceptingModule
//@ impl_open src/module.rs :: Module for FailingModule
//@   replace_re? "where\\s*ExecT: Debug,\\s*QueryT: Debug,\\s*SudoT: Debug,\\s*" => ""
//@ end
    type ExecT = ExecT;
    type QueryT = QueryT;
    type SudoT = SudoT;
    open spec fn exec_sem<ExecC, QueryC>(&self, router: &dyn CosmosRouter<ExecC, QueryC>, pre: St, block: BlockInfo, sender: Addr, msg: ExecT) -> (AnyResult<AppResponse>, St) { (Err(AnyError), pre) }
    open spec fn query_sem(&self, qsnap: (St, BlockInfo), st: St, block: BlockInfo, request: QueryT) -> AnyResult<Binary> { Err(AnyError) }
    open spec fn sudo_sem<ExecC, QueryC>(&self, router: &dyn CosmosRouter<ExecC, QueryC>, pre: St, block: BlockInfo, msg: SudoT) -> (AnyResult<AppResponse>, St) { (Err(AnyError), pre) }
//@ fn src/module.rs :: Module for FailingModule :: execute
//@   ret r
//@   ensures [C17.failing.exec] r is Err && final(_storage).view() == old(_storage).view()
//@ end
//@ fn src/module.rs :: Module for FailingModule :: query
//@   ret r
//@   ensures [C17.failing.query,C10] r is Err
//@ end
//@ fn src/module.rs :: Module for FailingModule :: sudo
//@   ret r
//@   ensures [C17.failing.sudo] r is Err && final(_storage).view() == old(_storage).view()
//@ end
}
//@ impl_open src/module.rs :: Module for AcceptingModule
//@   replace_re? "where\\s*ExecT: Debug,\\s*QueryT: Debug,\\s*SudoT: Debug,\\s*" => ""
//@ end
    type ExecT = ExecT;
    type QueryT = QueryT;
    type SudoT = SudoT;
    open spec fn exec_sem<ExecC, QueryC>(&self, router: &dyn CosmosRouter<ExecC, QueryC>, pre: St, block: BlockInfo, sender: Addr, msg: ExecT) -> (AnyResult<AppResponse>, St) { (Ok(default_app()), pre) }
    open spec fn query_sem(&self, qsnap: (St, BlockInfo), st: St, block: BlockInfo, request: QueryT) -> AnyResult<Binary> { Ok(empty_binary()) }
    open spec fn sudo_sem<ExecC, QueryC>(&self, router: &dyn CosmosRouter<ExecC, QueryC>, pre: St, block: BlockInfo, msg: SudoT) -> (AnyResult<AppResponse>, St) { (Ok(default_app()), pre) }
//@ fn src/module.rs :: Module for AcceptingModule :: execute
//@   ret r
//@   begin broadcast use {axiom_vec_canon, axiom_vec_of_view, lemma_vec_ext_b};
//@   ensures [C17.accepting.exec] r == Ok::<AppResponse, AnyError>(default_app()) && final(_storage).view() == old(_storage).view()
//@ end
//@ fn src/module.rs :: Module for AcceptingModule :: query
//@   ret r
//@   begin broadcast use {axiom_vec_canon, axiom_vec_of_view, lemma_vec_ext_b};
//@   ensures [C17.accepting.query,C10] r is Ok && r->Ok_0.b@.len() == 0
//@ end
//@ fn src/module.rs :: Module for AcceptingModule :: sudo
//@   ret r
//@   begin broadcast use {axiom_vec_canon, axiom_vec_of_view, lemma_vec_ext_b};
//@   ensures [C17.accepting.sudo] r == Ok::<AppResponse, AnyError>(default_app()) && final(_storage).view() == old(_storage).view()
//@ end
}

// ------------------------------------------------------------------ src/stargate.rs : the stock Stargate handlers.  StargateFailing
// uses the trait's default methods (every call is an error); they are emitted as inherent methods of it (rule R12).
// StargateAccepting succeeds with the default response / an empty answer.  Neither touches the store.
//@ item! src/stargate.rs :: struct StargateFailing
//@ item! src/stargate.rs :: struct StargateAccepting
impl StargateFailing {
//@ fn src/stargate.rs :: trait Stargate :: execute_stargate
//@   ret r
//@   replace_re? "where\\s*ExecC: CustomMsg \\+ DeserializeOwned \\+ 'static,\\s*QueryC: CustomQuery \\+ DeserializeOwned \\+ 'static,\\s*" => ""
//@   ensures [C17.stargate_failing.exec] r is Err && final(_storage).view() == old(_storage).view()
//@ end
//@ fn src/stargate.rs :: trait Stargate :: query_stargate
//@   ret r
//@   ensures [C17.stargate_failing.query,C10] r is Err
//@ end
//@ fn src/stargate.rs :: trait Stargate :: execute_any
//@   ret r
//@   replace_re? "where\\s*ExecC: CustomMsg \\+ DeserializeOwned \\+ 'static,\\s*QueryC: CustomQuery \\+ DeserializeOwned \\+ 'static,\\s*" => ""
//@   ensures [C17.stargate_failing.any] r is Err && final(_storage).view() == old(_storage).view()
//@ end
//@ fn src/stargate.rs :: trait Stargate :: query_grpc
//@   ret r
//@   ensures [C17.stargate_failing.grpc,C10] r is Err
//@ end
}
impl StargateAccepting {
//@ fn src/stargate.rs :: Stargate for StargateAccepting :: execute_stargate
//@   ret r
//@   begin broadcast use {axiom_vec_canon, axiom_vec_of_view, lemma_vec_ext_b};
//@   replace_re? "where\\s*ExecC: CustomMsg \\+ DeserializeOwned \\+ 'static,\\s*QueryC: CustomQuery \\+ DeserializeOwned \\+ 'static,\\s*" => ""
//@   ensures [C17.stargate_accepting.exec] r == Ok::<AppResponse, AnyError>(default_app()) && final(_storage).view() == old(_storage).view()
//@ end
//@ fn src/stargate.rs :: Stargate for StargateAccepting :: query_stargate
//@   ret r
//@   replace? ".map_err(Into::into)" => ".map_err(|vx_e: StdError| -> (vx_o: AnyError) { AnyError })"
//@   ensures [C17.stargate_accepting.query,C10] (r is Ok) == spec_json_ok(Empty {}) && (r is Ok ==> r->Ok_0 == spec_json(Empty {}))
//@ end
//@ fn src/stargate.rs :: Stargate for StargateAccepting :: execute_any
//@   ret r
//@   begin broadcast use {axiom_vec_canon, axiom_vec_of_view, lemma_vec_ext_b};
//@   replace_re? "where\\s*ExecC: CustomMsg \\+ DeserializeOwned \\+ 'static,\\s*QueryC: CustomQuery \\+ DeserializeOwned \\+ 'static,\\s*" => ""
//@   ensures [C17.stargate_accepting.any] r == Ok::<AppResponse, AnyError>(default_app()) && final(_storage).view() == old(_storage).view()
//@ end
//@ fn src/stargate.rs :: Stargate for StargateAccepting :: query_grpc
//@   ret r
//@   ensures [C17.stargate_accepting.grpc,C10] r is Ok && r->Ok_0.b@.len() == 0
//@ end
}
