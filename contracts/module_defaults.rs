// ------------------------------------------------------------------ src/module.rs : the two stock modules an application is
// built with for the message kinds it does not support (FailingModule: every call is an error) or ignores
// (AcceptingModule: every call succeeds with the default response).  Neither touches the store.
//@ item! src/module.rs :: struct FailingModule
//@ item! src/module.rs :: struct AcceptingModule
//@ impl_open src/module.rs :: Module for FailingModule
//@   replace_re? "where\\s*ExecT: Debug,\\s*QueryT: Debug,\\s*SudoT: Debug,\\s*" => ""
//@ end
    type ExecT = ExecT;
    type QueryT = QueryT;
    type SudoT = SudoT;
    open spec fn exec_sem<ExecC, QueryC>(&self, router: &dyn CosmosRouter<ExecC, QueryC>, pre: St, block: BlockInfo, sender: Addr, msg: ExecT) -> (AnyResult<AppResponse>, St) { (Err(AnyError), pre) }
    open spec fn query_sem(&self, qsnap: (St, BlockInfo), st: St, block: BlockInfo, request: QueryT) -> AnyResult<Binary> { Err(AnyError) }
    open spec fn sudo_sem<ExecC, QueryC>(&self, router: &dyn CosmosRouter<ExecC, QueryC>, pre: St, block: BlockInfo, msg: SudoT) -> (AnyResult<AppResponse>, St) { (Err(AnyError), pre) }
//@ fn src/module.rs :: Module for FailingModule :: execute
//@   ret r
//@   ensures [C17.failing.exec] r is Err && final(_storage).view() == old(_storage).view()
//@ end
//@ fn src/module.rs :: Module for FailingModule :: query
//@   ret r
//@   ensures [C17.failing.query,C10] r is Err
//@ end
//@ fn src/module.rs :: Module for FailingModule :: sudo
//@   ret r
//@   ensures [C17.failing.sudo] r is Err && final(_storage).view() == old(_storage).view()
//@ end
}
//@ impl_open src/module.rs :: Module for AcceptingModule
//@   replace_re? "where\\s*ExecT: Debug,\\s*QueryT: Debug,\\s*SudoT: Debug,\\s*" => ""
//@ end
    type ExecT = ExecT;
    type QueryT = QueryT;
    type SudoT = SudoT;
    open spec fn exec_sem<ExecC, QueryC>(&self, router: &dyn CosmosRouter<ExecC, QueryC>, pre: St, block: BlockInfo, sender: Addr, msg: ExecT) -> (AnyResult<AppResponse>, St) { (Ok(default_app()), pre) }
    open spec fn query_sem(&self, qsnap: (St, BlockInfo), st: St, block: BlockInfo, request: QueryT) -> AnyResult<Binary> { Ok(empty_binary()) }
    open spec fn sudo_sem<ExecC, QueryC>(&self, router: &dyn CosmosRouter<ExecC, QueryC>, pre: St, block: BlockInfo, msg: SudoT) -> (AnyResult<AppResponse>, St) { (Ok(default_app()), pre) }
//@ fn src/module.rs :: Module for AcceptingModule :: execute
//@   ret r
//@   begin broadcast use {axiom_vec_canon, axiom_vec_of_view, lemma_vec_ext_b};
//@   ensures [C17.accepting.exec] r == Ok::<AppResponse, AnyError>(default_app()) && final(_storage).view() == old(_storage).view()
//@ end
//@ fn src/module.rs :: Module for AcceptingModule :: query
//@   ret r
//@   begin broadcast use {axiom_vec_canon, axiom_vec_of_view, lemma_vec_ext_b};
//@   ensures [C17.accepting.query,C10] r is Ok && r->Ok_0.b@.len() == 0
//@ end
//@ fn src/module.rs :: Module for AcceptingModule :: sudo
//@   ret r
//@   begin broadcast use {axiom_vec_canon, axiom_vec_of_view, lemma_vec_ext_b};
//@   ensures [C17.accepting.sudo] r == Ok::<AppResponse, AnyError>(default_app()) && final(_storage).view() == old(_storage).view()
//@ end
}
