// ------------------------------------------------------------------ wasm.rs : registry (contracts map) and code tables
//@ item src/wasm.rs :: const CONTRACTS
//@   replace "Map<&Addr, ContractData>" => "Map<&'static Addr, ContractData>"
//@   exec_const CONTRACTS.ns() == str_bytes("contracts"@)
//@ end
//@ item src/wasm.rs :: const NAMESPACE_WASM
//@   replace "&[u8]" => "&'static [u8]"
//@ end

//@ impl_open src/wasm.rs :: WasmKeeper
//@   pick fn register_contract
//@   replace "ExecC: CustomMsg + DeserializeOwned + 'static," => ""
//@   replace "QueryC: CustomQuery + DeserializeOwned + 'static," => ""
//@ end
//@ fn src/wasm.rs :: Wasm for WasmKeeper :: contract_data
//@   ret r
//@   ensures [C11.contract_data.sem,C12,C08] r == self.contract_data_sem(storage.view(), *address)
//@   replace? ".map_err(Into::into)" => ""
//@   replace? "CONTRACTS\n            .load(" => "std_to_any(CONTRACTS\n            .load("
//@   replace? "NAMESPACE_WASM), address)" => "NAMESPACE_WASM), address))"
//@   begin proof { lemma_contract_key(storage.view(), *address); }
//@ end
//@ fn src/wasm.rs :: WasmKeeper :: save_contract
//@   ret r
//@   ensures [C11.save_contract.sem,C12] (r, final(storage).view()) == self.save_contract_sem(old(storage).view(), *address, *contract)
//@   replace? ".map_err(Into::into)" => ""
//@   replace? "CONTRACTS\n            .save(" => "std_to_any(CONTRACTS\n            .save("
//@   replace? "address, contract)" => "address, contract))"
//@   begin proof { lemma_contract_key_insert(old(storage).view(), *address, contract.ser()); lemma_splice_same(old(storage).view(), lp(ns_wasm())); }
//@ end
// the real body (cw-storage-plus range_raw over the whole contracts map, then Iterator::count) is verified against the
// DEFINED count of the records of the contracts window (seed C11-m16, which counted per code id, used to pass while this
// was an assumed stub)
//@ fn src/wasm.rs :: WasmKeeper :: instance_count
//@   ret r
//@   ensures [C11.instance_count.fn,C19] r == spec_instance_count(storage.view())
//@   replace "CONTRACTS\n            .range_raw(" => "let vx_it = CONTRACTS\n            .range_raw("
//@   replace "            )\n            .count()" => "            );\n        let vx_n = vx_it.count();\n        proof { if has_range_len(window(window(storage.view(), lp(ns_wasm())), lp(ns_contracts())), vx_n as nat) { lemma_instance_count(storage.view(), vx_n as nat); } }\n        vx_n"
//@ end

//@ fn src/wasm.rs :: WasmKeeper :: code_data
//@   ret r
//@   ensures [C11.code_data.total] (r is Ok) == (code_id >= 1 && self.code_data@.contains_key(code_id))
//@   ensures [C11.code_data.value] r is Ok ==> *r.unwrap() == self.code_data@[code_id]
//@   replace_re? "\\.ok_or_else\\(\\|\\| Error::unregistered_code_id\\(code_id\\)\\)" => ".ok_or(AnyError)"
//@ end

//@ fn src/wasm.rs :: WasmKeeper :: register_contract
//@   ret r
//@   ensures [C11.register.sem,C08,C19] (r, final(storage).view()) == self.register_sem(old(storage).view(), code_id, creator, admin, label, created, salt)
//@   replace "admin: impl Into<Option<Addr>>," => "admin: Option<Addr>,"
//@   replace "salt: impl Into<Option<Binary>>," => "salt: Option<Binary>,"
//@   replace? "= salt.into() {" => "= salt {"
//@   replace? "admin: admin.into()," => "admin: admin,"
//@   replace? "creator.as_ref()" => "creator.as_str()"
//@ end
//@ fn src/wasm.rs :: WasmKeeper :: update_admin
//@   ret r
//@   ensures [C12.update_admin.sem] (r, final(storage).view()) == self.update_admin_sem(old(storage).view(), sender, contract_addr@, new_admin)
//@   begin broadcast use {axiom_vec_canon, axiom_vec_of_view, axiom_str_canon, axiom_str_of_view, lemma_str_ext_b};
//@   replace_re? "new_admin\\.map\\(\\|a\\| (?P<C>api\\.addr_validate\\(&a\\))\\)" => "new_admin.map(|a: String| -> (o: StdResult<Addr>) ensures (o is Ok) == spec_valid_addr(a@) && (o is Ok ==> o.unwrap().s@ == a@) { \\g<C> })"
//@ end

// ---- code ids (C11)
//@ fn src/wasm.rs :: WasmKeeper :: next_code_id
//@   ret r
//@   ensures [C11.next.max_plus_one,C19] r == (if self.max_id() == u64::MAX { None::<u64> } else { Some((self.max_id() + 1) as u64) })
//@   replace? "self.code_data.keys().last().unwrap_or(&0u64)" => "btree_last_key_or(&self.code_data, &0u64)"
//@   begin proof { lemma_max_id(self.code_data@); }
//@ end
//@ fn src/wasm.rs :: WasmKeeper :: save_code
//@   ret r
//@   requires [C11.save_code.pre] old(self).codes_wf() && code_id >= 1
//@   ensures [C11.save_code.keeps_wf] final(self).codes_wf()
//@   ensures [C11.save_code.sem,C19] r == code_id && final(self).code_base@ == old(self).code_base@.push(code) && final(self).code_data@ == old(self).code_data@.insert(code_id, CodeData { creator: creator, checksum: (match code.checksum_sem() { Some(c) => c, None => old(self).checksum_generator.checksum_sem(creator, code_id) }), source_id: old(self).code_base@.len() as usize })
//@   ensures [C11.save_code.serves,C12] final(self).code_of(code_id) == Some(&*code) && forall|k: u64| k != code_id && old(self).has_code(k) ==> #[trigger] final(self).code_of(k) == old(self).code_of(k)
//@   ensures [C11.save_code.frame] final(self).address_generator == old(self).address_generator && final(self).checksum_generator == old(self).checksum_generator
//@ end
//@ fn src/wasm.rs :: Wasm for WasmKeeper :: store_code
//@   ret r
//@   requires [C11.store_code.pre] old(self).codes_wf() && old(self).max_id() < u64::MAX
//@   ensures [C11.store_code.keeps_wf] final(self).codes_wf()
//@   ensures [C11.store_code.serves_new,C12] final(self).code_of(r) == Some(&*code) && forall|k: u64| old(self).has_code(k) ==> #[trigger] final(self).code_of(k) == old(self).code_of(k)
//@   ensures [C11.store_code.fresh_id] r == old(self).max_id() + 1 && !old(self).has_code(r) && final(self).has_code(r) && forall|k: u64| old(self).has_code(k) ==> final(self).code_data@.contains_key(k) && final(self).code_data@[k] == old(self).code_data@[k]
//@   replace_re? "\\.unwrap_or_else\\(\\|\\| panic!\\(\\)\\)" => ".unwrap()"
//@   begin proof { lemma_max_id(self.code_data@); }
//@ end
//@ fn src/wasm.rs :: Wasm for WasmKeeper :: store_code_with_id
//@   ret r
//@   requires [C11.store_with_id.pre] old(self).codes_wf()
//@   ensures [C11.store_with_id.keeps_wf] final(self).codes_wf()
//@   ensures [C11.store_with_id.iff] (r is Ok) == (code_id != 0 && !old(self).has_code(code_id))
//@   ensures [C11.store_with_id.serves_new,C12] r is Ok ==> final(self).code_of(code_id) == Some(&*code) && forall|k: u64| old(self).has_code(k) ==> #[trigger] final(self).code_of(k) == old(self).code_of(k)
//@   ensures [C11.store_with_id.honoured] r is Ok ==> r.unwrap() == code_id && final(self).has_code(code_id) && forall|k: u64| old(self).has_code(k) ==> final(self).code_data@.contains_key(k) && final(self).code_data@[k] == old(self).code_data@[k]
//@   ensures [C11.store_with_id.err_unchanged] r is Err ==> final(self).code_data@ == old(self).code_data@ && final(self).code_base@ == old(self).code_base@
//@ end
//@ fn src/wasm.rs :: Wasm for WasmKeeper :: duplicate_code
//@   ret r
//@   requires [C11.dup.pre] old(self).codes_wf()
//@   ensures [C11.dup.keeps_wf] final(self).codes_wf()
//@   ensures [C11.dup.iff] (r is Ok) == (code_id >= 1 && old(self).has_code(code_id) && old(self).max_id() < u64::MAX)
//@   ensures [C11.dup.shares_source] r is Ok ==> r.unwrap() == old(self).max_id() + 1 && !old(self).has_code(r.unwrap()) && final(self).code_data@ == old(self).code_data@.insert(r.unwrap(), old(self).code_data@[code_id]) && final(self).code_base@ == old(self).code_base@
//@   ensures [C11.dup.err_unchanged] r is Err ==> final(self).code_data@ == old(self).code_data@ && final(self).code_base@ == old(self).code_base@
//@   replace_re? "\\.ok_or_else\\(Error::no_more_code_id_available\\)" => ".ok_or(AnyError)"
//@   begin proof { lemma_max_id(self.code_data@); }
//@ end
// ---- a new keeper has no codes
//@ fn src/wasm.rs :: Default for WasmKeeper :: default
//@   ret r
//@   ensures [C11.default.empty,C12] r.code_base@.len() == 0 && r.code_data@ == vstd::map::Map::<u64, CodeData>::empty() && r.codes_wf()
//@   replace "std::marker::PhantomData" => "core::marker::PhantomData"
//@ end
//@ fn src/wasm.rs :: WasmKeeper :: new
//@   ret r
//@   ensures [C11.new.empty,C12] r.code_base@.len() == 0 && r.code_data@ == vstd::map::Map::<u64, CodeData>::empty() && r.codes_wf()
//@ end
// ---- builders: replacing a generator keeps the code tables (a keeper populated with codes can still be customised)
//@ fn src/wasm.rs :: WasmKeeper :: with_address_generator
//@   ret r
//@   ensures [C11.with_addr_gen.keeps_codes,C12] r.code_base == self.code_base && r.code_data == self.code_data && r.checksum_generator == self.checksum_generator
//@ end
//@ fn src/wasm.rs :: WasmKeeper :: with_checksum_generator
//@   ret r
//@   ensures [C11.with_sum_gen.keeps_codes,C12] r.code_base == self.code_base && r.code_data == self.code_data && r.address_generator == self.address_generator
//@ end
}

// raw key of the registry record: what CONTRACTS.load(prefixed_read(storage, "wasm"), addr) reads
pub proof fn lemma_contract_key(s: St, a: Addr)
    ensures
        window(s, lp(ns_wasm())).contains_key(lp(ns_contracts()) + a.bytes()) == s.contains_key(contract_key(a)),
        s.contains_key(contract_key(a)) ==> window(s, lp(ns_wasm()))[lp(ns_contracts()) + a.bytes()] == s[contract_key(a)],
{
}
pub proof fn lemma_contract_key_insert(s: St, a: Addr, v: Seq<u8>)
    ensures splice(s, lp(ns_wasm()), window(s, lp(ns_wasm())).insert(lp(ns_contracts()) + a.bytes(), v)) == s.insert(contract_key(a), v)
{
    lemma_splice_insert(s, lp(ns_wasm()), lp(ns_contracts()) + a.bytes(), v);
}
// any ordered range of the contracts window has the length spec_instance_count chooses
pub proof fn lemma_instance_count(s: St, n: nat)
    requires has_range_len(window(window(s, lp(ns_wasm())), lp(ns_contracts())), n), n <= usize::MAX
    ensures spec_instance_count(s) as nat == n
{
    reveal(spec_instance_count);
    let w = window(window(s, lp(ns_wasm())), lp(ns_contracts()));
    let (recs, o1) = choose|recs: Seq<RecV>, o: Order| #[trigger] is_range_of(recs, w, None, None, o) && recs.len() == n;
    let n0 = n as usize;
    assert(has_range_len(w, n0 as nat));
    let c = spec_instance_count(s);
    assert(has_range_len(w, c as nat));
    let (r3, o3) = choose|r3: Seq<RecV>, o: Order| #[trigger] is_range_of(r3, w, None, None, o) && r3.len() == c as nat;
    lemma_range_len_unique(recs, r3, w, o1, o3);
}
// max_id is an upper bound of the ids in use and is itself in use (or 0)
pub proof fn lemma_max_id<V>(m: vstd::map::Map<u64, V>)
    requires m.dom().finite()
    ensures ({ let mx = if m.dom().len() == 0 { 0u64 } else { choose|x: u64| m.contains_key(x) && forall|k: u64| m.contains_key(k) ==> k <= x };
               (forall|k: u64| m.contains_key(k) ==> k <= mx) && (m.dom().len() > 0 ==> m.contains_key(mx)) })
    decreases m.dom().len()
{
    if m.dom().len() == 0 {
        assert forall|k: u64| m.contains_key(k) implies k <= 0u64 by { assert(m.dom().contains(k)); assert(m.dom() =~= Set::<u64>::empty()); }
    } else {
        let a = m.dom().choose();
        let m2 = m.remove(a);
        assert(m2.dom() =~= m.dom().remove(a));
        lemma_max_id(m2);
        let mx2 = if m2.dom().len() == 0 { 0u64 } else { choose|x: u64| m2.contains_key(x) && forall|k: u64| m2.contains_key(k) ==> k <= x };
        let w = if m2.dom().len() == 0 || a > mx2 { a } else { mx2 };
        assert(m.contains_key(w) && forall|k: u64| m.contains_key(k) ==> k <= w) by {
            assert forall|k: u64| m.contains_key(k) implies k <= w by { if k != a { assert(m2.contains_key(k)); } }
        }
    }
}
// BTreeMap::<u64, V>::keys().last(): the largest key   TRUSTED (std BTreeMap iterates in ascending key order)
#[verifier::external_body]
pub fn btree_last_key_or<'a, V>(m: &'a BTreeMap<u64, V>, d: &'a u64) -> (r: &'a u64)
    ensures m@.dom().len() == 0 ==> *r == *d,
        m@.dom().len() > 0 ==> m@.contains_key(*r) && forall|k: u64| m@.contains_key(k) ==> k <= *r
{ m.keys().last().unwrap_or(d) }
