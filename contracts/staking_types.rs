// ------------------------------------------------------------------ staking.rs : types, constants
//@ item! src/staking.rs :: const YEAR
//@ item src/staking.rs :: const BONDED_DENOM
//@   replace "&str" => "&'static str"
//@ end
//@ item! src/staking.rs :: struct StakingInfo
//@ item! src/staking.rs :: struct Shares
//@ item! src/staking.rs :: struct ValidatorInfo
//@ item! src/staking.rs :: struct Unbonding
//@ item! src/staking.rs :: struct StakeKeeper
//@ item src/staking.rs :: const STAKING_INFO
//@   exec_const STAKING_INFO.ns() == k_sinfo()
//@ end
//@ item src/staking.rs :: const STAKES
//@   replace "Map<(&Addr, &str), Shares>" => "Map<(&'static Addr, &'static str), Shares>"
//@   exec_const STAKES.ns() == ns_stakes()
//@ end
//@ item src/staking.rs :: const VALIDATOR_MAP
//@   replace "Map<&str, Validator>" => "Map<&'static str, Validator>"
//@   exec_const VALIDATOR_MAP.ns() == ns_vmap()
//@ end
//@ item src/staking.rs :: const VALIDATOR_INFO
//@   replace "Map<&str, ValidatorInfo>" => "Map<&'static str, ValidatorInfo>"
//@   exec_const VALIDATOR_INFO.ns() == ns_vinfo()
//@ end
//@ item src/staking.rs :: const VALIDATORS
//@   exec_const VALIDATORS.ns() == str_bytes("validators"@)
//@ end
//@ item src/staking.rs :: const UNBONDING_QUEUE
//@   exec_const UNBONDING_QUEUE.ns() == k_queue()
//@ end
//@ item src/staking.rs :: const NAMESPACE_STAKING
//@   replace "&[u8]" => "&'static [u8]"
//@ end

// (de)serialisation of the stored values: uninterpreted, round trip assumed (axiom_cw_roundtrip); serde_json never
// fails on these plain structs
impl CwVal for Shares { uninterp spec fn ser(&self) -> Seq<u8>; open spec fn ser_ok(&self) -> bool { true } uninterp spec fn de(b: Seq<u8>) -> StdResult<Self>; }
impl CwVal for ValidatorInfo { uninterp spec fn ser(&self) -> Seq<u8>; open spec fn ser_ok(&self) -> bool { true } uninterp spec fn de(b: Seq<u8>) -> StdResult<Self>; }
impl CwVal for Validator { uninterp spec fn ser(&self) -> Seq<u8>; open spec fn ser_ok(&self) -> bool { true } uninterp spec fn de(b: Seq<u8>) -> StdResult<Self>; }
impl CwVal for StakingInfo { uninterp spec fn ser(&self) -> Seq<u8>; open spec fn ser_ok(&self) -> bool { true } uninterp spec fn de(b: Seq<u8>) -> StdResult<Self>; }
impl CwVal for VecDeque<Unbonding> { uninterp spec fn ser(&self) -> Seq<u8>; open spec fn ser_ok(&self) -> bool { true } uninterp spec fn de(b: Seq<u8>) -> StdResult<Self>; }
impl Clone for Shares { fn clone(&self) -> (r: Self) ensures r == *self { Shares { stake: self.stake, rewards: self.rewards } } }
impl Default for Shares { fn default() -> (r: Self) ensures r.stake.atomics == 0, r.rewards.atomics == 0 { Shares { stake: Decimal::zero(), rewards: Decimal::zero() } } }
