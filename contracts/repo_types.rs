// plain data types of the repo that several groups need
//@ item! src/wasm.rs :: struct WasmSudo
//@ item! src/bank.rs :: enum BankSudo
//@ item! src/staking.rs :: enum StakingSudo
//@ item! src/app.rs :: enum SudoMsg
