// plain data types of the repo that several groups need
//@ item! src/wasm.rs :: struct WasmSudo
//@ impl_open src/wasm.rs :: WasmSudo
//@ end
//@ fn src/wasm.rs :: WasmSudo :: new
//@   ret r
//@   ensures [C01.wasm_sudo_new.sem,C17] match r { Ok(w) => spec_json_ok(*msg) && w == (WasmSudo { contract_addr: *contract_addr, message: spec_json(*msg) }), Err(_) => !spec_json_ok(*msg) }
//@ end
}
//@ item! src/bank.rs :: enum BankSudo
//@ item! src/staking.rs :: enum StakingSudo
//@ item! src/app.rs :: enum SudoMsg
