// types of src/wasm.rs shared by the wasm groups
//@ item! src/wasm.rs :: struct ContractData
//@ item! src/wasm.rs :: struct CodeData
//@ item src/wasm.rs :: struct WasmKeeper
//@   attr #[verifier::reject_recursive_types(ExecC)]
//@   attr #[verifier::reject_recursive_types(QueryC)]
//@   replace "std::marker::PhantomData<QueryC>" => "core::marker::PhantomData<QueryC>"
//@ end
