// types of src/wasm.rs shared by the wasm groups
//@ item! src/wasm.rs :: struct ContractData
//@ item! src/wasm.rs :: struct CodeData
//@ item src/wasm.rs :: struct WasmKeeper
//@   attr #[verifier::reject_recursive_types(ExecC)]
//@   attr #[verifier::reject_recursive_types(QueryC)]
//@   replace "std::marker::PhantomData<QueryC>" => "core::marker::PhantomData<QueryC>"
//@ end

impl<ExecC, QueryC> WasmKeeper<ExecC, QueryC> {
    // a code id is in use
    pub open spec fn has_code(&self, code_id: u64) -> bool { self.code_data@.contains_key(code_id) }
    // representation invariant of the keeper's code tables: id 0 is never used; every record points into code_base
    pub open spec fn codes_wf(&self) -> bool {
        &&& !self.code_data@.contains_key(0u64)
        &&& forall|id: u64| self.code_data@.contains_key(id) ==> (#[trigger] self.code_data@[id]).source_id < self.code_base@.len()
    }
    // the code a stored code id stands for
    pub open spec fn code_of(&self, code_id: u64) -> Option<&dyn Contract<ExecC, QueryC>> {
        if code_id >= 1 && self.code_data@.contains_key(code_id) && self.code_data@[code_id].source_id < self.code_base@.len() {
            Some(&*self.code_base@[self.code_data@[code_id].source_id as int])
        } else { None }
    }
    // C11: ids. max_id = largest id in use (0 if none)
    pub open spec fn max_id(&self) -> u64 {
        if self.code_data@.dom().len() == 0 { 0u64 } else { choose|m: u64| self.code_data@.contains_key(m) && forall|k: u64| self.code_data@.contains_key(k) ==> k <= m }
    }
}
// the instance count: the number of records of the contracts map (namespace "wasm" / "contracts") -- the length of THE
// ordered range of that window (unique by lemma_range_len_unique); opaque, revealed only where instance_count is proved
pub open spec fn has_range_len(w: St, n: nat) -> bool {
    exists|recs: Seq<RecV>, o: Order| #[trigger] is_range_of(recs, w, None, None, o) && recs.len() == n
}
#[verifier::opaque]
pub open spec fn spec_instance_count(s: St) -> usize {
    choose|n: usize| #[trigger] has_range_len(window(window(s, lp(ns_wasm())), lp(ns_contracts())), n as nat)
}
pub open spec fn ns_wasm() -> Seq<u8> { seq![119u8, 97u8, 115u8, 109u8] }   // b"wasm"
pub open spec fn ns_contracts() -> Seq<u8> { str_bytes("contracts"@) }
// raw key of a contract's registry record in the root store
pub open spec fn contract_key(a: Addr) -> Seq<u8> { lp(ns_wasm()) + (lp(ns_contracts()) + a.bytes()) }
pub open spec fn default_app() -> AppResponse { AppResponse { events: vec_of(Seq::<Event>::empty()), data: None } }
impl CwVal for ContractData {
    uninterp spec fn ser(&self) -> Seq<u8>;
    uninterp spec fn ser_ok(&self) -> bool;
    uninterp spec fn de(b: Seq<u8>) -> StdResult<Self>;
}
