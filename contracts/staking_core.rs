// ------------------------------------------------------------------ staking.rs : StakeKeeper on its own window
//@ impl_open src/staking.rs :: Default for StakingInfo
//@ end
//@ fn src/staking.rs :: Default for StakingInfo :: default
//@   ret r
//@   ensures [C15.sinfo.default] r.bonded_denom@ == "TOKEN"@ && r.unbonding_time == 60 && r.apr.atomics == 100_000_000_000_000_000
//@ end
}
pub open spec fn sinfo_default_apr() -> nat { 100_000_000_000_000_000 }
pub open spec fn sinfo_apr(st: St) -> nat { match get_sinfo(st) { Ok(Some(x)) => x.apr.atomics as nat, _ => sinfo_default_apr() } }
pub open spec fn sinfo_denom(st: St) -> Seq<char> { match get_sinfo(st) { Ok(Some(x)) => x.bonded_denom@, _ => "TOKEN"@ } }
pub open spec fn sinfo_unbonding(st: St) -> u64 { match get_sinfo(st) { Ok(Some(x)) => x.unbonding_time, _ => 60 } }

//@ impl_open src/staking.rs :: ValidatorInfo
//@ end
//@ fn src/staking.rs :: ValidatorInfo :: new
//@   ret r
//@   ensures [C14.vinfo.new] r.stakers@ == Set::<Addr>::empty() && r.stake.u == 0 && r.last_rewards_calculation == block_time
//@ end
}

//@ impl_open src/staking.rs :: Shares
//@ end
//@ fn src/staking.rs :: Shares :: share_of_rewards
//@   ret r
//@   ensures [C15.share.formula] share_fits(rewards.atomics as nat, self.stake.atomics as nat, validator_info.stake.u as nat) ==> r.atomics == share_spec(rewards.atomics as nat, self.stake.atomics as nat, validator_info.stake.u as nat)
//@ end
}

//@ impl_open src/staking.rs :: StakeKeeper
//@ end
//@ fn src/staking.rs :: StakeKeeper :: get_staking_info
//@   ret r
//@   ensures [C15.sinfo.get] match get_sinfo(staking_storage.view()) { Err(_) => r is Err, Ok(_) => r matches Ok(x) && x.apr.atomics == sinfo_apr(staking_storage.view()) && x.bonded_denom@ == sinfo_denom(staking_storage.view()) && x.unbonding_time == sinfo_unbonding(staking_storage.view()) }
//@ end
//@ fn src/staking.rs :: StakeKeeper :: calculate_rewards
//@   ret r
//@   drop_body
//@   requires [C15.calc.pre_time] current_time.nanos >= since.nanos
//@   requires [C15.calc.pre_commission] validator_commission.atomics <= dec_one()
//@   ensures [C15.calc.time_exact] calc_fits(stake.u as nat, interest_rate.atomics as nat, validator_commission.atomics as nat, (current_time.nanos - since.nanos) as nat) ==> r.atomics == reward_net(stake.u as nat, interest_rate.atomics as nat, validator_commission.atomics as nat, (current_time.nanos - since.nanos) as nat)
//@ end
//@ fn src/staking.rs :: StakeKeeper :: update_rewards
//@   ret r
//@   requires [C14.upd.pre_swf] swf(old(staking_storage).view())
//@   ensures [C14.upd.unknown_validator,C16] get_vinfo(old(staking_storage).view(), validator@) matches Ok(None) ==> r is Err && final(staking_storage).view() == old(staking_storage).view()
//@   ensures [C15.upd.effect,C14,C16] r is Ok ==> upd_post(old(staking_storage).view(), final(staking_storage).view(), validator@, block.time)
//@   ensures [C14.upd.swf,C15,C16] r is Ok ==> swf(final(staking_storage).view())
//@   begin let ghost st0 = staking_storage.view(); proof { axiom_addr_key_laws(); }
//@   after "let validator_obj = VALIDATOR_MAP.load(" proof { assert(vobj_ok_at(st0, validator@)); }
//@   after "VALIDATOR_INFO.save(staking_storage, validator, &validator_info)?;" let ghost st_a = staking_storage.view(); let ghost nr = new_rewards.atomics as nat; proof { lemma_upd_init(st0, st_a, validator@, block.time, nr, validator_info); lemma_upd_zero(st0, st_a, validator@, block.time, validator_info); }
//@   loop 0 binder it
//@   loop 0 invariant [C15.upd.loop_inv,C14] st0 == old(staking_storage).view() && swf(st0) && nr == new_rewards.atomics && validator_obj.address@ == validator@ && (get_vinfo(st0, validator@) matches Ok(Some(i0)) && validator_info.stake == i0.stake) && upd_nr(st0, validator@, block.time, nr) && upd_inv(st0, staking_storage.view(), it.seq().unref(), it.index@ as int, validator@, block.time, nr)
//@   replace_re? "\\|shares\\| -> AnyResult<_> \\{" => "|shares: Option<Shares>| -> (vx_o: AnyResult<Shares>) requires shares is Some ensures vx_o matches Ok(o) && share_credit(shares->0, o, new_rewards.atomics as nat, validator_info.stake.u as nat) {"
//@   before "re:^\\s*STAKES\\.update\\(\\s*$" let ghost st_b = staking_storage.view(); proof { let d = *staker; assert(it.seq().unref()[it.index@ as int] == d); assert(it.seq().unref().to_set().contains(d)); assert(has_staker(st0, validator@, d)); assert(has_shares(st0, d, validator@)); assert(st_b[k_stake(d, validator@)] == st0[k_stake(d, validator@)]); assert(st_b.dom().contains(k_stake(d, validator@))); }
//@   after "re:^\\s*\\)\\?;\\s*$" proof { let d = *staker; let key = k_stake(d, validator@); let s0 = map_may_load::<Shares>(st_b, key)->Ok_0->0; let s1 = choose|s1: Shares| staking_storage.view() == st_b.insert(key, s1.ser()) && share_credit(s0, s1, nr, validator_info.stake.u as nat); lemma_upd_step(st0, st_b, staking_storage.view(), it.seq().unref(), it.index@ as int, validator@, block.time, nr, s1); }
//@   before "re:^\\s*Ok\\(\\(\\)\\)\\s*$" proof { if nr != 0 { lemma_upd_done(st0, staking_storage.view(), choose|sq: Seq<Addr>| upd_inv(st0, staking_storage.view(), sq, sq.len() as int, validator@, block.time, nr), validator@, block.time, nr); } lemma_rewards_updated_swf(st0, staking_storage.view(), validator@, block.time, nr); }
//@ end
//@ fn src/staking.rs :: StakeKeeper :: get_rewards_internal
//@   ret r
//@   requires [C15.shown.pre_time] block.time.nanos >= validator_info.last_rewards_calculation.nanos
//@   requires [C15.shown.pre_commission] validator.commission.atomics <= dec_one()
//@   ensures [C15.shown.formula] r matches Ok(c) ==> c.denom@ == sinfo_denom(staking_storage.view()) && (pending_fits(*shares, *validator_info, sinfo_apr(staking_storage.view()), validator.commission.atomics as nat, block.time) ==> c.amount.u == pending_spec(*shares, *validator_info, sinfo_apr(staking_storage.view()), validator.commission.atomics as nat, block.time))
//@   ensures [C15.shown.err] (r is Err) == (get_sinfo(staking_storage.view()) is Err)
//@ end
//@ fn src/staking.rs :: StakeKeeper :: get_validator
//@   ret r
//@   ensures [C14.getv.sem] match get_vobj(staking_storage.view(), address@) { Ok(o) => r == Ok::<Option<Validator>, AnyError>(o), Err(_) => r is Err }
//@ end
//@ fn src/staking.rs :: StakeKeeper :: get_stake
//@   ret r
//@   ensures [C14.get_stake.sem,C16] match get_shares(staking_storage.view(), *account, validator@) { Err(_) => r is Err, Ok(o) => if get_sinfo(staking_storage.view()) is Err { r is Err } else { match o { None => r matches Ok(None), Some(s) => r matches Ok(Some(c)) && c.denom@ == sinfo_denom(staking_storage.view()) && c.amount.u == s.stake.atomics / 1_000_000_000_000_000_000 } } }
//@   replace_re? "shares\\.map\\(\\|shares\\| \\{" => "shares.map(|shares: Shares| -> (c: Coin) ensures c.denom@ == staking_info.bonded_denom@ && c.amount.u == shares.stake.atomics / 1_000_000_000_000_000_000 {"
//@ end
//@ fn src/staking.rs :: StakeKeeper :: validate_denom
//@   ret r
//@   ensures [C14.denom.sem] match get_sinfo(staking_storage.view()) { Err(_) => r is Err, Ok(_) => (r is Ok) == (amount.denom@ == sinfo_denom(staking_storage.view())) }
//@ end
//@ fn src/staking.rs :: StakeKeeper :: validate_percentage
//@   ret r
//@   ensures [C16.pct.sem] (r is Ok) == (percentage.atomics <= dec_one())
//@ end
//@ fn src/staking.rs :: StakeKeeper :: update_stake
//@   ret r
//@   replace "amount: impl Into<Uint128>," => "amount: Uint128,"
//@   replace "let amount = amount.into();" => "let amount: Uint128 = amount;"
//@   requires [C14.stake.pre_swf] swf(old(staking_storage).view())
//@   ensures [C14.stake.unknown_validator] get_vinfo(old(staking_storage).view(), validator@) matches Ok(None) ==> r is Err && final(staking_storage).view() == old(staking_storage).view()
//@   ensures [C14.stake.sub_needs_delegation] (get_shares(old(staking_storage).view(), *delegator, validator@) matches Ok(None) && sub) ==> r is Err
//@   ensures [C14.stake.sub_bounded] (get_shares(old(staking_storage).view(), *delegator, validator@) matches Ok(Some(s)) && sub && fits(amount.u as nat * dec_one()) && amount.u * dec_one() > s.stake.atomics) ==> r is Err
//@   ensures [C14.stake.effect,C15] r is Ok ==> exists|sm: St| upd_post(old(staking_storage).view(), sm, validator@, block.time) && swf(sm) && stake_changed(sm, final(staking_storage).view(), *delegator, validator@, amount.u as nat, sub)
//@   ensures [C14.stake.swf,C15,C16] r is Ok ==> swf(final(staking_storage).view())
//@   begin let ghost st0 = staking_storage.view(); proof { axiom_addr_key_laws(); }
//@   after "Self::update_rewards(api, staking_storage, block, validator)?;" let ghost sm = staking_storage.view(); proof { lemma_upd_keeps_stake(st0, sm, validator@, block.time, *delegator); }
//@   before "re:^\\s*Ok\\(\\(\\)\\)\\s*$" proof { axiom_cw_roundtrip(shares); axiom_cw_roundtrip(validator_info); lemma_keys_disjoint(*delegator, validator@, validator@); assert(stake_changed(sm, staking_storage.view(), *delegator, validator@, amount.u as nat, sub)); lemma_stake_changed_swf(sm, staking_storage.view(), *delegator, validator@, amount.u as nat, sub); }
//@ end
//@ fn src/staking.rs :: StakeKeeper :: slash
//@   ret r
//@   requires [C16.slash.pre_swf] swf(old(staking_storage).view())
//@   requires [C16.slash.pre_pct] percentage.atomics <= dec_one()
//@   ensures [C16.slash.unknown_validator] get_vinfo(old(staking_storage).view(), validator@) matches Ok(None) ==> r is Err && final(staking_storage).view() == old(staking_storage).view()
//@   ensures [C16.slash.effect,C14,C15] r is Ok ==> exists|sm: St| upd_post(old(staking_storage).view(), sm, validator@, block.time) && swf(sm) && slashed(sm, final(staking_storage).view(), validator@, (dec_one() - percentage.atomics) as nat)
//@   ensures [C16.slash.swf,C14,C15] r is Ok ==> swf(final(staking_storage).view())
//@   begin let ghost st0 = staking_storage.view(); let ghost rem = (dec_one() - percentage.atomics) as nat; broadcast use lemma_dmul_le_b; proof { axiom_addr_key_laws(); }
//@   after "Self::update_rewards(api, staking_storage, block, validator)?;" let ghost sm = staking_storage.view(); proof { lemma_upd_keeps_stake(st0, sm, validator@, block.time, arbitrary()); lemma_slash_init(sm, validator@, rem, true); lemma_slash_init(sm, validator@, rem, false); }
//@   after "let remaining_percentage = Decimal::one() - percentage;" let ghost im = get_vinfo(sm, validator@)->Ok_0->0; let ghost stake0 = validator_info.stake;
//@   loop 0 binder it
//@   loop 0 invariant [C16.slash.wipe_inv,C14] sm_facts(st0, sm, validator@, block.time) && rem == remaining_percentage.atomics && rem <= dec_one() && slash_inv(sm, staking_storage.view(), it.seq().unref(), it.index@ as int, validator@, rem, true) && rem == 0 && validator_info.stake.u == 0
//@   before "re:^\\s*STAKES\\.remove\\(staking_storage, \\(delegator, validator\\)\\);" let ghost st_b = staking_storage.view();
//@   after "re:STAKES\\.remove\\(staking_storage, \\(delegator, validator\\)\\);" proof { assert(it.seq().unref()[it.index@ as int] == *delegator); lemma_slash_step_wipe(sm, st_b, staking_storage.view(), it.seq().unref(), it.index@ as int, validator@, rem); }
//@   loop 1 binder it
//@   loop 1 invariant [C16.slash.scale_inv,C14] sm_facts(st0, sm, validator@, block.time) && rem == remaining_percentage.atomics && rem <= dec_one() && slash_inv(sm, staking_storage.view(), it.seq().unref(), it.index@ as int, validator@, rem, false) && rem != 0 && (fits(scaled_sum(sm, it.seq().unref(), it.index@ as int, validator@, rem)) ==> total.atomics == scaled_sum(sm, it.seq().unref(), it.index@ as int, validator@, rem))
//@   replace_re? "\\|stake\\| -> AnyResult<_> \\{" => "|stake: Option<Shares>| -> (vx_o: AnyResult<Shares>) requires stake is Some, remaining_percentage.atomics <= dec_one() ensures vx_o matches Ok(o) && o.rewards == stake->0.rewards && o.stake.atomics == dmul(stake->0.stake.atomics as nat, remaining_percentage.atomics as nat) { broadcast use lemma_dmul_le_b;"
//@   before "re:^\\s*(let \\w+ = )?STAKES\\.update\\(\\s*$" let ghost st_b = staking_storage.view(); proof { let d = *delegator; assert(it.seq().unref()[it.index@ as int] == d); assert(it.seq().unref().to_set().contains(d)); assert(has_staker(sm, validator@, d)); assert(has_shares(sm, d, validator@)); assert(st_b[k_stake(d, validator@)] == sm[k_stake(d, validator@)]); }
//@   after "re:^\\s*\\)\\?;\\s*$" proof { let d = *delegator; let key = k_stake(d, validator@); let x0 = map_may_load::<Shares>(st_b, key)->Ok_0->0; let x1 = choose|x1: Shares| staking_storage.view() == st_b.insert(key, x1.ser()) && x1.rewards == x0.rewards && x1.stake.atomics == dmul(x0.stake.atomics as nat, rem); lemma_slash_step_scale(sm, st_b, staking_storage.view(), it.seq().unref(), it.index@ as int, validator@, rem, x1); }
//@   before "total += shares.stake;" let ghost total0 = total;
//@   after "total += shares.stake;" proof { let d = *delegator; let i = it.index@ as int; let sq = it.seq().unref(); assert(sq[i] == d); assert(get_shares(sm, d, validator@) matches Ok(Some(x0)) && shares.stake.atomics == dmul(x0.stake.atomics as nat, rem)); assert(scaled_sum(sm, sq, i + 1, validator@, rem) == scaled_sum(sm, sq, i, validator@, rem) + dmul(share_atomics(sm, sq[i], validator@), rem)); }
//@   before "re:^\\s*let mut unbonding_queue = UNBONDING_QUEUE\\s*$" let ghost st_l = staking_storage.view(); let ghost sq = choose|sq: Seq<Addr>| slash_inv(sm, st_l, sq, sq.len() as int, validator@, rem, rem == 0) && (rem != 0 ==> (fits(scaled_sum(sm, sq, sq.len() as int, validator@, rem)) ==> validator_info.stake.u == scaled_sum(sm, sq, sq.len() as int, validator@, rem) / dec_one())); proof { lemma_slash_inv_reads(sm, st_l, sq, sq.len() as int, validator@, rem, rem == 0); }
//@   replace_re? "(?P<Q>\\w+)\\s*\\.iter_mut\\(\\)\\s*\\.filter\\(\\|(?P<X>\\w+)\\| (?P<C>[^\\n]*)\\)\\s*\\n\\s*\\.for_each\\(\\|(?P<Y>\\w+)\\| \\{(?P<B>.*?)\\}\\);" => "let ghost vx_q0 = \\g<Q>@; let mut vx_i: usize = 0;\n while vx_i < \\g<Q>.len()\n invariant /*VXCLAUSE C16.slash.queue_inv,C14*/ (vx_i <= \\g<Q>@.len() && \\g<Q>@.len() == vx_q0.len() && remaining_percentage.atomics <= dec_one() && (forall|i: int| 0 <= i < vx_i ==> #[trigger] \\g<Q>@[i] == slash_entry(vx_q0[i], validator@, remaining_percentage.atomics as nat)) && (forall|i: int| vx_i <= i < vx_q0.len() ==> #[trigger] \\g<Q>@[i] == vx_q0[i])),\n decreases \\g<Q>@.len() - vx_i,\n { broadcast use lemma_dmul_le_b; let \\g<X> = vx_deque_get_mut(&mut \\g<Q>, vx_i);\n if \\g<C> { let \\g<Y> = \\g<X>; \\g<B> }\n vx_i += 1; }"
//@   replace_re? "for (?P<X>\\w+) in (?P<Q>\\w+)\\.iter_mut\\(\\) \\{(?P<B>.*?)\\n        \\}" => "let ghost vx_q0 = \\g<Q>@; let mut vx_i: usize = 0;\n while vx_i < \\g<Q>.len()\n invariant /*VXCLAUSE C16.slash.queue_inv,C14*/ (vx_i <= \\g<Q>@.len() && \\g<Q>@.len() == vx_q0.len() && remaining_percentage.atomics <= dec_one() && (forall|i: int| 0 <= i < vx_i ==> #[trigger] \\g<Q>@[i] == slash_entry(vx_q0[i], validator@, remaining_percentage.atomics as nat)) && (forall|i: int| vx_i <= i < vx_q0.len() ==> #[trigger] \\g<Q>@[i] == vx_q0[i])),\n decreases \\g<Q>@.len() - vx_i,\n { broadcast use lemma_dmul_le_b; let \\g<X> = vx_deque_get_mut(&mut \\g<Q>, vx_i);\n { \\g<B> }\n vx_i += 1; }"
//@   replace_re? "if &(?P<U>\\w+)\\.validator == validator \\{" => "if *(&\\g<U>.validator) == *validator {"
//@   before "re:^\\s*Ok\\(\\(\\)\\)\\s*$" proof { lemma_keys_disjoint(arbitrary(), validator@, validator@); assert(forall|k: Seq<u8>| k != k_queue() && k != k_vinfo(validator@) ==> #[trigger] same_at(staking_storage.view(), st_l, k)); lemma_slash_done(sm, st_l, staking_storage.view(), sq, validator@, rem, rem == 0, unbonding_queue, validator_info); }
//@ end
//@ fn src/staking.rs :: StakeKeeper :: add_stake
//@   ret r
//@   requires [C14.add.pre_swf] swf(old(staking_storage).view())
//@   ensures [C14.add.denom] (get_sinfo(old(staking_storage).view()) is Ok && amount.denom@ != sinfo_denom(old(staking_storage).view())) ==> r is Err && final(staking_storage).view() == old(staking_storage).view()
//@   ensures [C14.add.unknown_validator] get_vinfo(old(staking_storage).view(), validator@) matches Ok(None) ==> r is Err && final(staking_storage).view() == old(staking_storage).view()
//@   ensures [C14.add.effect] r is Ok ==> amount.denom@ == sinfo_denom(old(staking_storage).view()) && exists|sm: St| upd_post(old(staking_storage).view(), sm, validator@, block.time) && swf(sm) && stake_changed(sm, final(staking_storage).view(), *to_address, validator@, amount.amount.u as nat, false)
//@   ensures [C14.add.swf] r is Ok ==> swf(final(staking_storage).view())
//@ end
//@ fn src/staking.rs :: StakeKeeper :: remove_stake
//@   ret r
//@   requires [C14.rm.pre_swf] swf(old(staking_storage).view())
//@   ensures [C14.rm.denom] (get_sinfo(old(staking_storage).view()) is Ok && amount.denom@ != sinfo_denom(old(staking_storage).view())) ==> r is Err && final(staking_storage).view() == old(staking_storage).view()
//@   ensures [C14.rm.unknown_validator] get_vinfo(old(staking_storage).view(), validator@) matches Ok(None) ==> r is Err && final(staking_storage).view() == old(staking_storage).view()
//@   ensures [C14.rm.needs_delegation] get_shares(old(staking_storage).view(), *from_address, validator@) matches Ok(None) ==> r is Err
//@   ensures [C14.rm.bounded] (get_shares(old(staking_storage).view(), *from_address, validator@) matches Ok(Some(s)) && fits(amount.amount.u as nat * dec_one()) && amount.amount.u * dec_one() > s.stake.atomics) ==> r is Err
//@   ensures [C14.rm.effect] r is Ok ==> amount.denom@ == sinfo_denom(old(staking_storage).view()) && exists|sm: St| upd_post(old(staking_storage).view(), sm, validator@, block.time) && swf(sm) && stake_changed(sm, final(staking_storage).view(), *from_address, validator@, amount.amount.u as nat, true)
//@   ensures [C14.rm.swf] r is Ok ==> swf(final(staking_storage).view())
//@ end
}

// facts about the state sm reached by update_rewards, carried through the loops of slash
pub open spec fn sm_facts(st0: St, sm: St, v: Seq<char>, now: Timestamp) -> bool {
    upd_post(st0, sm, v, now) && swf(sm)
}
// what a successful update_rewards(v) at time `now` did
pub open spec fn upd_post(st0: St, st1: St, v: Seq<char>, now: Timestamp) -> bool {
    &&& get_vinfo(st0, v) matches Ok(Some(i0))
    &&& get_vobj(st0, v) matches Ok(Some(vo))
    &&& if i0.last_rewards_calculation.nanos >= now.nanos { st1 == st0 } else {
            exists|nr: nat| upd_nr(st0, v, now, nr) && rewards_updated(st0, st1, v, now, nr)
        }
}
// nr is the validator-wide reward for the period since the last update (unconstrained only if the 128-bit arithmetic overflowed, where the real code panics)
pub open spec fn upd_nr(st0: St, v: Seq<char>, now: Timestamp, nr: nat) -> bool {
    get_vinfo(st0, v) matches Ok(Some(i0)) && get_vobj(st0, v) matches Ok(Some(vo)) && ({
        let dt = (now.nanos - i0.last_rewards_calculation.nanos) as nat;
        calc_fits(i0.stake.u as nat, sinfo_apr(st0), vo.commission.atomics as nat, dt) ==> nr == reward_net(i0.stake.u as nat, sinfo_apr(st0), vo.commission.atomics as nat, dt)
    })
}
