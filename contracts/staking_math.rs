// ------------------------------------------------------------------ staking.rs : reward arithmetic (C15)
//@ item! src/staking.rs :: const YEAR
//@ item! src/staking.rs :: struct Shares
//@ item! src/staking.rs :: struct ValidatorInfo
//@ item! src/staking.rs :: struct StakeKeeper

//@ impl_open src/staking.rs :: Shares
//@ end
//@ fn src/staking.rs :: Shares :: share_of_rewards
//@   ret r
//@   ensures [C15.share.zero_total] validator_info.stake.u == 0 ==> r.atomics == 0
//@   ensures [C15.share.formula] (validator_info.stake.u > 0 && fits(dmul(rewards.atomics as nat, self.stake.atomics as nat))) ==> r.atomics == dmul(rewards.atomics as nat, self.stake.atomics as nat) / (validator_info.stake.u as nat)
//@ end
}

//@ impl_open src/staking.rs :: StakeKeeper
//@ end
//@ fn src/staking.rs :: StakeKeeper :: calculate_rewards
//@   ret r
//@   requires [C15.calc.pre_time] current_time.nanos >= since.nanos
//@   requires [C15.calc.pre_commission] validator_commission.atomics <= dec_one()
//@   ensures [C15.calc.time_exact] calc_fits(stake.u as nat, interest_rate.atomics as nat, validator_commission.atomics as nat, (current_time.nanos - since.nanos) as nat) ==> r.atomics == reward_net(stake.u as nat, interest_rate.atomics as nat, validator_commission.atomics as nat, (current_time.nanos - since.nanos) as nat)
//@   before? "let commission = reward * validator_commission;" proof { lemma_dmul_le(reward.atomics as nat, validator_commission.atomics as nat); }
//@   begin proof { lemma_year(); }
//@ end
}

