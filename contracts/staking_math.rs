// ------------------------------------------------------------------ staking.rs : reward arithmetic (C15)
//@ item! src/staking.rs :: const YEAR
//@ item! src/staking.rs :: struct Shares
//@ item src/staking.rs :: struct ValidatorInfo
//@   replace "stakers: BTreeSet<Addr>," => "stakers: BTreeSet<Addr>,"
//@ end

// exact value of calculate_rewards (Decimal atomics), when no intermediate result overflows 128 bits:
//   reward = ((stake * 10^18) * apr / 10^18) * (dt_nanos * 10^9) / 10^18) * 10^18 / (YEAR * 10^18)      (floors at each step)
//   result = reward - reward * commission / 10^18
pub open spec fn year_nat() -> nat { 31_536_000 }
pub open spec fn reward_gross(stake: nat, apr: nat, dt_nanos: nat) -> nat {
    ddiv(dmul(dmul(dratio(stake, 1), apr), dratio(dt_nanos, 1_000_000_000)), dratio(year_nat(), 1))
}
pub open spec fn reward_net(stake: nat, apr: nat, comm: nat, dt_nanos: nat) -> nat {
    let g = reward_gross(stake, apr, dt_nanos);
    (g - dmul(g, comm)) as nat
}
pub open spec fn calc_fits(stake: nat, apr: nat, comm: nat, dt_nanos: nat) -> bool {
    &&& fits(dratio(stake, 1)) && fits(dmul(dratio(stake, 1), apr)) && fits(dratio(dt_nanos, 1_000_000_000))
    &&& fits(dmul(dmul(dratio(stake, 1), apr), dratio(dt_nanos, 1_000_000_000))) && fits(dratio(year_nat(), 1))
    &&& fits(reward_gross(stake, apr, dt_nanos)) && fits(dmul(reward_gross(stake, apr, dt_nanos), comm))
}

//@ impl_open src/staking.rs :: Shares
//@ end
//@ fn src/staking.rs :: Shares :: share_of_rewards
//@   ret r
//@   ensures [C15.share.zero_total] validator_info.stake.u == 0 ==> r.atomics == 0
//@   ensures [C15.share.formula] (validator_info.stake.u > 0 && fits(dmul(rewards.atomics as nat, self.stake.atomics as nat))) ==> r.atomics == dmul(rewards.atomics as nat, self.stake.atomics as nat) / (validator_info.stake.u as nat)
//@ end
}

//@ impl_open src/staking.rs :: StakeKeeper
//@   pick fn calculate_rewards
//@ end
//@ fn src/staking.rs :: StakeKeeper :: calculate_rewards
//@   ret r
//@   requires [C15.calc.pre_time] current_time.nanos >= since.nanos
//@   requires [C15.calc.pre_commission] validator_commission.atomics <= dec_one()
//@   ensures [C15.calc.time_exact] calc_fits(stake.u as nat, interest_rate.atomics as nat, validator_commission.atomics as nat, (current_time.nanos - since.nanos) as nat) ==> r.atomics == reward_net(stake.u as nat, interest_rate.atomics as nat, validator_commission.atomics as nat, (current_time.nanos - since.nanos) as nat)
//@   before? "let commission = reward * validator_commission;" proof { lemma_dmul_le(reward.atomics as nat, validator_commission.atomics as nat); }
//@   begin proof { lemma_year(); }
//@ end
}

pub proof fn lemma_year()
    ensures 60u64 * 60 * 24 * 365 == 31_536_000u64
{
}
// x * c / 10^18 <= x for c <= 10^18
pub proof fn lemma_dmul_le(x: nat, c: nat)
    requires c <= dec_one()
    ensures dmul(x, c) <= x
{
    assert(x * c <= x * dec_one()) by (nonlinear_arith) requires c <= dec_one();
    assert(x * dec_one() / dec_one() == x) by (nonlinear_arith);
    assert(x * c / dec_one() <= x * dec_one() / dec_one()) by (nonlinear_arith) requires x * c <= x * dec_one();
}
