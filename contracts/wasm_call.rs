// ------------------------------------------------------------------ wasm.rs : with_storage, call_*, verify_*, storage accessors
//@ impl_open src/wasm.rs :: WasmKeeper
//@   pick fn with_storage
//@   replace "ExecC: CustomMsg + DeserializeOwned + 'static," => ""
//@   replace "QueryC: CustomQuery + DeserializeOwned + 'static," => ""
//@ end
// rule R12: default methods of trait Wasm (contract_namespace, contract_storage, contract_storage_mut) are emitted as
// inherent methods of the keeper.  rule R11: their `Box<dyn Storage + 'a>` result is given the concrete type that the
// body constructs (PrefixedStorage / ReadonlyPrefixedStorage) so that the frame facts of the view survive.
//@ fn src/wasm.rs :: trait Wasm :: contract_namespace
//@   ret r
//@   ensures [C08.ns.bytes] r@ == ns_contract_data() + contract.bytes()
//@ end
//@ fn src/wasm.rs :: trait Wasm :: contract_storage
//@   ret r
//@   ensures [C08.cs.window] r.view() == window(storage.view(), contract_prefix(*address))
//@   replace "Box<dyn Storage + 'a>" => "Box<ReadonlyPrefixedStorage<'a>>"
//@   begin proof { lemma_contract_prefix(*address); axiom_addr_len(*address); }
//@   before? "::multilevel(storage, &[NAMESPACE_WASM, &namespace]);" proof { assert forall|a: Seq<&[u8]>| a.len() == 2 && a[0]@ == ns_wasm() && a[1]@ == namespace@ implies #[trigger] slices_view(a) == seq![ns_wasm(), namespace@] by { assert(slices_view(a) =~= seq![ns_wasm(), namespace@]); } }
//@ end
//@ fn src/wasm.rs :: trait Wasm :: contract_storage_mut
//@   ret r
//@   ensures [C08.csm.window] r.view() == window(old(storage).view(), contract_prefix(*address)) && r.base_view() == old(storage).view() && r.prefix_view() == contract_prefix(*address) && final(storage).view() == r.final_base_view()
//@   replace "Box<dyn Storage + 'a>" => "Box<PrefixedStorage<'a>>"
//@   begin proof { lemma_contract_prefix(*address); axiom_addr_len(*address); }
//@   before? "::multilevel(storage, &[NAMESPACE_WASM, &namespace]);" proof { assert forall|a: Seq<&[u8]>| a.len() == 2 && a[0]@ == ns_wasm() && a[1]@ == namespace@ implies #[trigger] slices_view(a) == seq![ns_wasm(), namespace@] by { assert(slices_view(a) =~= seq![ns_wasm(), namespace@]); } }
//@ end

//@ fn src/wasm.rs :: WasmKeeper :: contract_code
//@   ret r
//@   begin proof { axiom_keeper_wf(self); }
//@   ensures [C11.contract_code.sem] match self.code_of(code_id) { Some(h) => r is Ok && r.unwrap() == h, None => r is Err }
//@   replace? "self.code_base[code_data.source_id].borrow()" => "box_borrow(&self.code_base[code_data.source_id])"
//@ end
//@ fn src/wasm.rs :: WasmKeeper :: get_env
//@   ret r
//@   ensures [C05.env.sem,C19] r == env_of(address, *block)
//@   replace "fn get_env<T: Into<Addr>>(&self, address: T," => "fn get_env(&self, address: Addr,"
//@   replace "address: address.into()," => "address: address,"
//@ end

//@ fn src/wasm.rs :: WasmKeeper :: with_storage
//@   ret r
//@   requires [C05.ws.pre_action] forall|h: &dyn Contract<ExecC, QueryC>, d: DepsMut<QueryC>, e: Env| ws_args(self, old(storage).view(), *block, address, h, d.storage.view(), d.querier.snap(), e) ==> #[trigger] action.requires((h, d, e))
//@   ensures [C05.ws.err_canon] r is Err ==> r->Err_0 == AnyError
//@   ensures [C05.ws.sem,C08,C10] match self.contract_data_sem(old(storage).view(), address) { Err(_) => r is Err && final(storage).view() == old(storage).view(), Ok(cd) => match self.code_of(cd.code_id) { None => r is Err && final(storage).view() == old(storage).view(), Some(_) => exists|h: &dyn Contract<ExecC, QueryC>, d: DepsMut<QueryC>, e: Env| ws_args(self, old(storage).view(), *block, address, h, d.storage.view(), d.querier.snap(), e) && #[trigger] action.ensures((h, d, e), r) && (r is Ok ==> final(storage).view() == splice(old(storage).view(), contract_prefix(address), final(d.storage).view())) && (r is Err ==> final(storage).view() == old(storage).view()) } }
//@   replace "ExecC: DeserializeOwned," => ""
//@   before? "transactional(storage, " let ghost vx_s0 = storage.view();
//@   replace? "storage: contract_storage.as_mut()," => "storage: &mut *contract_storage,"
//@   replace_re? "\\|write_cache, read_store\\| \\{" => "|write_cache: &mut dyn Storage, read_store: &dyn Storage| -> (cr: AnyResult<T>) requires write_cache.view() == vx_s0 && read_store.view() == vx_s0 ensures exists|h: &dyn Contract<ExecC, QueryC>, d: DepsMut<QueryC>, e: Env| ws_args(self, old(write_cache).view(), *block, address, h, d.storage.view(), d.querier.snap(), e) && #[trigger] action.ensures((h, d, e), cr) && final(write_cache).view() == splice(old(write_cache).view(), contract_prefix(address), final(d.storage).view()) {"
//@ end

//@ fn src/wasm.rs :: WasmKeeper :: with_storage_readonly
//@   ret r
//@   requires [C08.wsr.pre_action] forall|h: &dyn Contract<ExecC, QueryC>, d: Deps<QueryC>, e: Env| ws_args_ro(self, storage.view(), *block, address, h, d.storage.view(), e) && d.querier.snap() == querier.snap() ==> #[trigger] action.requires((h, d, e))
//@   ensures [C08.wsr.err_canon] r is Err ==> r->Err_0 == AnyError
//@   ensures [C08.wsr.sem,C10] match self.contract_data_sem(storage.view(), address) { Err(_) => r is Err, Ok(cd) => match self.code_of(cd.code_id) { None => r is Err, Some(_) => exists|h: &dyn Contract<ExecC, QueryC>, d: Deps<QueryC>, e: Env| ws_args_ro(self, storage.view(), *block, address, h, d.storage.view(), e) && d.querier.snap() == querier.snap() && #[trigger] action.ensures((h, d, e), r) } }
//@   replace? "storage: storage.as_ref()," => "storage: ro_as_dyn(&*storage),"
//@ end

//@ fn src/wasm.rs :: WasmKeeper :: verify_attributes
//@   ret r
//@   ensures [C13.attrs.iff] (r is Ok) == attrs_ok(attributes@)
//@   replace? "for attr in attributes {" => "for attr in attributes.iter() {"
//@   loop 0 binder it
//@   loop 0 invariant [C13.attrs.loop_inv] it.seq().len() == attributes@.len() && (forall|i: int| 0 <= i < it.seq().len() ==> *it.seq()[i] == attributes@[i]) && forall|i: int| 0 <= i < it.index@ ==> attr_ok(#[trigger] attributes@[i])
//@   before? "if key.starts_with('_') {" proof { axiom_starts_with_char(key@, '_'); }
//@   before? "bail!(Error::empty_attribute_key(val));" proof { assert(*attr == attributes@[it.index@ as int]); assert(!attr_ok(attributes@[it.index@ as int])); }
//@   before? "bail!(Error::reserved_attribute_key(key));" proof { assert(*attr == attributes@[it.index@ as int]); assert(!attr_ok(attributes@[it.index@ as int])); }
//@   after? "let val = attr.value.trim();" proof { assert(*attr == attributes@[it.index@ as int]); }
//@ end
//@ fn src/wasm.rs :: WasmKeeper :: verify_response
//@   ret r
//@   ensures [C13.resp.iff] (r is Ok) == resp_ok(response)
//@   ensures [C13.resp.identity] r is Ok ==> r.unwrap() == response
//@   ensures [C13.resp.err_canon] r is Err ==> r->Err_0 == AnyError
//@   replace? "for event in &response.events {" => "for event in response.events.iter() {"
//@   replace? "if ty.len() < 2 {" => "if str_len(ty) < 2 {"
//@   replace_re? "where\\s*T: CustomMsg,\\s*" => ""
//@   loop 0 binder it
//@   before? "bail!(Error::event_type_too_short(ty));" proof { assert(*event == response.events@[it.index@ as int]); assert(!event_ok(response.events@[it.index@ as int])); }
//@   after? "let ty = event.ty.trim();" proof { assert(*event == response.events@[it.index@ as int]); }
//@   loop 0 invariant [C13.resp.loop_inv] it.seq().len() == response.events@.len() && (forall|i: int| 0 <= i < it.seq().len() ==> *it.seq()[i] == response.events@[i]) && attrs_ok(response.attributes@) && forall|i: int| 0 <= i < it.index@ ==> event_ok(#[trigger] response.events@[i])
//@ end

//@ fn src/wasm.rs :: WasmKeeper :: call_execute
//@   ret r
//@   ensures [C05.call_execute.unfold,C08,C10,C13] (r, final(storage).view()) == self.call_unfold(Entry::Execute, router, old(storage).view(), *block, address, Some(info), msg@, None)
//@   replace_re? "\\|contract, deps, env\\| (?:\\{\\s*)?(?P<C>Self::verify_response\\(contract\\.execute\\(deps, env, info, msg\\)\\?\\))(?:\\s*\\})?" => "|contract: &dyn Contract<ExecC, QueryC>, deps: DepsMut<QueryC>, env: Env| -> (cr: AnyResult<Response<ExecC>>) ensures cr == verified(contract.entry_sem(Entry::Execute, old(deps.storage).view(), deps.querier.snap(), env, Some(info), msg@, None).0) && final(deps.storage).view() == contract.entry_sem(Entry::Execute, old(deps.storage).view(), deps.querier.snap(), env, Some(info), msg@, None).1 { \\g<C> }"
//@ end
//@ fn src/wasm.rs :: WasmKeeper :: call_instantiate
//@   ret r
//@   ensures [C05.call_instantiate.unfold,C08,C10,C13] (r, final(storage).view()) == self.call_unfold(Entry::Instantiate, router, old(storage).view(), *block, address, Some(info), msg@, None)
//@   replace_re? "\\|contract, deps, env\\| (?:\\{\\s*)?(?P<C>Self::verify_response\\(contract\\.instantiate\\(deps, env, info, msg\\)\\?\\))(?:\\s*\\})?" => "|contract: &dyn Contract<ExecC, QueryC>, deps: DepsMut<QueryC>, env: Env| -> (cr: AnyResult<Response<ExecC>>) ensures cr == verified(contract.entry_sem(Entry::Instantiate, old(deps.storage).view(), deps.querier.snap(), env, Some(info), msg@, None).0) && final(deps.storage).view() == contract.entry_sem(Entry::Instantiate, old(deps.storage).view(), deps.querier.snap(), env, Some(info), msg@, None).1 { \\g<C> }"
//@ end
//@ fn src/wasm.rs :: WasmKeeper :: call_reply
//@   ret r
//@   ensures [C03.call_reply.unfold,C08,C10,C13] (r, final(storage).view()) == self.call_unfold(Entry::Reply, router, old(storage).view(), *block, address, None, Seq::<u8>::empty(), Some(reply))
//@   replace_re? "\\|contract, deps, env\\| (?:\\{\\s*)?(?P<C>Self::verify_response\\(contract\\.reply\\(deps, env, reply\\)\\?\\))(?:\\s*\\})?" => "|contract: &dyn Contract<ExecC, QueryC>, deps: DepsMut<QueryC>, env: Env| -> (cr: AnyResult<Response<ExecC>>) ensures cr == verified(contract.entry_sem(Entry::Reply, old(deps.storage).view(), deps.querier.snap(), env, None, Seq::<u8>::empty(), Some(reply)).0) && final(deps.storage).view() == contract.entry_sem(Entry::Reply, old(deps.storage).view(), deps.querier.snap(), env, None, Seq::<u8>::empty(), Some(reply)).1 { \\g<C> }"
//@ end
//@ fn src/wasm.rs :: WasmKeeper :: call_sudo
//@   ret r
//@   ensures [C05.call_sudo.unfold,C08,C10,C13] (r, final(storage).view()) == self.call_unfold(Entry::Sudo, router, old(storage).view(), *block, address, None, msg@, None)
//@   replace_re? "\\|contract, deps, env\\| (?:\\{\\s*)?(?P<C>Self::verify_response\\(contract\\.sudo\\(deps, env, msg\\)\\?\\))(?:\\s*\\})?" => "|contract: &dyn Contract<ExecC, QueryC>, deps: DepsMut<QueryC>, env: Env| -> (cr: AnyResult<Response<ExecC>>) ensures cr == verified(contract.entry_sem(Entry::Sudo, old(deps.storage).view(), deps.querier.snap(), env, None, msg@, None).0) && final(deps.storage).view() == contract.entry_sem(Entry::Sudo, old(deps.storage).view(), deps.querier.snap(), env, None, msg@, None).1 { \\g<C> }"
//@ end
//@ fn src/wasm.rs :: WasmKeeper :: call_migrate
//@   ret r
//@   ensures [C12.call_migrate.unfold,C05,C08,C10,C13] (r, final(storage).view()) == self.call_unfold(Entry::Migrate, router, old(storage).view(), *block, address, None, msg@, None)
//@   replace_re? "\\|contract, deps, env\\| (?:\\{\\s*)?(?P<C>Self::verify_response\\(contract\\.migrate\\(deps, env, msg\\)\\?\\))(?:\\s*\\})?" => "|contract: &dyn Contract<ExecC, QueryC>, deps: DepsMut<QueryC>, env: Env| -> (cr: AnyResult<Response<ExecC>>) ensures cr == verified(contract.entry_sem(Entry::Migrate, old(deps.storage).view(), deps.querier.snap(), env, None, msg@, None).0) && final(deps.storage).view() == contract.entry_sem(Entry::Migrate, old(deps.storage).view(), deps.querier.snap(), env, None, msg@, None).1 { \\g<C> }"
//@ end

//@ fn src/wasm.rs :: WasmKeeper :: query_raw
//@   ret r
//@   ensures [C08.query_raw.own_window] r.b@ == (if window(storage.view(), contract_prefix(address)).contains_key(key@) { window(storage.view(), contract_prefix(address))[key@] } else { Seq::<u8>::empty() })
//@ end
//@ fn src/wasm.rs :: WasmKeeper :: query_smart
//@   ret r
//@   ensures [C08.query_smart.sem,C10] r == (match self.contract_data_sem(storage.view(), address) { Err(e) => Err(e), Ok(cd) => match self.code_of(cd.code_id) { None => Err(AnyError), Some(h) => h.query_sem(window(storage.view(), contract_prefix(address)), querier.snap(), env_of(address, *block), msg@) } })
//@   replace_re? "\\|handler, deps, env\\| (?P<C>handler\\.query\\(deps, env, msg\\))" => "|handler: &dyn Contract<ExecC, QueryC>, deps: Deps<QueryC>, env: Env| -> (cr: AnyResult<Binary>) ensures cr == handler.query_sem(deps.storage.view(), deps.querier.snap(), env, msg@) { \\g<C> }"
//@ end
    // C08 / C10 / C11 / C12, from the statements: a wasm query names its contract by address (validated); a smart query is
    // answered by the code the contract currently runs, over the contract's own window and the given querier; a raw
    // query returns the contract's own value under the key (empty when absent); contract-info reports the recorded code
    // id, creator and admin; code-info is answered exactly for the ids in use, with the recorded creator and checksum
    pub open spec fn wasm_query_sem(&self, qsnap: (St, BlockInfo), st: St, block: BlockInfo, request: WasmQuery) -> AnyResult<Binary> {
        match request {
            WasmQuery::Smart { contract_addr, msg } => {
                if !spec_valid_addr(contract_addr@) { Err(AnyError) } else {
                    let address = Addr { s: contract_addr };
                    match self.contract_data_sem(st, address) { Err(e) => Err(e), Ok(cd) => match self.code_of(cd.code_id) { None => Err(AnyError), Some(h) => h.query_sem(window(st, contract_prefix(address)), qsnap, env_of(address, block), msg.b@) } }
                }
            }
            WasmQuery::Raw { contract_addr, key } => {
                if !spec_valid_addr(contract_addr@) { Err(AnyError) } else {
                    let w = window(st, contract_prefix(Addr { s: contract_addr }));
                    Ok(Binary { b: vec_of(if w.contains_key(key.b@) { w[key.b@] } else { Seq::<u8>::empty() }) })
                }
            }
            WasmQuery::ContractInfo { contract_addr } => {
                if !spec_valid_addr(contract_addr@) { Err(AnyError) } else {
                    match self.contract_data_sem(st, Addr { s: contract_addr }) {
                        Err(e) => Err(AnyError),
                        Ok(cd) => { let resp = ContractInfoResponse { code_id: cd.code_id, creator: cd.creator, admin: cd.admin, pinned: false, ibc_port: None };
                                    if spec_json_ok(resp) { Ok(spec_json(resp)) } else { Err(AnyError) } }
                    }
                }
            }
            WasmQuery::CodeInfo { code_id } => {
                if !(code_id >= 1 && self.code_data@.contains_key(code_id)) { Err(AnyError) } else {
                    let resp = CodeInfoResponse { code_id, creator: self.code_data@[code_id].creator, checksum: self.code_data@[code_id].checksum };
                    if spec_json_ok(resp) { Ok(spec_json(resp)) } else { Err(AnyError) }
                }
            }
        }
    }
//@ fn src/wasm.rs :: Wasm for WasmKeeper :: query
//@   ret r
//@   ensures [C08.wasm_query.sem,C10,C11,C12] r == self.wasm_query_sem(querier.snap(), storage.view(), *block, request)
//@   replace* ".map_err(Into::into)" => ".map_err(|vx_e: StdError| -> (vx_o: AnyError) { AnyError })"
//@   replace? "block, msg.into())" => "block, msg.to_vec())"
//@   replace? "storage, &key))" => "storage, key.as_slice()))"
//@   replace_re? "_ => unimplemented!\\(.*?\\),\\n" => ""
//@   begin broadcast use {axiom_vec_canon, axiom_vec_of_view, axiom_str_canon, axiom_str_of_view, lemma_str_ext_b, lemma_vec_ext_b};
//@ end
//@ fn src/wasm.rs :: Wasm for WasmKeeper :: dump_wasm_raw
//@   ret r
//@   ensures [C08.dump.own_window] is_range_of(recs_view(r@), window(storage.view(), contract_prefix(*address)), None, None, Order::Ascending)
//@   replace? "storage.range(None, None, Order::Ascending).collect()" => "iter_collect(storage.range(None, None, Order::Ascending))"
//@ end
}

// the arguments with_storage hands to the action: the code registered for the contract (h), the contract's own
// window (own), a querier over the enclosing transaction's state (qsnap), and the environment (e)
pub open spec fn ws_args<ExecC, QueryC>(k: &WasmKeeper<ExecC, QueryC>, s0: St, block: BlockInfo, address: Addr, h: &dyn Contract<ExecC, QueryC>, own: St, qsnap: (St, BlockInfo), e: Env) -> bool {
    &&& k.contract_data_sem(s0, address) is Ok
    &&& k.code_of(k.contract_data_sem(s0, address).unwrap().code_id) == Some(h)
    &&& own == window(s0, contract_prefix(address))
    &&& qsnap == (s0, block)
    &&& e == env_of(address, block)
}

pub open spec fn ws_args_ro<ExecC, QueryC>(k: &WasmKeeper<ExecC, QueryC>, s0: St, block: BlockInfo, address: Addr, h: &dyn Contract<ExecC, QueryC>, own: St, e: Env) -> bool {
    &&& k.contract_data_sem(s0, address) is Ok
    &&& k.code_of(k.contract_data_sem(s0, address).unwrap().code_id) == Some(h)
    &&& own == window(s0, contract_prefix(address))
    &&& e == env_of(address, block)
}

pub proof fn lemma_contract_prefix(a: Addr)
    ensures lp_nested(seq![ns_wasm(), ns_contract_data() + a.bytes()]) == contract_prefix(a)
{
}

// <Box<dyn Contract> as Borrow<dyn Contract>>::borrow is the identity on the pointee
#[verifier::external_body]
pub fn box_borrow<'a, ExecC, QueryC>(b: &'a Box<dyn Contract<ExecC, QueryC>>) -> (r: &'a dyn Contract<ExecC, QueryC>)
    ensures r == &**b
{ &**b }

// type-invariant principle for the keeper's private code tables: every `&mut self` method of WasmKeeper
// (save_code, store_code, store_code_with_id, duplicate_code; proved in group wasm_registry: clauses C11.*.keeps_wf)
// and its constructors establish / preserve codes_wf(), and the fields are private.   TRUSTED
pub axiom fn axiom_keeper_wf<ExecC, QueryC>(k: &WasmKeeper<ExecC, QueryC>)
    ensures k.codes_wf();
