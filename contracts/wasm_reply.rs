// ------------------------------------------------------------------ wasm.rs : reply / process_response / build_app_response
//@ item src/wasm.rs :: const CONTRACT_ATTR
//@   replace "&str" => "&'static str"
//@ end
//@ impl_open src/wasm.rs :: WasmKeeper
//@   pick fn process_response
//@   replace "ExecC: CustomMsg + DeserializeOwned + 'static," => ""
//@   replace "QueryC: CustomQuery + DeserializeOwned + 'static," => ""
//@ end
//@ fn src/wasm.rs :: WasmKeeper :: reply
//@   ret r
//@   no_decreases
//@   ensures [C03.reply.unfold,C02,C04] (r, final(storage).view()) == self.reply_unfold(router, old(storage).view(), *block, contract, reply)
//@   begin broadcast use {axiom_vec_canon, axiom_vec_of_view, axiom_str_canon, axiom_str_of_view};
//@   before? "let res = self.call_reply(" proof { lemma_entry_event(custom_event, "reply"@, contract, seq![attr_of("mode"@, ok_attr@)]); }
//@ end

//@ fn src/wasm.rs :: WasmKeeper :: build_app_response
//@   ret r
//@   ensures [C04.build.events,C13] r.0.events@ == build_events(*contract, custom_event, response.attributes@, response.events@)
//@   ensures [C04.build.data] r.0.data == response.data && r.1 == response.messages
//@   begin broadcast use {axiom_vec_canon, axiom_vec_of_view, axiom_str_canon, axiom_str_of_view}; proof { axiom_vec_len(response.events); }
//@   replace_re? "let wasm_events = (?P<E>events\\.into_iter\\(\\))\\.map\\(\\|mut (?P<X>\\w+)\\| \\{(?P<B>.*?)\\n\\s*(?P=X)\\n\\s*\\}\\);\\s*app_events\\.extend\\(wasm_events\\);" => "let ghost vx_pre = app_events@;\n for \\g<X> in vx_it: \\g<E>\n invariant /*VXCLAUSE C04.build.loop_inv,C13*/ (vx_it.seq() == events@ && app_events@ == vx_pre + Seq::new(vx_it.index@ as nat, |i: int| wasm_custom_event(*contract, events@[i]))),\n { let mut \\g<X> = \\g<X>; let ghost vx_e0 = \\g<X>; \\g<B>\n proof { assert(\\g<X>.attributes@.subrange(1, \\g<X>.attributes@.len() as int) =~= vx_e0.attributes@); lemma_wasm_custom_event(vx_e0, \\g<X>, *contract); assert(app_events@.push(\\g<X>) =~= vx_pre + Seq::new((vx_it.index@ + 1) as nat, |i: int| wasm_custom_event(*contract, events@[i]))); } app_events.push(\\g<X>); }"
//@   replace? "ev.ty = format!(\"wasm-{}\", ev.ty);" => "ev.ty = fmt_wasm_prefix(&ev.ty);"
//@   after? "app_events.push(custom_event);" proof { assert(app_events@ =~= seq![custom_event]); }
//@   after? "app_events.push(wasm_event);" proof { assert(wasm_event.attributes@.subrange(1, wasm_event.attributes@.len() as int) =~= attributes@); lemma_wasm_attr_event(wasm_event, *contract, attributes@); assert(app_events@ =~= seq![custom_event] + seq![wasm_attr_event(*contract, attributes@)]); }
//@   before? "let app_response = AppResponse {" proof { assert(app_events@ =~= build_events(*contract, custom_event, attributes@, events@)); }
//@ end

//@ fn src/wasm.rs :: WasmKeeper :: process_response
//@   ret r
//@   no_decreases
//@   ensures [C02.fold.sem,C03,C04] (r, final(storage).view()) == self.fold_sem(router, old(storage).view(), *block, contract, response.events@, response.data, sub_messages@)
//@   begin broadcast use {axiom_vec_canon, axiom_vec_of_view};
//@   replace_re? "let data = (?P<E>sub_messages\\s*\\.into_iter\\(\\)(?:\\s*\\.\\w+\\(\\))*?)\\s*\\.try_fold\\(data, \\|data, (?P<X>\\w+)\\| \\{(?P<B>.*?)Ok::<_, AnyError>\\((?P<V>[^;]*?)\\)\\s*\\}\\)\\?;" => "let ghost vx_s0 = storage.view(); let ghost vx_ev0 = events@; let ghost vx_d0 = data; let mut data = data; proof { assert(sub_messages@.subrange(0, sub_messages@.len() as int) =~= sub_messages@); }\n for \\g<X> in vx_it: \\g<E>\n invariant /*VXCLAUSE C02.fold.loop_inv,C03,C04*/ (vx_it.seq() == sub_messages@ && vx_s0 == old(storage).view() && vx_ev0 == response.events@ && vx_d0 == response.data && 0 <= vx_it.index@ <= sub_messages@.len() && self.fold_sem(router, vx_s0, *block, contract, vx_ev0, vx_d0, sub_messages@) == self.fold_sem(router, storage.view(), *block, contract, events@, data, sub_messages@.subrange(vx_it.index@ as int, sub_messages@.len() as int))),\n { proof { assert(sub_messages@.subrange(vx_it.index@ as int, sub_messages@.len() as int)[0] == sub_messages@[vx_it.index@ as int]); assert(sub_messages@.subrange(vx_it.index@ as int, sub_messages@.len() as int).drop_first() =~= sub_messages@.subrange(vx_it.index@ + 1, sub_messages@.len() as int)); } let ghost vx_ev = events@; \\g<B> proof { assert(events@ =~= vx_ev + sub_response.events@); } data = \\g<V>; }\n proof { assert(sub_messages@.subrange(sub_messages@.len() as int, sub_messages@.len() as int) =~= Seq::<SubMsg<ExecC>>::empty()); }"
//@   before? "re:^\\s*Ok\\(AppResponse \\{ events, data \\}\\)" proof { axiom_vec_canon(events); }
//@ end
}

pub proof fn lemma_entry_event(e: Event, name: Seq<char>, contract: Addr, extra: Seq<Attribute>)
    requires e.ty@ == name, e.attributes@.len() == 1 + extra.len(),
        e.attributes@[0].key@ == contract_attr_key(), e.attributes@[0].value@ == contract.s@,
        forall|i: int| 0 <= i < extra.len() ==> e.attributes@[1 + i].key@ == extra[i].key@ && e.attributes@[1 + i].value@ == extra[i].value@
    ensures e == entry_event(name, contract, extra)
{
    broadcast use {axiom_vec_canon, axiom_vec_of_view, axiom_str_canon, axiom_str_of_view};
    let want = seq![attr_of(contract_attr_key(), contract.s@)] + extra;
    assert forall|i: int| 0 <= i < want.len() implies e.attributes@[i] == want[i] by {
        lemma_attr_eq(e.attributes@[i], want[i]);
    }
    assert(e.attributes@ =~= want);
    lemma_vec_eq(e.attributes, vec_of(want));
    lemma_str_eq(e.ty, str_of(name));
}
pub proof fn lemma_attr_eq(a: Attribute, b: Attribute)
    requires a.key@ == b.key@, a.value@ == b.value@
    ensures a == b
{
    lemma_str_eq(a.key, b.key);
    lemma_str_eq(a.value, b.value);
}
pub proof fn lemma_wasm_attr_event(e: Event, contract: Addr, attributes: Seq<Attribute>)
    requires e.ty@ == "wasm"@, e.attributes@.len() == 1 + attributes.len(),
        e.attributes@[0].key@ == contract_attr_key(), e.attributes@[0].value@ == contract.s@,
        e.attributes@.subrange(1, e.attributes@.len() as int) == attributes
    ensures e == wasm_attr_event(contract, attributes)
{
    broadcast use {axiom_vec_canon, axiom_vec_of_view, axiom_str_canon, axiom_str_of_view};
    let want = seq![attr_of(contract_attr_key(), contract.s@)] + attributes;
    lemma_attr_eq(e.attributes@[0], want[0]);
    assert forall|i: int| 1 <= i < want.len() implies e.attributes@[i] == want[i] by {
        assert(e.attributes@.subrange(1, e.attributes@.len() as int)[i - 1] == attributes[i - 1]);
    }
    assert(e.attributes@ =~= want);
    lemma_vec_eq(e.attributes, vec_of(want));
    lemma_str_eq(e.ty, str_of("wasm"@));
}
pub proof fn lemma_wasm_custom_event(e0: Event, e: Event, contract: Addr)
    requires e.ty@ == "wasm-"@ + e0.ty@, e.attributes@.len() == 1 + e0.attributes@.len(),
        e.attributes@[0].key@ == contract_attr_key(), e.attributes@[0].value@ == contract.s@,
        e.attributes@.subrange(1, e.attributes@.len() as int) == e0.attributes@
    ensures e == wasm_custom_event(contract, e0)
{
    broadcast use {axiom_vec_canon, axiom_vec_of_view, axiom_str_canon, axiom_str_of_view};
    let want = seq![attr_of(contract_attr_key(), contract.s@)] + e0.attributes@;
    lemma_attr_eq(e.attributes@[0], want[0]);
    assert forall|i: int| 1 <= i < want.len() implies e.attributes@[i] == want[i] by {
        assert(e.attributes@.subrange(1, e.attributes@.len() as int)[i - 1] == e0.attributes@[i - 1]);
    }
    assert(e.attributes@ =~= want);
    lemma_vec_eq(e.attributes, vec_of(want));
    lemma_str_eq(e.ty, str_of("wasm-"@ + e0.ty@));
}
