// src/app.rs : RouterQuerier (the querier handed to contracts)
//@ item src/app.rs :: struct RouterQuerier
//@   attr #[verifier::reject_recursive_types(ExecC)]
//@   attr #[verifier::reject_recursive_types(QueryC)]
//@ end
impl<'a, ExecC, QueryC> Querier for RouterQuerier<'a, ExecC, QueryC> {
    // a RouterQuerier answers from the store and block it was built over
    open spec fn snap(&self) -> (St, BlockInfo) { (self.storage.view(), *self.block_info) }
}
//@ impl_open src/app.rs :: RouterQuerier
//@ end
//@ fn src/app.rs :: RouterQuerier :: new
//@   ret r
//@   ensures [C10.rq.snapshot] r.snap() == (storage.view(), *block_info)
//@ end
}

