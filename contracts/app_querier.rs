// src/app.rs : RouterQuerier (the querier handed to contracts)
//@ item src/app.rs :: struct RouterQuerier
//@   attr #[verifier::reject_recursive_types(ExecC)]
//@   attr #[verifier::reject_recursive_types(QueryC)]
//@ end
pub open spec fn raw_query_post<ExecC, QueryC>(router: &dyn CosmosRouter<ExecC, QueryC>, st: St, block: BlockInfo, bytes: Seq<u8>, r: QuerierResult) -> bool {
    match spec_from_json::<QueryRequest<QueryC>>(bytes) {
        Err(_) => r is Err,
        Ok(req) => r matches SystemResult::Ok(cr) && (match router.query_sem(st, block, req) { Ok(b) => cr == ContractResult::<Binary>::Ok(b), Err(_) => cr is Err }),
    }
}
impl<'a, ExecC, QueryC> Querier for RouterQuerier<'a, ExecC, QueryC> {
    // a RouterQuerier answers from the store and block it was built over
    open spec fn snap(&self) -> (St, BlockInfo) { (self.storage.view(), *self.block_info) }
}
//@ impl_open src/app.rs :: RouterQuerier
//@ end
//@ fn src/app.rs :: RouterQuerier :: new
//@   ret r
//@   ensures [C10.rq.snapshot] r.snap() == (storage.view(), *block_info)
//@ end
// the answer a contract (or a user through App::wrap) gets: the request is decoded, routed by Router::query over exactly
// the store and block the querier was built over, and the module's answer comes back inside the two envelopes
// (Ok(Ok(bytes)) for an answer, Ok(Err(text)) for a module failure, Err(InvalidRequest) when the bytes are no request)
//@ fn src/app.rs :: Querier for RouterQuerier :: raw_query
//@   ret r
//@   ensures [C10.rq.answer,C17,C08] raw_query_post::<ExecC, QueryC>(self.router, self.storage.view(), *self.block_info, bin_request@, r)
//@   replace "match from_json(bin_request) {" => "match from_json(bin_request.to_vec()) {"
//@   replace "request: bin_request.into()," => "request: binary_from_slice(bin_request),"
//@   replace_re "let contract_result: ContractResult<Binary> = self\\s*\\.router\\s*\\.query\\(self\\.api, self\\.storage, self\\.block_info, request\\)\\s*\\.into\\(\\);" => "let contract_result: ContractResult<Binary> = any_to_contract_result(self.router.query(self.api, self.storage, self.block_info, request));"
//@ end
}
