// ------------------------------------------------------------------ app.rs : Router
//@ item src/app.rs :: struct Router
//@ end

//@ include contracts/app_querier.rs
//@ impl_open src/app.rs :: Router
//@   replace "CustomT::ExecT: CustomMsg + DeserializeOwned + 'static," => ""
//@   replace "CustomT::QueryT: CustomQuery + DeserializeOwned + 'static," => ""
//@ end
//@ fn src/app.rs :: Router :: querier
//@   ret r
//@   ensures [C10.router.querier_snapshot] r.snap() == (storage.view(), *block_info)
//@   ensures [C10.router.querier_self] r.storage.view() == storage.view() && *r.block_info == *block_info && forall|st: St, b: BlockInfo, req: QueryRequest<CustomT::QueryT>| #[trigger] r.router.query_sem(st, b, req) == self.query_sem(st, b, req)
//@ end
}

//@ impl_open src/app.rs :: CosmosRouter for Router
//@   replace "CosmosRouter\n" => "CosmosRouter<CustomT::ExecT, CustomT::QueryT>\n"
//@   replace "CustomT::ExecT: CustomMsg + DeserializeOwned + 'static," => ""
//@   replace "CustomT::QueryT: CustomQuery + DeserializeOwned + 'static," => ""
//@ end
    // THE PROPERTY (C17), written from the statement: each kind of message goes, with sender, payload, block and
    // this router intact, to the module configured for that kind and to no other; the module's result is the result.
    open spec fn exec_sem(&self, pre: St, block: BlockInfo, sender: Addr, msg: CosmosMsg<CustomT::ExecT>) -> (AnyResult<AppResponse>, St) {
        match msg {
            CosmosMsg::Wasm(m) => self.wasm.exec_sem(self, pre, block, sender, m),
            CosmosMsg::Bank(m) => self.bank.exec_sem(self, pre, block, sender, m),
            CosmosMsg::Custom(m) => self.custom.exec_sem(self, pre, block, sender, m),
            CosmosMsg::Staking(m) => self.staking.exec_sem(self, pre, block, sender, m),
            CosmosMsg::Distribution(m) => self.distribution.exec_sem(self, pre, block, sender, m),
            CosmosMsg::Ibc(m) => self.ibc.exec_sem(self, pre, block, sender, m),
            CosmosMsg::Gov(m) => self.gov.exec_sem(self, pre, block, sender, m),
            CosmosMsg::Stargate { type_url, value } => self.stargate.stargate_sem(self, pre, block, sender, type_url, value),
            CosmosMsg::Any(m) => self.stargate.any_sem(self, pre, block, sender, m),
        }
    }
    open spec fn query_sem(&self, st: St, block: BlockInfo, request: QueryRequest<CustomT::QueryT>) -> AnyResult<Binary> {
        match request {
            QueryRequest::Wasm(q) => self.wasm.query_sem((st, block), st, block, q),
            QueryRequest::Bank(q) => self.bank.query_sem((st, block), st, block, q),
            QueryRequest::Custom(q) => self.custom.query_sem((st, block), st, block, q),
            QueryRequest::Staking(q) => self.staking.query_sem((st, block), st, block, q),
            QueryRequest::Ibc(q) => self.ibc.query_sem((st, block), st, block, q),
            QueryRequest::Stargate { path, data } => self.stargate.query_stargate_sem((st, block), st, block, path, data),
            QueryRequest::Grpc(q) => self.stargate.query_grpc_sem((st, block), st, block, q),
            // the distribution module's query type is Empty: it cannot take a DistributionQuery; what the statement leaves
            // room for is a failure the caller sees (the code panics instead: known finding, see DESIGN §6)
            QueryRequest::Distribution(q) => Err(AnyError),
        }
    }
    open spec fn sudo_sem(&self, pre: St, block: BlockInfo, msg: SudoMsg) -> (AnyResult<AppResponse>, St) {
        match msg {
            SudoMsg::Wasm(m) => self.wasm.sudo_sem(self, pre, block, m),
            SudoMsg::Bank(m) => self.bank.sudo_sem(self, pre, block, m),
            SudoMsg::Staking(m) => self.staking.sudo_sem(self, pre, block, m),
            // SudoMsg::Custom carries an Empty payload no configured module takes: what the statements leave room for is an
            // error with the state unchanged (the code panics instead: known finding, see DESIGN §6)
            SudoMsg::Custom(m) => (Err(AnyError), pre),
        }
    }
//@ fn src/app.rs :: CosmosRouter for Router :: execute
//@   ret r
//@   ensures [C17.exec.dispatch] (r, final(storage).view()) == self.exec_sem(old(storage).view(), *block, sender, msg)
//@   replace* "Self::ExecC" => "CustomT::ExecT"
//@ end
//@ fn src/app.rs :: CosmosRouter for Router :: query
//@   ret r
//@   ensures [C17.query.dispatch,C10] r == self.query_sem(storage.view(), *block, request)
//@   replace* "Self::QueryC" => "CustomT::QueryT"
//@ end
//@ fn src/app.rs :: CosmosRouter for Router :: sudo
//@   ret r
//@   ensures [C17.sudo.dispatch,C01] (r, final(storage).view()) == self.sudo_sem(old(storage).view(), *block, msg)
//@ end
}

// ------------------------------------------------------------------ app.rs : App
//@ item src/app.rs :: struct App
//@   replace_re " = [A-Za-z]+(<[A-Za-z, ]*>)?,\n" => ",\n"
//@ end

// run the messages in order on one evolving state; stop at the first failure (C01: order, each sees its predecessors)
pub open spec fn run_msgs<E, Q, R: CosmosRouter<E, Q>>(router: R, s: St, block: BlockInfo, sender: Addr, msgs: Seq<CosmosMsg<E>>) -> (AnyResult<Seq<AppResponse>>, St)
    decreases msgs.len()
{
    if msgs.len() == 0 { (Ok(Seq::<AppResponse>::empty()), s) }
    else {
        let (r1, s1) = router.exec_sem(s, block, sender, msgs[0]);
        match r1 {
            Err(e) => (Err(e), s1),
            Ok(a) => {
                let (rr, s2) = run_msgs(router, s1, block, sender, msgs.drop_first());
                (match rr { Ok(v) => Ok(seq![a] + v), Err(e) => Err(e) }, s2)
            }
        }
    }
}
// what a transactional entry point returns / leaves behind, given what the wrapped call did on the cache
pub open spec fn multi_result(r: AnyResult<Vec<AppResponse>>, s_final: St, s0: St, run: (AnyResult<Seq<AppResponse>>, St)) -> bool {
    match run.0 {
        Ok(sq) => r is Ok && r.unwrap()@ == sq && s_final == run.1,
        Err(_) => r is Err && s_final == s0,
    }
}
pub open spec fn commit_if_ok(run: (AnyResult<AppResponse>, St), s0: St) -> (AnyResult<AppResponse>, St) {
    match run.0 { Ok(a) => run, Err(e) => (Err(e), s0) }
}


// closure-level statement: the closure's result and the cache state are exactly what running the messages gives
pub open spec fn multi_closure(cr: AnyResult<Vec<AppResponse>>, s_final: St, run: (AnyResult<Seq<AppResponse>>, St)) -> bool {
    match run.0 {
        Ok(sq) => cr is Ok && cr.unwrap()@ == sq && s_final == run.1,
        Err(_) => cr is Err,
    }
}
// loop invariant of the (desugared, rule D2) map/collect: after i messages with responses `out` and state `s`,
// the whole run equals `out` followed by the run of the remaining messages from `s`
pub open spec fn multi_inv<E, Q, R: CosmosRouter<E, Q>>(router: R, s0: St, block: BlockInfo, sender: Addr, msgs: Seq<CosmosMsg<E>>, i: int, out: Seq<AppResponse>, s: St) -> bool {
    0 <= i <= msgs.len() && {
        let rest = run_msgs(router, s, block, sender, msgs.subrange(i, msgs.len() as int));
        run_msgs(router, s0, block, sender, msgs) == ((match rest.0 { Ok(v) => Ok(out + v), Err(e) => Err(e) }), rest.1)
    }
}
pub proof fn lemma_run_msgs_prepend<E, Q, R: CosmosRouter<E, Q>>(router: R, s0: St, block: BlockInfo, sender: Addr, msgs: Seq<CosmosMsg<E>>, i: int)
    requires 0 <= i < msgs.len()
    ensures msgs.subrange(i, msgs.len() as int).drop_first() == msgs.subrange(i + 1, msgs.len() as int), msgs.subrange(i, msgs.len() as int)[0] == msgs[i]
{
    assert(msgs.subrange(i, msgs.len() as int).drop_first() =~= msgs.subrange(i + 1, msgs.len() as int));
}
// one step: executing message i from state s and pushing its response re-establishes the invariant (or the run fails)
pub proof fn lemma_run_msgs_step<E, Q, R: CosmosRouter<E, Q>>(router: R, s0: St, block: BlockInfo, sender: Addr, msgs: Seq<CosmosMsg<E>>, i: int, out: Seq<AppResponse>, s: St)
    requires multi_inv(router, s0, block, sender, msgs, i, out, s), i < msgs.len()
    ensures ({
        let (r1, s1) = router.exec_sem(s, block, sender, msgs[i]);
        match r1 {
            Ok(a) => multi_inv(router, s0, block, sender, msgs, i + 1, out.push(a), s1),
            Err(e) => run_msgs(router, s0, block, sender, msgs).0 is Err,
        }
    })
{
    lemma_run_msgs_prepend(router, s0, block, sender, msgs, i);
    let (r1, s1) = router.exec_sem(s, block, sender, msgs[i]);
    match r1 {
        Ok(a) => {
            let rest = run_msgs(router, s1, block, sender, msgs.subrange(i + 1, msgs.len() as int));
            match rest.0 { Ok(v) => { assert(out + (seq![a] + v) =~= out.push(a) + v); }, Err(e) => {} }
        }
        Err(e) => {}
    }
}
pub proof fn lemma_run_msgs_done<E, Q, R: CosmosRouter<E, Q>>(router: R, s0: St, block: BlockInfo, sender: Addr, msgs: Seq<CosmosMsg<E>>, out: Seq<AppResponse>, s: St)
    requires multi_inv(router, s0, block, sender, msgs, msgs.len() as int, out, s)
    ensures run_msgs(router, s0, block, sender, msgs) == (Ok::<Seq<AppResponse>, AnyError>(out), s)
{
    assert(msgs.subrange(msgs.len() as int, msgs.len() as int) =~= Seq::<CosmosMsg<E>>::empty());
    assert(out + Seq::<AppResponse>::empty() =~= out);
}
pub proof fn lemma_run_msgs_init<E, Q, R: CosmosRouter<E, Q>>(router: R, s0: St, block: BlockInfo, sender: Addr, msgs: Seq<CosmosMsg<E>>)
    ensures multi_inv(router, s0, block, sender, msgs, 0, Seq::<AppResponse>::empty(), s0)
{
    assert(msgs.subrange(0, msgs.len() as int) =~= msgs);
    let rest = run_msgs(router, s0, block, sender, msgs);
    match rest.0 { Ok(v) => { assert(Seq::<AppResponse>::empty() + v =~= v); }, Err(e) => {} }
}
pub proof fn lemma_run_msgs_one<E, Q, R: CosmosRouter<E, Q>>(router: R, s0: St, block: BlockInfo, sender: Addr, msgs: Seq<CosmosMsg<E>>)
    requires msgs.len() == 1
    ensures ({
        let (r1, s1) = router.exec_sem(s0, block, sender, msgs[0]);
        run_msgs(router, s0, block, sender, msgs) == ((match r1 { Ok(a) => Ok(seq![a]), Err(e) => Err(e) }), s1)
    })
{
    assert(msgs.drop_first() =~= Seq::<CosmosMsg<E>>::empty());
    let (r1, s1) = router.exec_sem(s0, block, sender, msgs[0]);
    match r1 { Ok(a) => { assert(run_msgs(router, s1, block, sender, Seq::<CosmosMsg<E>>::empty()) == (Ok::<Seq<AppResponse>, AnyError>(Seq::<AppResponse>::empty()), s1)); assert(seq![a] + Seq::<AppResponse>::empty() =~= seq![a]); }, Err(e) => {} }
}

//@ impl_open src/app.rs :: App
//@   replace "CustomT::ExecT: CustomMsg + DeserializeOwned + 'static," => ""
//@   replace "CustomT::QueryT: CustomQuery + DeserializeOwned + 'static," => ""
//@   pick fn sudo
//@ end
//@ fn src/app.rs :: App :: sudo
//@   ret r
//@   ensures [C01.sudo.sem,C02] (r, final(self).storage.view()) == commit_if_ok(old(self).router.sudo_sem(old(self).storage.view(), old(self).block, msg), old(self).storage.view())
//@   ensures [C01.sudo.frame] final(self).block == old(self).block && final(self).router == old(self).router
//@   replace_re? "\\|write_cache, (?P<U>_vx\\d+)\\| \\{" => "|write_cache: &mut dyn Storage, \\g<U>: &dyn Storage| -> (cr: AnyResult<AppResponse>) ensures (cr, final(write_cache).view()) == router.sudo_sem(old(write_cache).view(), *block, msg) {"
//@ end
//@ fn src/app.rs :: App :: wasm_sudo
//@   ret r
//@   ensures [C01.wasm_sudo.err_unchanged,C02] r is Err ==> final(self).storage.view() == old(self).storage.view()
//@   ensures [C01.wasm_sudo.sem,C02] if spec_json_ok(*msg) { (r, final(self).storage.view()) == commit_if_ok(old(self).router.wasm.sudo_sem(&old(self).router, old(self).storage.view(), old(self).block, WasmSudo { contract_addr: spec_into::<U, Addr>(contract_addr), message: spec_json(*msg) }), old(self).storage.view()) } else { r is Err }
//@   replace? "contract_addr: contract_addr.into()," => "contract_addr: vx_into::<U, Addr>(contract_addr),"
//@   ensures [C01.wasm_sudo.frame] final(self).block == old(self).block && final(self).router == old(self).router
//@   replace_re? "\\|write_cache, (?P<U>_vx\\d+)\\| \\{" => "|write_cache: &mut dyn Storage, \\g<U>: &dyn Storage| -> (cr: AnyResult<AppResponse>) ensures (cr, final(write_cache).view()) == router.wasm.sudo_sem(router, old(write_cache).view(), *block, msg) {"
//@ end
//@ fn src/app.rs :: App :: execute_multi
//@   ret r
//@   ensures [C01.multi.sem,C02,C19] multi_result(r, final(self).storage.view(), old(self).storage.view(), run_msgs(old(self).router, old(self).storage.view(), old(self).block, sender, msgs@))
//@   ensures [C01.multi.frame] final(self).block == old(self).block && final(self).router == old(self).router
//@   replace_re? "\\|write_cache, (?P<U>_vx\\d+)\\| \\{" => "|write_cache: &mut dyn Storage, \\g<U>: &dyn Storage| -> (cr: AnyResult<Vec<AppResponse>>) ensures multi_closure(cr, final(write_cache).view(), run_msgs(*router, old(write_cache).view(), *block, sender, msgs@)) {"
//@   replace_re? "(?P<E>msgs\\.into_iter\\(\\)(?:\\s*\\.\\w+\\(\\))*?)\\s*\\.map\\(\\|(?P<X>\\w+)\\|\\s*(?P<F>router\\.execute\\([^;]*?\\))\\)\\s*\\.collect\\(\\)" => "let ghost vx_s0 = write_cache.view(); let mut vx_out: Vec<AppResponse> = Vec::new(); proof { lemma_run_msgs_init(*router, vx_s0, *block, sender, msgs@); }\n for \\g<X> in vx_it: \\g<E>\n invariant /*VXCLAUSE C01.multi.loop_inv*/ (vx_it.seq() == msgs@ && vx_s0 == old(write_cache).view() && multi_inv(*router, vx_s0, *block, sender, msgs@, vx_it.index@ as int, vx_out@, write_cache.view())),\n { proof { lemma_run_msgs_step(*router, vx_s0, *block, sender, msgs@, vx_it.index@ as int, vx_out@, write_cache.view()); } let vx_r = \\g<F>; vx_out.push(vx_r?); }\n proof { lemma_run_msgs_done(*router, vx_s0, *block, sender, msgs@, vx_out@, write_cache.view()); } Ok(vx_out)"
//@ end
}

//@ impl_open src/app.rs :: Executor for App
//@   replace "Executor<CustomT::ExecT>" => "Executor<CustomT::ExecT>"
//@   replace "CustomT::ExecT: CustomMsg + DeserializeOwned + 'static," => "CustomT::ExecT: CustomMsg,"
//@   replace "CustomT::QueryT: CustomQuery + DeserializeOwned + 'static," => ""
//@ end
//@ fn src/app.rs :: Executor for App :: execute
//@   ret r
//@   ensures [C01.exec.single,C02,C19] (r, final(self).storage.view()) == commit_if_ok(old(self).router.exec_sem(old(self).storage.view(), old(self).block, sender, msg), old(self).storage.view())
//@   ensures [C01.exec.frame] final(self).block == old(self).block && final(self).router == old(self).router
//@   begin proof { assert forall|sq: Seq<CosmosMsg<CustomT::ExecT>>| sq.len() == 1 implies #[trigger] run_msgs(self.router, self.storage.view(), self.block, sender, sq) == ((match self.router.exec_sem(self.storage.view(), self.block, sender, sq[0]).0 { Ok(a) => Ok(seq![a]), Err(e) => Err(e) }), self.router.exec_sem(self.storage.view(), self.block, sender, sq[0]).1) by { lemma_run_msgs_one(self.router, self.storage.view(), self.block, sender, sq); } }
//@ end
}

//@ impl_open src/app.rs :: App
//@   pick fn init_modules
//@ end
//@ fn src/app.rs :: App :: init_modules
//@   ret r
//@   requires [C20.app.init_pre] forall|r0: &mut Router<BankT, CustomT, WasmT, StakingT, DistrT, IbcT, GovT, StargateT>, a: &ApiT, st: &mut dyn Storage| #[trigger] init_fn.requires((r0, a, st))
//@   ensures [C20.app.init_modules] exists|r0: &mut Router<BankT, CustomT, WasmT, StakingT, DistrT, IbcT, GovT, StargateT>, a: &ApiT, st: &mut dyn Storage| #[trigger] init_fn.ensures((r0, a, st), r) && *r0 == old(self).router && *a == old(self).api && st.view() == old(self).storage.view() && final(self).router == *final(r0) && final(self).storage.view() == final(st).view() && final(self).api == old(self).api && final(self).block == old(self).block
//@ end
}

// ---- App as a Querier (App::wrap): answers from the committed store and the current block
//@ impl_open src/app.rs :: Querier for App
//@   replace_re "impl<BankT, ApiT, StorageT, CustomT, WasmT, StakingT, DistrT, IbcT, GovT, StargateT> Querier\\s*for App<" => "impl<BankT, ApiT, StorageT, CustomT, WasmT, StakingT, DistrT, IbcT, GovT, StargateT> App<"
//@   replace "CustomT::ExecT: CustomMsg + DeserializeOwned + 'static," => ""
//@   replace "CustomT::QueryT: CustomQuery + DeserializeOwned + 'static," => ""
//@ end
//@ fn src/app.rs :: Querier for App :: raw_query
//@   ret r
//@   ensures [C10.app.raw_query,C17] raw_query_post::<CustomT::ExecT, CustomT::QueryT>(&self.router, self.storage.view(), self.block, bin_request@, r)
//@   replace "&self.storage" => "as_dyn_ref(&self.storage)"
//@ end
}

// ---- block updates run the staking module's queue processing on the NEW block (C14: matured unbondings are paid by
// the first block update at or after their time)
//@ impl_open src/app.rs :: App
//@   pick fn set_block
//@ end
//@ fn src/app.rs :: App :: set_block
//@   ensures [C14.app.set_block,C01] final(self).block == block && final(self).router == old(self).router && final(self).storage.view() == old(self).router.staking.queue_sem(&old(self).router, old(self).storage.view(), block).1
//@ end
//@ fn src/app.rs :: App :: update_block
//@   requires [C14.app.update_block_pre] forall|b: &mut BlockInfo| *b == old(self).block ==> #[trigger] action.requires((b,))
//@   ensures [C14.app.update_block,C01] final(self).router == old(self).router && exists|b: &mut BlockInfo| *b == old(self).block && #[trigger] action.ensures((b,), ()) && final(self).block == *final(b) && final(self).storage.view() == old(self).router.staking.queue_sem(&old(self).router, old(self).storage.view(), *final(b)).1
//@ end
}
