// ------------------------------------------------------------------ transactions.rs
//@ item! src/transactions.rs :: enum Delta
//@ item! src/transactions.rs :: enum Op
//@ item! src/transactions.rs :: struct RepLog
//@ include spec/overlay.rs
//@ include spec/merge.rs

//@ item! src/transactions.rs :: struct StorageTransaction

// identity coercion &mut StorageTransaction -> &mut dyn Storage (rule R3) together with the type-invariant
// principle: through a `&mut dyn Storage` only `set` / `remove` can change the cache, and both are PROVED below to
// preserve wf() and the base; so wf() and the base survive whatever the holder of the reference does.  TRUSTED.
#[verifier::external_body]
pub fn tx_as_dyn_mut<'a, 'b>(x: &'a mut StorageTransaction<'b>) -> (r: &'a mut dyn Storage)
    requires old(x).wf()
    ensures r.view() == old(x).view(), final(x).view() == final(r).view(), final(x).wf(), final(x).base_view() == old(x).base_view()
{ x }

//@ impl_open src/transactions.rs :: StorageTransaction
//@ end
    // representation invariant: replaying the log over the base gives exactly what the deltas show
    pub closed spec fn wf(&self) -> bool {
        apply_ops(self.storage.view(), self.rep_log.ops()) == overlay(self.storage.view(), self.local_state@)
    }
    pub closed spec fn base_view(&self) -> St { self.storage.view() }
    pub closed spec fn log(&self) -> Seq<Op> { self.rep_log.ops() }
//@ fn src/transactions.rs :: StorageTransaction :: new
//@   ret r
//@   ensures [C06.new.empty,C01] r.wf() && r.view() == storage.view() && r.base_view() == storage.view() && r.log().len() == 0
//@   begin proof { lemma_overlay_empty(storage.view()); }
//@ end
//@ fn src/transactions.rs :: StorageTransaction :: prepare
//@   ret r
//@   ensures [C06.prepare.log,C01] r.ops() == self.log()
//@ end
}

//@ impl_open src/transactions.rs :: Storage for StorageTransaction
//@ end
    closed spec fn view(&self) -> St { overlay(self.storage.view(), self.local_state@) }
//@ fn src/transactions.rs :: Storage for StorageTransaction :: get
//@   ret r
//@   ensures [C06.get.overlay,C10,C08,C02] match r { Some(v) => self.view().contains_key(key@) && self.view()[key@] == v@, None => !self.view().contains_key(key@) }
//@   begin proof { axiom_vec_u8_key_laws(); lemma_lookup(self.local_state@, key); }
//@ end
//@ fn src/transactions.rs :: Storage for StorageTransaction :: range
//@   ret r
//@   replace "Box<dyn Iterator<Item = Record> + 'b>" => "RecordIter<'b>"
//@   ensures [C06.range.exact,C10,C08] is_range_of(recs_view(r.remaining()), self.view(), opt_view(start), opt_view(end), order)
//@   replace "let local: Box<dyn Iterator<Item = BTreeMapPairRef<Delta>>> =" => "let local: DeltaIter<'b> ="
//@   replace_re "Box::new\\((?P<E>iter::empty\\(\\)|local_raw(?:\\.rev\\(\\))?)\\)" => "DeltaIter::boxed(\\g<E>)"
//@   replace_re? "local_raw\\.rev\\(\\)" => "vx_rev(local_raw)"
//@   replace "Box::new(merged)" => "vx_box_merge(merged)"
//@   replace_re? "if (?P<A>\\w+) > (?P<B>\\w+) =>" => "if *\\g<A> > *\\g<B> =>"
//@   begin let ghost lo = opt_view(start); let ghost hi = opt_view(end); proof { axiom_vec_u8_cmp_lex(); }
//@   before "let local_raw = self.local_state.range(bounds);" let ghost gb = bounds; proof { axiom_brange_pre_vec_u8(bounds); assert(bview(bounds.0) == lo_of(lo) && bview(bounds.1) == hi_of(hi)); match (gb.0, gb.1) { (core::ops::Bound::Included(a), core::ops::Bound::Excluded(b)) => { assert(a@ == lo->0 && b@ == hi->0); lemma_lex_total(lo->0, hi->0); if lex_lt(lo->0, hi->0) { lemma_lex_asym(lo->0, hi->0); } lemma_lex_irrefl(lo->0); assert(vstd::std_specs::cmp::PartialOrdSpec::partial_cmp_spec(&a, &b) == Some(lex_cmp(a@, b@))); assert(!lex_lt(hi->0, lo->0)); }, _ => {} } assert(bounds_in_order(bview(bounds.0), bview(bounds.1))); }
//@   after "let local_raw = self.local_state.range(bounds);" proof { axiom_brange_vec_u8(self.local_state@, bounds, local_raw.remaining()); lemma_brange_is_lrange(lview(local_raw.remaining()), self.local_state@, lo, hi); lemma_lrange_reverse(lview(local_raw.remaining()), self.local_state@, lo, hi); lemma_lview_reverse(local_raw.remaining()); }
//@   before "DeltaIter::boxed(iter::empty())" proof { assert(lo is Some && hi is Some); assert(start@ == lo->0 && end@ == hi->0); lemma_lex_total(lo->0, hi->0); assert(lex_lt(hi->0, lo->0)); lemma_inverted_empty(self.local_state@, lo->0, hi->0, order); }
//@   before "let base = self.storage.range(start, end, order);" proof { if local.remaining().len() == 0 { assert(lview(local.remaining()) =~= Seq::<LItem>::empty()); } assert(is_lrange_of(lview(local.remaining()), self.local_state@, lo, hi, order)); }
//@   after "let merged = MergeOverlay::new(local, base, order);" proof { lemma_merge_is_range(merged.lrem(), merged.rrem(), self.storage.view(), self.local_state@, lo, hi, order); }
//@ end
//@ fn src/transactions.rs :: Storage for StorageTransaction :: set
//@   ensures [C06.set.view,C10,C08,C02] final(self).view() == old(self).view().insert(key@, value@)
//@   ensures [C06.set.keeps_wf,C01] old(self).wf() ==> final(self).wf()
//@   ensures [C06.set.base_untouched,C01] final(self).base_view() == old(self).base_view()
//@   begin broadcast use axiom_vec_u8_ext_b; proof { axiom_vec_u8_key_laws(); }
//@   after? "self.rep_log.append(op);" proof { lemma_overlay_insert(self.storage.view(), old(self).local_state@, op); lemma_apply_ops_push(self.storage.view(), old(self).rep_log.ops(), op); }
//@ end
//@ fn src/transactions.rs :: Storage for StorageTransaction :: remove
//@   ensures [C06.remove.view,C10,C08,C02] final(self).view() == old(self).view().remove(key@)
//@   ensures [C06.remove.keeps_wf,C01] old(self).wf() ==> final(self).wf()
//@   ensures [C06.remove.base_untouched,C01] final(self).base_view() == old(self).base_view()
//@   begin broadcast use axiom_vec_u8_ext_b; proof { axiom_vec_u8_key_laws(); }
//@   after? "self.rep_log.append(op);" proof { lemma_overlay_insert(self.storage.view(), old(self).local_state@, op); lemma_apply_ops_push(self.storage.view(), old(self).rep_log.ops(), op); }
//@ end
}

//@ impl_open src/transactions.rs :: RepLog
//@ end
    pub closed spec fn ops(&self) -> Seq<Op> { self.ops_log@ }
//@ fn src/transactions.rs :: RepLog :: new
//@   ret r
//@   ensures [C06.log.new_empty,C01] r.ops().len() == 0
//@ end
//@ fn src/transactions.rs :: RepLog :: append
//@   ensures [C06.log.append,C01] final(self).ops() == old(self).ops().push(op)
//@ end
//@ fn src/transactions.rs :: RepLog :: commit
//@   ensures [C06.commit.replays,C01] final(storage).view() == apply_ops(old(storage).view(), self.ops())
//@   loop 0 binder it
//@   loop 0 invariant [C06.commit.inv,C01] it.seq() == self.ops_log@ && storage.view() == apply_ops(old(storage).view(), self.ops_log@.subrange(0, it.index@ as int))
//@   after? "op.apply(storage);" proof { assert(self.ops_log@.subrange(0, it.index@ + 1).drop_last() =~= self.ops_log@.subrange(0, it.index@ as int)); }
//@   begin proof { assert(self.ops_log@.subrange(0, self.ops_log@.len() as int) =~= self.ops_log@); }
//@ end
}

//@ impl_open src/transactions.rs :: Op
//@ end
//@ fn src/transactions.rs :: Op :: apply
//@   ensures [C06.op.apply,C01] final(storage).view() == apply_op(old(storage).view(), *self)
//@ end
//@ fn src/transactions.rs :: Op :: to_delta
//@   ret r
//@   ensures [C06.op.to_delta,C01] r == delta_of(*self)
//@   begin broadcast use axiom_vec_u8_ext_b;
//@ end
}

//@ include contracts/transactional_only.rs

// ------------------------------------------------------------------ MergeOverlay: the merge of local deltas and base records
//@ item! src/transactions.rs :: type BTreeMapPairRef
//@ item src/transactions.rs :: struct MergeOverlay
//@   attr #[verifier::reject_recursive_types(L)]
//@   attr #[verifier::reject_recursive_types(R)]
//@ end
pub open spec fn lview(s: Seq<(&Vec<u8>, &Delta)>) -> Seq<LItem> { Seq::new(s.len(), |i: int| (s[i].0@, dview(*s[i].1))) }
pub proof fn lemma_lview_reverse(s: Seq<(&Vec<u8>, &Delta)>)
    ensures lview(s.reverse()) == lview(s).reverse()
{
    assert(lview(s.reverse()) =~= lview(s).reverse());
}
// BTreeMap::range on the cache's delta map: exactly the entries within the bounds, ascending by the byte order of the keys   TRUSTED (std docs)
pub axiom fn axiom_brange_vec_u8(m: Map<Vec<u8>, Delta>, range: (core::ops::Bound<Vec<u8>>, core::ops::Bound<Vec<u8>>), rem: Seq<(&Vec<u8>, &Delta)>)
    ensures brange_ok(m, range, rem) ==> is_brange_of(lview(rem), m, bview(range.0), bview(range.1));

// ... and BTreeMap::range does not panic unless start > end, or start == end with both bounds excluded   TRUSTED (std docs)
pub open spec fn bounds_in_order(lo: core::ops::Bound<Seq<u8>>, hi: core::ops::Bound<Seq<u8>>) -> bool {
    match (lo, hi) {
        (core::ops::Bound::Included(a), core::ops::Bound::Included(b)) => !lex_lt(b, a),
        (core::ops::Bound::Included(a), core::ops::Bound::Excluded(b)) => !lex_lt(b, a),
        (core::ops::Bound::Excluded(a), core::ops::Bound::Included(b)) => !lex_lt(b, a),
        (core::ops::Bound::Excluded(a), core::ops::Bound::Excluded(b)) => lex_lt(a, b),
        _ => true,
    }
}
pub axiom fn axiom_brange_pre_vec_u8(range: (core::ops::Bound<Vec<u8>>, core::ops::Bound<Vec<u8>>))
    ensures brange_pre::<Vec<u8>, (core::ops::Bound<Vec<u8>>, core::ops::Bound<Vec<u8>>)>(range) == bounds_in_order(bview(range.0), bview(range.1));

// stand-in for Box<dyn Iterator<Item = (&Vec<u8>, &Delta)> + 'a>  (rule R7): an opaque iterator over the local deltas
#[verifier::external_body]
pub struct DeltaIter<'a> { inner: Box<dyn Iterator<Item = (&'a Vec<u8>, &'a Delta)> + 'a> }
impl<'a> vstd::std_specs::iter::IteratorSpecImpl for DeltaIter<'a> {
    open spec fn obeys_prophetic_iter_laws(&self) -> bool { true }
    open spec fn remaining(&self) -> Seq<(&'a Vec<u8>, &'a Delta)> { self.rem() }
    open spec fn will_return_none(&self) -> bool { true }
    open spec fn decrease(&self) -> Option<nat> { Some(self.rem().len()) }
    open spec fn peek(&self, i: int) -> Option<(&'a Vec<u8>, &'a Delta)> { if 0 <= i < self.rem().len() { Some(self.rem()[i]) } else { None } }
}
impl<'a> Iterator for DeltaIter<'a> {
    type Item = (&'a Vec<u8>, &'a Delta);
    #[verifier::external_body]
    fn next(&mut self) -> (r: Option<(&'a Vec<u8>, &'a Delta)>) { self.inner.next() }
}
impl<'a> DeltaIter<'a> {
    pub uninterp spec fn rem(&self) -> Seq<(&'a Vec<u8>, &'a Delta)>;
    #[verifier::external_body]
    pub fn boxed<I: Iterator<Item = (&'a Vec<u8>, &'a Delta)> + 'a>(i: I) -> (r: DeltaIter<'a>)
        ensures r.remaining() == i.remaining()
    { DeltaIter { inner: Box::new(i) } }
}
// boxing the merged iterator: the box forwards `next`, which is PROVED to yield the first element of rem() and leave
// the rest (clause C06.merge.next_law); so the boxed iterator has rem() still to yield.   TRUSTED (forwarding only)
#[verifier::external_body]
pub fn vx_box_merge<'a, L, R>(m: MergeOverlay<'a, L, R>) -> (r: RecordIter<'a>)
    where L: Iterator<Item = BTreeMapPairRef<'a, Delta>> + 'a, R: Iterator<Item = Record> + 'a
    ensures recs_view(r.remaining()) == m.rem()
{ unimplemented!() }
// the iterator law: `r` is the first element of `pre` (None iff `pre` is empty) and `post` is what remains
pub open spec fn pop_law(pre: Seq<RecV>, r: Option<Record>, post: Seq<RecV>) -> bool {
    match r { Some(x) => pre.len() > 0 && (x.0@, x.1@) == pre[0] && post == pre.drop_first(), None => pre.len() == 0 && post.len() == 0 }
}
pub proof fn lemma_lview_drop(s: Seq<(&Vec<u8>, &Delta)>)
    requires s.len() > 0
    ensures lview(s.drop_first()) == lview(s).drop_first(), lview(s)[0] == (s[0].0@, dview(*s[0].1))
{
    assert(lview(s.drop_first()) =~= lview(s).drop_first());
}
pub proof fn lemma_recs_drop(s: Seq<Record>)
    requires s.len() > 0
    ensures recs_view(s.drop_first()) == recs_view(s).drop_first(), recs_view(s)[0] == (s[0].0@, s[0].1@)
{
    assert(recs_view(s.drop_first()) =~= recs_view(s).drop_first());
}

//@ impl_open src/transactions.rs :: MergeOverlay
//@ end
    pub open spec fn lrem(&self) -> Seq<LItem> { lview(pk_rem(&self.left)) }
    pub open spec fn rrem(&self) -> Seq<RecV> { recs_view(pk_rem(&self.right)) }
    // what the merged iterator has still to yield
    pub open spec fn rem(&self) -> Seq<RecV> { merge(self.lrem(), self.rrem(), self.order) }
//@ fn src/transactions.rs :: MergeOverlay :: new
//@   ret r
//@   replace_re "(?P<X>left|right)\\.peekable\\(\\)" => "vx_peekable(\\g<X>)"
//@   ensures [C06.merge.new,C10] r.lrem() == lview(left.remaining()) && r.rrem() == recs_view(right.remaining()) && r.order == order
//@ end
//@ fn src/transactions.rs :: MergeOverlay :: pick_match
//@   ret r
//@   requires [C06.merge.pick_pre] old(self).lrem().len() > 0 && old(self).rrem().len() > 0 && lkey@ == old(self).lrem()[0].0 && rkey@ == old(self).rrem()[0].0
//@   ensures [C06.merge.pick_law,C10] pop_law(old(self).rem(), r, final(self).rem()) && final(self).order == old(self).order
//@   decreases old(self).lrem().len() + old(self).rrem().len(), 1int
//@   begin proof { axiom_vec_u8_cmp_lex(); lemma_lex_total(lkey@, rkey@); lemma_recs_drop(pk_rem(&self.right)); if lex_lt(lkey@, rkey@) { lemma_lex_asym(lkey@, rkey@); } if lex_lt(rkey@, lkey@) { lemma_lex_asym(rkey@, lkey@); } lemma_lex_irrefl(lkey@); let l = self.lrem(); let r0 = self.rrem(); let m = merge(l, r0, self.order); if ord_lt(l[0].0, r0[0].0, self.order) { assert(m == emit(l[0]) + merge(l.drop_first(), r0, self.order)); } else if l[0].0 == r0[0].0 { assert(m == emit(l[0]) + merge(l.drop_first(), r0.drop_first(), self.order)); } else { assert(m == seq![r0[0]] + merge(l, r0.drop_first(), self.order)); assert(m.drop_first() =~= merge(l, r0.drop_first(), self.order)); } }
//@ end
//@ fn src/transactions.rs :: MergeOverlay :: take_left
//@   ret r
//@   requires [C06.merge.take_pre] old(self).lrem().len() > 0
//@   ensures [C06.merge.take_law,C10] pop_law(emit(old(self).lrem()[0]) + merge(old(self).lrem().drop_first(), old(self).rrem(), old(self).order), r, final(self).rem()) && final(self).order == old(self).order
//@   decreases old(self).lrem().len() + old(self).rrem().len(), 0int
//@   begin broadcast use axiom_vec_u8_ext_b; proof { lemma_lview_drop(pk_rem(&self.left)); }
//@   before "re:^\\s*match lval \\{\\s*$" proof { let pre = emit(old(self).lrem()[0]) + merge(old(self).lrem().drop_first(), old(self).rrem(), old(self).order); assert(self.lrem() == old(self).lrem().drop_first()); assert(self.rrem() == old(self).rrem()); assert(old(self).lrem()[0] == (lkey@, dview(*lval))); match lval { Delta::Set { value } => { assert(pre =~= seq![(lkey@, value@)] + self.rem()); assert(pre.drop_first() =~= self.rem()); }, Delta::Delete {} => { assert(pre =~= self.rem()); } } }
//@ end
}
//@ impl_open src/transactions.rs :: Iterator for MergeOverlay
//@   replace_re "impl<'a, L, R> Iterator for MergeOverlay<'a, L, R>" => "impl<'a, L, R> MergeOverlay<'a, L, R>"
//@ end
//@ fn src/transactions.rs :: Iterator for MergeOverlay :: next
//@   ret r
//@   replace "Option<Self::Item>" => "Option<Record>"
//@   ensures [C06.merge.next_law,C10] pop_law(old(self).rem(), r, final(self).rem()) && final(self).order == old(self).order
//@   decreases old(self).lrem().len() + old(self).rrem().len(), 2int
//@   begin proof { if pk_rem(&self.left).len() > 0 { lemma_lview_drop(pk_rem(&self.left)); } if pk_rem(&self.right).len() > 0 { lemma_recs_drop(pk_rem(&self.right)); } }
//@ end
}

//@ fn src/transactions.rs :: range_bounds
//@   ret r
//@   replace "-> impl RangeBounds<Vec<u8>>" => "-> (Bound<Vec<u8>>, Bound<Vec<u8>>)"
//@   replace_re? "\\|x\\| Bound::Included\\(x\\.to_vec\\(\\)\\)" => "|x: &[u8]| -> (b: Bound<Vec<u8>>) ensures b matches Bound::Included(v) && v@ == x@ { Bound::Included(x.to_vec()) }"
//@   replace_re? "\\|x\\| Bound::Excluded\\(x\\.to_vec\\(\\)\\)" => "|x: &[u8]| -> (b: Bound<Vec<u8>>) ensures b matches Bound::Excluded(v) && v@ == x@ { Bound::Excluded(x.to_vec()) }"
//@   ensures [C06.range.bounds,C10,C08] bview(r.0) == lo_of(opt_view(start)) && bview(r.1) == hi_of(opt_view(end))
//@ end
