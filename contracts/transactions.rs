// ------------------------------------------------------------------ transactions.rs
//@ item! src/transactions.rs :: enum Delta
//@ item! src/transactions.rs :: enum Op
//@ item! src/transactions.rs :: struct RepLog
//@ include spec/overlay.rs

//@ item! src/transactions.rs :: struct StorageTransaction

// identity coercion &mut StorageTransaction -> &mut dyn Storage (rule R3) together with the type-invariant
// principle: through a `&mut dyn Storage` only `set` / `remove` can change the cache, and both are PROVED below to
// preserve wf() and the base; so wf() and the base survive whatever the holder of the reference does.  TRUSTED.
#[verifier::external_body]
pub fn tx_as_dyn_mut<'a, 'b>(x: &'a mut StorageTransaction<'b>) -> (r: &'a mut dyn Storage)
    requires old(x).wf()
    ensures r.view() == old(x).view(), final(x).view() == final(r).view(), final(x).wf(), final(x).base_view() == old(x).base_view()
{ x }

//@ impl_open src/transactions.rs :: StorageTransaction
//@ end
    // representation invariant: replaying the log over the base gives exactly what the deltas show
    pub closed spec fn wf(&self) -> bool {
        apply_ops(self.storage.view(), self.rep_log.ops()) == overlay(self.storage.view(), self.local_state@)
    }
    pub closed spec fn base_view(&self) -> St { self.storage.view() }
    pub closed spec fn log(&self) -> Seq<Op> { self.rep_log.ops() }
//@ fn src/transactions.rs :: StorageTransaction :: new
//@   ret r
//@   ensures [C06.new.empty,C01] r.wf() && r.view() == storage.view() && r.base_view() == storage.view() && r.log().len() == 0
//@   begin proof { lemma_overlay_empty(storage.view()); }
//@ end
//@ fn src/transactions.rs :: StorageTransaction :: prepare
//@   ret r
//@   ensures [C06.prepare.log,C01] r.ops() == self.log()
//@ end
}

//@ impl_open src/transactions.rs :: Storage for StorageTransaction
//@ end
    closed spec fn view(&self) -> St { overlay(self.storage.view(), self.local_state@) }
//@ fn src/transactions.rs :: Storage for StorageTransaction :: get
//@   ret r
//@   ensures [C06.get.overlay,C10,C08] match r { Some(v) => self.view().contains_key(key@) && self.view()[key@] == v@, None => !self.view().contains_key(key@) }
//@   begin proof { axiom_vec_u8_key_laws(); lemma_lookup(self.local_state@, key); }
//@ end
//@ fn src/transactions.rs :: Storage for StorageTransaction :: range
//@   drop_body
//@   ret r
//@   replace "Box<dyn Iterator<Item = Record> + 'b>" => "RecordIter<'b>"
//@ end
//@ fn src/transactions.rs :: Storage for StorageTransaction :: set
//@   ensures [C06.set.view,C10,C08] final(self).view() == old(self).view().insert(key@, value@)
//@   ensures [C06.set.keeps_wf,C01] old(self).wf() ==> final(self).wf()
//@   ensures [C06.set.base_untouched,C01] final(self).base_view() == old(self).base_view()
//@   begin broadcast use axiom_vec_u8_ext_b; proof { axiom_vec_u8_key_laws(); }
//@   after? "self.rep_log.append(op);" proof { lemma_overlay_insert(self.storage.view(), old(self).local_state@, op); lemma_apply_ops_push(self.storage.view(), old(self).rep_log.ops(), op); }
//@ end
//@ fn src/transactions.rs :: Storage for StorageTransaction :: remove
//@   ensures [C06.remove.view,C10,C08] final(self).view() == old(self).view().remove(key@)
//@   ensures [C06.remove.keeps_wf,C01] old(self).wf() ==> final(self).wf()
//@   ensures [C06.remove.base_untouched,C01] final(self).base_view() == old(self).base_view()
//@   begin broadcast use axiom_vec_u8_ext_b; proof { axiom_vec_u8_key_laws(); }
//@   after? "self.rep_log.append(op);" proof { lemma_overlay_insert(self.storage.view(), old(self).local_state@, op); lemma_apply_ops_push(self.storage.view(), old(self).rep_log.ops(), op); }
//@ end
}

//@ impl_open src/transactions.rs :: RepLog
//@ end
    pub closed spec fn ops(&self) -> Seq<Op> { self.ops_log@ }
//@ fn src/transactions.rs :: RepLog :: new
//@   ret r
//@   ensures [C06.log.new_empty,C01] r.ops().len() == 0
//@ end
//@ fn src/transactions.rs :: RepLog :: append
//@   ensures [C06.log.append,C01] final(self).ops() == old(self).ops().push(op)
//@ end
//@ fn src/transactions.rs :: RepLog :: commit
//@   ensures [C06.commit.replays,C01] final(storage).view() == apply_ops(old(storage).view(), self.ops())
//@   loop 0 binder it
//@   loop 0 invariant [C06.commit.inv,C01] it.seq() == self.ops_log@ && storage.view() == apply_ops(old(storage).view(), self.ops_log@.subrange(0, it.index@ as int))
//@   after? "op.apply(storage);" proof { assert(self.ops_log@.subrange(0, it.index@ + 1).drop_last() =~= self.ops_log@.subrange(0, it.index@ as int)); }
//@   begin proof { assert(self.ops_log@.subrange(0, self.ops_log@.len() as int) =~= self.ops_log@); }
//@ end
}

//@ impl_open src/transactions.rs :: Op
//@ end
//@ fn src/transactions.rs :: Op :: apply
//@   ensures [C06.op.apply,C01] final(storage).view() == apply_op(old(storage).view(), *self)
//@ end
//@ fn src/transactions.rs :: Op :: to_delta
//@   ret r
//@   ensures [C06.op.to_delta,C01] r == delta_of(*self)
//@   begin broadcast use axiom_vec_u8_ext_b;
//@ end
}

//@ include contracts/transactional_only.rs
