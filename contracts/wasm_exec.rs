// ------------------------------------------------------------------ wasm.rs : execute / sudo entry points of the keeper
//@ item src/wasm.rs :: struct InstantiateResponse
//@ end
//@ item src/wasm.rs :: struct ExecuteResponse
//@ end
// prost::Message for the two response structs: the byte layout is ASSUMED (uninterpreted pb_inst / pb_exec)
#[derive(Debug)]
pub struct EncodeError;
impl InstantiateResponse {
    #[verifier::external_body]
    pub fn encoded_len(&self) -> (r: usize) { unimplemented!() }
    #[verifier::external_body]
    pub fn encode(&self, buf: &mut Vec<u8>) -> (r: Result<(), EncodeError>)
        ensures r is Ok, final(buf)@ == old(buf)@ + pb_inst(self.address@, self.data@)
    { unimplemented!() }
}
impl ExecuteResponse {
    #[verifier::external_body]
    pub fn encoded_len(&self) -> (r: usize) { unimplemented!() }
    #[verifier::external_body]
    pub fn encode(&self, buf: &mut Vec<u8>) -> (r: Result<(), EncodeError>)
        ensures r is Ok, final(buf)@ == old(buf)@ + pb_exec(self.data@)
    { unimplemented!() }
}

//@ fn src/wasm.rs :: instantiate_response
//@   ret r
//@   ensures [C04.inst.wrap] r == wrap_inst(data, *contact_address)
//@   begin broadcast use {axiom_vec_canon, axiom_vec_of_view}; let ghost vx_d = data;
//@   before? "re:^\\s*new_data\\.into\\(\\)" proof { assert(data@ == (match vx_d { Some(x) => x.b@, None => Seq::<u8>::empty() })); assert(new_data@ =~= pb_inst(contact_address.s@, data@)); }
//@ end
//@ fn src/wasm.rs :: encode_response_data
//@   ret r
//@   ensures [C04.exec.wrap] r == wrap_exec(data)
//@   begin broadcast use {axiom_vec_canon, axiom_vec_of_view};
//@   replace_re? "data\\.map\\(\\|d\\| \\{" => "data.map(|d: Binary| -> (o: Binary) ensures o == bin_of(pb_exec(d.b@)) {"
//@ end

//@ impl_open src/wasm.rs :: WasmKeeper
//@   pick fn execute_wasm
//@   replace "ExecC: CustomMsg + DeserializeOwned + 'static," => ""
//@   replace "QueryC: CustomQuery + DeserializeOwned + 'static," => ""
//@ end
//@ fn src/wasm.rs :: WasmKeeper :: send
//@   ret r
//@   ensures [C05.send.sem] (r, final(storage).view()) == Self::send_sem(router, old(storage).view(), *block, sender, recipient, amount@)
//@   begin broadcast use {axiom_vec_canon, axiom_vec_of_view};
//@   replace "fn send<T>(" => "fn send("
//@   replace "sender: T," => "sender: Addr,"
//@   replace_re "where\\s*T: Into<Addr>,\\s*" => ""
//@   replace "sender.into()" => "sender"
//@ end
//@ fn src/wasm.rs :: WasmKeeper :: execute_wasm
//@   ret r
//@   no_decreases
//@   ensures [C05.exec_wasm.sem,C04,C12,C11,C17,C10] (r, final(storage).view()) == self.exec_wasm_sem(router, old(storage).view(), *block, sender, msg)
//@   begin broadcast use {axiom_vec_canon, axiom_vec_of_view, axiom_str_canon, axiom_str_of_view, lemma_str_ext_b, lemma_vec_ext_b};
//@   replace? "new_code_id.to_string()" => "u64_to_string(new_code_id)"
//@   before? "let (sub_response, sub_messages) =" proof { lemma_entry_event(custom_event, "execute"@, contract_addr, Seq::<Attribute>::empty()); }
//@   before? "let (res, msgs) = self.build_app_response(&contract_addr, custom_event, res);" proof { lemma_entry_event(custom_event, "migrate"@, contract_addr, seq![attr_of("code_id"@, spec_u64_text(new_code_id))]); }
//@ end
//@ fn src/wasm.rs :: WasmKeeper :: process_wasm_msg_instantiate
//@   ret r
//@   no_decreases
//@   ensures [C05.instantiate.sem,C04,C11,C10] (r, final(storage).view()) == self.instantiate_arm(router, old(storage).view(), *block, sender, admin, code_id, msg, funds, label, salt)
//@   begin broadcast use {axiom_vec_canon, axiom_vec_of_view, axiom_str_canon, axiom_str_of_view, lemma_str_ext_b, lemma_vec_ext_b};
//@   replace? "code_id.to_string()" => "u64_to_string(code_id)"
//@   before? "let (res, msgs) = self.build_app_response(&contract_addr, custom_event, res);" proof { lemma_entry_event(custom_event, "instantiate"@, contract_addr, seq![attr_of("code_id"@, spec_u64_text(code_id))]); }
//@ end
}

//@ impl_open src/wasm.rs :: Wasm for WasmKeeper
//@   replace "ExecC: CustomMsg + DeserializeOwned + 'static," => ""
//@   replace "QueryC: CustomQuery + DeserializeOwned + 'static," => ""
//@ end
    open spec fn exec_sem(&self, router: &dyn CosmosRouter<ExecC, QueryC>, pre: St, block: BlockInfo, sender: Addr, msg: WasmMsg) -> (AnyResult<AppResponse>, St) {
        self.exec_wasm_sem(router, pre, block, sender, msg)
    }
    uninterp spec fn query_sem(&self, qsnap: (St, BlockInfo), st: St, block: BlockInfo, request: WasmQuery) -> AnyResult<Binary>;
    open spec fn sudo_sem(&self, router: &dyn CosmosRouter<ExecC, QueryC>, pre: St, block: BlockInfo, msg: WasmSudo) -> (AnyResult<AppResponse>, St) {
        self.sudo_wasm_sem(router, pre, block, msg)
    }
//@ fn src/wasm.rs :: Wasm for WasmKeeper :: execute
//@   ret r
//@   ensures [C05.wasm.execute] (r, final(storage).view()) == self.exec_wasm_sem(router, old(storage).view(), *block, sender, msg)
//@ end
//@ fn src/wasm.rs :: Wasm for WasmKeeper :: query
//@   ret r
//@   drop_body
//@ end
//@ fn src/wasm.rs :: Wasm for WasmKeeper :: sudo
//@   ret r
//@   before? "let res = self.call_sudo(" proof { lemma_entry_event(custom_event, "sudo"@, msg.contract_addr, Seq::<Attribute>::empty()); }
//@   ensures [C04.wasm.sudo,C01] (r, final(storage).view()) == self.sudo_wasm_sem(router, old(storage).view(), *block, msg)
//@   begin broadcast use {axiom_vec_canon, axiom_vec_of_view, axiom_str_canon, axiom_str_of_view, lemma_str_ext_b, lemma_vec_ext_b};
//@ end
}
