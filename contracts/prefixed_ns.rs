// ------------------------------------------------------------------ length_prefixed.rs
// encode_length uses u32::to_be_bytes, which Verus cannot name; its contract below is ASSUMED here and
// PROVED by the loop-free Kani harness kani/length_prefixed.harness.rs for every length (complete).
//@ fn src/prefixed_storage/length_prefixed.rs :: encode_length
//@   ret r
//@   drop_body
//@   requires [C07.enc.pre] namespace@.len() <= 0xFFFF
//@   ensures [C07.enc.bytes] r@ == len_bytes(namespace@.len() as int)
//@ end

//@ fn src/prefixed_storage/length_prefixed.rs :: to_length_prefixed
//@   ret r
//@   requires [C07.lp.pre] namespace@.len() <= 0xFFFF
//@   ensures [C07.lp.eq] r@ == lp(namespace@)
//@   after? "out.extend_from_slice(namespace)" proof { assert(out@ =~= lp(namespace@)); }
//@ end

pub open spec fn slices_view(s: Seq<&[u8]>) -> Seq<Seq<u8>> { Seq::new(s.len(), |i: int| s[i]@) }

//@ fn src/prefixed_storage/length_prefixed.rs :: to_length_prefixed_nested
//@   ret r
//@   requires [C07.lpn.pre] path_ok(slices_view(namespaces@)) && namespaces@.len() < 0x1_0000_0000
//@   ensures [C07.lpn.eq] r@ == lp_nested(slices_view(namespaces@))
//@   replace* "for &namespace in namespaces {" => "for namespace_r in namespaces.iter() { let namespace = *namespace_r;"
//@   replace "let mut size = 0;" => "let mut size: usize = 0;"
//@   loop 0 binder it0
//@   loop 0 invariant [C07.lpn.size_inv] it0.index@ <= it0.seq().len() && it0.seq().len() == namespaces@.len() && (forall|i: int| 0 <= i < it0.seq().len() ==> *it0.seq()[i] == namespaces@[i]) && path_ok(slices_view(namespaces@)) && namespaces@.len() < 0x1_0000_0000 && size <= it0.index@ * 0x10001
//@   loop 1 binder it1
//@   loop 1 invariant [C07.lpn.out_inv] it1.seq().len() == namespaces@.len() && (forall|i: int| 0 <= i < it1.seq().len() ==> *it1.seq()[i] == namespaces@[i]) && path_ok(slices_view(namespaces@)) && out@ == lp_nested(slices_view(namespaces@).subrange(0, it1.index@ as int))
//@   before? "size += namespace.len() + 2;" proof { assert(slices_view(namespaces@)[it0.index@ as int] == namespace@); assert(slices_view(namespaces@)[it0.index@ as int].len() <= 0xFFFF); }
//@   before? "out.extend_from_slice(&encode_length(namespace));" proof { assert(slices_view(namespaces@)[it1.index@ as int] == namespace@); }
//@   after? "out.extend_from_slice(namespace);" proof { let sv = slices_view(namespaces@); let i = it1.index@ as int; assert(sv[i] == namespace@); assert(sv[i].len() <= 0xFFFF); assert(sv.subrange(0, i + 1).drop_last() =~= sv.subrange(0, i)); assert(sv.subrange(0, i + 1).last() == sv[i]); assert(out@ =~= lp_nested(sv.subrange(0, i)) + lp(sv[i])); }
//@   before? "re:^\\s*out\\s*$" proof { assert(slices_view(namespaces@).subrange(0, namespaces@.len() as int) =~= slices_view(namespaces@)); }
//@   before? "let mut out = Vec::with_capacity(size);" proof { assert(slices_view(namespaces@).subrange(0, 0) =~= Seq::<Seq<u8>>::empty()); }
//@ end

// ------------------------------------------------------------------ namespace_helpers.rs
//@ fn? src/prefixed_storage/namespace_helpers.rs :: concat
//@   ret k
//@   ensures [C07.concat.eq] k@ == namespace@ + key@
//@ end

//@ fn? src/prefixed_storage/namespace_helpers.rs :: trim
//@   ret r
//@   requires [C07.trim.pre] namespace@.len() <= key@.len()
//@   ensures [C07.trim.eq] r@ == key@.subrange(namespace@.len() as int, key@.len() as int)
//@ end

//@ fn src/prefixed_storage/namespace_helpers.rs :: get_with_prefix
//@   ret r
//@   ensures [C07.get.own_key] match r { Some(v) => storage.view().contains_key(namespace@ + key@) && storage.view()[namespace@ + key@] == v@, None => !storage.view().contains_key(namespace@ + key@) }
//@ end

//@ fn src/prefixed_storage/namespace_helpers.rs :: set_with_prefix
//@   ensures [C07.set.only_own_key] final(storage).view() == old(storage).view().insert(namespace@ + key@, value@)
//@ end

//@ fn src/prefixed_storage/namespace_helpers.rs :: remove_with_prefix
//@   ensures [C07.remove.only_own_key] final(storage).view() == old(storage).view().remove(namespace@ + key@)
//@ end

// what namespace_upper_bound computes: same length; the last byte that is not 255 is incremented, the bytes before it
// are kept (the bytes after it wrap to 0); if every byte is 255 there is no such byte.
pub open spec fn ub_post(input: Seq<u8>, r: Seq<u8>) -> bool {
    r.len() == input.len() && (all_ff(input) || exists|b: int| #![trigger input[b]] 0 <= b < input.len() && input[b] != 255u8 && r[b] == input[b] + 1
        && (forall|j: int| 0 <= j < b ==> r[j] == input[j]) && (forall|j: int| b < j < input.len() ==> input[j] == 255u8))
}

//@ fn? src/prefixed_storage/namespace_helpers.rs :: namespace_upper_bound
//@   ret r
//@   ensures [C07.ub.succ] ub_post(input@, r@)
//@   loop 0 binder itx
//@   loop 0 invariant_except_break [C07.ub.inv_prefix] forall|j: int| 0 <= j < input@.len() - itx.index@ ==> copy@[j] == input@[j]
//@   loop 0 invariant_except_break [C07.ub.inv_ff] forall|j: int| input@.len() - itx.index@ <= j < input@.len() ==> input@[j] == 255u8
//@   loop 0 invariant [C07.ub.inv_len] copy@.len() == input@.len() && itx.seq().len() == input@.len() && forall|k: int| 0 <= k < itx.seq().len() ==> itx.seq()[k] == input@.len() - 1 - k
//@   loop 0 ensures [C07.ub.loop_post] ub_post(input@, copy@)
//@ end

//@ fn? src/prefixed_storage/namespace_helpers.rs :: namespace_end
//@   ret r
//@   ensures [C07.end.none_iff] r is None <==> all_ff(namespace@)
//@   ensures [C07.end.succ] r is Some ==> exists|a: Seq<u8>, c: u8, f: Seq<u8>| c < 255 && all_ff(f) && namespace@ == a.push(c) + f && r.unwrap()@ == a.push((c + 1) as u8)
//@   loop 0 invariant [C07.end.loop_inv] len <= namespace@.len() && forall|j: int| len <= j < namespace@.len() ==> namespace@[j] == 255u8
//@   loop 0 decreases len
//@   before? "Some(end)" proof { let p = namespace@; let n = len as int; let a = p.subrange(0, n - 1); let c = p[n - 1]; let f = p.subrange(n, p.len() as int); assert(all_ff(f)); assert(p =~= a.push(c) + f); assert(!all_ff(p)); let b = choose|b: int| #![trigger p[b]] 0 <= b < p.len() && p[b] != 255u8 && vx_ub@[b] == p[b] + 1 && (forall|j: int| 0 <= j < b ==> vx_ub@[j] == p[j]) && (forall|j: int| b < j < p.len() ==> p[j] == 255u8); assert(b == n - 1) by { if b < n - 1 { assert(p[n - 1] == 255u8); } }  assert(end@ =~= a.push((c + 1) as u8)); }
//@   replace? "    end.truncate(len);" => "    let ghost vx_ub = end; end.truncate(len);"
//@ end

//@ fn src/prefixed_storage/namespace_helpers.rs :: range_with_prefix
//@   ret r
//@   ensures [C07.range.exact] is_range_of(recs_view(r.remaining()), window(storage.view(), namespace@), opt_view(start), opt_view(end), order)
//@   replace "Box<dyn Iterator<Item = Record> + 'a>" => "RecordIter<'a>"
//@   begin let ghost vx_hi = opt_view(end); let ghost vx_lo = opt_view(start);
//@   before? "let base_iterator = storage.range(" proof { if end is Some { axiom_vec_deref(end.unwrap()); } }
//@   before? "let prefix = namespace.to_vec();" proof { let bhi = optvec_view(end); assert(base_bounds_ok(namespace@, vx_lo, vx_hi, start@, bhi)); lemma_base_range_keys(recs_view(base_iterator.remaining()), storage.view(), namespace@, vx_lo, vx_hi, start@, bhi, order); assert forall|k: int| 0 <= k < base_iterator.remaining().len() implies namespace@.len() <= (#[trigger] base_iterator.remaining()[k]).0@.len() by { assert(recs_view(base_iterator.remaining())[k].0 == base_iterator.remaining()[k].0@); } }
//@   replace "    let prefix = namespace.to_vec();" => "    let ghost vx_base = base_iterator.remaining();\n    let prefix = namespace.to_vec();"
//@   before? "RecordIter::boxed(mapped)" proof { let bhi = optvec_view(end); let ob = recs_view(vx_base); let oo = recs_view(mapped.rem()); assert(trimmed(ob, oo, namespace@.len() as int)) by { assert forall|i: int| 0 <= i < ob.len() implies (#[trigger] oo[i]).0 == ob[i].0.subrange(namespace@.len() as int, ob[i].0.len() as int) && oo[i].1 == ob[i].1 by { let x = mapped.rem()[i]; let y = vx_base[i]; assert(oo[i] == (x.0@, x.1@)); assert(ob[i] == (y.0@, y.1@)); assert(prefix@ == namespace@); assert(x.0@ == y.0@.subrange(prefix@.len() as int, y.0@.len() as int) && x.1 == y.1); } } lemma_prefixed_range(ob, oo, storage.view(), namespace@, vx_lo, vx_hi, start@, bhi, order); }
//@   replace "Box::new(mapped)" => "RecordIter::boxed(mapped)"
//@   replace_re "base_iterator\\.map\\(move \\|(?P<P>\\w+)\\| \\{ let \\(k, v\\) = (?P=P); \\(trim\\(&prefix, &k\\), v\\) \\}\\)" => "iter_map(base_iterator, move |kv: Record| -> (o: Record) requires prefix@.len() <= kv.0@.len() ensures o.0@ == kv.0@.subrange(prefix@.len() as int, kv.0@.len() as int) && o.1 == kv.1 { let (k, v) = kv; (trim(&prefix, &k), v) })"
//@ end

