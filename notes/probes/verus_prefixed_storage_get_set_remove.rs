use vstd::prelude::*;
verus! {

pub assume_specification<T: Clone> [<[T]>::to_vec] (s: &[T]) -> (r: Vec<T>)
    ensures r@ == s@;

pub trait Storage {
    spec fn view(&self) -> IMap<Seq<u8>, Seq<u8>>;
    fn get(&self, key: &[u8]) -> (r: Option<Vec<u8>>)
        ensures match r { Some(v) => self.view().contains_key(key@) && self.view()[key@] == v@, None => !self.view().contains_key(key@) };
    fn set(&mut self, key: &[u8], value: &[u8])
        ensures final(self).view() == old(self).view().insert(key@, value@);
    fn remove(&mut self, key: &[u8])
        ensures final(self).view() == old(self).view().remove(key@);
}

fn concat(namespace: &[u8], key: &[u8]) -> (k: Vec<u8>)
    ensures k@ == namespace@ + key@,
{
    let mut k = namespace.to_vec();
    k.extend_from_slice(key);
    k
}

pub(crate) fn get_with_prefix(
    storage: &dyn Storage,
    namespace: &[u8],
    key: &[u8],
) -> (r: Option<Vec<u8>>)
   ensures match r { Some(v) => storage.view().contains_key(namespace@ + key@) && storage.view()[namespace@ + key@] == v@, None => !storage.view().contains_key(namespace@ + key@) }
{
    storage.get(&concat(namespace, key))
}

pub(crate) fn set_with_prefix(
    storage: &mut dyn Storage,
    namespace: &[u8],
    key: &[u8],
    value: &[u8],
)
  ensures final(storage).view() == old(storage).view().insert(namespace@ + key@, value@)
{
    storage.set(&concat(namespace, key), value);
}
pub(crate) fn remove_with_prefix(storage: &mut dyn Storage, namespace: &[u8], key: &[u8]) 
  ensures final(storage).view() == old(storage).view().remove(namespace@ + key@)
{
    storage.remove(&concat(namespace, key));
}

pub proof fn lemma_cancel(p: Seq<u8>, a: Seq<u8>, b: Seq<u8>)
    ensures (p + a == p + b) <==> (a == b)
{
    if p + a == p + b {
        assert((p + a).subrange(p.len() as int, (p+a).len() as int) =~= a);
        assert((p + b).subrange(p.len() as int, (p+b).len() as int) =~= b);
    }
}
pub struct PrefixedStorage<'a> {
    storage: &'a mut dyn Storage,
    prefix: Vec<u8>,
}

pub open spec fn window(m: IMap<Seq<u8>, Seq<u8>>, p: Seq<u8>) -> IMap<Seq<u8>, Seq<u8>> {
    IMap::new(|k: Seq<u8>| m.contains_key(p + k), |k: Seq<u8>| m[p + k])
}

impl Storage for PrefixedStorage<'_> {
    closed spec fn view(&self) -> IMap<Seq<u8>, Seq<u8>> { window(self.storage.view(), self.prefix@) }
    fn get(&self, key: &[u8]) -> (r: Option<Vec<u8>>) {
        get_with_prefix(self.storage, &self.prefix, key)
    }
    fn set(&mut self, key: &[u8], value: &[u8]) {
        set_with_prefix(self.storage, &self.prefix, key, value);
        proof { 
          assert forall|k: Seq<u8>| true implies ((#[trigger] (self.prefix@ + k) == self.prefix@ + key@) <==> (k == key@)) by { lemma_cancel(self.prefix@, k, key@); }
          assert(final(self).view() =~= old(self).view().insert(key@, value@)); }
    }
    fn remove(&mut self, key: &[u8]) {
        remove_with_prefix(self.storage, &self.prefix, key);
        proof { 
          assert forall|k: Seq<u8>| true implies ((#[trigger] (self.prefix@ + k) == self.prefix@ + key@) <==> (k == key@)) by { lemma_cancel(self.prefix@, k, key@); }
          assert(final(self).view() =~= old(self).view().remove(key@)); }
    }
}

} // verus!
fn main() {}
