use vstd::prelude::*;
verus! {

#[derive(Debug)]
pub struct AnyError;
pub type AnyResult<T> = Result<T, AnyError>;

pub trait Storage {
    spec fn view(&self) -> IMap<Seq<u8>, Seq<u8>>;
}
pub trait Api {}
pub struct BlockInfo { pub height: u64 }
pub struct Addr(pub String);
impl Clone for Addr { #[verifier::external_body] fn clone(&self) -> (r: Self) ensures r == *self { Addr(self.0.clone()) } }
pub struct Binary(pub Vec<u8>);
impl Clone for Binary { #[verifier::external_body] fn clone(&self) -> (r: Self) ensures r == *self { Binary(self.0.clone()) } }
impl Default for Binary { #[verifier::external_body] fn default() -> (r: Self) ensures r.0@.len() == 0 { Binary(Vec::new()) } }
pub struct Event { pub ty: String, pub attributes: Vec<(String,String)> }
impl Clone for Event { #[verifier::external_body] fn clone(&self) -> (r: Self) ensures r == *self { Event{ty: self.ty.clone(), attributes: self.attributes.clone()} } }
pub struct AppResponse { pub events: Vec<Event>, pub data: Option<Binary> }
pub enum ReplyOn { Always, Error, Success, Never }
pub enum CosmosMsg<T> { Custom(T), Other(u8) }
pub struct SubMsg<T> { pub id: u64, pub payload: Binary, pub msg: CosmosMsg<T>, pub gas_limit: Option<u64>, pub reply_on: ReplyOn }
pub struct MsgResponse { pub type_url: String, pub value: Binary }
pub struct SubMsgResponse { pub events: Vec<Event>, pub data: Option<Binary>, pub msg_responses: Vec<MsgResponse> }
pub enum SubMsgResult { Ok(SubMsgResponse), Err(String) }
pub struct Reply { pub id: u64, pub payload: Binary, pub gas_used: u64, pub result: SubMsgResult }

pub trait CosmosRouter<ExecC, QueryC> {
    fn execute(
        &self,
        api: &dyn Api,
        storage: &mut dyn Storage,
        block: &BlockInfo,
        sender: Addr,
        msg: CosmosMsg<ExecC>,
    ) -> AnyResult<AppResponse>;
}

#[verifier::external_body]
pub fn transactional<F, T>(base: &mut dyn Storage, action: F) -> (r: AnyResult<T>)
where
    F: FnOnce(&mut dyn Storage, &dyn Storage) -> AnyResult<T>,
    requires forall|c: &mut dyn Storage, b: &dyn Storage| #[trigger] action.requires((c, b)),
{ unimplemented!() }

pub struct WasmKeeper<ExecC, QueryC> { a: Option<ExecC>, b: Option<QueryC> }

impl<ExecC, QueryC> WasmKeeper<ExecC, QueryC> {
    #[verifier::external_body]
    fn response_type_url(msg: &CosmosMsg<ExecC>) -> String { unimplemented!() }
    #[verifier::external_body]
    fn reply(
        &self,
        api: &dyn Api,
        router: &dyn CosmosRouter<ExecC, QueryC>,
        storage: &mut dyn Storage,
        block: &BlockInfo,
        contract: Addr,
        reply: Reply,
    ) -> AnyResult<AppResponse> { unimplemented!() }

    fn execute_submsg(
        &self,
        api: &dyn Api,
        router: &dyn CosmosRouter<ExecC, QueryC>,
        storage: &mut dyn Storage,
        block: &BlockInfo,
        contract: Addr,
        msg: SubMsg<ExecC>,
    ) -> AnyResult<AppResponse> {
        let SubMsg {
            msg,
            id,
            reply_on,
            payload,
            ..
        } = msg;
        // Prepare the message type URL, will be needed when calling `reply` entrypoint.
        let type_url = Self::response_type_url(&msg);

        // Execute the submessage in cache
        let sub_message_result = transactional(storage, |write_cache, _b| {
            router.execute(api, write_cache, block, contract.clone(), msg)
        });

        // call reply if meaningful
        if let Ok(mut r) = sub_message_result {
            if matches!(reply_on, ReplyOn::Always | ReplyOn::Success) {
                let reply = Reply {
                    id,
                    payload,
                    gas_used: 0,
                    result: SubMsgResult::Ok(
                        #[allow(deprecated)]
                        SubMsgResponse {
                            events: r.events.clone(),
                            data: r.data.clone(),
                            msg_responses: vec![MsgResponse {
                                type_url,
                                value: r.data.unwrap_or_default(),
                            }],
                        },
                    ),
                };
                // do reply and combine it with the original response
                let reply_res = self.reply(api, router, storage, block, contract, reply)?;
                // override data
                r.data = reply_res.data;
                // append the events
                r.events.extend_from_slice(&reply_res.events);
            } else {
                // reply is not called, no data should be returned
                r.data = None;
            }
            Ok(r)
        } else if let Err(e) = sub_message_result {
            if matches!(reply_on, ReplyOn::Always | ReplyOn::Error) {
                let reply = Reply {
                    id,
                    payload,
                    gas_used: 0,
                    result: SubMsgResult::Err(format!("{:?}", e)),
                };
                self.reply(api, router, storage, block, contract, reply)
            } else {
                Err(e)
            }
        } else {
            sub_message_result
        }
    }
}
} // verus!
fn main() {}
