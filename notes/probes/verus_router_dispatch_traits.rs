use vstd::prelude::*;
verus! {
#[derive(Debug)]
pub struct AnyError;
pub type AnyResult<T> = Result<T, AnyError>;
pub type St = IMap<Seq<u8>, Seq<u8>>;
pub trait Storage { spec fn view(&self) -> St; }
pub trait Api {}
pub struct BlockInfo { pub height: u64 }
pub struct Addr(pub String);
pub struct AppResponse { pub n: u64 }
pub struct BankMsg { pub x: u64 }
pub struct WasmMsg { pub y: u64 }
pub enum CosmosMsg<T> { Bank(BankMsg), Wasm(WasmMsg), Custom(T), Gov(u8) }

pub trait CosmosRouter<ExecC, QueryC> {
    spec fn exec_sem(&self, pre: St, block: BlockInfo, sender: Addr, msg: CosmosMsg<ExecC>) -> (AnyResult<AppResponse>, St);
    fn execute(&self, api: &dyn Api, storage: &mut dyn Storage, block: &BlockInfo, sender: Addr, msg: CosmosMsg<ExecC>) -> (r: AnyResult<AppResponse>)
        ensures (r, final(storage).view()) == self.exec_sem(old(storage).view(), *block, sender, msg);
}

pub trait Module {
    type ExecT;
    type QueryT;
    spec fn mod_sem(&self, pre: St, block: BlockInfo, sender: Addr, msg: Self::ExecT) -> (AnyResult<AppResponse>, St);
    fn execute<ExecC, QueryC>(&self, api: &dyn Api, storage: &mut dyn Storage, router: &dyn CosmosRouter<ExecC, QueryC>, block: &BlockInfo, sender: Addr, msg: Self::ExecT) -> (r: AnyResult<AppResponse>)
        ensures (r, final(storage).view()) == self.mod_sem(old(storage).view(), *block, sender, msg);
}
pub trait Bank: Module<ExecT = BankMsg, QueryT = u8> {}
pub trait Wasm<ExecC, QueryC> {
    spec fn wasm_sem(&self, pre: St, block: BlockInfo, sender: Addr, msg: WasmMsg) -> (AnyResult<AppResponse>, St);
    fn execute(&self, api: &dyn Api, storage: &mut dyn Storage, router: &dyn CosmosRouter<ExecC, QueryC>, block: &BlockInfo, sender: Addr, msg: WasmMsg) -> (r: AnyResult<AppResponse>)
        ensures (r, final(storage).view()) == self.wasm_sem(old(storage).view(), *block, sender, msg);
}

pub struct Router<BankT, CustomT, WasmT> { pub wasm: WasmT, pub bank: BankT, pub custom: CustomT }

#[verifier::external_body]
pub fn bail_err<T>() -> (r: AnyResult<T>) ensures r == Err::<T, AnyError>(AnyError) { Err(AnyError) }

impl<BankT, CustomT, WasmT> CosmosRouter<CustomT::ExecT, CustomT::QueryT> for Router<BankT, CustomT, WasmT>
where
    CustomT: Module,
    WasmT: Wasm<CustomT::ExecT, CustomT::QueryT>,
    BankT: Bank,
{
    open spec fn exec_sem(&self, pre: St, block: BlockInfo, sender: Addr, msg: CosmosMsg<CustomT::ExecT>) -> (AnyResult<AppResponse>, St) {
        match msg {
            CosmosMsg::Wasm(m) => self.wasm.wasm_sem(pre, block, sender, m),
            CosmosMsg::Bank(m) => self.bank.mod_sem(pre, block, sender, m),
            CosmosMsg::Custom(m) => self.custom.mod_sem(pre, block, sender, m),
            _ => (Err(AnyError), pre),
        }
    }
    fn execute(&self, api: &dyn Api, storage: &mut dyn Storage, block: &BlockInfo, sender: Addr, msg: CosmosMsg<CustomT::ExecT>) -> (r: AnyResult<AppResponse>)
    {
        match msg {
            CosmosMsg::Wasm(msg) => self.wasm.execute(api, storage, self, block, sender, msg),
            CosmosMsg::Bank(msg) => self.bank.execute(api, storage, self, block, sender, msg),
            CosmosMsg::Custom(msg) => self.custom.execute(api, storage, self, block, sender, msg),
            _ => bail_err(),
        }
    }
}
} // verus!
fn main() {}
