use vstd::prelude::*;
use std::collections::BTreeMap;
verus! {

pub assume_specification<T: Clone> [<[T]>::to_vec] (s: &[T]) -> (r: Vec<T>)
    ensures r@ == s@;

pub struct AnyError;
pub type AnyResult<T> = Result<T, AnyError>;

pub trait Storage {
    spec fn view(&self) -> IMap<Seq<u8>, Seq<u8>>;
    fn get(&self, key: &[u8]) -> (r: Option<Vec<u8>>)
        ensures match r { Some(v) => self.view().contains_key(key@) && self.view()[key@] == v@, None => !self.view().contains_key(key@) };
    fn set(&mut self, key: &[u8], value: &[u8])
        ensures final(self).view() == old(self).view().insert(key@, value@);
    fn remove(&mut self, key: &[u8])
        ensures final(self).view() == old(self).view().remove(key@);
}

pub enum Op {
    Set { key: Vec<u8>, value: Vec<u8> },
    Delete { key: Vec<u8> },
}

pub open spec fn apply_op(m: IMap<Seq<u8>, Seq<u8>>, op: Op) -> IMap<Seq<u8>, Seq<u8>> {
    match op {
        Op::Set { key, value } => m.insert(key@, value@),
        Op::Delete { key } => m.remove(key@),
    }
}
pub open spec fn apply_ops(m: IMap<Seq<u8>, Seq<u8>>, ops: Seq<Op>) -> IMap<Seq<u8>, Seq<u8>>
    decreases ops.len()
{
    if ops.len() == 0 { m } else { apply_op(apply_ops(m, ops.drop_last()), ops.last()) }
}

impl Op {
    pub fn apply(&self, storage: &mut dyn Storage)
        ensures final(storage).view() == apply_op(old(storage).view(), *self)
    {
        match self {
            Op::Set { key, value } => storage.set(key, value),
            Op::Delete { key } => storage.remove(key),
        }
    }
}

pub struct RepLog {
    ops_log: Vec<Op>,
}

impl RepLog {
    pub closed spec fn ops(&self) -> Seq<Op> { self.ops_log@ }
    pub fn commit(self, storage: &mut dyn Storage)
        ensures final(storage).view() == apply_ops(old(storage).view(), self.ops())
    {
        for op in it: self.ops_log
            invariant storage.view() == apply_ops(old(storage).view(), self.ops_log@.subrange(0, it.index@ as int)),
                it.seq() == self.ops_log@,
        {
            op.apply(storage);
            proof { assert(self.ops_log@.subrange(0, it.index@ + 1).drop_last() =~= self.ops_log@.subrange(0, it.index@ as int)); }
        }
        proof { assert(self.ops_log@.subrange(0, self.ops_log@.len() as int) =~= self.ops_log@); }
    }
}

} // verus!
fn main() {}
