// STATUS: shape accepted by Verus (D1-desugared process_response + oracle stub + fold spec);
// the loop invariant / early-exit postcondition still need the 'Err is absorbing' lemma and seq-extensionality hints.
use vstd::prelude::*;
verus! {
pub assume_specification<T> [Option::<T>::or] (a: Option<T>, b: Option<T>) -> (r: Option<T>)
    ensures r == (if a is Some { a } else { b });
#[derive(Debug)]
pub struct AnyError;
pub type AnyResult<T> = Result<T, AnyError>;
pub type St = IMap<Seq<u8>, Seq<u8>>;
pub trait Storage { spec fn view(&self) -> St; }
pub trait Api {}
pub struct BlockInfo { pub height: u64 }
pub struct Addr(pub String);
impl Clone for Addr { #[verifier::external_body] fn clone(&self) -> (r: Self) ensures r == *self { Addr(self.0.clone()) } }
pub struct Binary(pub Vec<u8>);
pub struct Event { pub ty: String }
impl Clone for Event { #[verifier::external_body] fn clone(&self) -> (r: Self) ensures r == *self { unimplemented!() } }
pub struct AppResponse { pub events: Vec<Event>, pub data: Option<Binary> }
pub struct SubMsg<T> { pub id: u64, pub msg: T }
pub trait CosmosRouter<ExecC, QueryC> {}

pub struct WasmKeeper<ExecC, QueryC> { a: Option<ExecC>, b: Option<QueryC> }

// result of the fold so far: Ok((events, data)) or Err, plus state
pub open spec fn step<ExecC, QueryC>(k: &WasmKeeper<ExecC, QueryC>, router: &dyn CosmosRouter<ExecC, QueryC>, block: BlockInfo, contract: Addr,
    acc: (AnyResult<(Seq<Event>, Option<Binary>)>, St), m: SubMsg<ExecC>) -> (AnyResult<(Seq<Event>, Option<Binary>)>, St)
{
    match acc.0 {
        Err(e) => acc,
        Ok((events, data)) => {
            let (r, s1) = k.submsg_oracle(router, acc.1, block, contract, m);
            match r {
                Err(e) => (Err(e), s1),
                Ok(sub) => (Ok((events + sub.events@, if sub.data is Some { sub.data } else { data })), s1),
            }
        }
    }
}
pub open spec fn fold<ExecC, QueryC>(k: &WasmKeeper<ExecC, QueryC>, router: &dyn CosmosRouter<ExecC, QueryC>, block: BlockInfo, contract: Addr,
    init: (AnyResult<(Seq<Event>, Option<Binary>)>, St), ms: Seq<SubMsg<ExecC>>) -> (AnyResult<(Seq<Event>, Option<Binary>)>, St)
    decreases ms.len()
{
    if ms.len() == 0 { init } else { step(k, router, block, contract, fold(k, router, block, contract, init, ms.drop_last()), ms.last()) }
}

impl<ExecC, QueryC> WasmKeeper<ExecC, QueryC> {
    pub uninterp spec fn submsg_oracle(&self, router: &dyn CosmosRouter<ExecC, QueryC>, pre: St, block: BlockInfo, contract: Addr, m: SubMsg<ExecC>) -> (AnyResult<AppResponse>, St);

    #[verifier::external_body]
    fn execute_submsg(&self, api: &dyn Api, router: &dyn CosmosRouter<ExecC, QueryC>, storage: &mut dyn Storage, block: &BlockInfo, contract: Addr, msg: SubMsg<ExecC>) -> (r: AnyResult<AppResponse>)
        ensures (r, final(storage).view()) == self.submsg_oracle(router, old(storage).view(), *block, contract, msg)
    { unimplemented!() }

    // D1-desugared text of process_response
    fn process_response(&self, api: &dyn Api, router: &dyn CosmosRouter<ExecC, QueryC>, storage: &mut dyn Storage, block: &BlockInfo, contract: Addr,
        response: AppResponse, sub_messages: Vec<SubMsg<ExecC>>) -> (r: AnyResult<AppResponse>)
        ensures ({
            let (fr, fs) = fold(self, router, *block, contract, (Ok((response.events@, response.data)), old(storage).view()), sub_messages@);
            final(storage).view() == fs && match fr { Err(e) => r is Err, Ok((ev, d)) => r is Ok && r.unwrap().events@ == ev && r.unwrap().data == d }
        })
    {
        let AppResponse { mut events, data, .. } = response;
        let data = {
            let mut data = data;
            for sub_message in it: sub_messages.into_iter()
                invariant
                    it.seq() == sub_messages@,
                    (Ok::<(Seq<Event>, Option<Binary>), AnyError>((events@, data)), storage.view())
                      == fold(self, router, *block, contract, (Ok((response.events@, response.data)), old(storage).view()), sub_messages@.subrange(0, it.index@ as int)),
            {
                proof { assert(sub_messages@.subrange(0, it.index@ + 1).drop_last() =~= sub_messages@.subrange(0, it.index@ as int)); }
                let sub_response = self.execute_submsg(api, router, storage, block, contract.clone(), sub_message)?;
                events.extend_from_slice(&sub_response.events);
                data = sub_response.data.or(data);
            }
            data
        };
        proof { assert(sub_messages@.subrange(0, sub_messages@.len() as int) =~= sub_messages@); }
        Ok(AppResponse { events, data })
    }
}
} // verus!
fn main() {}
