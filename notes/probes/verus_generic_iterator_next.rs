use vstd::prelude::*;
use vstd::std_specs::iter::IteratorSpec;
verus! {
fn use_next<I: Iterator<Item = u8>>(it: &mut I) -> (r: Option<u8>)
    requires (*old(it)).obeys_prophetic_iter_laws(),
    ensures match r { Some(x) => (*old(it)).remaining().len() > 0 && (*old(it)).remaining()[0] == x && (*final(it)).remaining() == (*old(it)).remaining().drop_first(), None => (*old(it)).remaining().len() == 0 }
{
    it.next()
}
} // verus!
fn main() {}
