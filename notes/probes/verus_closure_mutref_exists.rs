use vstd::prelude::*;
verus! {

pub fn apply<F>(x: &mut u64, f: F) -> (r: bool)
  where F: FnOnce(&mut u64) -> bool
  requires forall|c: &mut u64| #[trigger] f.requires((c,)),
  ensures  exists|c: &mut u64| *c == *old(x) && #[trigger] f.ensures((c,), r) && (r ==> *final(x) == *final(c)) && (!r ==> *final(x) == *old(x)),
{
    let mut tmp: u64 = *x;
    let ok = f(&mut tmp);
    if ok { *x = tmp; }
    ok
}

pub fn user(s: &mut u64) -> (r: bool)
  requires *old(s) < 100,
  ensures r ==> *final(s) == 7, !r ==> *final(s) == *old(s)
{
    apply(s, |c: &mut u64| -> (r: bool) ensures *final(c) == 7 { *c = 7; true })
}
} // verus!
fn main() {}
