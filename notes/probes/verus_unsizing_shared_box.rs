use vstd::prelude::*;
verus! {
pub trait Storage {
    spec fn view(&self) -> IMap<Seq<u8>, Seq<u8>>;
    fn get(&self, key: &[u8]) -> (r: Option<Vec<u8>>);
}
pub struct RO<'a> { s: &'a dyn Storage }
impl Storage for RO<'_> {
    closed spec fn view(&self) -> IMap<Seq<u8>, Seq<u8>> { self.s.view() }
    fn get(&self, key: &[u8]) -> (r: Option<Vec<u8>>) { self.s.get(key) }
}
fn load(s: &dyn Storage, k: &[u8]) -> Option<Vec<u8>> { s.get(k) }
fn f(s: &dyn Storage, k: &[u8]) -> Option<Vec<u8>> {
    load(&RO { s }, k)
}
fn g<'a>(s: &'a dyn Storage) -> Box<dyn Storage + 'a> {
    let r = RO { s };
    Box::new(r)
}
} // verus!
fn main() {}
