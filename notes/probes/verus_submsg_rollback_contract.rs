use vstd::prelude::*;
verus! {

#[derive(Debug)]
pub struct AnyError;
pub type AnyResult<T> = Result<T, AnyError>;
pub type St = IMap<Seq<u8>, Seq<u8>>;

pub trait Storage {
    spec fn view(&self) -> St;
}
pub trait Api {}
pub struct BlockInfo { pub height: u64 }
pub struct Addr(pub String);
impl Clone for Addr { #[verifier::external_body] fn clone(&self) -> (r: Self) ensures r == *self { Addr(self.0.clone()) } }
pub struct Binary(pub Vec<u8>);
impl Clone for Binary { #[verifier::external_body] fn clone(&self) -> (r: Self) ensures r == *self { Binary(self.0.clone()) } }
pub struct Event { pub ty: String }
pub struct AppResponse { pub events: Vec<Event>, pub data: Option<Binary> }
pub enum ReplyOn { Always, Error, Success, Never }
pub enum CosmosMsg<T> { Custom(T), Other(u8) }

// semantics of the router as a function (assumed contract of the dyn callee)
pub trait CosmosRouter<ExecC, QueryC> {
    spec fn exec_sem(&self, pre: St, block: BlockInfo, sender: Addr, msg: CosmosMsg<ExecC>) -> (AnyResult<AppResponse>, St);
    fn execute(
        &self,
        api: &dyn Api,
        storage: &mut dyn Storage,
        block: &BlockInfo,
        sender: Addr,
        msg: CosmosMsg<ExecC>,
    ) -> (r: AnyResult<AppResponse>)
        ensures (r, final(storage).view()) == self.exec_sem(old(storage).view(), *block, sender, msg);
}

#[verifier::external_body]
pub fn transactional<F, T>(base: &mut dyn Storage, action: F) -> (r: AnyResult<T>)
where
    F: FnOnce(&mut dyn Storage, &dyn Storage) -> AnyResult<T>,
    requires forall|c: &mut dyn Storage, b: &dyn Storage| (c.view() == old(base).view() && b.view() == old(base).view()) ==> #[trigger] action.requires((c, b)),
    ensures exists|c: &mut dyn Storage, b: &dyn Storage| c.view() == old(base).view() && b.view() == old(base).view()
              && #[trigger] action.ensures((c, b), r)
              && (r is Ok ==> final(base).view() == final(c).view())
              && (r is Err ==> final(base).view() == old(base).view()),
{ unimplemented!() }

pub struct WasmKeeper<ExecC, QueryC> { a: Option<ExecC>, b: Option<QueryC> }

impl<ExecC, QueryC> WasmKeeper<ExecC, QueryC> {
    fn run_sub(
        &self,
        api: &dyn Api,
        router: &dyn CosmosRouter<ExecC, QueryC>,
        storage: &mut dyn Storage,
        block: &BlockInfo,
        contract: Addr,
        msg: CosmosMsg<ExecC>,
    ) -> (r: AnyResult<AppResponse>)
      ensures
        ({ let (r1, s1) = router.exec_sem(old(storage).view(), *block, contract, msg);
           r == r1 && (r1 is Ok ==> final(storage).view() == s1) && (r1 is Err ==> final(storage).view() == old(storage).view()) })
    {
        let sub_message_result = transactional(storage, |write_cache: &mut dyn Storage, _b: &dyn Storage| -> (cr: AnyResult<AppResponse>)
            ensures (cr, final(write_cache).view()) == router.exec_sem(old(write_cache).view(), *block, contract, msg)
        {
            router.execute(api, write_cache, block, contract.clone(), msg)
        });
        sub_message_result
    }
}
} // verus!
fn main() {}
