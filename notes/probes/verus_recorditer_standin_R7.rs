use vstd::prelude::*;
use vstd::std_specs::iter::IteratorSpec;
verus! {
pub assume_specification<T: Clone> [<[T]>::to_vec] (s: &[T]) -> (r: Vec<T>)
    ensures r@ == s@;
pub type Record = (Vec<u8>, Vec<u8>);

// stand-in for Box<dyn Iterator<Item = Record> + 'a>  (rule R7)
#[verifier::external_body]
pub struct RecordIter<'a> { inner: Box<dyn Iterator<Item = Record> + 'a> }
impl<'a> vstd::std_specs::iter::IteratorSpecImpl for RecordIter<'a> {
    open spec fn obeys_prophetic_iter_laws(&self) -> bool { true }
    open spec fn remaining(&self) -> Seq<Record> { self.rem() }
    open spec fn will_return_none(&self) -> bool { true }
    open spec fn decrease(&self) -> Option<nat> { Some(self.rem().len()) }
    open spec fn peek(&self, i: int) -> Option<Record> { if 0 <= i < self.rem().len() { Some(self.rem()[i]) } else { None } }
}
impl<'a> Iterator for RecordIter<'a> {
    type Item = Record;
    #[verifier::external_body]
    fn next(&mut self) -> (r: Option<Record>) { self.inner.next() }
}
impl<'a> RecordIter<'a> {
    pub uninterp spec fn rem(&self) -> Seq<Record>;
    #[verifier::external_body]
    pub fn boxed<I: Iterator<Item = Record> + 'a>(i: I) -> (r: RecordIter<'a>)
        ensures r.remaining() == i.remaining()
    { RecordIter { inner: Box::new(i) } }
}

pub trait Storage {
    spec fn entries(&self, start: Option<Seq<u8>>, end: Option<Seq<u8>>) -> Seq<Record>;
    fn range<'a>(&'a self, start: Option<&[u8]>, end: Option<&[u8]>) -> (r: RecordIter<'a>)
        ensures r.remaining() == self.entries(match start { Some(s) => Some(s@), None => None }, match end { Some(s) => Some(s@), None => None });
}

fn trim(namespace: &[u8], key: &[u8]) -> (r: Vec<u8>)
    requires namespace@.len() <= key@.len(),
    ensures r@ == key@.subrange(namespace@.len() as int, key@.len() as int),
{
    key[namespace.len()..].to_vec()
}

fn first(s: &dyn Storage) -> (r: Option<Record>)
    ensures r is Some ==> s.entries(None, None).len() > 0 && r.unwrap() == s.entries(None, None)[0]
{
    let mut it = s.range(None, None);
    it.next()
}

fn mapped<'a>(s: &'a dyn Storage, namespace: &[u8]) -> RecordIter<'a> {
    let base_iterator = s.range(None, None);
    let prefix = namespace.to_vec();
    let mapped = base_iterator.map(move |kv: Record| -> (o: Record) requires prefix@.len() <= kv.0@.len() { let (k, v) = kv; (trim(&prefix, &k), v) });
    RecordIter::boxed(mapped)
}
} // verus!
fn main() {}
