use vstd::prelude::*;
verus! {

pub struct AnyError;
pub type AnyResult<T> = Result<T, AnyError>;

pub trait Storage {
    spec fn view(&self) -> IMap<Seq<u8>, Seq<u8>>;
    fn set(&mut self, key: &[u8], value: &[u8])
        ensures final(self).view() == old(self).view().insert(key@, value@);
}

pub struct Cache<'a> { base: &'a dyn Storage, m: Ghost<IMap<Seq<u8>, Seq<u8>>> }
impl Storage for Cache<'_> {
    closed spec fn view(&self) -> IMap<Seq<u8>, Seq<u8>> { self.m@ }
    fn set(&mut self, key: &[u8], value: &[u8]) { self.m = Ghost(self.m@.insert(key@, value@)); }
}

#[verifier::external_body]
pub fn as_dyn_mut<'a, T: Storage>(x: &'a mut T) -> (r: &'a mut dyn Storage)
    ensures r.view() == old(x).view(), final(x).view() == final(r).view()
{ x }

pub fn transactional<F, T>(base: &mut dyn Storage, action: F) -> (r: AnyResult<T>)
where
    F: FnOnce(&mut dyn Storage, &dyn Storage) -> AnyResult<T>,
    requires forall|c: &mut dyn Storage, b: &dyn Storage| #[trigger] action.requires((c, b)),
    ensures r is Err ==> final(base).view() == old(base).view()
{
    let mut cache = Cache { base: base, m: Ghost(base.view()) };
    let res = action(as_dyn_mut(&mut cache), base)?;
    Ok(res)
}

pub fn user(s: &mut dyn Storage) -> (r: AnyResult<u8>) 
  ensures r is Err ==> final(s).view() == old(s).view()
{
    transactional(s, |c: &mut dyn Storage, _b: &dyn Storage| -> (r: AnyResult<u8>) { c.set(&[1u8], &[2u8]); Ok(1u8) })
}
} // verus!
fn main() {}
