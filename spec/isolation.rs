// ---------------------------------------------------------------------------
// spec/isolation.rs -- [C08.lemma.isolated] key spaces that cannot share a raw key.  A contract's key space is
// lp(w) ++ lp(cd ++ addr) ++ key (w = "wasm", cd = "contract_data/": what `contract_namespace` is proved to build).
// Instantiations of lemma_views_disjoint, generic in the byte strings; spec/isolation_inst.rs plugs in the
// repository's constants.
// ---------------------------------------------------------------------------
pub open spec fn iso_prefix(w: Seq<u8>, cd: Seq<u8>, a: Seq<u8>) -> Seq<u8> { lp_nested(seq![w, cd + a]) }

proof fn lemma_path2_ok(x: Seq<u8>, y: Seq<u8>)
    requires x.len() <= 0xFFFF, y.len() <= 0xFFFF
    ensures path_ok(seq![x, y])
{
    let p = seq![x, y];
    assert forall|i: int| 0 <= i < p.len() implies #[trigger] p[i].len() <= 0xFFFF by { if i == 0 {} else { assert(i == 1); } }
}
proof fn lemma_path2_not_prefix(x: Seq<u8>, y: Seq<u8>, x2: Seq<u8>, y2: Seq<u8>)
    requires y != y2
    ensures !is_path_prefix(seq![x, y], seq![x2, y2])
{
    let p = seq![x, y]; let q = seq![x2, y2];
    if is_path_prefix(p, q) { assert(q.subrange(0, 2)[1] == p[1]); }
}
proof fn lemma_lp_nested2(x: Seq<u8>, y: Seq<u8>)
    ensures lp_nested(seq![x, y]) == lp(x) + lp(y)
{
    let p = seq![x, y];
    lemma_lp_nested_front(p);
    let t = p.drop_first();
    lemma_lp_nested_front(t);
    assert(t.drop_first() =~= Seq::<Seq<u8>>::empty());
    assert(t[0] == y);
    assert(lp_nested(t.drop_first()) =~= Seq::<u8>::empty());
    assert(lp(y) + Seq::<u8>::empty() =~= lp(y));
}
// another contract: different address bytes
pub proof fn lemma_iso_other_contract(w: Seq<u8>, cd: Seq<u8>, a: Seq<u8>, b: Seq<u8>, ka: Seq<u8>, kb: Seq<u8>)
    requires w.len() <= 0xFFFF, cd.len() + a.len() <= 0xFFFF, cd.len() + b.len() <= 0xFFFF, a != b
    ensures iso_prefix(w, cd, a) + ka != iso_prefix(w, cd, b) + kb
{
    if cd + a == cd + b { lemma_concat_cancel(cd, a, b); }
    lemma_path2_ok(w, cd + a); lemma_path2_ok(w, cd + b);
    lemma_path2_not_prefix(w, cd + a, w, cd + b);
    lemma_path2_not_prefix(w, cd + b, w, cd + a);
    lemma_views_disjoint(seq![w, cd + a], seq![w, cd + b], ka, kb);
}
// a module whose whole state lives under the one-level namespace lp(n), n != w
pub proof fn lemma_iso_one_level(w: Seq<u8>, cd: Seq<u8>, a: Seq<u8>, n: Seq<u8>, ka: Seq<u8>, k: Seq<u8>)
    requires w.len() <= 0xFFFF, cd.len() + a.len() <= 0xFFFF, n.len() <= 0xFFFF, n != w
    ensures iso_prefix(w, cd, a) + ka != lp(n) + k
{
    let pa = seq![w, cd + a]; let p1 = seq![n];
    lemma_path2_ok(w, cd + a);
    assert(path_ok(p1));
    assert(!is_path_prefix(pa, p1));
    assert(!is_path_prefix(p1, pa)) by { if is_path_prefix(p1, pa) { assert(pa.subrange(0, 1)[0] == p1[0]); } }
    lemma_views_disjoint(pa, p1, ka, k);
    lemma_lp_nested_front(p1);
    assert(p1.drop_first() =~= Seq::<Seq<u8>>::empty());
    assert(lp_nested(p1) =~= lp(n));
}
// a record under the same first level but a second level r shorter than cd (the registry "contracts" vs "contract_data/..")
pub proof fn lemma_iso_sibling(w: Seq<u8>, cd: Seq<u8>, a: Seq<u8>, r: Seq<u8>, ka: Seq<u8>, k: Seq<u8>)
    requires w.len() <= 0xFFFF, cd.len() + a.len() <= 0xFFFF, r.len() < cd.len()
    ensures iso_prefix(w, cd, a) + ka != lp(w) + (lp(r) + k)
{
    lemma_path2_ok(w, cd + a); lemma_path2_ok(w, r);
    assert((cd + a).len() != r.len());
    lemma_path2_not_prefix(w, cd + a, w, r);
    lemma_path2_not_prefix(w, r, w, cd + a);
    lemma_views_disjoint(seq![w, cd + a], seq![w, r], ka, k);
    lemma_lp_nested2(w, r);
    assert((lp(w) + lp(r)) + k =~= lp(w) + (lp(r) + k));
}
