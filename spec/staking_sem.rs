// ---------------------------------------------------------------------------
// spec/staking_sem.rs -- abstract reading of the staking module's window of the chain store (src/staking.rs):
// raw keys of its cw-storage-plus containers, typed getters, the store invariant `swf`, and the relational
// specifications of update_rewards / update_stake / slash.  Everything is stated over the byte-level view St.
// ---------------------------------------------------------------------------
pub open spec fn ns_stakes() -> Seq<u8> { str_bytes("stakes"@) }
pub open spec fn ns_vinfo() -> Seq<u8> { str_bytes("validator_info"@) }
pub open spec fn ns_vmap() -> Seq<u8> { str_bytes("validator_map"@) }
pub open spec fn k_queue() -> Seq<u8> { str_bytes("unbonding_queue"@) }
pub open spec fn k_sinfo() -> Seq<u8> { str_bytes("staking_info"@) }
pub open spec fn k_stake(d: Addr, v: Seq<char>) -> Seq<u8> { lp(ns_stakes()) + (lp(d.bytes()) + str_bytes(v)) }
pub open spec fn k_vinfo(v: Seq<char>) -> Seq<u8> { lp(ns_vinfo()) + str_bytes(v) }
pub open spec fn k_vmap(v: Seq<char>) -> Seq<u8> { lp(ns_vmap()) + str_bytes(v) }

pub open spec fn get_shares(st: St, d: Addr, v: Seq<char>) -> StdResult<Option<Shares>> { map_may_load::<Shares>(st, k_stake(d, v)) }
pub open spec fn get_vinfo(st: St, v: Seq<char>) -> StdResult<Option<ValidatorInfo>> { map_may_load::<ValidatorInfo>(st, k_vinfo(v)) }
pub open spec fn get_vobj(st: St, v: Seq<char>) -> StdResult<Option<Validator>> { map_may_load::<Validator>(st, k_vmap(v)) }
pub open spec fn get_queue(st: St) -> StdResult<Option<VecDeque<Unbonding>>> { map_may_load::<VecDeque<Unbonding>>(st, k_queue()) }
pub open spec fn get_sinfo(st: St) -> StdResult<Option<StakingInfo>> { map_may_load::<StakingInfo>(st, k_sinfo()) }

pub open spec fn has_staker(st: St, v: Seq<char>, d: Addr) -> bool {
    get_vinfo(st, v) matches Ok(Some(info)) && info.stakers@.contains(d)
}
pub open spec fn has_shares(st: St, d: Addr, v: Seq<char>) -> bool { get_shares(st, d, v) matches Ok(Some(_)) }
// I1: every staker recorded for a validator has a stake entry there   (update_rewards / slash `expect` it)
pub open spec fn stakers_exist(st: St) -> bool {
    forall|v: Seq<char>, d: Addr| #[trigger] has_staker(st, v, d) ==> has_shares(st, d, v)
}
// I2 (set up by add_validator, never written afterwards): a validator record is stored under its own address, and
// ASSUMPTION on setup inputs: its commission is at most 100 %
pub open spec fn vobj_ok(v: Seq<char>, x: Validator) -> bool { x.address@ == v && x.commission.atomics <= dec_one() }
pub open spec fn vobj_ok_at(st: St, v: Seq<char>) -> bool { get_vobj(st, v) matches Ok(Some(x)) ==> vobj_ok(v, x) }
pub open spec fn validators_ok(st: St) -> bool {
    forall|v: Seq<char>| #[trigger] vobj_ok_at(st, v)
}
// I1c: conversely every stake entry belongs to a recorded staker (so it keeps earning rewards and is seen by slash)
pub open spec fn shares_have_staker(st: St) -> bool {
    forall|d: Addr, v: Seq<char>| #[trigger] has_shares(st, d, v) ==> has_staker(st, v, d)
}
// I3 (add_validator writes both records, nothing removes them): a validator with an info record has a validator record
pub open spec fn vinfo_has_vobj_at(st: St, v: Seq<char>) -> bool { get_vinfo(st, v) matches Ok(Some(_)) ==> get_vobj(st, v) matches Ok(Some(_)) }
pub open spec fn vinfo_has_vobj(st: St) -> bool { forall|v: Seq<char>| #[trigger] vinfo_has_vobj_at(st, v) }
pub open spec fn swf(st: St) -> bool { stakers_exist(st) && shares_have_staker(st) && validators_ok(st) && vinfo_has_vobj(st) }

// ---- keys of different containers / different entries never collide
pub proof fn lemma_ns_facts()
    ensures
        ns_stakes().len() == 6, ns_vinfo().len() == 14, ns_vmap().len() == 13, k_queue().len() == 15, k_sinfo().len() == 12,
        k_queue()[0] == 117u8, k_sinfo()[0] == 115u8,
{
    reveal_strlit("stakes"); reveal_strlit("validator_info"); reveal_strlit("validator_map");
    reveal_strlit("unbonding_queue"); reveal_strlit("staking_info");
    axiom_str_bytes_ascii("stakes"@); axiom_str_bytes_ascii("validator_info"@); axiom_str_bytes_ascii("validator_map"@);
    axiom_str_bytes_ascii("unbonding_queue"@); axiom_str_bytes_ascii("staking_info"@);
}
pub proof fn lemma_lp_first(a: Seq<u8>, x: Seq<u8>)
    requires a.len() <= 0xFF
    ensures (lp(a) + x)[0] == 0u8
{
    assert((lp(a) + x)[0] == len_bytes(a.len() as int)[0]);
}
pub proof fn lemma_k_stake_inj(d: Addr, v: Seq<char>, d2: Addr, v2: Seq<char>)
    requires k_stake(d, v) == k_stake(d2, v2)
    ensures d == d2, v == v2
{
    lemma_ns_facts();
    lemma_concat_cancel(lp(ns_stakes()), lp(d.bytes()) + str_bytes(v), lp(d2.bytes()) + str_bytes(v2));
    axiom_addr_len(d); axiom_addr_len(d2);
    lemma_lp_prefix_free(d.bytes(), str_bytes(v), d2.bytes(), str_bytes(v2));
    axiom_str_bytes_inj(v, v2);
    axiom_addr_bytes(d); axiom_addr_bytes(d2);
    axiom_str_bytes_inj(d.s@, d2.s@);
    axiom_addr_ext(d, d2);
}
pub proof fn lemma_k_vinfo_inj(v: Seq<char>, v2: Seq<char>)
    requires k_vinfo(v) == k_vinfo(v2)
    ensures v == v2
{
    lemma_concat_cancel(lp(ns_vinfo()), str_bytes(v), str_bytes(v2));
    axiom_str_bytes_inj(v, v2);
}
pub proof fn lemma_k_vmap_inj(v: Seq<char>, v2: Seq<char>)
    requires k_vmap(v) == k_vmap(v2)
    ensures v == v2
{
    lemma_concat_cancel(lp(ns_vmap()), str_bytes(v), str_bytes(v2));
    axiom_str_bytes_inj(v, v2);
}
pub proof fn lemma_keys_disjoint(d: Addr, v: Seq<char>, v2: Seq<char>)
    ensures
        k_stake(d, v) != k_vinfo(v2), k_stake(d, v) != k_vmap(v2), k_vinfo(v) != k_vmap(v2),
        k_stake(d, v) != k_queue(), k_stake(d, v) != k_sinfo(),
        k_vinfo(v) != k_queue(), k_vinfo(v) != k_sinfo(), k_vmap(v) != k_queue(), k_vmap(v) != k_sinfo(),
        k_queue() != k_sinfo(),
{
    lemma_ns_facts();
    if k_stake(d, v) == k_vinfo(v2) { lemma_lp_prefix_free(ns_stakes(), lp(d.bytes()) + str_bytes(v), ns_vinfo(), str_bytes(v2)); }
    if k_stake(d, v) == k_vmap(v2) { lemma_lp_prefix_free(ns_stakes(), lp(d.bytes()) + str_bytes(v), ns_vmap(), str_bytes(v2)); }
    if k_vinfo(v) == k_vmap(v2) { lemma_lp_prefix_free(ns_vinfo(), str_bytes(v), ns_vmap(), str_bytes(v2)); }
    lemma_lp_first(ns_stakes(), lp(d.bytes()) + str_bytes(v));
    lemma_lp_first(ns_vinfo(), str_bytes(v));
    lemma_lp_first(ns_vmap(), str_bytes(v));
}

// ---- reward arithmetic at the level of a single staker
//   share_of_rewards = rewards * shares.stake / validator.stake   (Decimal * Decimal, then Decimal / Uint128)
pub open spec fn share_spec(nr: nat, s_stake: nat, v_stake: nat) -> nat {
    if v_stake == 0 { 0 } else { dmul(nr, s_stake) / v_stake }
}
pub open spec fn share_fits(nr: nat, s_stake: nat, v_stake: nat) -> bool { v_stake == 0 || fits(dmul(nr, s_stake)) }

// the key k is a stake entry (d, v) of one of the given stakers
pub open spec fn is_stake_key(k: Seq<u8>, stakers: Set<Addr>, v: Seq<char>) -> bool {
    exists|d: Addr| stakers.contains(d) && k == #[trigger] k_stake(d, v)
}
// shares s1 = shares s0 credited with its part of the validator-wide reward nr; the stake is untouched
pub open spec fn share_credit(s0: Shares, s1: Shares, nr: nat, v_stake: nat) -> bool {
    &&& s1.stake == s0.stake
    &&& (share_fits(nr, s0.stake.atomics as nat, v_stake) && fits((s0.rewards.atomics + share_spec(nr, s0.stake.atomics as nat, v_stake)) as nat))
            ==> s1.rewards.atomics == s0.rewards.atomics + share_spec(nr, s0.stake.atomics as nat, v_stake)
}
// staker d of validator v was credited its share of the new validator rewards nr
pub open spec fn credited(st0: St, st1: St, d: Addr, v: Seq<char>, v_stake: nat, nr: nat) -> bool {
    &&& get_shares(st0, d, v) matches Ok(Some(s0))
    &&& get_shares(st1, d, v) matches Ok(Some(s1))
    &&& share_credit(s0, s1, nr, v_stake)
}
// update_rewards(v) at time `now` distributing nr: what changed between st0 and st1, and that nothing else did
pub open spec fn rewards_updated(st0: St, st1: St, v: Seq<char>, now: Timestamp, nr: nat) -> bool {
    &&& get_vinfo(st0, v) matches Ok(Some(i0))
    &&& get_vinfo(st1, v) matches Ok(Some(i1))
    &&& i1.stakers@ == i0.stakers@ && i1.stake == i0.stake && i1.last_rewards_calculation == now
    &&& st1.dom() == st0.dom()
    &&& forall|d: Addr| i0.stakers@.contains(d) ==> #[trigger] credited(st0, st1, d, v, i0.stake.u as nat, nr)
    &&& forall|k: Seq<u8>| k != k_vinfo(v) && !is_stake_key(k, i0.stakers@, v) ==> #[trigger] st1[k] == st0[k]
}

// ---- proof of update_rewards: loop invariant over the stakers sequence and its three lemmas
pub open spec fn upd_inv(st0: St, st: St, seq: Seq<Addr>, idx: int, v: Seq<char>, now: Timestamp, nr: nat) -> bool {
    &&& 0 <= idx <= seq.len()
    &&& seq.no_duplicates()
    &&& get_vinfo(st0, v) matches Ok(Some(i0))
    &&& get_vinfo(st, v) matches Ok(Some(i1))
    &&& seq.to_set() == i0.stakers@
    &&& i1.stakers@ == i0.stakers@ && i1.stake == i0.stake && i1.last_rewards_calculation == now
    &&& st.dom() == st0.dom()
    &&& forall|j: int| 0 <= j < idx ==> #[trigger] credited(st0, st, seq[j], v, i0.stake.u as nat, nr)
    &&& forall|j: int| idx <= j < seq.len() ==> st[#[trigger] k_stake(seq[j], v)] == st0[k_stake(seq[j], v)]
    &&& forall|k: Seq<u8>| k != k_vinfo(v) && !is_stake_key(k, i0.stakers@, v) ==> #[trigger] st[k] == st0[k]
}
pub proof fn lemma_upd_init(st0: St, st: St, v: Seq<char>, now: Timestamp, nr: nat, i1: ValidatorInfo)
    requires
        get_vinfo(st0, v) matches Ok(Some(i0)) && i1.stakers@ == i0.stakers@ && i1.stake == i0.stake,
        i1.last_rewards_calculation == now,
        st == st0.insert(k_vinfo(v), i1.ser()),
    ensures forall|seq: Seq<Addr>| seq.no_duplicates() && seq.to_set() == i1.stakers@ ==> #[trigger] upd_inv(st0, st, seq, 0, v, now, nr)
{
    axiom_cw_roundtrip(i1);
    assert(st.dom() =~= st0.dom());
    assert forall|seq: Seq<Addr>| seq.no_duplicates() && seq.to_set() == i1.stakers@ implies #[trigger] upd_inv(st0, st, seq, 0, v, now, nr) by {
        assert forall|j: int| 0 <= j < seq.len() implies st[#[trigger] k_stake(seq[j], v)] == st0[k_stake(seq[j], v)] by {
            lemma_keys_disjoint(seq[j], v, v);
        }
    }
}
// nothing to distribute: every staker is "credited" zero
pub proof fn lemma_upd_zero(st0: St, st: St, v: Seq<char>, now: Timestamp, i1: ValidatorInfo)
    requires
        swf(st0),
        get_vinfo(st0, v) matches Ok(Some(i0)) && i1.stakers@ == i0.stakers@ && i1.stake == i0.stake,
        i1.last_rewards_calculation == now,
        st == st0.insert(k_vinfo(v), i1.ser()),
    ensures rewards_updated(st0, st, v, now, 0)
{
    axiom_cw_roundtrip(i1);
    assert(st.dom() =~= st0.dom());
    let i0 = get_vinfo(st0, v)->Ok_0->0;
    assert forall|d: Addr| i0.stakers@.contains(d) implies #[trigger] credited(st0, st, d, v, i0.stake.u as nat, 0) by {
        lemma_keys_disjoint(d, v, v);
        assert(has_staker(st0, v, d));
        assert(has_shares(st0, d, v));
        let s0 = get_shares(st0, d, v)->Ok_0->0;
        assert(dmul(0, s0.stake.atomics as nat) == 0) by (nonlinear_arith);
    }
}
pub proof fn lemma_upd_step(st0: St, st: St, st2: St, seq: Seq<Addr>, idx: int, v: Seq<char>, now: Timestamp, nr: nat, s1: Shares)
    requires
        upd_inv(st0, st, seq, idx, v, now, nr), idx < seq.len(),
        get_vinfo(st0, v) matches Ok(Some(i0)) && get_shares(st0, seq[idx], v) matches Ok(Some(s0)) && share_credit(s0, s1, nr, i0.stake.u as nat),
        st2 == st.insert(k_stake(seq[idx], v), s1.ser()),
        st0.contains_key(k_stake(seq[idx], v)),
    ensures upd_inv(st0, st2, seq, idx + 1, v, now, nr)
{
    let d = seq[idx];
    let i0 = get_vinfo(st0, v)->Ok_0->0;
    axiom_cw_roundtrip(s1);
    lemma_keys_disjoint(d, v, v);
    assert(st2.dom() =~= st0.dom());
    assert forall|j: int| 0 <= j < idx + 1 implies #[trigger] credited(st0, st2, seq[j], v, i0.stake.u as nat, nr) by {
        if j < idx {
            assert(credited(st0, st, seq[j], v, i0.stake.u as nat, nr));
            if k_stake(seq[j], v) == k_stake(d, v) { lemma_k_stake_inj(seq[j], v, d, v); }
        }
    }
    assert forall|j: int| idx + 1 <= j < seq.len() implies st2[#[trigger] k_stake(seq[j], v)] == st0[k_stake(seq[j], v)] by {
        if k_stake(seq[j], v) == k_stake(d, v) { lemma_k_stake_inj(seq[j], v, d, v); }
    }
    assert forall|k: Seq<u8>| k != k_vinfo(v) && !is_stake_key(k, i0.stakers@, v) implies #[trigger] st2[k] == st0[k] by {
        assert(seq.to_set().contains(d));
        if k == k_stake(d, v) { assert(is_stake_key(k, i0.stakers@, v)); }
    }
}
pub proof fn lemma_upd_done(st0: St, st: St, seq: Seq<Addr>, v: Seq<char>, now: Timestamp, nr: nat)
    requires upd_inv(st0, st, seq, seq.len() as int, v, now, nr)
    ensures rewards_updated(st0, st, v, now, nr)
{
    let i0 = get_vinfo(st0, v)->Ok_0->0;
    assert forall|d: Addr| i0.stakers@.contains(d) implies #[trigger] credited(st0, st, d, v, i0.stake.u as nat, nr) by {
        assert(seq.to_set().contains(d));
        let j = choose|j: int| 0 <= j < seq.len() && seq[j] == d;
        assert(credited(st0, st, seq[j], v, i0.stake.u as nat, nr));
    }
}
// update_rewards keeps the store invariant
pub proof fn lemma_rewards_updated_swf(st0: St, st1: St, v: Seq<char>, now: Timestamp, nr: nat)
    requires swf(st0), rewards_updated(st0, st1, v, now, nr)
    ensures swf(st1)
{
    let i0 = get_vinfo(st0, v)->Ok_0->0;
    assert forall|v2: Seq<char>, d: Addr| #[trigger] has_staker(st1, v2, d) implies has_shares(st1, d, v2) by {
        if v2 == v {
            assert(credited(st0, st1, d, v, i0.stake.u as nat, nr));
        } else {
            lemma_frame_other_validator(st0, st1, v, i0.stakers@, v2, d);
            assert(has_staker(st0, v2, d));
        }
    }
    assert forall|d: Addr, v2: Seq<char>| #[trigger] has_shares(st1, d, v2) implies has_staker(st1, v2, d) by {
        lemma_frame_other_validator(st0, st1, v, i0.stakers@, v2, d);
        if v2 == v {
            if !i0.stakers@.contains(d) { assert(has_shares(st0, d, v)); assert(has_staker(st0, v, d)); }
        } else {
            assert(has_shares(st0, d, v2)); assert(has_staker(st0, v2, d));
        }
    }
    assert forall|v2: Seq<char>| #[trigger] vobj_ok_at(st1, v2) by {
        lemma_frame_other_validator(st0, st1, v, i0.stakers@, v2, arbitrary());
        assert(get_vobj(st1, v2) == get_vobj(st0, v2));
        assert(vobj_ok_at(st0, v2));
    }
    assert forall|v2: Seq<char>| #[trigger] vinfo_has_vobj_at(st1, v2) by {
        lemma_frame_other_validator(st0, st1, v, i0.stakers@, v2, arbitrary());
        assert(vinfo_has_vobj_at(st0, v2));
    }
}
// a change confined to validator v's info record and the stake entries of its stakers leaves every typed entry of
// other validators, the validator records, the queue and the staking parameters as they were
pub proof fn lemma_frame_other_validator(st0: St, st1: St, v: Seq<char>, stakers: Set<Addr>, v2: Seq<char>, d: Addr)
    requires
        st1.dom() == st0.dom(),
        forall|k: Seq<u8>| k != k_vinfo(v) && !is_stake_key(k, stakers, v) ==> #[trigger] st1[k] == st0[k],
    ensures
        v2 != v ==> get_vinfo(st1, v2) == get_vinfo(st0, v2) && get_shares(st1, d, v2) == get_shares(st0, d, v2),
        !stakers.contains(d) ==> get_shares(st1, d, v) == get_shares(st0, d, v),
        get_vobj(st1, v2) == get_vobj(st0, v2),
        get_queue(st1) == get_queue(st0), get_sinfo(st1) == get_sinfo(st0),
{
    lemma_keys_disjoint(d, v2, v);
    lemma_keys_disjoint(d, v, v2);
    lemma_keys_disjoint(d, v, v);
    assert(st1.contains_key(k_vinfo(v2)) == st0.contains_key(k_vinfo(v2)));
    assert(st1.contains_key(k_stake(d, v2)) == st0.contains_key(k_stake(d, v2)));
    assert(st1.contains_key(k_stake(d, v)) == st0.contains_key(k_stake(d, v)));
    assert(st1.contains_key(k_vmap(v2)) == st0.contains_key(k_vmap(v2)));
    assert(st1.contains_key(k_queue()) == st0.contains_key(k_queue()));
    assert(st1.contains_key(k_sinfo()) == st0.contains_key(k_sinfo()));
    if v2 != v {
        if k_vinfo(v2) == k_vinfo(v) { lemma_k_vinfo_inj(v2, v); }
        if is_stake_key(k_vinfo(v2), stakers, v) { let d3 = choose|d3: Addr| stakers.contains(d3) && k_vinfo(v2) == k_stake(d3, v); lemma_keys_disjoint(d3, v, v2); }
        if is_stake_key(k_stake(d, v2), stakers, v) { let d3 = choose|d3: Addr| stakers.contains(d3) && k_stake(d, v2) == k_stake(d3, v); lemma_k_stake_inj(d, v2, d3, v); }
    }
    if !stakers.contains(d) {
        if is_stake_key(k_stake(d, v), stakers, v) { let d3 = choose|d3: Addr| stakers.contains(d3) && k_stake(d, v) == k_stake(d3, v); lemma_k_stake_inj(d, v, d3, v); }
    }
    if is_stake_key(k_vmap(v2), stakers, v) { let d3 = choose|d3: Addr| stakers.contains(d3) && k_vmap(v2) == k_stake(d3, v); lemma_keys_disjoint(d3, v, v2); }
    if is_stake_key(k_queue(), stakers, v) { let d3 = choose|d3: Addr| stakers.contains(d3) && k_queue() == k_stake(d3, v); lemma_keys_disjoint(d3, v, v2); }
    if is_stake_key(k_sinfo(), stakers, v) { let d3 = choose|d3: Addr| stakers.contains(d3) && k_sinfo() == k_stake(d3, v); lemma_keys_disjoint(d3, v, v2); }
    lemma_keys_disjoint(d, v2, v);
}

// ---- pending reward as shown by queries:  floor(rewards + share of the not yet credited validator rewards)
pub open spec fn pending_spec(s: Shares, i: ValidatorInfo, apr: nat, comm: nat, now: Timestamp) -> nat {
    let nr = reward_net(i.stake.u as nat, apr, comm, (now.nanos - i.last_rewards_calculation.nanos) as nat);
    (s.rewards.atomics + share_spec(nr, s.stake.atomics as nat, i.stake.u as nat)) as nat / dec_one()
}
pub open spec fn pending_fits(s: Shares, i: ValidatorInfo, apr: nat, comm: nat, now: Timestamp) -> bool {
    let dt = (now.nanos - i.last_rewards_calculation.nanos) as nat;
    let nr = reward_net(i.stake.u as nat, apr, comm, dt);
    calc_fits(i.stake.u as nat, apr, comm, dt) && share_fits(nr, s.stake.atomics as nat, i.stake.u as nat)
        && fits((s.rewards.atomics + share_spec(nr, s.stake.atomics as nat, i.stake.u as nat)) as nat)
}

// ---- update_stake: effect of (un)delegating `amount` whole tokens after the rewards were brought up to date (state sm)
pub open spec fn stake_fits(base: Shares, amount: nat, sub: bool) -> bool {
    fits(amount * dec_one()) && (sub || fits((base.stake.atomics + amount * dec_one()) as nat))
}
pub open spec fn stake_changed(sm: St, s1: St, d: Addr, v: Seq<char>, amount: nat, sub: bool) -> bool {
    &&& get_vinfo(sm, v) matches Ok(Some(im))
    &&& get_shares(sm, d, v) matches Ok(o)
    &&& get_vinfo(s1, v) matches Ok(Some(i1))
    &&& (sub ==> o is Some)
    &&& ({
        let base = match o { Some(x) => x, None => Shares { stake: Decimal { atomics: 0 }, rewards: Decimal { atomics: 0 } } };
        let new_stake: int = if sub { base.stake.atomics - amount * dec_one() } else { base.stake.atomics + amount * dec_one() };
        let new_total: int = if sub { im.stake.u - amount } else { im.stake.u + amount };
        stake_fits(base, amount, sub) ==> {
            &&& new_stake >= 0 && new_total >= 0
            &&& i1.stake.u == new_total && i1.last_rewards_calculation == im.last_rewards_calculation
            &&& if new_stake == 0 {
                    get_shares(s1, d, v) == Ok::<Option<Shares>, StdError>(None) && !s1.contains_key(k_stake(d, v)) && i1.stakers@ == im.stakers@.remove(d)
                } else {
                    get_shares(s1, d, v) matches Ok(Some(x1)) && x1.stake.atomics == new_stake && x1.rewards == base.rewards && i1.stakers@ == im.stakers@.insert(d)
                }
        }
    })
    &&& frame2(sm, s1, d, v)
}
// a change confined to k_vinfo(v) and k_stake(d, v)
pub open spec fn frame2(sm: St, s1: St, d: Addr, v: Seq<char>) -> bool {
    forall|k: Seq<u8>| k != k_vinfo(v) && k != k_stake(d, v) ==> #[trigger] same_at(s1, sm, k)
}
pub proof fn lemma_frame2(sm: St, s1: St, d: Addr, v: Seq<char>, d2: Addr, v2: Seq<char>)
    requires frame2(sm, s1, d, v),
    ensures
        v2 != v ==> get_vinfo(s1, v2) == get_vinfo(sm, v2),
        (v2 != v || d2 != d) ==> get_shares(s1, d2, v2) == get_shares(sm, d2, v2),
        get_vobj(s1, v2) == get_vobj(sm, v2), get_queue(s1) == get_queue(sm), get_sinfo(s1) == get_sinfo(sm),
{
    lemma_keys_disjoint(d, v, v2); lemma_keys_disjoint(d2, v2, v); lemma_keys_disjoint(d, v, v); lemma_keys_disjoint(d2, v2, v2);
    if k_vinfo(v2) == k_vinfo(v) { lemma_k_vinfo_inj(v2, v); }
    if k_stake(d2, v2) == k_stake(d, v) { lemma_k_stake_inj(d2, v2, d, v); }
    assert(same_at(s1, sm, k_vmap(v2)));
    assert(same_at(s1, sm, k_queue()));
    assert(same_at(s1, sm, k_sinfo()));
    if v2 != v { assert(same_at(s1, sm, k_vinfo(v2))); }
    if v2 != v || d2 != d { assert(same_at(s1, sm, k_stake(d2, v2))); }
}
pub proof fn lemma_stake_changed_swf(sm: St, s1: St, d: Addr, v: Seq<char>, amount: nat, sub: bool)
    requires swf(sm), stake_changed(sm, s1, d, v, amount, sub),
        // the two writes as performed
        get_vinfo(sm, v) matches Ok(Some(im)) && get_vinfo(s1, v) matches Ok(Some(i1)) && (
            (!s1.contains_key(k_stake(d, v)) && i1.stakers@ == im.stakers@.remove(d)) || (has_shares(s1, d, v) && i1.stakers@ == im.stakers@.insert(d))),
    ensures swf(s1)
{
    assert(frame2(sm, s1, d, v));
    lemma_frame2_swf(sm, s1, d, v);
}
// a change confined to d's stake entry at v and v's info record keeps the store invariant if the staker set follows the entry
pub proof fn lemma_frame2_swf(sm: St, s1: St, d: Addr, v: Seq<char>)
    requires swf(sm), frame2(sm, s1, d, v),
        get_vinfo(sm, v) matches Ok(Some(im)) && get_vinfo(s1, v) matches Ok(Some(i1)) && (
            (!s1.contains_key(k_stake(d, v)) && i1.stakers@ == im.stakers@.remove(d)) || (has_shares(s1, d, v) && i1.stakers@ == im.stakers@.insert(d))),
    ensures swf(s1)
{
    let im = get_vinfo(sm, v)->Ok_0->0;
    let i1 = get_vinfo(s1, v)->Ok_0->0;
    assert forall|v2: Seq<char>, d2: Addr| #[trigger] has_staker(s1, v2, d2) implies has_shares(s1, d2, v2) by {
        lemma_frame2(sm, s1, d, v, d2, v2);
        if v2 == v {
            if d2 == d { } else { assert(has_staker(sm, v, d2)); assert(has_shares(sm, d2, v)); }
        } else {
            assert(has_staker(sm, v2, d2));
        }
    }
    assert forall|d2: Addr, v2: Seq<char>| #[trigger] has_shares(s1, d2, v2) implies has_staker(s1, v2, d2) by {
        lemma_frame2(sm, s1, d, v, d2, v2);
        if v2 == v && d2 == d { } else { assert(has_shares(sm, d2, v2)); assert(has_staker(sm, v2, d2)); }
    }
    assert forall|v2: Seq<char>| #[trigger] vobj_ok_at(s1, v2) by {
        lemma_frame2(sm, s1, d, v, d, v2);
        assert(vobj_ok_at(sm, v2));
    }
    assert forall|v2: Seq<char>| #[trigger] vinfo_has_vobj_at(s1, v2) by {
        lemma_frame2(sm, s1, d, v, d, v2);
        assert(vinfo_has_vobj_at(sm, v2));
    }
}
// update_rewards never changes a stake, nor whether a delegation exists
pub proof fn lemma_upd_keeps_stake(st0: St, sm: St, v: Seq<char>, now: Timestamp, d: Addr)
    requires swf(st0), upd_post_core(st0, sm, v, now)
    ensures
        get_shares(st0, d, v) matches Ok(None) ==> get_shares(sm, d, v) matches Ok(None),
        get_shares(st0, d, v) matches Ok(Some(s)) ==> get_shares(sm, d, v) matches Ok(Some(s2)) && s2.stake == s.stake,
        get_shares(st0, d, v) is Err ==> get_shares(sm, d, v) is Err,
        get_sinfo(sm) == get_sinfo(st0),
        get_vinfo(sm, v) matches Ok(Some(_)),
{
    let i0 = get_vinfo(st0, v)->Ok_0->0;
    if sm != st0 {
        let nr = choose|nr: nat| rewards_updated(st0, sm, v, now, nr);
        lemma_frame_other_validator(st0, sm, v, i0.stakers@, v, d);
        if i0.stakers@.contains(d) {
            assert(credited(st0, sm, d, v, i0.stake.u as nat, nr));
        }
    }
}
pub open spec fn upd_post_core(st0: St, st1: St, v: Seq<char>, now: Timestamp) -> bool {
    &&& get_vinfo(st0, v) matches Ok(Some(i0))
    &&& (st1 == st0 || exists|nr: nat| rewards_updated(st0, st1, v, now, nr))
}

// ---- slash: scale validator v's total, every staker's stake and every pending unbonding from v by `rem` = 1 - p
pub open spec fn scaled(sm: St, s1: St, d: Addr, v: Seq<char>, rem: nat) -> bool {
    &&& get_shares(sm, d, v) matches Ok(Some(x0))
    &&& get_shares(s1, d, v) matches Ok(Some(x1))
    &&& x1.rewards == x0.rewards
    &&& x1.stake.atomics == dmul(x0.stake.atomics as nat, rem)
}
pub open spec fn slash_entry(u: Unbonding, v: Seq<char>, rem: nat) -> Unbonding {
    if u.validator@ == v { Unbonding { delegator: u.delegator, validator: u.validator, amount: Uint128 { u: dmul(u.amount.u as nat, rem) as u128 }, payout_at: u.payout_at } } else { u }
}
pub open spec fn queue_of(st: St) -> Seq<Unbonding> { match get_queue(st) { Ok(Some(q)) => q@, _ => Seq::empty() } }
// the part of the store a slash of v may touch
pub open spec fn slash_frame(sm: St, s1: St, v: Seq<char>, stakers: Set<Addr>) -> bool {
    forall|k: Seq<u8>| k != k_vinfo(v) && k != k_queue() && !is_stake_key(k, stakers, v) ==> #[trigger] same_at(s1, sm, k)
}
// the atomics of d's stake with v (0 when there is no record)
pub open spec fn share_atomics(st: St, d: Addr, v: Seq<char>) -> nat {
    match get_shares(st, d, v) { Ok(Some(x)) => x.stake.atomics as nat, _ => 0 }
}
// what the delegators sq[0..n] hold with v in store st, in atomics
pub open spec fn shares_sum(st: St, sq: Seq<Addr>, n: int, v: Seq<char>) -> nat
    decreases n
{
    if n <= 0 { 0 } else { shares_sum(st, sq, n - 1, v) + share_atomics(st, sq[n - 1], v) }
}
// ... and what they hold after each stake is scaled by rem
pub open spec fn scaled_sum(sm: St, sq: Seq<Addr>, n: int, v: Seq<char>, rem: nat) -> nat
    decreases n
{
    if n <= 0 { 0 } else { scaled_sum(sm, sq, n - 1, v, rem) + dmul(share_atomics(sm, sq[n - 1], v), rem) }
}
// the validator's recorded total is the whole-token part of what its delegators hold together (in some enumeration of
// the staker set; the sum does not depend on it)
pub open spec fn total_is_whole_part(s1: St, v: Seq<char>, i1: ValidatorInfo) -> bool {
    exists|sq: Seq<Addr>| sq.no_duplicates() && sq.to_set() == i1.stakers@
        && (fits(shares_sum(s1, sq, sq.len() as int, v)) ==> i1.stake.u == #[trigger] shares_sum(s1, sq, sq.len() as int, v) / dec_one())
}
// C16, from the statement: a slash by p (rem = 1 - p) scales EVERY delegation to v and every pending unbonding from v by
// rem; only p = 1 removes the delegations.  (Whether all delegations together still make a whole token plays no role.)
pub open spec fn slashed(sm: St, s1: St, v: Seq<char>, rem: nat) -> bool {
    &&& get_vinfo(sm, v) matches Ok(Some(im))
    &&& get_vinfo(s1, v) matches Ok(Some(i1))
    &&& get_queue(sm) is Ok
    &&& get_queue(s1) matches Ok(Some(q1))
    &&& i1.last_rewards_calculation == im.last_rewards_calculation
    &&& if rem == 0 {
            i1.stake.u == 0 && i1.stakers@ == Set::<Addr>::empty() && forall|d: Addr| im.stakers@.contains(d) ==> !s1.contains_key(#[trigger] k_stake(d, v))
        } else {
            i1.stakers@ == im.stakers@ && (forall|d: Addr| im.stakers@.contains(d) ==> #[trigger] scaled(sm, s1, d, v, rem)) && total_is_whole_part(s1, v, i1)
        }
    &&& q1@.len() == queue_of(sm).len()
    &&& forall|i: int| 0 <= i < q1@.len() ==> #[trigger] q1@[i] == slash_entry(queue_of(sm)[i], v, rem)
    &&& slash_frame(sm, s1, v, im.stakers@)
}
pub broadcast proof fn lemma_dmul_le_b(x: nat, c: nat)
    requires c <= dec_one()
    ensures #[trigger] dmul(x, c) <= x
{
    lemma_dmul_le(x, c);
}
// loop over the stakers: either every stake entry visited so far is removed (wipe) or scaled
pub open spec fn slash_inv(sm: St, st: St, seq: Seq<Addr>, idx: int, v: Seq<char>, rem: nat, wipe: bool) -> bool {
    &&& 0 <= idx <= seq.len()
    &&& seq.no_duplicates()
    &&& get_vinfo(sm, v) matches Ok(Some(im))
    &&& seq.to_set() == im.stakers@
    &&& st[k_vinfo(v)] == sm[k_vinfo(v)] && st.contains_key(k_vinfo(v))
    &&& forall|j: int| 0 <= j < idx ==> if wipe { !st.contains_key(#[trigger] k_stake(seq[j], v)) } else { scaled(sm, st, seq[j], v, rem) }
    &&& forall|j: int| idx <= j < seq.len() ==> st[#[trigger] k_stake(seq[j], v)] == sm[k_stake(seq[j], v)] && st.contains_key(k_stake(seq[j], v)) == sm.contains_key(k_stake(seq[j], v))
    &&& forall|k: Seq<u8>| k != k_vinfo(v) && !is_stake_key(k, im.stakers@, v) ==> #[trigger] same_at(st, sm, k)
}
pub proof fn lemma_slash_init(sm: St, v: Seq<char>, rem: nat, wipe: bool)
    requires get_vinfo(sm, v) matches Ok(Some(im)),
    ensures forall|seq: Seq<Addr>| seq.no_duplicates() && seq.to_set() == (get_vinfo(sm, v)->Ok_0->0).stakers@ ==> #[trigger] slash_inv(sm, sm, seq, 0, v, rem, wipe)
{
}
pub proof fn lemma_slash_step_wipe(sm: St, st: St, st2: St, seq: Seq<Addr>, idx: int, v: Seq<char>, rem: nat)
    requires slash_inv(sm, st, seq, idx, v, rem, true), idx < seq.len(), st2 == st.remove(k_stake(seq[idx], v)),
    ensures slash_inv(sm, st2, seq, idx + 1, v, rem, true)
{
    let d = seq[idx];
    let im = get_vinfo(sm, v)->Ok_0->0;
    lemma_keys_disjoint(d, v, v);
    assert forall|j: int| 0 <= j < idx + 1 implies !st2.contains_key(#[trigger] k_stake(seq[j], v)) by { }
    assert forall|j: int| idx + 1 <= j < seq.len() implies st2[#[trigger] k_stake(seq[j], v)] == sm[k_stake(seq[j], v)] && st2.contains_key(k_stake(seq[j], v)) == sm.contains_key(k_stake(seq[j], v)) by {
        if k_stake(seq[j], v) == k_stake(d, v) { lemma_k_stake_inj(seq[j], v, d, v); }
    }
    assert forall|k: Seq<u8>| k != k_vinfo(v) && !is_stake_key(k, im.stakers@, v) implies #[trigger] same_at(st2, sm, k) by {
        assert(same_at(st, sm, k));
        assert(seq.to_set().contains(d));
        if k == k_stake(d, v) { assert(is_stake_key(k, im.stakers@, v)); }
    }
}
pub proof fn lemma_slash_step_scale(sm: St, st: St, st2: St, seq: Seq<Addr>, idx: int, v: Seq<char>, rem: nat, x1: Shares)
    requires slash_inv(sm, st, seq, idx, v, rem, false), idx < seq.len(),
        get_shares(sm, seq[idx], v) matches Ok(Some(x0)) && x1.rewards == x0.rewards && x1.stake.atomics == dmul(x0.stake.atomics as nat, rem),
        st2 == st.insert(k_stake(seq[idx], v), x1.ser()),
    ensures slash_inv(sm, st2, seq, idx + 1, v, rem, false)
{
    let d = seq[idx];
    let im = get_vinfo(sm, v)->Ok_0->0;
    axiom_cw_roundtrip(x1);
    lemma_keys_disjoint(d, v, v);
    assert forall|j: int| 0 <= j < idx + 1 implies scaled(sm, st2, #[trigger] seq[j], v, rem) by {
        if j < idx {
            assert(scaled(sm, st, seq[j], v, rem));
            if k_stake(seq[j], v) == k_stake(d, v) { lemma_k_stake_inj(seq[j], v, d, v); }
        }
    }
    assert forall|j: int| idx + 1 <= j < seq.len() implies st2[#[trigger] k_stake(seq[j], v)] == sm[k_stake(seq[j], v)] && st2.contains_key(k_stake(seq[j], v)) == sm.contains_key(k_stake(seq[j], v)) by {
        if k_stake(seq[j], v) == k_stake(d, v) { lemma_k_stake_inj(seq[j], v, d, v); }
    }
    assert forall|k: Seq<u8>| k != k_vinfo(v) && !is_stake_key(k, im.stakers@, v) implies #[trigger] same_at(st2, sm, k) by {
        assert(same_at(st, sm, k));
        assert(seq.to_set().contains(d));
        if k == k_stake(d, v) { assert(is_stake_key(k, im.stakers@, v)); }
    }
}
// when every stake of seq[0..n] in s1 is the scaled stake of sm, the two sums agree
pub proof fn lemma_scaled_sum(sm: St, s1: St, seq: Seq<Addr>, n: int, v: Seq<char>, rem: nat)
    requires 0 <= n <= seq.len(), forall|j: int| 0 <= j < n ==> scaled(sm, s1, #[trigger] seq[j], v, rem)
    ensures shares_sum(s1, seq, n, v) == scaled_sum(sm, seq, n, v, rem)
    decreases n
{
    if n > 0 {
        lemma_scaled_sum(sm, s1, seq, n - 1, v, rem);
        assert(scaled(sm, s1, seq[n - 1], v, rem));
    }
}
// after the loop and the two saves (queue, validator info): the slash relation and the store invariant
pub proof fn lemma_slash_done(sm: St, st: St, s1: St, seq: Seq<Addr>, v: Seq<char>, rem: nat, wipe: bool, q1: VecDeque<Unbonding>, i1: ValidatorInfo)
    requires
        swf(sm), rem <= dec_one(),
        slash_inv(sm, st, seq, seq.len() as int, v, rem, wipe),
        get_queue(sm) is Ok,
        get_vinfo(sm, v) matches Ok(Some(im)) && i1.last_rewards_calculation == im.last_rewards_calculation
            && wipe == (rem == 0) && i1.stakers@ == (if wipe { Set::<Addr>::empty() } else { im.stakers@ }),
        wipe ==> i1.stake.u == 0,
        !wipe ==> (fits(scaled_sum(sm, seq, seq.len() as int, v, rem)) ==> i1.stake.u == scaled_sum(sm, seq, seq.len() as int, v, rem) / dec_one()),
        q1@.len() == queue_of(sm).len(),
        forall|i: int| 0 <= i < q1@.len() ==> #[trigger] q1@[i] == slash_entry(queue_of(sm)[i], v, rem),
        // the two final writes, in either order
        s1.contains_key(k_queue()) && s1[k_queue()] == q1.ser() && s1.contains_key(k_vinfo(v)) && s1[k_vinfo(v)] == i1.ser(),
        forall|k: Seq<u8>| k != k_queue() && k != k_vinfo(v) ==> #[trigger] same_at(s1, st, k),
    ensures slashed(sm, s1, v, rem), swf(s1)
{
    let im = get_vinfo(sm, v)->Ok_0->0;
    axiom_cw_roundtrip(q1);
    axiom_cw_roundtrip(i1);
    lemma_keys_disjoint(arbitrary(), v, v);
    assert forall|d: Addr| im.stakers@.contains(d) implies (if wipe { !s1.contains_key(#[trigger] k_stake(d, v)) } else { scaled(sm, s1, d, v, rem) }) by {
        assert(seq.to_set().contains(d));
        let j = choose|j: int| 0 <= j < seq.len() && seq[j] == d;
        lemma_keys_disjoint(d, v, v);
        assert(same_at(s1, st, k_stake(d, v)));
        if !wipe { assert(scaled(sm, st, seq[j], v, rem)); }
    }
    assert forall|k: Seq<u8>| k != k_vinfo(v) && k != k_queue() && !is_stake_key(k, im.stakers@, v) implies #[trigger] same_at(s1, sm, k) by {
        assert(same_at(s1, st, k));
        assert(same_at(st, sm, k));
    }
    assert(slash_frame(sm, s1, v, im.stakers@));
    if !wipe {
        lemma_scaled_sum(sm, s1, seq, seq.len() as int, v, rem);
        assert(total_is_whole_part(s1, v, i1));
    }
    assert(slashed(sm, s1, v, rem));
    assert forall|v2: Seq<char>, d2: Addr| #[trigger] has_staker(s1, v2, d2) implies has_shares(s1, d2, v2) by {
        if v2 == v {
            assert(scaled(sm, s1, d2, v, rem));
        } else {
            lemma_slash_frame_other(sm, s1, v, im.stakers@, v2, d2);
            assert(has_staker(sm, v2, d2));
        }
    }
    assert forall|d2: Addr, v2: Seq<char>| #[trigger] has_shares(s1, d2, v2) implies has_staker(s1, v2, d2) by {
        lemma_slash_frame_other(sm, s1, v, im.stakers@, v2, d2);
        if v2 == v {
            if im.stakers@.contains(d2) {
                if wipe { assert(!s1.contains_key(k_stake(d2, v))); }
            } else { assert(has_shares(sm, d2, v)); assert(has_staker(sm, v, d2)); }
        } else {
            assert(has_shares(sm, d2, v2)); assert(has_staker(sm, v2, d2));
        }
    }
    assert forall|v2: Seq<char>| #[trigger] vobj_ok_at(s1, v2) by {
        lemma_slash_frame_other(sm, s1, v, im.stakers@, v2, arbitrary());
        assert(vobj_ok_at(sm, v2));
    }
    assert forall|v2: Seq<char>| #[trigger] vinfo_has_vobj_at(s1, v2) by {
        lemma_slash_frame_other(sm, s1, v, im.stakers@, v2, arbitrary());
        assert(vinfo_has_vobj_at(sm, v2));
    }
}
pub proof fn lemma_slash_frame_other(sm: St, s1: St, v: Seq<char>, stakers: Set<Addr>, v2: Seq<char>, d: Addr)
    requires slash_frame(sm, s1, v, stakers),
    ensures
        v2 != v ==> get_vinfo(s1, v2) == get_vinfo(sm, v2) && get_shares(s1, d, v2) == get_shares(sm, d, v2),
        !stakers.contains(d) ==> get_shares(s1, d, v) == get_shares(sm, d, v),
        get_vobj(s1, v2) == get_vobj(sm, v2), get_sinfo(s1) == get_sinfo(sm),
{
    lemma_keys_disjoint(d, v2, v);
    lemma_keys_disjoint(d, v, v2);
    lemma_keys_disjoint(d, v, v);
    lemma_keys_disjoint(d, v2, v2);
    if v2 != v {
        if k_vinfo(v2) == k_vinfo(v) { lemma_k_vinfo_inj(v2, v); }
        if is_stake_key(k_vinfo(v2), stakers, v) { let d3 = choose|d3: Addr| stakers.contains(d3) && k_vinfo(v2) == k_stake(d3, v); lemma_keys_disjoint(d3, v, v2); }
        if is_stake_key(k_stake(d, v2), stakers, v) { let d3 = choose|d3: Addr| stakers.contains(d3) && k_stake(d, v2) == k_stake(d3, v); lemma_k_stake_inj(d, v2, d3, v); }
        assert(same_at(s1, sm, k_vinfo(v2)));
        assert(same_at(s1, sm, k_stake(d, v2)));
    }
    if !stakers.contains(d) {
        if is_stake_key(k_stake(d, v), stakers, v) { let d3 = choose|d3: Addr| stakers.contains(d3) && k_stake(d, v) == k_stake(d3, v); lemma_k_stake_inj(d, v, d3, v); }
        assert(same_at(s1, sm, k_stake(d, v)));
    }
    if is_stake_key(k_vmap(v2), stakers, v) { let d3 = choose|d3: Addr| stakers.contains(d3) && k_vmap(v2) == k_stake(d3, v); lemma_keys_disjoint(d3, v, v2); }
    if is_stake_key(k_sinfo(), stakers, v) { let d3 = choose|d3: Addr| stakers.contains(d3) && k_sinfo() == k_stake(d3, v); lemma_keys_disjoint(d3, v, v2); }
    assert(same_at(s1, sm, k_vmap(v2)));
    assert(same_at(s1, sm, k_sinfo()));
}
pub proof fn lemma_slash_inv_reads(sm: St, st: St, seq: Seq<Addr>, idx: int, v: Seq<char>, rem: nat, wipe: bool)
    requires slash_inv(sm, st, seq, idx, v, rem, wipe)
    ensures get_queue(st) == get_queue(sm), get_vinfo(st, v) == get_vinfo(sm, v)
{
    let im = get_vinfo(sm, v)->Ok_0->0;
    lemma_keys_disjoint(arbitrary(), v, v);
    if is_stake_key(k_queue(), im.stakers@, v) { let d3 = choose|d3: Addr| im.stakers@.contains(d3) && k_queue() == k_stake(d3, v); lemma_keys_disjoint(d3, v, v); }
    assert(same_at(st, sm, k_queue()));
}
// ---- C16 consequences of the slash relation
pub proof fn lemma_slashed_props(sm: St, s1: St, v: Seq<char>, rem: nat, d: Addr, v2: Seq<char>)
    requires slashed(sm, s1, v, rem), rem <= dec_one()
    ensures
        // nothing grows
        /*VXCLAUSE C16.lemma.stake_not_increased*/ ((get_shares(sm, d, v) matches Ok(Some(x0)) && get_shares(s1, d, v) matches Ok(Some(x1)) && (get_vinfo(sm, v)->Ok_0->0).stakers@.contains(d)) ==> (get_shares(s1, d, v)->Ok_0->0).stake.atomics <= (get_shares(sm, d, v)->Ok_0->0).stake.atomics),
        /*VXCLAUSE C16.lemma.queue_not_increased*/ (forall|i: int| 0 <= i < queue_of(s1).len() ==> (#[trigger] queue_of(s1)[i]).amount.u <= queue_of(sm)[i].amount.u),
        // other validators' delegations, non-stakers, validator records and parameters are untouched
        /*VXCLAUSE C16.lemma.others_unchanged*/ ((v2 != v ==> get_vinfo(s1, v2) == get_vinfo(sm, v2) && get_shares(s1, d, v2) == get_shares(sm, d, v2)) && get_vobj(s1, v2) == get_vobj(sm, v2) && get_sinfo(s1) == get_sinfo(sm)),
        /*VXCLAUSE C16.lemma.other_queue_entries*/ (forall|i: int| 0 <= i < queue_of(s1).len() && queue_of(sm)[i].validator@ != v ==> #[trigger] queue_of(s1)[i] == queue_of(sm)[i]),
        // a partial slash scales every delegation, however little is left in total
        /*VXCLAUSE C16.lemma.partial_slash_scales*/ ((rem != 0 && (get_vinfo(sm, v)->Ok_0->0).stakers@.contains(d)) ==> scaled(sm, s1, d, v, rem)),
        // a full slash leaves no delegation to v
        /*VXCLAUSE C16.lemma.full_slash_removes*/ ((rem == 0 && (get_vinfo(sm, v)->Ok_0->0).stakers@.contains(d)) ==> !s1.contains_key(k_stake(d, v))),
{
    let im = get_vinfo(sm, v)->Ok_0->0;
    lemma_slash_frame_other(sm, s1, v, im.stakers@, v2, d);
    if im.stakers@.contains(d) && rem != 0 {
        assert(scaled(sm, s1, d, v, rem));
        lemma_dmul_le((get_shares(sm, d, v)->Ok_0->0).stake.atomics as nat, rem);
    }
    if im.stakers@.contains(d) && rem == 0 {
        assert(!s1.contains_key(k_stake(d, v)));
    }
    let q1 = (get_queue(s1)->Ok_0->0)@;
    assert forall|i: int| 0 <= i < queue_of(s1).len() implies (#[trigger] queue_of(s1)[i]).amount.u <= queue_of(sm)[i].amount.u by {
        assert(q1[i] == slash_entry(queue_of(sm)[i], v, rem));
        lemma_dmul_le(queue_of(sm)[i].amount.u as nat, rem);
    }
    assert forall|i: int| 0 <= i < queue_of(s1).len() && queue_of(sm)[i].validator@ != v implies #[trigger] queue_of(s1)[i] == queue_of(sm)[i] by {
        assert(q1[i] == slash_entry(queue_of(sm)[i], v, rem));
    }
}

// ---- C15: what a withdrawal pays is what the query showed at the same block time
pub proof fn lemma_reward_zero_dt(stake: nat, apr: nat, comm: nat)
    ensures reward_net(stake, apr, comm, 0) == 0, reward_gross(stake, apr, 0) == 0
{
    lemma_gross_steps(stake, apr, 0);
    assert(stake * apr * 0 == 0) by (nonlinear_arith);
    assert(dmul(0, comm) == 0) by (nonlinear_arith);
}
pub proof fn lemma_shown_is_paid(st0: St, sm: St, d: Addr, v: Seq<char>, now: Timestamp)
    requires
        swf(st0), upd_post(st0, sm, v, now),
        get_shares(st0, d, v) matches Ok(Some(s0)) && get_vinfo(st0, v) matches Ok(Some(i0)) && get_vobj(st0, v) matches Ok(Some(vo))
            && now.nanos >= i0.last_rewards_calculation.nanos && pending_fits(s0, i0, sinfo_apr(st0), vo.commission.atomics as nat, now),
    ensures
        /*VXCLAUSE C15.lemma.shown_is_paid*/ (get_shares(sm, d, v) matches Ok(Some(sh)) && sh.stake == (get_shares(st0, d, v)->Ok_0->0).stake
            && sh.rewards.atomics / 1_000_000_000_000_000_000 == pending_spec(get_shares(st0, d, v)->Ok_0->0, get_vinfo(st0, v)->Ok_0->0, sinfo_apr(st0), (get_vobj(st0, v)->Ok_0->0).commission.atomics as nat, now)),
{
    let s0 = get_shares(st0, d, v)->Ok_0->0;
    let i0 = get_vinfo(st0, v)->Ok_0->0;
    let vo = get_vobj(st0, v)->Ok_0->0;
    if i0.last_rewards_calculation.nanos >= now.nanos {
        lemma_reward_zero_dt(i0.stake.u as nat, sinfo_apr(st0), vo.commission.atomics as nat);
        assert(dmul(0, s0.stake.atomics as nat) == 0) by (nonlinear_arith);
    } else {
        let nr = choose|nr: nat| upd_nr(st0, v, now, nr) && rewards_updated(st0, sm, v, now, nr);
        assert(has_shares(st0, d, v));
        assert(has_staker(st0, v, d));
        assert(credited(st0, sm, d, v, i0.stake.u as nat, nr));
    }
}

//@ canary staking_axioms lemma_ns_facts(); axiom_addr_key_laws(); let a = Addr { s: str_of("alice"@) }; let b = Addr { s: str_of("bob"@) }; axiom_addr_bytes(a); axiom_addr_bytes(b); axiom_addr_len(a); axiom_str_bytes_inj(a.s@, b.s@); axiom_addr_ext(a, b); lemma_keys_disjoint(a, "v"@, "w"@); axiom_str_bytes_ascii("v"@); axiom_cw_roundtrip(Shares { stake: Decimal { atomics: 1 }, rewards: Decimal { atomics: 2 } }); lemma_reward_zero_dt(5, 7, 9); lemma_gross_bound(1000, 100_000_000_000_000_000, 1_000_000_000); lemma_net_bound(1000, 100_000_000_000_000_000, 0, 1_000_000_000);
