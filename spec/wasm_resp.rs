// ---------------------------------------------------------------------------
// spec/wasm_resp.rs -- THE PROPERTY C04 (event / data composition) and the fold over sub-messages (C02/C03 order)
// ---------------------------------------------------------------------------
pub open spec fn contract_attr_key() -> Seq<char> { "_contract_address"@ }
pub open spec fn attr_of(k: Seq<char>, v: Seq<char>) -> Attribute { Attribute { key: str_of(k), value: str_of(v) } }

// entry-point event: Event(name){ _contract_address: contract, extra.. }
pub open spec fn entry_event(name: Seq<char>, contract: Addr, extra: Seq<Attribute>) -> Event {
    Event { ty: str_of(name), attributes: vec_of(seq![attr_of(contract_attr_key(), contract.s@)] + extra) }
}
// 'wasm' event holding the contract's own attributes, contract address first
pub open spec fn wasm_attr_event(contract: Addr, attributes: Seq<Attribute>) -> Event {
    Event { ty: str_of("wasm"@), attributes: vec_of(seq![attr_of(contract_attr_key(), contract.s@)] + attributes) }
}
// custom event renamed 'wasm-<type>', contract address as FIRST attribute
pub open spec fn wasm_custom_event(contract: Addr, ev: Event) -> Event {
    Event { ty: str_of("wasm-"@ + ev.ty@), attributes: vec_of(seq![attr_of(contract_attr_key(), contract.s@)] + ev.attributes@) }
}
pub open spec fn build_events(contract: Addr, custom_event: Event, attributes: Seq<Attribute>, events: Seq<Event>) -> Seq<Event> {
    seq![custom_event]
        + (if attributes.len() > 0 { seq![wasm_attr_event(contract, attributes)] } else { Seq::<Event>::empty() })
        + Seq::new(events.len(), |i: int| wasm_custom_event(contract, events[i]))
}

impl<ExecC, QueryC> WasmKeeper<ExecC, QueryC> {
    // oracle for the call_* wrappers (proved equal to the with_storage unfolding in group wasm_call)
    pub uninterp spec fn call_sem(&self, kind: Entry, router: &dyn CosmosRouter<ExecC, QueryC>, s: St, block: BlockInfo, contract: Addr, info: Option<MessageInfo>, msg: Seq<u8>, reply: Option<Reply>) -> (AnyResult<Response<ExecC>>, St);

    // sub-messages run depth-first in the listed order, each on the state its predecessor left; the first uncaught
    // failure aborts; events accumulate in order, data is that of the last sub-message that returned some
    pub open spec fn fold_sem(&self, router: &dyn CosmosRouter<ExecC, QueryC>, s: St, block: BlockInfo, contract: Addr, events: Seq<Event>, data: Option<Binary>, msgs: Seq<SubMsg<ExecC>>) -> (AnyResult<AppResponse>, St)
        decreases msgs.len()
    {
        if msgs.len() == 0 { (Ok(AppResponse { events: vec_of(events), data }), s) }
        else {
            let (r1, s1) = self.submsg_sem(router, s, block, contract, msgs[0]);
            match r1 {
                Err(e) => (Err(e), s1),
                Ok(a) => self.fold_sem(router, s1, block, contract, events + a.events@, (match a.data { Some(d) => Some(d), None => data }), msgs.drop_first()),
            }
        }
    }

    // response of one entry point: entry event, 'wasm' event, 'wasm-*' events, then the sub-messages
    pub open spec fn respond_sem(&self, router: &dyn CosmosRouter<ExecC, QueryC>, s: St, block: BlockInfo, contract: Addr, custom_event: Event, resp: Response<ExecC>) -> (AnyResult<AppResponse>, St) {
        self.fold_sem(router, s, block, contract, build_events(contract, custom_event, resp.attributes@, resp.events@), resp.data, resp.messages@)
    }

    pub open spec fn reply_unfold(&self, router: &dyn CosmosRouter<ExecC, QueryC>, s: St, block: BlockInfo, contract: Addr, reply: Reply) -> (AnyResult<AppResponse>, St) {
        let (rc, s1) = self.call_sem(Entry::Reply, router, s, block, contract, None, Seq::<u8>::empty(), Some(reply));
        match rc {
            Err(e) => (Err(e), s1),
            Ok(resp) => self.respond_sem(router, s1, block, contract,
                            entry_event("reply"@, contract, seq![attr_of("mode"@, if reply.result is Ok { "handle_success"@ } else { "handle_failure"@ })]), resp),
        }
    }
}
