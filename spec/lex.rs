// ---------------------------------------------------------------------------
// spec/lex.rs -- lexicographic order on byte strings, ranges of an ordered map
// ---------------------------------------------------------------------------
pub open spec fn lex_lt(a: Seq<u8>, b: Seq<u8>) -> bool
    decreases a.len()
{
    if b.len() == 0 { false }
    else if a.len() == 0 { true }
    else if a[0] != b[0] { a[0] < b[0] }
    else { lex_lt(a.drop_first(), b.drop_first()) }
}
pub open spec fn lex_le(a: Seq<u8>, b: Seq<u8>) -> bool { a == b || lex_lt(a, b) }

pub open spec fn in_range(k: Seq<u8>, lo: Option<Seq<u8>>, hi: Option<Seq<u8>>) -> bool {
    (match lo { Some(l) => lex_le(l, k), None => true }) && (match hi { Some(h) => lex_lt(k, h), None => true })
}

pub open spec fn ord_lt(a: Seq<u8>, b: Seq<u8>, order: Order) -> bool {
    match order { Order::Ascending => lex_lt(a, b), Order::Descending => lex_lt(b, a) }
}

// `s` is exactly the content of `m` restricted to [lo, hi), each key once, strictly ordered.
pub open spec fn is_range_of(s: Seq<RecV>, m: St, lo: Option<Seq<u8>>, hi: Option<Seq<u8>>, order: Order) -> bool {
    &&& forall|i: int| 0 <= i < s.len() ==> m.contains_key(#[trigger] s[i].0) && m[s[i].0] == s[i].1 && in_range(s[i].0, lo, hi)
    &&& forall|k: Seq<u8>| m.contains_key(k) && in_range(k, lo, hi) ==> exists|i: int| 0 <= i < s.len() && #[trigger] s[i].0 == k
    &&& forall|i: int, j: int| 0 <= i < j < s.len() ==> ord_lt(#[trigger] s[i].0, #[trigger] s[j].0, order)
}

pub proof fn lemma_lex_irrefl(a: Seq<u8>)
    ensures !lex_lt(a, a)
    decreases a.len()
{
    if a.len() > 0 { lemma_lex_irrefl(a.drop_first()); }
}

pub proof fn lemma_lex_trans(a: Seq<u8>, b: Seq<u8>, c: Seq<u8>)
    requires lex_lt(a, b), lex_lt(b, c)
    ensures lex_lt(a, c)
    decreases a.len()
{
    if a.len() > 0 && b.len() > 0 && c.len() > 0 && a[0] == b[0] && b[0] == c[0] {
        lemma_lex_trans(a.drop_first(), b.drop_first(), c.drop_first());
    }
}

pub proof fn lemma_lex_total(a: Seq<u8>, b: Seq<u8>)
    ensures lex_lt(a, b) || a == b || lex_lt(b, a)
    decreases a.len()
{
    if a.len() > 0 && b.len() > 0 && a[0] == b[0] {
        lemma_lex_total(a.drop_first(), b.drop_first());
        if a.drop_first() == b.drop_first() {
            assert(a =~= seq![a[0]] + a.drop_first());
            assert(b =~= seq![b[0]] + b.drop_first());
        }
    } else if a.len() == 0 && b.len() == 0 {
        assert(a =~= b);
    }
}

pub proof fn lemma_lex_asym(a: Seq<u8>, b: Seq<u8>)
    requires lex_lt(a, b)
    ensures !lex_lt(b, a), a != b
{
    lemma_lex_irrefl(a);
    if lex_lt(b, a) { lemma_lex_trans(a, b, a); }
}

// prefix cancellation: comparing p+a with p+b is comparing a with b
pub proof fn lemma_lex_prefix(p: Seq<u8>, a: Seq<u8>, b: Seq<u8>)
    ensures lex_lt(p + a, p + b) == lex_lt(a, b)
    decreases p.len()
{
    if p.len() == 0 {
        assert(p + a =~= a);
        assert(p + b =~= b);
    } else {
        assert((p + a).drop_first() =~= p.drop_first() + a);
        assert((p + b).drop_first() =~= p.drop_first() + b);
        lemma_lex_prefix(p.drop_first(), a, b);
    }
}

pub proof fn lemma_concat_cancel(p: Seq<u8>, a: Seq<u8>, b: Seq<u8>)
    ensures (p + a == p + b) <==> (a == b)
{
    if p + a == p + b {
        assert((p + a).subrange(p.len() as int, (p + a).len() as int) =~= a);
        assert((p + b).subrange(p.len() as int, (p + b).len() as int) =~= b);
    }
}

pub open spec fn starts_with(k: Seq<u8>, p: Seq<u8>) -> bool {
    p.len() <= k.len() && k.subrange(0, p.len() as int) == p
}

pub proof fn lemma_starts_with_split(k: Seq<u8>, p: Seq<u8>)
    requires starts_with(k, p)
    ensures k == p + k.subrange(p.len() as int, k.len() as int)
{
    assert(k =~= p + k.subrange(p.len() as int, k.len() as int));
}

pub proof fn lemma_concat_starts_with(p: Seq<u8>, x: Seq<u8>)
    ensures starts_with(p + x, p), (p + x).subrange(p.len() as int, (p + x).len() as int) == x
{
    assert((p + x).subrange(0, p.len() as int) =~= p);
    assert((p + x).subrange(p.len() as int, (p + x).len() as int) =~= x);
}

// p <= k always holds for k starting with p
pub proof fn lemma_prefix_le(p: Seq<u8>, x: Seq<u8>)
    ensures lex_le(p, p + x)
    decreases p.len()
{
    if p.len() == 0 {
        assert(p + x =~= x);
        if x.len() == 0 { assert(p =~= x); }
    } else {
        assert((p + x).drop_first() =~= p.drop_first() + x);
        lemma_prefix_le(p.drop_first(), x);
        if p.drop_first() == p.drop_first() + x {
            assert(x.len() == 0);
            assert(p + x =~= p);
        }
    }
}

pub open spec fn all_ff(p: Seq<u8>) -> bool { forall|i: int| 0 <= i < p.len() ==> p[i] == 255u8 }

// all_ff(r):  r <= x  <=>  x starts with r
pub proof fn lemma_ff_range(r: Seq<u8>, x: Seq<u8>)
    requires all_ff(r)
    ensures lex_le(r, x) <==> starts_with(x, r)
    decreases r.len()
{
    if r.len() == 0 {
        assert(x.subrange(0, 0) =~= r);
        if x.len() == 0 { assert(r =~= x); }
    } else if x.len() == 0 {
    } else {
        assert(r[0] == 255u8);
        let r1 = r.drop_first(); let x1 = x.drop_first();
        assert(all_ff(r1)) by { assert forall|i: int| 0 <= i < r1.len() implies r1[i] == 255u8 by { assert(r1[i] == r[i + 1]); } }
        lemma_ff_range(r1, x1);
        if x[0] == 255u8 {
            if starts_with(x1, r1) {
                assert(x.subrange(0, r.len() as int) =~= seq![x[0]] + x1.subrange(0, r1.len() as int));
                assert(r =~= seq![r[0]] + r1);
            }
            if starts_with(x, r) {
                assert(x1.subrange(0, r1.len() as int) =~= x.subrange(0, r.len() as int).drop_first());
            }
            if r == x { assert(r1 =~= x1); }
            if r1 == x1 { assert(r =~= seq![r[0]] + r1); assert(x =~= seq![x[0]] + x1); }
        } else {
            if starts_with(x, r) { assert(x.subrange(0, r.len() as int)[0] == x[0]); }
        }
    }
}

// p = a ++ [c] ++ f with c < 255 and f all 0xFF; its successor is a ++ [c+1].
//   p <= k < a ++ [c+1]   <=>   k starts with p
pub proof fn lemma_succ_range(a: Seq<u8>, c: u8, f: Seq<u8>, k: Seq<u8>)
    requires c < 255, all_ff(f)
    ensures (lex_le(a.push(c) + f, k) && lex_lt(k, a.push((c + 1) as u8))) <==> starts_with(k, a.push(c) + f)
    decreases a.len()
{
    let p = a.push(c) + f;
    let u = a.push((c + 1) as u8);
    assert(p.len() > 0);
    if k.len() == 0 {
        assert(!lex_le(p, k));
        assert(!starts_with(k, p));
    } else if a.len() == 0 {
        assert(p[0] == c);
        assert(u[0] == (c + 1) as u8);
        assert(p.drop_first() =~= f);
        assert(u.drop_first() =~= Seq::<u8>::empty());
        let k1 = k.drop_first();
        if k[0] == c {
            lemma_ff_range(f, k1);
            assert(lex_lt(k, u));
            if starts_with(k1, f) {
                assert(k.subrange(0, p.len() as int) =~= seq![k[0]] + k1.subrange(0, f.len() as int));
                assert(p =~= seq![c] + f);
            }
            if starts_with(k, p) {
                assert(k1.subrange(0, f.len() as int) =~= k.subrange(0, p.len() as int).drop_first());
            }
            if p == k { assert(f =~= k1); }
            if f == k1 { assert(p =~= seq![c] + f); assert(k =~= seq![k[0]] + k1); }
            assert(lex_le(p, k) <==> lex_le(f, k1));
            assert(starts_with(k, p) <==> starts_with(k1, f));
        } else if k[0] < c {
            assert(!lex_lt(p, k));
            assert(p != k);
            if starts_with(k, p) { assert(k.subrange(0, p.len() as int)[0] == k[0]); }
        } else {
            assert(!lex_lt(k1, u.drop_first()));
            assert(!lex_lt(k, u));
            if starts_with(k, p) { assert(k.subrange(0, p.len() as int)[0] == k[0]); }
        }
    } else {
        let a1 = a.drop_first(); let k1 = k.drop_first();
        assert(p[0] == a[0]);
        assert(u[0] == a[0]);
        assert(p.drop_first() =~= a1.push(c) + f);
        assert(u.drop_first() =~= a1.push((c + 1) as u8));
        lemma_succ_range(a1, c, f, k1);
        let p1 = a1.push(c) + f;
        if k[0] == a[0] {
            if starts_with(k1, p1) {
                assert(k.subrange(0, p.len() as int) =~= seq![k[0]] + k1.subrange(0, p1.len() as int));
                assert(p =~= seq![a[0]] + p1);
            }
            if starts_with(k, p) {
                assert(k1.subrange(0, p1.len() as int) =~= k.subrange(0, p.len() as int).drop_first());
            }
            if p == k { assert(p1 =~= k1); }
            if p1 == k1 { assert(p =~= seq![a[0]] + p1); assert(k =~= seq![k[0]] + k1); }
            assert(lex_le(p, k) <==> lex_le(p1, k1));
            assert(lex_lt(k, u) <==> lex_lt(k1, a1.push((c + 1) as u8)));
            assert(starts_with(k, p) <==> starts_with(k1, p1));
        } else if k[0] < a[0] {
            assert(!lex_lt(p, k));
            assert(p != k);
            if starts_with(k, p) { assert(k.subrange(0, p.len() as int)[0] == k[0]); }
        } else {
            assert(!lex_lt(k, u));
            if starts_with(k, p) { assert(k.subrange(0, p.len() as int)[0] == k[0]); }
        }
    }
}

// the ordered range of a map is determined up to its length by the map: two sequences that both list every key of `m`
// once in strict (ascending or descending) order have the same length (used to DEFINE the instance count as a function of the store)
pub open spec fn rec_keys(s: Seq<RecV>) -> Seq<Seq<u8>> { Seq::new(s.len(), |i: int| s[i].0) }
pub proof fn lemma_range_len_unique(a: Seq<RecV>, b: Seq<RecV>, m: St, order: Order, order_b: Order)
    requires is_range_of(a, m, None, None, order), is_range_of(b, m, None, None, order_b)
    ensures a.len() == b.len()
{
    let ka = rec_keys(a);
    let kb = rec_keys(b);
    assert forall|i: int, j: int| 0 <= i < ka.len() && 0 <= j < ka.len() && i != j implies ka[i] != ka[j] by {
        lemma_lex_irrefl(a[i].0);
        if i < j { assert(ord_lt(a[i].0, a[j].0, order)); } else { assert(ord_lt(a[j].0, a[i].0, order)); }
    }
    assert forall|i: int, j: int| 0 <= i < kb.len() && 0 <= j < kb.len() && i != j implies kb[i] != kb[j] by {
        lemma_lex_irrefl(b[i].0);
        if i < j { assert(ord_lt(b[i].0, b[j].0, order_b)); } else { assert(ord_lt(b[j].0, b[i].0, order_b)); }
    }
    assert(ka.no_duplicates());
    assert(kb.no_duplicates());
    assert forall|k: Seq<u8>| ka.to_set().contains(k) == kb.to_set().contains(k) by {
        if ka.to_set().contains(k) {
            let i = choose|i: int| 0 <= i < ka.len() && ka[i] == k;
            assert(m.contains_key(a[i].0) && in_range(a[i].0, None, None));
            let j = choose|j: int| 0 <= j < b.len() && b[j].0 == k;
            assert(kb[j] == k);
        }
        if kb.to_set().contains(k) {
            let i = choose|i: int| 0 <= i < kb.len() && kb[i] == k;
            assert(m.contains_key(b[i].0) && in_range(b[i].0, None, None));
            let j = choose|j: int| 0 <= j < a.len() && a[j].0 == k;
            assert(ka[j] == k);
        }
    }
    assert(ka.to_set() =~= kb.to_set());
    ka.unique_seq_to_set();
    kb.unique_seq_to_set();
}
