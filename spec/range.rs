// ---------------------------------------------------------------------------
// spec/range.rs -- range over a prefixed window == range over the base between prefixed bounds
// ---------------------------------------------------------------------------
pub proof fn lemma_lex_le_trans(a: Seq<u8>, b: Seq<u8>, c: Seq<u8>)
    requires lex_le(a, b), lex_le(b, c)
    ensures lex_le(a, c)
{
    if a != b && b != c { lemma_lex_trans(a, b, c); }
}

// p <= k < p ++ e   ==>   k starts with p
pub proof fn lemma_between_prefix(p: Seq<u8>, k: Seq<u8>, e: Seq<u8>)
    requires lex_le(p, k), lex_lt(k, p + e)
    ensures starts_with(k, p)
    decreases p.len()
{
    if p.len() == 0 {
        assert(k.subrange(0, 0) =~= p);
    } else if k.len() == 0 {
    } else {
        let p1 = p.drop_first(); let k1 = k.drop_first();
        assert((p + e)[0] == p[0]);
        assert((p + e).drop_first() =~= p1 + e);
        if p == k { assert(k.subrange(0, p.len() as int) =~= p); }
        else {
            assert(k[0] == p[0]);
            lemma_between_prefix(p1, k1, e);
            assert(k.subrange(0, p.len() as int) =~= seq![k[0]] + k1.subrange(0, p1.len() as int));
            assert(p =~= seq![p[0]] + p1);
        }
    }
}

// how range_with_prefix derives the base bounds (blo, bhi) from the view bounds (lo, hi) and the prefix p
pub open spec fn base_bounds_ok(p: Seq<u8>, lo: Option<Seq<u8>>, hi: Option<Seq<u8>>, blo: Seq<u8>, bhi: Option<Seq<u8>>) -> bool {
    &&& blo == (match lo { Some(s) => p + s, None => p })
    &&& match hi {
            Some(e) => bhi == Some(p + e),
            None => (all_ff(p) && bhi is None)
                    || (exists|a: Seq<u8>, c: u8, f: Seq<u8>| c < 255 && all_ff(f) && p == a.push(c) + f && bhi == Some(a.push((c + 1) as u8))),
        }
}

pub proof fn lemma_in_prefixed_range(p: Seq<u8>, lo: Option<Seq<u8>>, hi: Option<Seq<u8>>, blo: Seq<u8>, bhi: Option<Seq<u8>>, k: Seq<u8>)
    requires base_bounds_ok(p, lo, hi, blo, bhi)
    ensures in_range(k, Some(blo), bhi) <==> (starts_with(k, p) && in_range(k.subrange(p.len() as int, k.len() as int), lo, hi))
{
    let n = p.len() as int;
    let x = k.subrange(n, k.len() as int);
    if starts_with(k, p) && in_range(x, lo, hi) {
        lemma_starts_with_split(k, p);
        match lo {
            Some(s) => { lemma_lex_prefix(p, s, x); lemma_concat_cancel(p, s, x); }
            None => { lemma_prefix_le(p, x); }
        }
        match hi {
            Some(e) => { lemma_lex_prefix(p, x, e); }
            None => {
                if !(all_ff(p) && bhi is None) {
                    let (a, c, f) = choose|a: Seq<u8>, c: u8, f: Seq<u8>| c < 255 && all_ff(f) && p == a.push(c) + f && bhi == Some(a.push((c + 1) as u8));
                    lemma_prefix_le(p, x);
                    lemma_succ_range(a, c, f, k);
                }
            }
        }
    }
    if in_range(k, Some(blo), bhi) {
        // p <= blo <= k
        match lo {
            Some(s) => { lemma_prefix_le(p, s); }
            None => {}
        }
        lemma_lex_le_trans(p, blo, k);
        match hi {
            Some(e) => { lemma_between_prefix(p, k, e); }
            None => {
                if all_ff(p) && bhi is None {
                    lemma_ff_range(p, k);
                } else {
                    let (a, c, f) = choose|a: Seq<u8>, c: u8, f: Seq<u8>| c < 255 && all_ff(f) && p == a.push(c) + f && bhi == Some(a.push((c + 1) as u8));
                    lemma_succ_range(a, c, f, k);
                }
            }
        }
        lemma_starts_with_split(k, p);
        match lo {
            Some(s) => { lemma_lex_prefix(p, s, x); lemma_concat_cancel(p, s, x); }
            None => {}
        }
        match hi {
            Some(e) => { lemma_lex_prefix(p, x, e); }
            None => {}
        }
    }
}

// every key of the base range carries the prefix (so trimming it is in bounds)
pub proof fn lemma_base_range_keys(base: Seq<RecV>, m: St, p: Seq<u8>, lo: Option<Seq<u8>>, hi: Option<Seq<u8>>, blo: Seq<u8>, bhi: Option<Seq<u8>>, order: Order)
    requires is_range_of(base, m, Some(blo), bhi, order), base_bounds_ok(p, lo, hi, blo, bhi)
    ensures forall|i: int| 0 <= i < base.len() ==> starts_with(#[trigger] base[i].0, p)
{
    assert forall|i: int| 0 <= i < base.len() implies starts_with(#[trigger] base[i].0, p) by {
        lemma_in_prefixed_range(p, lo, hi, blo, bhi, base[i].0);
    }
}

pub open spec fn trimmed(base: Seq<RecV>, out: Seq<RecV>, n: int) -> bool {
    out.len() == base.len() && forall|i: int| 0 <= i < base.len() ==> (#[trigger] out[i]).0 == base[i].0.subrange(n, base[i].0.len() as int) && out[i].1 == base[i].1
}

// the trimmed base range is exactly the range of the window
pub proof fn lemma_prefixed_range(base: Seq<RecV>, out: Seq<RecV>, m: St, p: Seq<u8>, lo: Option<Seq<u8>>, hi: Option<Seq<u8>>, blo: Seq<u8>, bhi: Option<Seq<u8>>, order: Order)
    requires is_range_of(base, m, Some(blo), bhi, order), base_bounds_ok(p, lo, hi, blo, bhi), trimmed(base, out, p.len() as int)
    ensures is_range_of(out, window(m, p), lo, hi, order)
{
    let w = window(m, p);
    let n = p.len() as int;
    lemma_base_range_keys(base, m, p, lo, hi, blo, bhi, order);
    assert forall|i: int| 0 <= i < out.len() implies w.contains_key(#[trigger] out[i].0) && w[out[i].0] == out[i].1 && in_range(out[i].0, lo, hi) by {
        lemma_in_prefixed_range(p, lo, hi, blo, bhi, base[i].0);
        lemma_starts_with_split(base[i].0, p);
        assert(base[i].0 == p + out[i].0);
    }
    assert forall|x: Seq<u8>| w.contains_key(x) && in_range(x, lo, hi) implies exists|i: int| 0 <= i < out.len() && #[trigger] out[i].0 == x by {
        let k = p + x;
        lemma_concat_starts_with(p, x);
        lemma_in_prefixed_range(p, lo, hi, blo, bhi, k);
        let i = choose|i: int| 0 <= i < base.len() && #[trigger] base[i].0 == k;
        assert(out[i].0 == x);
    }
    assert forall|i: int, j: int| 0 <= i < j < out.len() implies ord_lt(#[trigger] out[i].0, #[trigger] out[j].0, order) by {
        lemma_starts_with_split(base[i].0, p);
        lemma_starts_with_split(base[j].0, p);
        assert(base[i].0 == p + out[i].0);
        assert(base[j].0 == p + out[j].0);
        assert(ord_lt(base[i].0, base[j].0, order));
        lemma_lex_prefix(p, out[i].0, out[j].0);
        lemma_lex_prefix(p, out[j].0, out[i].0);
    }
}
