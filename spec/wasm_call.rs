// ---------------------------------------------------------------------------
// spec/wasm_call.rs -- THE PROPERTIES C05 (env: own address, current block), C08 (a contract sees and touches exactly
// its own window), C10 (its querier answers from the enclosing transaction's current state), C13 (malformed
// responses are rejected) at the level of with_storage / call_*.
// ---------------------------------------------------------------------------
pub open spec fn ns_contract_data() -> Seq<u8> {                              // b"contract_data/"
    seq![99u8, 111u8, 110u8, 116u8, 114u8, 97u8, 99u8, 116u8, 95u8, 100u8, 97u8, 116u8, 97u8, 47u8]
}
// raw prefix of a contract's key space: lp("wasm") ++ lp("contract_data/" ++ address)
pub open spec fn contract_prefix(a: Addr) -> Seq<u8> { lp_nested(seq![ns_wasm(), ns_contract_data() + a.bytes()]) }

pub open spec fn env_of(a: Addr, block: BlockInfo) -> Env {
    Env { block: block, contract: ContractInfo { address: a }, transaction: Some(TransactionInfo { index: 0 }) }
}

// C13: an attribute key is acceptable iff, trimmed, it is non-empty and does not start with '_'; values are free
pub open spec fn attr_ok(a: Attribute) -> bool { spec_trim(a.key@).len() > 0 && spec_trim(a.key@)[0] != '_' }
pub open spec fn attrs_ok(s: Seq<Attribute>) -> bool { forall|i: int| 0 <= i < s.len() ==> attr_ok(#[trigger] s[i]) }
pub open spec fn event_ok(e: Event) -> bool { attrs_ok(e.attributes@) && spec_utf8_len(spec_trim(e.ty@)) >= 2 }
pub open spec fn resp_ok<T>(r: Response<T>) -> bool {
    attrs_ok(r.attributes@) && forall|i: int| 0 <= i < r.events@.len() ==> event_ok(#[trigger] r.events@[i])
}

// the entry point's result after the response check: an Ok response that is not acceptable becomes an error
pub open spec fn verified<T>(rr: AnyResult<Response<T>>) -> AnyResult<Response<T>> {
    match rr { Err(e) => Err(e), Ok(resp) => if resp_ok(resp) { Ok(resp) } else { Err(AnyError) } }
}

impl<ExecC, QueryC> WasmKeeper<ExecC, QueryC> {
    // what a call_* wrapper does, written from the statements
    pub open spec fn call_unfold(&self, kind: Entry, router: &dyn CosmosRouter<ExecC, QueryC>, s0: St, block: BlockInfo, address: Addr, info: Option<MessageInfo>, msg: Seq<u8>, reply: Option<Reply>) -> (AnyResult<Response<ExecC>>, St) {
        match self.contract_data_sem(s0, address) {
            Err(e) => (Err(e), s0),
            Ok(cd) => match self.code_of(cd.code_id) {
                None => (Err(AnyError), s0),
                Some(handler) => {
                    // C08: the contract is handed exactly its own window; C10: its querier answers from s0, the state of
                    // the enclosing transaction right now; C05: env names the callee and the current block
                    let (rr, w1) = handler.entry_sem(kind, window(s0, contract_prefix(address)), (s0, block), env_of(address, block), info, msg, reply);
                    // C13, from the statement: a malformed response makes the call fail "with the same rollback as any
                    // other contract error" -- so it is judged before anything is kept
                    match verified(rr) {
                        Err(e) => (Err(e), s0),      // a failing entry point (or a rejected response) leaves no trace
                        // C08: only keys under the contract's prefix can differ afterwards
                        Ok(resp) => (Ok(resp), splice(s0, contract_prefix(address), w1)),
                    }
                }
            },
        }
    }
}
