// spec/staking_math.rs -- exact fixed-point reward formula of src/staking.rs and its rational bounds (C15)
// exact value of calculate_rewards (Decimal atomics), when no intermediate result overflows 128 bits:
//   reward = ((stake * 10^18) * apr / 10^18) * (dt_nanos * 10^9) / 10^18) * 10^18 / (YEAR * 10^18)      (floors at each step)
//   result = reward - reward * commission / 10^18
pub open spec fn year_nat() -> nat { 31_536_000 }
pub open spec fn reward_gross(stake: nat, apr: nat, dt_nanos: nat) -> nat {
    ddiv(dmul(dmul(dratio(stake, 1), apr), dratio(dt_nanos, 1_000_000_000)), dratio(year_nat(), 1))
}
pub open spec fn reward_net(stake: nat, apr: nat, comm: nat, dt_nanos: nat) -> nat {
    let g = reward_gross(stake, apr, dt_nanos);
    (g - dmul(g, comm)) as nat
}
pub open spec fn calc_fits(stake: nat, apr: nat, comm: nat, dt_nanos: nat) -> bool {
    &&& fits(dratio(stake, 1)) && fits(dmul(dratio(stake, 1), apr)) && fits(dratio(dt_nanos, 1_000_000_000))
    &&& fits(dmul(dmul(dratio(stake, 1), apr), dratio(dt_nanos, 1_000_000_000))) && fits(dratio(year_nat(), 1))
    &&& fits(reward_gross(stake, apr, dt_nanos)) && fits(dmul(reward_gross(stake, apr, dt_nanos), comm))
}

pub proof fn lemma_year()
    ensures 60u64 * 60 * 24 * 365 == 31_536_000u64
{
}
// x * c / 10^18 <= x for c <= 10^18
pub proof fn lemma_dmul_le(x: nat, c: nat)
    requires c <= dec_one()
    ensures dmul(x, c) <= x
{
    assert(x * c <= x * dec_one()) by (nonlinear_arith) requires c <= dec_one();
    assert(x * dec_one() / dec_one() == x) by (nonlinear_arith);
    assert(x * c / dec_one() <= x * dec_one() / dec_one()) by (nonlinear_arith) requires x * c <= x * dec_one();
}

// ---- C15: the fixed-point formula against the exact rational bound (all quantities in Decimal atomics = 10^-18 token)
//   gross * YEAR * 10^9  <=  stake * apr * dt_nanos  <  (gross + 1) * YEAR * 10^9 + 10^9
// i.e. never above stake x rate x time / year, and below it by less than (1 + 1/YEAR) atomics.
pub proof fn lemma_div_bounds(a: nat, d: nat)
    requires d > 0
    ensures (a / d) * d <= a, a < (a / d + 1) * d
{
    vstd::arithmetic::div_mod::lemma_fundamental_div_mod(a as int, d as int);
    vstd::arithmetic::div_mod::lemma_mod_bound(a as int, d as int);
    assert((a / d + 1) * d == (a / d) * d + d) by (nonlinear_arith);
    assert((a / d) * d == d * (a / d)) by (nonlinear_arith);
}
pub proof fn lemma_div_exact(a: nat, d: nat)
    requires d > 0
    ensures a * d / d == a
{
    vstd::arithmetic::div_mod::lemma_div_multiples_vanish(a as int, d as int);
    assert(a * d == d * a) by (nonlinear_arith);
}
pub proof fn lemma_gross_steps(stake: nat, apr: nat, dt: nat)
    ensures
        dmul(dratio(stake, 1), apr) == stake * apr,
        dratio(dt, 1_000_000_000) == dt * 1_000_000_000,
        reward_gross(stake, apr, dt) == (stake * apr * dt / 1_000_000_000) / year_nat(),
{
    let e18: nat = dec_one();
    assert(dratio(stake, 1) == stake * e18);
    assert(stake * e18 * apr == (stake * apr) * e18) by (nonlinear_arith);
    lemma_div_exact(stake * apr, e18);
    assert(dt * e18 == (dt * 1_000_000_000) * 1_000_000_000) by (nonlinear_arith) requires e18 == 1_000_000_000_000_000_000;
    lemma_div_exact(dt * 1_000_000_000, 1_000_000_000);
    let a1 = stake * apr;
    let t = dt * 1_000_000_000;
    // a1 * t / 10^18 == a1 * dt / 10^9
    assert(a1 * t == (a1 * dt) * 1_000_000_000) by (nonlinear_arith) requires t == dt * 1_000_000_000;
    vstd::arithmetic::div_mod::lemma_div_denominator((a1 * dt * 1_000_000_000) as int, 1_000_000_000, 1_000_000_000);
    lemma_div_exact(a1 * dt, 1_000_000_000);
    assert(1_000_000_000int * 1_000_000_000 == 1_000_000_000_000_000_000int);
    let a2 = a1 * dt / 1_000_000_000;
    assert(dmul(a1, t) == a2);
    // a2 * 10^18 / (Y * 10^18) == a2 / Y
    let y = year_nat();
    assert(dratio(y, 1) == y * e18);
    vstd::arithmetic::div_mod::lemma_div_denominator((a2 * e18) as int, e18 as int, y as int);
    lemma_div_exact(a2, e18);
    assert(e18 * y == y * e18) by (nonlinear_arith);
}
pub proof fn lemma_gross_bound(stake: nat, apr: nat, dt: nat)
    ensures
        /*VXCLAUSE C15.lemma.gross_upper*/ (reward_gross(stake, apr, dt) * year_nat() * 1_000_000_000 <= stake * apr * dt),
        /*VXCLAUSE C15.lemma.gross_lower*/ (stake * apr * dt < (reward_gross(stake, apr, dt) + 1) * year_nat() * 1_000_000_000 + 1_000_000_000),
{
    lemma_gross_steps(stake, apr, dt);
    let x = stake * apr * dt;
    let a2 = x / 1_000_000_000;
    let g = a2 / year_nat();
    let y = year_nat();
    lemma_div_bounds(x, 1_000_000_000);
    lemma_div_bounds(a2, y);
    assert(g * y * 1_000_000_000 <= a2 * 1_000_000_000) by (nonlinear_arith) requires g * y <= a2;
    assert((g + 1) * y * 1_000_000_000 >= (a2 + 1) * 1_000_000_000) by (nonlinear_arith) requires a2 < (g + 1) * y;
    assert((a2 + 1) * 1_000_000_000 == a2 * 1_000_000_000 + 1_000_000_000) by (nonlinear_arith);
}
// net reward after commission c <= 10^18:   gross * (10^18 - c)  <=  net * 10^18  <  gross * (10^18 - c) + 10^18
pub proof fn lemma_net_bound(stake: nat, apr: nat, comm: nat, dt: nat)
    requires comm <= dec_one()
    ensures
        /*VXCLAUSE C15.lemma.net_upper*/ (reward_net(stake, apr, comm, dt) * dec_one() < reward_gross(stake, apr, dt) * (dec_one() - comm) + dec_one()),
        /*VXCLAUSE C15.lemma.net_lower*/ (reward_net(stake, apr, comm, dt) * dec_one() >= reward_gross(stake, apr, dt) * (dec_one() - comm)),
        /*VXCLAUSE C15.lemma.net_le_gross*/ (reward_net(stake, apr, comm, dt) <= reward_gross(stake, apr, dt)),
{
    let g = reward_gross(stake, apr, dt);
    let e = dec_one();
    let q = g * comm / e;
    lemma_dmul_le(g, comm);
    lemma_div_bounds(g * comm, e);
    assert((g - q) * e == g * e - q * e) by (nonlinear_arith) requires q <= g;
    assert(g * (e - comm) == g * e - g * comm) by (nonlinear_arith) requires comm <= e;
    assert((q + 1) * e == q * e + e) by (nonlinear_arith);
}
// monotone in the elapsed time and in the stake (no reward shrinks by waiting)
pub proof fn lemma_gross_monotone(stake: nat, apr: nat, dt1: nat, dt2: nat)
    requires dt1 <= dt2
    ensures /*VXCLAUSE C15.lemma.gross_monotone*/ (reward_gross(stake, apr, dt1) <= reward_gross(stake, apr, dt2))
{
    lemma_gross_steps(stake, apr, dt1);
    lemma_gross_steps(stake, apr, dt2);
    assert(stake * apr * dt1 <= stake * apr * dt2) by (nonlinear_arith) requires dt1 <= dt2;
    vstd::arithmetic::div_mod::lemma_div_is_ordered((stake * apr * dt1) as int, (stake * apr * dt2) as int, 1_000_000_000);
    vstd::arithmetic::div_mod::lemma_div_is_ordered((stake * apr * dt1 / 1_000_000_000) as int, (stake * apr * dt2 / 1_000_000_000) as int, year_nat() as int);
}
