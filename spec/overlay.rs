// ---------------------------------------------------------------------------
// spec/overlay.rs -- write-cache semantics: ops log, deltas, overlay of deltas over a base
// (Delta, Op and RepLog are the repo's own types, extracted in the group file before this include)
// ---------------------------------------------------------------------------
// TRUSTED facts about Vec<u8> as a BTreeMap key (vstd has no instance for Vec<u8> / [u8]):
//  * Ord for Vec<u8> is a lawful total order and agrees with Ord for [u8] under Borrow
//  * a lookup by slice finds the entry whose key has the same bytes
//  * two vectors with the same bytes are the same key (extensionality)
pub axiom fn axiom_vec_u8_key_laws()
    ensures vstd::laws_cmp::obeys_cmp_spec::<Vec<u8>>(), vstd::std_specs::btree::borrowed_key_ordering_matches::<Vec<u8>, [u8]>();
pub axiom fn axiom_vec_u8_ext(a: Vec<u8>, b: Vec<u8>)
    ensures a@ == b@ ==> a == b;
pub broadcast axiom fn axiom_vec_u8_ext_b(a: Vec<u8>, b: Vec<u8>)
    ensures #[trigger] a@ == #[trigger] b@ ==> a == b;
pub axiom fn axiom_slice_key<V>(m: Map<Vec<u8>, V>, k: &[u8])
    ensures vstd::std_specs::btree::contains_borrowed_key(m, k) <==> (exists|kv: Vec<u8>| kv@ == k@ && m.contains_key(kv)),
       forall|v: V| vstd::std_specs::btree::maps_borrowed_key_to_value(m, k, v) <==> (exists|kv: Vec<u8>| kv@ == k@ && m.contains_key(kv) && m[kv] == v);

// Ord for Vec<u8> is the lexicographic order of the bytes (std: "Implements ordering of vectors, lexicographically")   TRUSTED
pub open spec fn lex_cmp(a: Seq<u8>, b: Seq<u8>) -> core::cmp::Ordering {
    if lex_lt(a, b) { core::cmp::Ordering::Less } else if a == b { core::cmp::Ordering::Equal } else { core::cmp::Ordering::Greater }
}
pub axiom fn axiom_vec_u8_cmp_lex()
    ensures <Vec<u8> as vstd::std_specs::cmp::OrdSpec>::obeys_cmp_spec(),
        forall|a: Vec<u8>, b: Vec<u8>| #[trigger] vstd::std_specs::cmp::OrdSpec::cmp_spec(&a, &b) == lex_cmp(a@, b@),
        <Vec<u8> as vstd::std_specs::cmp::PartialOrdSpec>::obeys_partial_cmp_spec(),
        forall|a: Vec<u8>, b: Vec<u8>| #[trigger] vstd::std_specs::cmp::PartialOrdSpec::partial_cmp_spec(&a, &b) == Some(lex_cmp(a@, b@));

pub open spec fn has_key(ls: Map<Vec<u8>, Delta>, k: Seq<u8>) -> bool { exists|kv: Vec<u8>| kv@ == k && ls.contains_key(kv) }
pub open spec fn the_key(ls: Map<Vec<u8>, Delta>, k: Seq<u8>) -> Vec<u8> { choose|kv: Vec<u8>| kv@ == k && ls.contains_key(kv) }

// the ordered map a cache with pending deltas `ls` over `base` stands for
pub open spec fn overlay(base: St, ls: Map<Vec<u8>, Delta>) -> St {
    IMap::new(
        |k: Seq<u8>| if has_key(ls, k) { ls[the_key(ls, k)] is Set } else { base.contains_key(k) },
        |k: Seq<u8>| if has_key(ls, k) { ls[the_key(ls, k)]->value@ } else { base[k] })
}

pub open spec fn apply_op(m: St, op: Op) -> St {
    match op { Op::Set { key, value } => m.insert(key@, value@), Op::Delete { key } => m.remove(key@) }
}
pub open spec fn apply_ops(m: St, ops: Seq<Op>) -> St
    decreases ops.len()
{
    if ops.len() == 0 { m } else { apply_op(apply_ops(m, ops.drop_last()), ops.last()) }
}

pub open spec fn delta_of(op: Op) -> Delta {
    match op { Op::Set { key, value } => Delta::Set { value }, Op::Delete { key } => Delta::Delete {} }
}
pub open spec fn key_of(op: Op) -> Vec<u8> {
    match op { Op::Set { key, value } => key, Op::Delete { key } => key }
}

// recording a delta for the op's key is applying the op to the overlay
pub proof fn lemma_overlay_insert(base: St, ls: Map<Vec<u8>, Delta>, op: Op)
    ensures overlay(base, ls.insert(key_of(op), delta_of(op))) == apply_op(overlay(base, ls), op)
{
    let kv = key_of(op);
    let ls2 = ls.insert(kv, delta_of(op));
    let lhs = overlay(base, ls2);
    let rhs = apply_op(overlay(base, ls), op);
    assert forall|k: Seq<u8>| #![trigger lhs.dom().contains(k)] #![trigger rhs.dom().contains(k)] #![trigger lhs[k]] #![trigger rhs[k]] lhs.dom().contains(k) == rhs.dom().contains(k) && (lhs.dom().contains(k) ==> lhs[k] == rhs[k]) by {
        if k == kv@ {
            assert(ls2.contains_key(kv));
            assert(has_key(ls2, k));
            axiom_vec_u8_ext(the_key(ls2, k), kv);
            assert(ls2[the_key(ls2, k)] == delta_of(op));
            match op {
                Op::Set { key, value } => { assert(lhs.contains_key(k)); assert(rhs.contains_key(k)); assert(lhs[k] == value@); assert(rhs[k] == value@); }
                Op::Delete { key } => { assert(!lhs.contains_key(k)); assert(!rhs.contains_key(k)); }
            }
        } else {
            if has_key(ls2, k) {
                let w = the_key(ls2, k);
                assert(w != kv);
                assert(ls.contains_key(w));
                assert(has_key(ls, k));
                axiom_vec_u8_ext(the_key(ls, k), w);
            }
            if has_key(ls, k) {
                let w = the_key(ls, k);
                assert(w@ != kv@);
                assert(ls2.contains_key(w));
                assert(has_key(ls2, k));
                axiom_vec_u8_ext(the_key(ls2, k), w);
            }
            assert(has_key(ls, k) == has_key(ls2, k));
            if has_key(ls, k) { assert(ls2[the_key(ls2, k)] == ls[the_key(ls, k)]); }
            assert(overlay(base, ls).contains_key(k) == lhs.contains_key(k));
            assert(rhs.contains_key(k) == overlay(base, ls).contains_key(k));
        }
    }
    assert(lhs =~= rhs);
}

pub proof fn lemma_overlay_empty(base: St)
    ensures overlay(base, Map::<Vec<u8>, Delta>::empty()) == base
{
    assert(overlay(base, Map::<Vec<u8>, Delta>::empty()) =~= base);
}

pub proof fn lemma_apply_ops_push(m: St, ops: Seq<Op>, op: Op)
    ensures apply_ops(m, ops.push(op)) == apply_op(apply_ops(m, ops), op)
{
    assert(ops.push(op).drop_last() =~= ops);
}

// what BTreeMap::get(&[u8]) on the delta map tells about has_key / the_key
pub proof fn lemma_lookup(ls: Map<Vec<u8>, Delta>, key: &[u8])
    ensures
        vstd::std_specs::btree::contains_borrowed_key(ls, key) <==> has_key(ls, key@),
        forall|v: Delta| vstd::std_specs::btree::maps_borrowed_key_to_value(ls, key, v) ==> has_key(ls, key@) && ls[the_key(ls, key@)] == v,
{
    axiom_slice_key(ls, key);
    assert forall|v: Delta| vstd::std_specs::btree::maps_borrowed_key_to_value(ls, key, v) implies has_key(ls, key@) && ls[the_key(ls, key@)] == v by {
        let kv = choose|kv: Vec<u8>| kv@ == key@ && ls.contains_key(kv) && ls[kv] == v;
        axiom_vec_u8_ext(kv, the_key(ls, key@));
    }
}
//@ canary overlay axiom_vec_u8_key_laws(); lemma_overlay_empty(IMap::<Seq<u8>, Seq<u8>>::empty());
