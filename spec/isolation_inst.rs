// ---------------------------------------------------------------------------
// spec/isolation_inst.rs -- [C08.lemma.isolated] spec/isolation.rs at the repository's constants: the key space of a
// contract shares no raw key with another contract's, the bank's (lp("bank") ++ ..), the staking module's
// (lp("staking") ++ ..), the distribution module's (lp("distribution") ++ ..) or with a record of the contract registry
// (lp("wasm") ++ lp("contracts") ++ addr).
// ---------------------------------------------------------------------------
pub open spec fn nsb_bank() -> Seq<u8> { seq![98u8, 97u8, 110u8, 107u8] }                                   // b"bank"
pub open spec fn nsb_staking() -> Seq<u8> { seq![115u8, 116u8, 97u8, 107u8, 105u8, 110u8, 103u8] }          // b"staking"
pub open spec fn nsb_distribution() -> Seq<u8> {                                                           // b"distribution"
    seq![100u8, 105u8, 115u8, 116u8, 114u8, 105u8, 98u8, 117u8, 116u8, 105u8, 111u8, 110u8]
}
pub proof fn lemma_contract_space_isolated(a: Addr, b: Addr, ka: Seq<u8>, k: Seq<u8>)
    requires a.bytes().len() + 14 <= 0xFFFF, b.bytes().len() + 14 <= 0xFFFF
    ensures
        a.bytes() != b.bytes() ==> contract_prefix(a) + ka != contract_prefix(b) + k,
        contract_prefix(a) + ka != lp(nsb_bank()) + k,
        contract_prefix(a) + ka != lp(nsb_staking()) + k,
        contract_prefix(a) + ka != lp(nsb_distribution()) + k,
        contract_prefix(a) + ka != lp(ns_wasm()) + (lp(ns_contracts()) + k),
{
    reveal_strlit("contracts");
    axiom_str_bytes_ascii("contracts"@);
    assert(ns_contract_data().len() == 14 && ns_wasm().len() == 4 && ns_contracts().len() == 9);
    assert(contract_prefix(a) == iso_prefix(ns_wasm(), ns_contract_data(), a.bytes()));
    assert(contract_prefix(b) == iso_prefix(ns_wasm(), ns_contract_data(), b.bytes()));
    if a.bytes() != b.bytes() { lemma_iso_other_contract(ns_wasm(), ns_contract_data(), a.bytes(), b.bytes(), ka, k); }
    assert(nsb_bank() != ns_wasm()) by { assert(nsb_bank()[0] != ns_wasm()[0]); }
    assert(nsb_staking() != ns_wasm()) by { assert(nsb_staking().len() != ns_wasm().len()); }
    assert(nsb_distribution() != ns_wasm()) by { assert(nsb_distribution().len() != ns_wasm().len()); }
    lemma_iso_one_level(ns_wasm(), ns_contract_data(), a.bytes(), nsb_bank(), ka, k);
    lemma_iso_one_level(ns_wasm(), ns_contract_data(), a.bytes(), nsb_staking(), ka, k);
    lemma_iso_one_level(ns_wasm(), ns_contract_data(), a.bytes(), nsb_distribution(), ka, k);
    lemma_iso_sibling(ns_wasm(), ns_contract_data(), a.bytes(), ns_contracts(), ka, k);
}
