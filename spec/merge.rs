// ---------------------------------------------------------------------------
// spec/merge.rs -- the merge of the ordered local deltas with the ordered base records (MergeOverlay, src/transactions.rs)
// and the theorem that it enumerates exactly the overlay map in key order.
// An LItem is a local entry (key, Some(value) for Set / None for Delete); a RecV is a base record (key, value).
// ---------------------------------------------------------------------------
pub type LItem = (Seq<u8>, Option<Seq<u8>>);
pub open spec fn emit(x: LItem) -> Seq<RecV> { match x.1 { Some(v) => seq![(x.0, v)], None => Seq::<RecV>::empty() } }

pub open spec fn merge(l: Seq<LItem>, r: Seq<RecV>, order: Order) -> Seq<RecV>
    decreases l.len() + r.len()
{
    if l.len() == 0 { r }
    else if r.len() == 0 { emit(l[0]) + merge(l.drop_first(), r, order) }
    else if ord_lt(l[0].0, r[0].0, order) { emit(l[0]) + merge(l.drop_first(), r, order) }
    else if l[0].0 == r[0].0 { emit(l[0]) + merge(l.drop_first(), r.drop_first(), order) }
    else { seq![r[0]] + merge(l, r.drop_first(), order) }
}

pub open spec fn lsorted(l: Seq<LItem>, order: Order) -> bool { forall|i: int, j: int| 0 <= i < j < l.len() ==> ord_lt(#[trigger] l[i].0, #[trigger] l[j].0, order) }
pub open spec fn rsorted(r: Seq<RecV>, order: Order) -> bool { forall|i: int, j: int| 0 <= i < j < r.len() ==> ord_lt(#[trigger] r[i].0, #[trigger] r[j].0, order) }
pub open spec fn lhas(l: Seq<LItem>, k: Seq<u8>) -> bool { exists|i: int| 0 <= i < l.len() && #[trigger] l[i].0 == k }
pub open spec fn rhas(r: Seq<RecV>, k: Seq<u8>) -> bool { exists|j: int| 0 <= j < r.len() && #[trigger] r[j].0 == k }
// e is produced by the merge: it is a Set entry of l, or a record of r whose key l does not mention
pub open spec fn from_l(l: Seq<LItem>, e: RecV) -> bool { exists|i: int| 0 <= i < l.len() && #[trigger] l[i] == (e.0, Some(e.1)) }
pub open spec fn from_r(l: Seq<LItem>, r: Seq<RecV>, e: RecV) -> bool { (exists|j: int| 0 <= j < r.len() && #[trigger] r[j] == e) && !lhas(l, e.0) }
pub open spec fn mhas(m: Seq<RecV>, e: RecV) -> bool { exists|n: int| 0 <= n < m.len() && #[trigger] m[n] == e }

pub proof fn lemma_ord_trans(a: Seq<u8>, b: Seq<u8>, c: Seq<u8>, order: Order)
    requires ord_lt(a, b, order), ord_lt(b, c, order)
    ensures ord_lt(a, c, order)
{
    match order { Order::Ascending => lemma_lex_trans(a, b, c), Order::Descending => lemma_lex_trans(c, b, a) }
}
pub proof fn lemma_ord_total(a: Seq<u8>, b: Seq<u8>, order: Order)
    ensures ord_lt(a, b, order) || a == b || ord_lt(b, a, order)
{
    lemma_lex_total(a, b);
}
pub proof fn lemma_ord_asym(a: Seq<u8>, b: Seq<u8>, order: Order)
    requires ord_lt(a, b, order)
    ensures !ord_lt(b, a, order), a != b
{
    match order { Order::Ascending => lemma_lex_asym(a, b), Order::Descending => lemma_lex_asym(b, a) }
}

// every key of the merge is a key of l or of r, and is not below both heads
pub open spec fn lower(k: Seq<u8>, x: Seq<u8>, order: Order) -> bool { x == k || ord_lt(x, k, order) }
#[verifier::rlimit(400)]
#[verifier::spinoff_prover]
pub proof fn lemma_merge_props(l: Seq<LItem>, r: Seq<RecV>, order: Order)
    requires lsorted(l, order), rsorted(r, order)
    ensures
        // soundness and completeness of membership
        forall|e: RecV| #[trigger] mhas(merge(l, r, order), e) <==> (from_l(l, e) || from_r(l, r, e)),
        // strictly ordered
        rsorted(merge(l, r, order), order),
        // nothing in the merge lies before the first key of l and the first key of r
        forall|n: int| 0 <= n < merge(l, r, order).len() ==> (l.len() > 0 && lower((#[trigger] merge(l, r, order)[n]).0, l[0].0, order)) || (r.len() > 0 && lower(merge(l, r, order)[n].0, r[0].0, order)),
    decreases l.len() + r.len()
{
    let m = merge(l, r, order);
    if l.len() == 0 {
        assert forall|e: RecV| #[trigger] mhas(m, e) <==> (from_l(l, e) || from_r(l, r, e)) by { }
        assert forall|n: int| 0 <= n < m.len() implies (r.len() > 0 && lower((#[trigger] m[n]).0, r[0].0, order)) by {
            if n > 0 { assert(ord_lt(r[0].0, r[n].0, order)); }
        }
    } else {
        let l2 = l.drop_first();
        assert(lsorted(l2, order)) by {
            assert forall|i: int, j: int| 0 <= i < j < l2.len() implies ord_lt(#[trigger] l2[i].0, #[trigger] l2[j].0, order) by { assert(ord_lt(l[i + 1].0, l[j + 1].0, order)); }
        }
        let r2 = r.drop_first();
        if r.len() > 0 {
            assert(rsorted(r2, order)) by {
                assert forall|i: int, j: int| 0 <= i < j < r2.len() implies ord_lt(#[trigger] r2[i].0, #[trigger] r2[j].0, order) by { assert(ord_lt(r[i + 1].0, r[j + 1].0, order)); }
            }
        }
        if r.len() == 0 || ord_lt(l[0].0, r[0].0, order) || l[0].0 == r[0].0 {
            // head of l is consumed (and the head of r too when the keys are equal)
            let rr = if r.len() > 0 && !ord_lt(l[0].0, r[0].0, order) { r2 } else { r };
            let rest = merge(l2, rr, order);
            lemma_merge_props(l2, rr, order);
            assert(m == emit(l[0]) + rest);
            let k0 = l[0].0;
            // every key of the rest is strictly after k0
            assert forall|n: int| 0 <= n < rest.len() implies ord_lt(k0, (#[trigger] rest[n]).0, order) by {
                if l2.len() > 0 && lower(rest[n].0, l2[0].0, order) {
                    assert(ord_lt(l[0].0, l[1].0, order));
                    if l2[0].0 != rest[n].0 { lemma_ord_trans(k0, l2[0].0, rest[n].0, order); }
                } else {
                    assert(rr.len() > 0 && lower(rest[n].0, rr[0].0, order));
                    if rr == r {
                        if rr[0].0 != rest[n].0 { lemma_ord_trans(k0, rr[0].0, rest[n].0, order); }
                    } else {
                        // keys equal: r2[0] is after r[0] == k0
                        assert(ord_lt(r[0].0, r[1].0, order));
                        if rr[0].0 != rest[n].0 { lemma_ord_trans(k0, rr[0].0, rest[n].0, order); }
                    }
                }
            }
            let em = emit(l[0]);
            assert forall|i: int, j: int| 0 <= i < j < m.len() implies ord_lt(#[trigger] m[i].0, #[trigger] m[j].0, order) by {
                if i < em.len() { assert(m[i].0 == k0); assert(m[j] == rest[j - em.len()]); }
                else { assert(m[i] == rest[i - em.len()]); assert(m[j] == rest[j - em.len()]); }
            }
            assert forall|n: int| 0 <= n < m.len() implies (l.len() > 0 && lower((#[trigger] m[n]).0, l[0].0, order)) by {
                if n >= em.len() { assert(m[n] == rest[n - em.len()]); }
            }
            assert forall|e: RecV| #[trigger] mhas(m, e) <==> (from_l(l, e) || from_r(l, r, e)) by {
                // rest-membership characterisation
                assert(mhas(rest, e) <==> (from_l(l2, e) || from_r(l2, rr, e)));
                if mhas(m, e) {
                    let n = choose|n: int| 0 <= n < m.len() && m[n] == e;
                    if n < em.len() { assert(l[0] == (e.0, Some(e.1))); assert(from_l(l, e)); }
                    else {
                        assert(rest[n - em.len()] == e); assert(mhas(rest, e));
                        if from_l(l2, e) { let i = choose|i: int| 0 <= i < l2.len() && l2[i] == (e.0, Some(e.1)); assert(l[i + 1] == (e.0, Some(e.1))); assert(from_l(l, e)); }
                        else {
                            let j = choose|j: int| 0 <= j < rr.len() && rr[j] == e;
                            if rr == r { assert(r[j] == e); } else { assert(r[j + 1] == e); }
                            // e.0 is not a key of l: not of l2, and not k0 (strictly after k0)
                            assert(ord_lt(k0, e.0, order));
                            lemma_ord_asym(k0, e.0, order);
                            if lhas(l, e.0) { let i = choose|i: int| 0 <= i < l.len() && l[i].0 == e.0; assert(i > 0); assert(l2[i - 1].0 == e.0); assert(lhas(l2, e.0)); }
                            assert(from_r(l, r, e));
                        }
                    }
                }
                if from_l(l, e) {
                    let i = choose|i: int| 0 <= i < l.len() && l[i] == (e.0, Some(e.1));
                    if i == 0 { assert(em =~= seq![e]); assert(m[0] == e); assert(mhas(m, e)); }
                    else { assert(l2[i - 1] == (e.0, Some(e.1))); assert(from_l(l2, e)); let n = choose|n: int| 0 <= n < rest.len() && rest[n] == e; assert(m[n + em.len()] == e); assert(mhas(m, e)); }
                }
                if from_r(l, r, e) {
                    let j = choose|j: int| 0 <= j < r.len() && r[j] == e;
                    assert(!lhas(l2, e.0)) by { if lhas(l2, e.0) { let i = choose|i: int| 0 <= i < l2.len() && l2[i].0 == e.0; assert(l[i + 1].0 == e.0); assert(lhas(l, e.0)); } }
                    if rr == r { assert(from_r(l2, rr, e)); }
                    else {
                        // keys equal: e is not r[0] since r[0].0 == l[0].0 is a key of l
                        if j == 0 { assert(l[0].0 == e.0); assert(lhas(l, e.0)); }
                        assert(rr[j - 1] == e); assert(from_r(l2, rr, e));
                    }
                    let n = choose|n: int| 0 <= n < rest.len() && rest[n] == e; assert(m[n + em.len()] == e); assert(mhas(m, e));
                }
            }
        } else {
            // head of r goes first
            let rest = merge(l, r2, order);
            lemma_merge_props(l, r2, order);
            assert(m == seq![r[0]] + rest);
            let k0 = r[0].0;
            lemma_ord_total(l[0].0, k0, order);
            assert(ord_lt(k0, l[0].0, order));
            assert forall|n: int| 0 <= n < rest.len() implies ord_lt(k0, (#[trigger] rest[n]).0, order) by {
                if lower(rest[n].0, l[0].0, order) {
                    if l[0].0 != rest[n].0 { lemma_ord_trans(k0, l[0].0, rest[n].0, order); }
                } else {
                    assert(r2.len() > 0 && lower(rest[n].0, r2[0].0, order));
                    assert(ord_lt(r[0].0, r[1].0, order));
                    if r2[0].0 != rest[n].0 { lemma_ord_trans(k0, r2[0].0, rest[n].0, order); }
                }
            }
            assert forall|i: int, j: int| 0 <= i < j < m.len() implies ord_lt(#[trigger] m[i].0, #[trigger] m[j].0, order) by {
                if i == 0 { assert(m[j] == rest[j - 1]); } else { assert(m[i] == rest[i - 1]); assert(m[j] == rest[j - 1]); }
            }
            assert forall|n: int| 0 <= n < m.len() implies (r.len() > 0 && lower((#[trigger] m[n]).0, r[0].0, order)) by {
                if n > 0 { assert(m[n] == rest[n - 1]); }
            }
            assert forall|e: RecV| #[trigger] mhas(m, e) <==> (from_l(l, e) || from_r(l, r, e)) by {
                assert(mhas(rest, e) <==> (from_l(l, e) || from_r(l, r2, e)));
                if mhas(m, e) {
                    let n = choose|n: int| 0 <= n < m.len() && m[n] == e;
                    if n == 0 {
                        assert(r[0] == e);
                        // k0 is before every key of l
                        if lhas(l, e.0) { let i = choose|i: int| 0 <= i < l.len() && l[i].0 == e.0; if i > 0 { assert(ord_lt(l[0].0, l[i].0, order)); lemma_ord_trans(k0, l[0].0, l[i].0, order); } lemma_ord_asym(k0, l[i].0, order); }
                        assert(from_r(l, r, e));
                    } else {
                        assert(rest[n - 1] == e); assert(mhas(rest, e));
                        if !from_l(l, e) { let j = choose|j: int| 0 <= j < r2.len() && r2[j] == e; assert(r[j + 1] == e); assert(from_r(l, r, e)); }
                    }
                }
                if from_l(l, e) { let n = choose|n: int| 0 <= n < rest.len() && rest[n] == e; assert(m[n + 1] == e); assert(mhas(m, e)); }
                if from_r(l, r, e) {
                    let j = choose|j: int| 0 <= j < r.len() && r[j] == e;
                    if j == 0 { assert(m[0] == e); assert(mhas(m, e)); }
                    else { assert(r2[j - 1] == e); assert(from_r(l, r2, e)); let n = choose|n: int| 0 <= n < rest.len() && rest[n] == e; assert(m[n + 1] == e); assert(mhas(m, e)); }
                }
            }
        }
    }
}

// `l` is exactly the content of the delta map `ls` restricted to [lo, hi), each key once, strictly ordered
pub open spec fn dview(d: Delta) -> Option<Seq<u8>> { match d { Delta::Set { value } => Some(value@), Delta::Delete {} => None } }
pub open spec fn is_lrange_of(l: Seq<LItem>, ls: Map<Vec<u8>, Delta>, lo: Option<Seq<u8>>, hi: Option<Seq<u8>>, order: Order) -> bool {
    &&& forall|i: int| 0 <= i < l.len() ==> has_key(ls, (#[trigger] l[i]).0) && dview(ls[the_key(ls, l[i].0)]) == l[i].1 && in_range(l[i].0, lo, hi)
    &&& forall|k: Seq<u8>| has_key(ls, k) && in_range(k, lo, hi) ==> #[trigger] lhas(l, k)
    &&& lsorted(l, order)
}
// THE MERGE THEOREM: merging the ordered range of the local deltas with the ordered range of the base yields the
// ordered range of the overlay map -- every key once, in strict key order, for every bounds pair and both orders
pub proof fn lemma_merge_is_range(l: Seq<LItem>, r: Seq<RecV>, base: St, ls: Map<Vec<u8>, Delta>, lo: Option<Seq<u8>>, hi: Option<Seq<u8>>, order: Order)
    requires is_lrange_of(l, ls, lo, hi, order), is_range_of(r, base, lo, hi, order)
    ensures /*VXCLAUSE C06.merge.theorem,C10*/ (is_range_of(merge(l, r, order), overlay(base, ls), lo, hi, order))
{
    let m = merge(l, r, order);
    let ov = overlay(base, ls);
    lemma_merge_props(l, r, order);
    assert forall|n: int| 0 <= n < m.len() implies ov.contains_key(#[trigger] m[n].0) && ov[m[n].0] == m[n].1 && in_range(m[n].0, lo, hi) by {
        let e = m[n];
        assert(mhas(m, e));
        if from_l(l, e) {
            let i = choose|i: int| 0 <= i < l.len() && l[i] == (e.0, Some(e.1));
            assert(has_key(ls, l[i].0));
        } else {
            let j = choose|j: int| 0 <= j < r.len() && r[j] == e;
            assert(base.contains_key(r[j].0));
            if has_key(ls, e.0) { assert(lhas(l, e.0)); }
        }
    }
    assert forall|k: Seq<u8>| ov.contains_key(k) && in_range(k, lo, hi) implies exists|n: int| 0 <= n < m.len() && #[trigger] m[n].0 == k by {
        if has_key(ls, k) {
            assert(lhas(l, k));
            let i = choose|i: int| 0 <= i < l.len() && l[i].0 == k;
            let e = (k, ov[k]);
            assert(l[i] == (e.0, Some(e.1)));
            assert(from_l(l, e));
            assert(mhas(m, e));
            let n = choose|n: int| 0 <= n < m.len() && m[n] == e;
            assert(m[n].0 == k);
        } else {
            let j = choose|j: int| 0 <= j < r.len() && r[j].0 == k;
            let e = r[j];
            if lhas(l, k) { let i = choose|i: int| 0 <= i < l.len() && l[i].0 == k; assert(has_key(ls, l[i].0)); }
            assert(from_r(l, r, e));
            assert(mhas(m, e));
            let n = choose|n: int| 0 <= n < m.len() && m[n] == e;
            assert(m[n].0 == k);
        }
    }
}

// ---- bounds of BTreeMap::range in general form, and their agreement with [lo, hi) for the pair (Included / Unbounded, Excluded / Unbounded)
pub open spec fn above(k: Seq<u8>, lo: core::ops::Bound<Seq<u8>>) -> bool {
    match lo { core::ops::Bound::Included(l) => lex_le(l, k), core::ops::Bound::Excluded(l) => lex_lt(l, k), core::ops::Bound::Unbounded => true }
}
pub open spec fn below(k: Seq<u8>, hi: core::ops::Bound<Seq<u8>>) -> bool {
    match hi { core::ops::Bound::Included(h) => lex_le(k, h), core::ops::Bound::Excluded(h) => lex_lt(k, h), core::ops::Bound::Unbounded => true }
}
pub open spec fn bview(b: core::ops::Bound<Vec<u8>>) -> core::ops::Bound<Seq<u8>> {
    match b { core::ops::Bound::Included(v) => core::ops::Bound::Included(v@), core::ops::Bound::Excluded(v) => core::ops::Bound::Excluded(v@), core::ops::Bound::Unbounded => core::ops::Bound::Unbounded }
}
// the entries of ls with key within (lo, hi), each once, ascending
pub open spec fn is_brange_of(l: Seq<LItem>, ls: Map<Vec<u8>, Delta>, lo: core::ops::Bound<Seq<u8>>, hi: core::ops::Bound<Seq<u8>>) -> bool {
    &&& forall|i: int| 0 <= i < l.len() ==> has_key(ls, (#[trigger] l[i]).0) && dview(ls[the_key(ls, l[i].0)]) == l[i].1 && above(l[i].0, lo) && below(l[i].0, hi)
    &&& forall|k: Seq<u8>| has_key(ls, k) && above(k, lo) && below(k, hi) ==> #[trigger] lhas(l, k)
    &&& lsorted(l, Order::Ascending)
}
pub open spec fn lo_of(lo: Option<Seq<u8>>) -> core::ops::Bound<Seq<u8>> { match lo { Some(x) => core::ops::Bound::Included(x), None => core::ops::Bound::Unbounded } }
pub open spec fn hi_of(hi: Option<Seq<u8>>) -> core::ops::Bound<Seq<u8>> { match hi { Some(x) => core::ops::Bound::Excluded(x), None => core::ops::Bound::Unbounded } }
pub proof fn lemma_brange_is_lrange(l: Seq<LItem>, ls: Map<Vec<u8>, Delta>, lo: Option<Seq<u8>>, hi: Option<Seq<u8>>)
    requires is_brange_of(l, ls, lo_of(lo), hi_of(hi))
    ensures is_lrange_of(l, ls, lo, hi, Order::Ascending)
{
    assert forall|k: Seq<u8>| has_key(ls, k) && in_range(k, lo, hi) implies #[trigger] lhas(l, k) by {
        assert(above(k, lo_of(lo)) && below(k, hi_of(hi)));
    }
}
// the same entries in the opposite direction
pub proof fn lemma_lrange_reverse(l: Seq<LItem>, ls: Map<Vec<u8>, Delta>, lo: Option<Seq<u8>>, hi: Option<Seq<u8>>)
    requires is_lrange_of(l, ls, lo, hi, Order::Ascending)
    ensures is_lrange_of(l.reverse(), ls, lo, hi, Order::Descending)
{
    let r = l.reverse();
    assert forall|i: int| 0 <= i < r.len() implies has_key(ls, (#[trigger] r[i]).0) && dview(ls[the_key(ls, r[i].0)]) == r[i].1 && in_range(r[i].0, lo, hi) by {
        assert(r[i] == l[l.len() - 1 - i]);
    }
    assert forall|k: Seq<u8>| has_key(ls, k) && in_range(k, lo, hi) implies #[trigger] lhas(r, k) by {
        assert(lhas(l, k));
        let i = choose|i: int| 0 <= i < l.len() && l[i].0 == k;
        assert(r[l.len() - 1 - i].0 == k);
    }
    assert forall|i: int, j: int| 0 <= i < j < r.len() implies ord_lt(#[trigger] r[i].0, #[trigger] r[j].0, Order::Descending) by {
        assert(r[i] == l[l.len() - 1 - i]); assert(r[j] == l[l.len() - 1 - j]);
        assert(ord_lt(l[l.len() - 1 - j].0, l[l.len() - 1 - i].0, Order::Ascending));
    }
}
// inverted bounds: nothing lies in [lo, hi) when hi < lo
pub proof fn lemma_inverted_empty(ls: Map<Vec<u8>, Delta>, lo: Seq<u8>, hi: Seq<u8>, order: Order)
    requires lex_lt(hi, lo)
    ensures is_lrange_of(Seq::<LItem>::empty(), ls, Some(lo), Some(hi), order)
{
    assert forall|k: Seq<u8>| has_key(ls, k) && in_range(k, Some(lo), Some(hi)) implies #[trigger] lhas(Seq::<LItem>::empty(), k) by {
        // lo <= k < hi < lo  is impossible
        if lo != k { lemma_lex_trans(lo, k, hi); }
        lemma_lex_asym(hi, lo);
    }
}

//@ canary merge_axioms axiom_vec_u8_cmp_lex(); axiom_vec_u8_key_laws(); let a = vec_of(seq![1u8]); let b = vec_of(seq![1u8, 0u8]); assert(lex_lt(seq![1u8], seq![1u8, 0u8])); lemma_lex_total(seq![1u8], seq![2u8]); lemma_inverted_empty(Map::<Vec<u8>, Delta>::empty(), seq![2u8], seq![1u8], Order::Ascending);
