// ---------------------------------------------------------------------------
// spec/wasm_registry.rs -- THE PROPERTIES C11 (code ids, addresses, registry records) and C12 (admin change),
// written from the statements.  In the other wasm groups the functions below are uninterpreted oracles; here they
// are DEFINED and the repo functions are proved equal to them.
// ---------------------------------------------------------------------------


impl<ExecC, QueryC> WasmKeeper<ExecC, QueryC> {
    pub open spec fn contract_data_sem(&self, s: St, addr: Addr) -> AnyResult<ContractData> {
        match map_load::<ContractData>(s, contract_key(addr)) { Ok(cd) => Ok(cd), Err(_) => Err(AnyError) }
    }
    // a registry write touches exactly the record of `addr`
    pub open spec fn save_contract_sem(&self, s: St, addr: Addr, data: ContractData) -> (AnyResult<()>, St) {
        if data.ser_ok() { (Ok(()), s.insert(contract_key(addr), data.ser())) } else { (Err(AnyError), s) }
    }

    // the address of a new instance: with a salt a function of (code id, instance count, CHECKSUM of the code,
    // canonical creator, salt) through the configured generator, otherwise of (code id, instance count)
    pub open spec fn gen_addr(&self, s: St, code_id: u64, creator: Addr, salt: Option<Binary>) -> AnyResult<Addr> {
        let instance_id = spec_instance_count(s) as u64;
        match salt {
            Some(sb) => {
                if code_id < 1 || !self.has_code(code_id) { Err(AnyError) } else {
                    match spec_canon_addr(creator.s@) {
                        Err(_) => Err(AnyError),
                        Ok(ca) => self.address_generator.predictable_sem(code_id, instance_id, self.code_data@[code_id].checksum.c@, ca, sb.b@),
                    }
                }
            }
            None => self.address_generator.addr_sem(code_id, instance_id),
        }
    }

    // C11: a stored code id can be instantiated; the new address must not be registered yet (else Err, nothing
    // written); the record holds exactly what was supplied; nothing else is written
    pub open spec fn register_sem(&self, s: St, code_id: u64, creator: Addr, admin: Option<Addr>, label: String, created: u64, salt: Option<Binary>) -> (AnyResult<Addr>, St) {
        if !self.has_code(code_id) { (Err(AnyError), s) } else {
            match self.gen_addr(s, code_id, creator, salt) {
                Err(e) => (Err(AnyError), s),
                Ok(addr) => {
                    if self.contract_data_sem(s, addr) is Ok { (Err(AnyError), s) } else {
                        let (rs, s1) = self.save_contract_sem(s, addr, ContractData { code_id, creator, admin, label, created });
                        match rs { Ok(_) => (Ok(addr), s1), Err(e) => (Err(AnyError), s1) }
                    }
                }
            }
        }
    }

    // C12: only the current admin may change / clear the admin; otherwise nothing changes
    pub open spec fn update_admin_sem(&self, s: St, sender: Addr, contract_addr: Seq<char>, new_admin: Option<String>) -> (AnyResult<AppResponse>, St) {
        if !spec_valid_addr(contract_addr) { (Err(AnyError), s) } else {
            let c = Addr { s: str_of(contract_addr) };
            let bad_admin = match new_admin { Some(a) => !spec_valid_addr(a@), None => false };
            if bad_admin { (Err(AnyError), s) } else {
                match self.contract_data_sem(s, c) {
                    Err(e) => (Err(AnyError), s),
                    Ok(cd) => {
                        if cd.admin != Some(sender) { (Err(AnyError), s) } else {
                            let na = match new_admin { Some(a) => Some(Addr { s: a }), None => None };
                            let (rs, s1) = self.save_contract_sem(s, c, ContractData { code_id: cd.code_id, creator: cd.creator, admin: na, label: cd.label, created: cd.created });
                            match rs { Ok(_) => (Ok(default_app()), s1), Err(e) => (Err(AnyError), s1) }
                        }
                    }
                }
            }
        }
    }

}
