// ---------------------------------------------------------------------------
// spec/wasm_registry.rs -- THE PROPERTIES C11 (code ids, addresses, registry records) and C12 (admin change),
// written from the statements.  In the other wasm groups the functions below are uninterpreted oracles; here they
// are DEFINED and the repo functions are proved equal to them.
// ---------------------------------------------------------------------------


impl<ExecC, QueryC> WasmKeeper<ExecC, QueryC> {
    pub open spec fn contract_data_sem(&self, s: St, addr: Addr) -> AnyResult<ContractData> {
        match map_load::<ContractData>(s, contract_key(addr)) { Ok(cd) => Ok(cd), Err(_) => Err(AnyError) }
    }
    // a registry write touches exactly the record of `addr`
    pub open spec fn save_contract_sem(&self, s: St, addr: Addr, data: ContractData) -> (AnyResult<()>, St) {
        if data.ser_ok() { (Ok(()), s.insert(contract_key(addr), data.ser())) } else { (Err(AnyError), s) }
    }

    // the address of a new instance: with a salt a function of (code id, instance count, CHECKSUM of the code,
    // canonical creator, salt) through the configured generator, otherwise of (code id, instance count)
    pub open spec fn gen_addr(&self, s: St, code_id: u64, creator: Addr, salt: Option<Binary>) -> AnyResult<Addr> {
        let instance_id = spec_instance_count(s) as u64;
        match salt {
            Some(sb) => {
                if code_id < 1 || !self.has_code(code_id) { Err(AnyError) } else {
                    match spec_canon_addr(creator.s@) {
                        Err(_) => Err(AnyError),
                        Ok(ca) => self.address_generator.predictable_sem(code_id, instance_id, self.code_data@[code_id].checksum.c@, ca, sb.b@),
                    }
                }
            }
            None => self.address_generator.addr_sem(code_id, instance_id),
        }
    }

    // C11: a stored code id can be instantiated; the new address must not be registered yet (else Err, nothing
    // written); the record holds exactly what was supplied; nothing else is written
    pub open spec fn register_sem(&self, s: St, code_id: u64, creator: Addr, admin: Option<Addr>, label: String, created: u64, salt: Option<Binary>) -> (AnyResult<Addr>, St) {
        if !self.has_code(code_id) { (Err(AnyError), s) } else {
            match self.gen_addr(s, code_id, creator, salt) {
                Err(e) => (Err(AnyError), s),
                Ok(addr) => {
                    if self.contract_data_sem(s, addr) is Ok { (Err(AnyError), s) } else {
                        let (rs, s1) = self.save_contract_sem(s, addr, ContractData { code_id, creator, admin, label, created });
                        match rs { Ok(_) => (Ok(addr), s1), Err(e) => (Err(AnyError), s1) }
                    }
                }
            }
        }
    }

    // C11 "with a salt ... repeating it is rejected as a duplicate, leaving state unchanged": whenever the generator's salted
    // address depends only on (checksum, creator, salt) -- proved for the default generator, C11.addr.salted_fn -- a second
    // salted instantiation with the same checksum, creator and salt fails and writes nothing, whatever happened to the
    // instance count, the label or the admin in between
    pub proof fn lemma_salted_repeat_rejected(&self, s: St, code_id: u64, creator: Addr, admin: Option<Addr>, label: String, created: u64, salt: Binary,
                                              s2: St, code_id2: u64, admin2: Option<Addr>, label2: String, created2: u64)
        requires
            forall|ci: u64, ii: u64, ci2: u64, ii2: u64, ck: Seq<u8>, ca: CanonicalAddr, sb: Seq<u8>|
                #[trigger] self.address_generator.predictable_sem(ci, ii, ck, ca, sb) == #[trigger] self.address_generator.predictable_sem(ci2, ii2, ck, ca, sb),
            self.register_sem(s, code_id, creator, admin, label, created, Some(salt)).0 matches Ok(addr) && self.contract_data_sem(s2, addr) is Ok,
            code_id2 >= 1 && self.has_code(code_id2) && self.code_data@[code_id2].checksum.c@ == self.code_data@[code_id].checksum.c@,
        ensures
            /*VXCLAUSE C11.lemma.salted_repeat_rejected*/ (self.register_sem(s2, code_id2, creator, admin2, label2, created2, Some(salt)).0 is Err
                && self.register_sem(s2, code_id2, creator, admin2, label2, created2, Some(salt)).1 == s2),
    {
        let addr = self.register_sem(s, code_id, creator, admin, label, created, Some(salt)).0->Ok_0;
        assert(self.gen_addr(s, code_id, creator, Some(salt)) == Ok::<Addr, AnyError>(addr));
        assert(self.gen_addr(s2, code_id2, creator, Some(salt)) == Ok::<Addr, AnyError>(addr));
    }

    // C12: only the current admin may change / clear the admin; otherwise nothing changes
    pub open spec fn update_admin_sem(&self, s: St, sender: Addr, contract_addr: Seq<char>, new_admin: Option<String>) -> (AnyResult<AppResponse>, St) {
        if !spec_valid_addr(contract_addr) { (Err(AnyError), s) } else {
            let c = Addr { s: str_of(contract_addr) };
            let bad_admin = match new_admin { Some(a) => !spec_valid_addr(a@), None => false };
            if bad_admin { (Err(AnyError), s) } else {
                match self.contract_data_sem(s, c) {
                    Err(e) => (Err(AnyError), s),
                    Ok(cd) => {
                        if cd.admin != Some(sender) { (Err(AnyError), s) } else {
                            let na = match new_admin { Some(a) => Some(Addr { s: a }), None => None };
                            let (rs, s1) = self.save_contract_sem(s, c, ContractData { code_id: cd.code_id, creator: cd.creator, admin: na, label: cd.label, created: cd.created });
                            match rs { Ok(_) => (Ok(default_app()), s1), Err(e) => (Err(AnyError), s1) }
                        }
                    }
                }
            }
        }
    }

}
