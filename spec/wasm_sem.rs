// ---------------------------------------------------------------------------
// spec/wasm_sem.rs -- THE PROPERTIES C02 / C03 / C04(data, events of sub-messages) as one semantic function,
// written from the property statements.  reply_sem is an uninterpreted Skolem oracle for WasmKeeper::reply
// ("reply is some function of its inputs"); it cuts the recursion execute_submsg -> reply -> process_response.
// ---------------------------------------------------------------------------
pub uninterp spec fn spec_type_url<ExecC>(msg: CosmosMsg<ExecC>) -> String;

impl<ExecC, QueryC> WasmKeeper<ExecC, QueryC> {
    // oracle: what `reply` does (result, state after) from (router, state before, block, contract, reply)
    pub uninterp spec fn reply_sem(&self, router: &dyn CosmosRouter<ExecC, QueryC>, s: St, block: BlockInfo, contract: Addr, reply: Reply) -> (AnyResult<AppResponse>, St);

    // the Reply a dispatching contract receives for a successful sub-message that produced `a`
    pub open spec fn ok_reply(sm: SubMsg<ExecC>, a: AppResponse) -> Reply {
        Reply { id: sm.id, payload: sm.payload, gas_used: 0,
                result: SubMsgResult::Ok(SubMsgResponse {
                    events: a.events, data: a.data,
                    msg_responses: vec_of(seq![MsgResponse { type_url: spec_type_url(sm.msg), value: match a.data { Some(d) => d, None => empty_binary() } }]) }) }
    }
    pub open spec fn err_reply(sm: SubMsg<ExecC>, e: AnyError) -> Reply {
        Reply { id: sm.id, payload: sm.payload, gas_used: 0, result: SubMsgResult::Err(spec_err_text(e)) }
    }

    // C02 + C03 + C04(sub-message part):
    //  * the sub-message is executed by the router with the dispatching CONTRACT as sender, on s0
    //  * failed: nothing of it is kept (reply, if any, starts from s0); reply iff reply_on is Always/Error, else the error propagates
    //  * succeeded: its effects are visible (reply starts from s1); reply iff reply_on is Always/Success
    //  * the reply is addressed to the dispatching contract, carries id/payload unchanged and exactly the events/data produced
    //  * data: the reply's data if a reply ran, otherwise none; events: the sub-message's events followed by the reply's
    pub open spec fn submsg_sem(&self, router: &dyn CosmosRouter<ExecC, QueryC>, s0: St, block: BlockInfo, contract: Addr, sm: SubMsg<ExecC>) -> (AnyResult<AppResponse>, St) {
        let (r1, s1) = router.exec_sem(s0, block, contract, sm.msg);
        match r1 {
            Err(e) => {
                if sm.reply_on is Always || sm.reply_on is Error {
                    self.reply_sem(router, s0, block, contract, Self::err_reply(sm, e))
                } else {
                    (Err(e), s0)
                }
            }
            Ok(a) => {
                if sm.reply_on is Always || sm.reply_on is Success {
                    let (rr, s2) = self.reply_sem(router, s1, block, contract, Self::ok_reply(sm, a));
                    match rr {
                        Ok(x) => (Ok(AppResponse { events: vec_of(a.events@ + x.events@), data: x.data }), s2),
                        Err(e2) => (Err(e2), s2),
                    }
                } else {
                    (Ok(AppResponse { events: a.events, data: None }), s1)
                }
            }
        }
    }
}
