// ---------------------------------------------------------------------------
// spec/lp.rs -- length-prefixed namespace encoding, windows onto a store
// ---------------------------------------------------------------------------
pub open spec fn len_bytes(n: int) -> Seq<u8> { seq![((n / 256) % 256) as u8, (n % 256) as u8] }

pub open spec fn lp(ns: Seq<u8>) -> Seq<u8> { len_bytes(ns.len() as int) + ns }

pub open spec fn lp_nested(path: Seq<Seq<u8>>) -> Seq<u8>
    decreases path.len()
{
    if path.len() == 0 { Seq::<u8>::empty() } else { lp_nested(path.drop_last()) + lp(path.last()) }
}

pub open spec fn path_ok(path: Seq<Seq<u8>>) -> bool { forall|i: int| 0 <= i < path.len() ==> #[trigger] path[i].len() <= 0xFFFF }

// the sub-map of `m` under prefix `p`, with the prefix stripped
pub open spec fn window(m: St, p: Seq<u8>) -> St {
    IMap::new(|k: Seq<u8>| m.contains_key(p + k), |k: Seq<u8>| m[p + k])
}

pub proof fn lemma_window_insert(m: St, p: Seq<u8>, k: Seq<u8>, v: Seq<u8>)
    ensures window(m.insert(p + k, v), p) == window(m, p).insert(k, v)
{
    assert forall|x: Seq<u8>| true implies ((#[trigger] (p + x) == p + k) <==> (x == k)) by { lemma_concat_cancel(p, x, k); }
    assert(window(m.insert(p + k, v), p) =~= window(m, p).insert(k, v));
}

pub proof fn lemma_window_remove(m: St, p: Seq<u8>, k: Seq<u8>)
    ensures window(m.remove(p + k), p) == window(m, p).remove(k)
{
    assert forall|x: Seq<u8>| true implies ((#[trigger] (p + x) == p + k) <==> (x == k)) by { lemma_concat_cancel(p, x, k); }
    assert(window(m.remove(p + k), p) =~= window(m, p).remove(k));
}

// a write under prefix p changes no key that does not start with p
pub proof fn lemma_write_frame(p: Seq<u8>, k: Seq<u8>, x: Seq<u8>)
    requires !starts_with(x, p)
    ensures x != p + k
{
    lemma_concat_starts_with(p, k);
}

pub proof fn lemma_window_window(m: St, p: Seq<u8>, q: Seq<u8>)
    ensures window(window(m, p), q) == window(m, p + q)
{
    assert forall|k: Seq<u8>| true implies #[trigger] (p + (q + k)) == (p + q) + k by { assert(p + (q + k) =~= (p + q) + k); }
    assert(window(window(m, p), q) =~= window(m, p + q));
}

// --- prefix-freeness of the code -------------------------------------------------------------
pub proof fn lemma_len_bytes_inj(a: int, b: int)
    requires 0 <= a <= 0xFFFF, 0 <= b <= 0xFFFF, len_bytes(a) == len_bytes(b)
    ensures a == b
{
    assert(len_bytes(a)[0] == len_bytes(b)[0]);
    assert(len_bytes(a)[1] == len_bytes(b)[1]);
}

// lp(a) ++ x == lp(b) ++ y  ==>  a == b && x == y      (a code word is never a proper prefix of another)
pub proof fn lemma_lp_prefix_free(a: Seq<u8>, x: Seq<u8>, b: Seq<u8>, y: Seq<u8>)
    requires a.len() <= 0xFFFF, b.len() <= 0xFFFF, lp(a) + x == lp(b) + y
    ensures a == b, x == y
{
    let l = lp(a) + x; let r = lp(b) + y;
    assert(l[0] == len_bytes(a.len() as int)[0]);
    assert(l[1] == len_bytes(a.len() as int)[1]);
    assert(r[0] == len_bytes(b.len() as int)[0]);
    assert(r[1] == len_bytes(b.len() as int)[1]);
    assert(len_bytes(a.len() as int) =~= len_bytes(b.len() as int));
    lemma_len_bytes_inj(a.len() as int, b.len() as int);
    assert(a =~= l.subrange(2, 2 + a.len() as int));
    assert(b =~= r.subrange(2, 2 + b.len() as int));
    assert(x =~= l.subrange(2 + a.len() as int, l.len() as int));
    assert(y =~= r.subrange(2 + b.len() as int, r.len() as int));
}

pub open spec fn is_path_prefix(a: Seq<Seq<u8>>, b: Seq<Seq<u8>>) -> bool {
    a.len() <= b.len() && b.subrange(0, a.len() as int) == a
}

// front-recursive view of lp_nested
pub proof fn lemma_lp_nested_front(path: Seq<Seq<u8>>)
    requires path.len() > 0
    ensures lp_nested(path) == lp(path[0]) + lp_nested(path.drop_first())
    decreases path.len()
{
    if path.len() == 1 {
        assert(path.drop_last() =~= Seq::<Seq<u8>>::empty());
        assert(path.drop_first() =~= Seq::<Seq<u8>>::empty());
        assert(lp_nested(path.drop_last()) + lp(path.last()) =~= lp(path[0]) + lp_nested(path.drop_first()));
    } else {
        lemma_lp_nested_front(path.drop_last());
        assert(path.drop_last().drop_first() =~= path.drop_first().drop_last());
        assert(path.drop_first().last() == path.last());
        assert(path.drop_last()[0] == path[0]);
        assert((lp(path[0]) + lp_nested(path.drop_first().drop_last())) + lp(path.last())
               =~= lp(path[0]) + (lp_nested(path.drop_first().drop_last()) + lp(path.last())));
    }
}

// views for two paths overlap (one raw prefix extends the other) only if one path extends the other
pub proof fn lemma_lp_nested_prefix(a: Seq<Seq<u8>>, x: Seq<u8>, b: Seq<Seq<u8>>, y: Seq<u8>)
    requires path_ok(a), path_ok(b), a.len() <= b.len(), lp_nested(a) + x == lp_nested(b) + y
    ensures is_path_prefix(a, b), x == lp_nested(b.subrange(a.len() as int, b.len() as int)) + y
    decreases a.len()
{
    if a.len() == 0 {
        assert(b.subrange(0, 0) =~= a);
        assert(b.subrange(0, b.len() as int) =~= b);
        assert(lp_nested(a) + x =~= x);
    } else {
        lemma_lp_nested_front(a);
        lemma_lp_nested_front(b);
        let a1 = a.drop_first(); let b1 = b.drop_first();
        assert((lp(a[0]) + lp_nested(a1)) + x =~= lp(a[0]) + (lp_nested(a1) + x));
        assert((lp(b[0]) + lp_nested(b1)) + y =~= lp(b[0]) + (lp_nested(b1) + y));
        assert(a[0].len() <= 0xFFFF);
        assert(b[0].len() <= 0xFFFF);
        lemma_lp_prefix_free(a[0], lp_nested(a1) + x, b[0], lp_nested(b1) + y);
        assert(path_ok(a1)) by { assert forall|i: int| 0 <= i < a1.len() implies #[trigger] a1[i].len() <= 0xFFFF by { assert(a1[i] == a[i + 1]); } }
        assert(path_ok(b1)) by { assert forall|i: int| 0 <= i < b1.len() implies #[trigger] b1[i].len() <= 0xFFFF by { assert(b1[i] == b[i + 1]); } }
        lemma_lp_nested_prefix(a1, x, b1, y);
        assert(b.subrange(0, a.len() as int) =~= seq![b[0]] + b1.subrange(0, a1.len() as int));
        assert(a =~= seq![a[0]] + a1);
        assert(b1.subrange(a1.len() as int, b1.len() as int) =~= b.subrange(a.len() as int, b.len() as int));
    }
}

// [C07.lemma.disjoint] two views whose paths are not extensions of one another share no raw key
pub proof fn lemma_views_disjoint(a: Seq<Seq<u8>>, b: Seq<Seq<u8>>, ka: Seq<u8>, kb: Seq<u8>)
    requires path_ok(a), path_ok(b), !is_path_prefix(a, b), !is_path_prefix(b, a)
    ensures lp_nested(a) + ka != lp_nested(b) + kb
{
    if lp_nested(a) + ka == lp_nested(b) + kb {
        if a.len() <= b.len() { lemma_lp_nested_prefix(a, ka, b, kb); } else { lemma_lp_nested_prefix(b, kb, a, ka); }
    }
}

// [C07.lemma.subwindow] the view of an extended path is the sub-window of the shorter one under the encoded extension
pub proof fn lemma_subwindow(m: St, a: Seq<Seq<u8>>, ext: Seq<Seq<u8>>)
    ensures window(m, lp_nested(a + ext)) == window(window(m, lp_nested(a)), lp_nested(ext))
    decreases ext.len()
{
    lemma_lp_nested_concat(a, ext);
    lemma_window_window(m, lp_nested(a), lp_nested(ext));
}

pub proof fn lemma_lp_nested_concat(a: Seq<Seq<u8>>, b: Seq<Seq<u8>>)
    ensures lp_nested(a + b) == lp_nested(a) + lp_nested(b)
    decreases b.len()
{
    if b.len() == 0 {
        assert(a + b =~= a);
        assert(lp_nested(a) + lp_nested(b) =~= lp_nested(a));
    } else {
        assert((a + b).drop_last() =~= a + b.drop_last());
        assert((a + b).last() == b.last());
        lemma_lp_nested_concat(a, b.drop_last());
        assert((lp_nested(a) + lp_nested(b.drop_last())) + lp(b.last()) =~= lp_nested(a) + (lp_nested(b.drop_last()) + lp(b.last())));
    }
}

// the store equal to `base` outside prefix p and to `w` (re-prefixed) under p: what a write through a prefixed view leaves
pub open spec fn splice(base: St, p: Seq<u8>, w: St) -> St {
    IMap::new(
        |k: Seq<u8>| if starts_with(k, p) { w.contains_key(k.subrange(p.len() as int, k.len() as int)) } else { base.contains_key(k) },
        |k: Seq<u8>| if starts_with(k, p) { w[k.subrange(p.len() as int, k.len() as int)] } else { base[k] })
}
pub proof fn lemma_splice_window(base: St, p: Seq<u8>, w: St)
    ensures window(splice(base, p, w), p) == w
{
    assert forall|k: Seq<u8>| true implies #[trigger] starts_with(p + k, p) && (p + k).subrange(p.len() as int, (p + k).len() as int) == k by { lemma_concat_starts_with(p, k); }
    assert(window(splice(base, p, w), p) =~= w);
}
pub proof fn lemma_splice_same(base: St, p: Seq<u8>)
    ensures splice(base, p, window(base, p)) == base
{
    assert forall|k: Seq<u8>| starts_with(k, p) implies p + k.subrange(p.len() as int, k.len() as int) == k by { lemma_starts_with_split(k, p); }
    assert(splice(base, p, window(base, p)) =~= base);
}
pub proof fn lemma_splice_insert(base: St, p: Seq<u8>, k: Seq<u8>, v: Seq<u8>)
    ensures splice(base, p, window(base, p).insert(k, v)) == base.insert(p + k, v)
{
    lemma_concat_starts_with(p, k);
    assert forall|x: Seq<u8>| starts_with(x, p) implies p + x.subrange(p.len() as int, x.len() as int) == x by { lemma_starts_with_split(x, p); }
    assert forall|x: Seq<u8>| starts_with(x, p) implies (x.subrange(p.len() as int, x.len() as int) == k <==> x == p + k) by {
        lemma_starts_with_split(x, p);
    }
    assert(splice(base, p, window(base, p).insert(k, v)) =~= base.insert(p + k, v));
}
pub proof fn lemma_splice_remove(base: St, p: Seq<u8>, k: Seq<u8>)
    ensures splice(base, p, window(base, p).remove(k)) == base.remove(p + k)
{
    lemma_concat_starts_with(p, k);
    assert forall|x: Seq<u8>| starts_with(x, p) implies p + x.subrange(p.len() as int, x.len() as int) == x by { lemma_starts_with_split(x, p); }
    assert forall|x: Seq<u8>| starts_with(x, p) implies (x.subrange(p.len() as int, x.len() as int) == k <==> x == p + k) by {
        lemma_starts_with_split(x, p);
    }
    assert(splice(base, p, window(base, p).remove(k)) =~= base.remove(p + k));
}
// [C08] whatever is written under prefix p leaves every key outside p untouched
pub proof fn lemma_splice_frame(base: St, p: Seq<u8>, w: St, k: Seq<u8>)
    requires !starts_with(k, p)
    ensures splice(base, p, w).contains_key(k) == base.contains_key(k), base.contains_key(k) ==> splice(base, p, w)[k] == base[k]
{
}

// writing a window twice: the second write wins
pub proof fn lemma_splice_twice(base: St, p: Seq<u8>, w1: St, w2: St)
    ensures splice(splice(base, p, w1), p, w2) == splice(base, p, w2)
{
    assert(splice(splice(base, p, w1), p, w2) =~= splice(base, p, w2));
}
