// ---------------------------------------------------------------------------
// spec/wasm_exec.rs -- THE PROPERTIES C05 (sender / funds / order), C04 (entry events, result wrapping),
// C12 (migrate) at the level of WasmKeeper::execute_wasm / sudo, written from the statements.
// ---------------------------------------------------------------------------
pub uninterp spec fn pb_exec(data: Seq<u8>) -> Seq<u8>;                    // "standard execute-response encoding"   (prost, ASSUMED layout)
pub uninterp spec fn pb_inst(addr: Seq<char>, data: Seq<u8>) -> Seq<u8>;   // instantiate-response encoding           (prost, ASSUMED layout)
pub open spec fn bin_of(s: Seq<u8>) -> Binary { Binary { b: vec_of(s) } }
pub open spec fn wrap_exec(d: Option<Binary>) -> Option<Binary> { match d { Some(x) => Some(bin_of(pb_exec(x.b@))), None => None } }
pub open spec fn wrap_inst(d: Option<Binary>, addr: Addr) -> Binary { bin_of(pb_inst(addr.s@, match d { Some(x) => x.b@, None => Seq::<u8>::empty() })) }

impl<ExecC, QueryC> WasmKeeper<ExecC, QueryC> {
    // oracles for the registry functions (defined and proved in group wasm_registry)
    pub uninterp spec fn register_sem(&self, s: St, code_id: u64, creator: Addr, admin: Option<Addr>, label: String, created: u64, salt: Option<Binary>) -> (AnyResult<Addr>, St);
    pub uninterp spec fn update_admin_sem(&self, s: St, sender: Addr, contract_addr: Seq<char>, new_admin: Option<String>) -> (AnyResult<AppResponse>, St);
    pub uninterp spec fn contract_data_sem(&self, s: St, addr: Addr) -> AnyResult<ContractData>;
    pub uninterp spec fn save_contract_sem(&self, s: St, addr: Addr, data: ContractData) -> (AnyResult<()>, St);

    // funds move by a bank Send from `sender` to `recipient`, routed like any message; nothing happens for no funds
    pub open spec fn send_sem(router: &dyn CosmosRouter<ExecC, QueryC>, s: St, block: BlockInfo, sender: Addr, recipient: String, amount: Seq<Coin>) -> (AnyResult<AppResponse>, St) {
        if amount.len() == 0 { (Ok(default_app()), s) }
        else { router.exec_sem(s, block, sender, CosmosMsg::Bank(BankMsg::Send { to_address: recipient, amount: vec_of(amount) })) }
    }

    // run an entry point's response: entry event first, then the contract's events and sub-messages; wrap the data
    pub open spec fn finish_sem(&self, router: &dyn CosmosRouter<ExecC, QueryC>, rc: (AnyResult<Response<ExecC>>, St), block: BlockInfo, contract: Addr, ev: Event) -> (AnyResult<AppResponse>, St) {
        match rc.0 {
            Err(e) => (Err(e), rc.1),
            Ok(resp) => self.respond_sem(router, rc.1, block, contract, ev, resp),
        }
    }

    pub open spec fn execute_arm(&self, router: &dyn CosmosRouter<ExecC, QueryC>, s0: St, block: BlockInfo, sender: Addr, contract_addr: String, msg: Binary, funds: Vec<Coin>) -> (AnyResult<AppResponse>, St) {
        if !spec_valid_addr(contract_addr@) { (Err(AnyError), s0) } else {
            let c = Addr { s: contract_addr };
            // C05: funds are moved FIRST, from the true sender to the callee; if that fails the contract does not run
            let (rs, s1) = Self::send_sem(router, s0, block, sender, contract_addr, funds@);
            match rs {
                Err(e) => (Err(e), s1),
                Ok(_) => {
                    // C05: the contract is told the true sender and exactly the funds that were moved
                    let rc = self.call_sem(Entry::Execute, router, s1, block, c, Some(MessageInfo { sender, funds }), msg.b@, None);
                    let (ra, s3) = self.finish_sem(router, rc, block, c, entry_event("execute"@, c, Seq::<Attribute>::empty()));
                    match ra { Err(e) => (Err(e), s3), Ok(app) => (Ok(AppResponse { events: app.events, data: wrap_exec(app.data) }), s3) }
                }
            }
        }
    }

    pub open spec fn instantiate_arm(&self, router: &dyn CosmosRouter<ExecC, QueryC>, s0: St, block: BlockInfo, sender: Addr, admin: Option<String>, code_id: u64, msg: Binary, funds: Vec<Coin>, label: String, salt: Option<Binary>) -> (AnyResult<AppResponse>, St) {
        if label@.len() == 0 { (Err(AnyError), s0) } else {
            let (rr, s1) = self.register_sem(s0, code_id, sender, match admin { Some(a) => Some(Addr { s: a }), None => None }, label, block.height, salt);
            match rr {
                Err(e) => (Err(e), s1),
                Ok(c) => {
                    let (rs, s2) = Self::send_sem(router, s1, block, sender, c.s, funds@);
                    match rs {
                        Err(e) => (Err(e), s2),
                        Ok(_) => {
                            let rc = self.call_sem(Entry::Instantiate, router, s2, block, c, Some(MessageInfo { sender, funds }), msg.b@, None);
                            let (ra, s4) = self.finish_sem(router, rc, block, c, entry_event("instantiate"@, c, seq![attr_of("code_id"@, spec_u64_text(code_id))]));
                            // C04: instantiate ALWAYS returns the instantiate-response encoding (address + data)
                            match ra { Err(e) => (Err(e), s4), Ok(app) => (Ok(AppResponse { events: app.events, data: Some(wrap_inst(app.data, c)) }), s4) }
                        }
                    }
                }
            }
        }
    }

    pub open spec fn migrate_arm(&self, router: &dyn CosmosRouter<ExecC, QueryC>, s0: St, block: BlockInfo, sender: Addr, contract_addr: String, new_code_id: u64, msg: Binary) -> (AnyResult<AppResponse>, St) {
        if !spec_valid_addr(contract_addr@) { (Err(AnyError), s0) } else {
            let c = Addr { s: contract_addr };
            if !self.has_code(new_code_id) { (Err(AnyError), s0) } else {
                match self.contract_data_sem(s0, c) {
                    Err(e) => (Err(e), s0),
                    Ok(data) => {
                        // C12: only the current admin
                        if data.admin != Some(sender) { (Err(AnyError), s0) } else {
                            // C12: the new code id is recorded BEFORE the migrate entry point runs (so the new code serves it)
                            let (rsv, s1) = self.save_contract_sem(s0, c, ContractData { code_id: new_code_id, creator: data.creator, admin: data.admin, label: data.label, created: data.created });
                            match rsv {
                                Err(e) => (Err(e), s1),
                                Ok(_) => {
                                    let rc = self.call_sem(Entry::Migrate, router, s1, block, c, None, msg.b@, None);
                                    let (ra, s3) = self.finish_sem(router, rc, block, c, entry_event("migrate"@, c, seq![attr_of("code_id"@, spec_u64_text(new_code_id))]));
                                    match ra { Err(e) => (Err(e), s3), Ok(app) => (Ok(AppResponse { events: app.events, data: wrap_exec(app.data) }), s3) }
                                }
                            }
                        }
                    }
                }
            }
        }
    }

    pub open spec fn exec_wasm_sem(&self, router: &dyn CosmosRouter<ExecC, QueryC>, s0: St, block: BlockInfo, sender: Addr, msg: WasmMsg) -> (AnyResult<AppResponse>, St) {
        match msg {
            WasmMsg::Execute { contract_addr, msg, funds } => self.execute_arm(router, s0, block, sender, contract_addr, msg, funds),
            WasmMsg::Instantiate { admin, code_id, msg, funds, label } => self.instantiate_arm(router, s0, block, sender, admin, code_id, msg, funds, label, None),
            WasmMsg::Instantiate2 { admin, code_id, label, msg, funds, salt } => self.instantiate_arm(router, s0, block, sender, admin, code_id, msg, funds, label, Some(salt)),
            WasmMsg::Migrate { contract_addr, new_code_id, msg } => self.migrate_arm(router, s0, block, sender, contract_addr, new_code_id, msg),
            WasmMsg::UpdateAdmin { contract_addr, admin } => self.update_admin_sem(s0, sender, contract_addr@, Some(admin)),
            WasmMsg::ClearAdmin { contract_addr } => self.update_admin_sem(s0, sender, contract_addr@, None),
        }
    }

    pub open spec fn sudo_wasm_sem(&self, router: &dyn CosmosRouter<ExecC, QueryC>, s0: St, block: BlockInfo, msg: WasmSudo) -> (AnyResult<AppResponse>, St) {
        let rc = self.call_sem(Entry::Sudo, router, s0, block, msg.contract_addr, None, msg.message.b@, None);
        self.finish_sem(router, rc, block, msg.contract_addr, entry_event("sudo"@, msg.contract_addr, Seq::<Attribute>::empty()))
    }
}
