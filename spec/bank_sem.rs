// ---------------------------------------------------------------------------
// spec/bank_sem.rs -- the bank as functions on its window of the store, and THE PROPERTY C09 as lemmas over them
// ---------------------------------------------------------------------------
pub open spec fn ns_bank() -> Seq<u8> { seq![98u8, 97u8, 110u8, 107u8] }   // b"bank"
pub open spec fn ns_balances() -> Seq<u8> { str_bytes("balances"@) }
pub open spec fn bal_key(a: Addr) -> Seq<u8> { lp(ns_balances()) + a.bytes() }

// the coin list recorded for an account in the bank's window w (absent = empty)
pub open spec fn ledger(w: St, a: Addr) -> AnyResult<Seq<Coin>> {
    match map_may_load::<NativeBalance>(w, bal_key(a)) { Ok(Some(b)) => Ok(b.0@), Ok(None) => Ok(Seq::<Coin>::empty()), Err(_) => Err(AnyError) }
}
// the coins with a non-zero amount, in order (what `filter(|x| !x.amount.is_zero())` keeps)
pub open spec fn positives(v: Seq<Coin>) -> Seq<Coin>
    decreases v.len()
{
    if v.len() == 0 { Seq::<Coin>::empty() } else if v.last().amount.u != 0 { positives(v.drop_last()).push(v.last()) } else { positives(v.drop_last()) }
}
pub open spec fn nb_of(v: Seq<Coin>) -> NativeBalance { NativeBalance(vec_of(v)) }
pub open spec fn set_bal(w: St, a: Addr, v: Seq<Coin>) -> St { w.insert(bal_key(a), nb_of(nb_normalize(v)).ser()) }

pub open spec fn burn_w(w: St, from: Addr, amount: Seq<Coin>) -> (AnyResult<()>, St) {
    let p = positives(amount);
    if p.len() == 0 { (Err(AnyError), w) } else {
        match ledger(w, from) {
            Err(e) => (Err(AnyError), w),
            Ok(a) => match nb_sub(a, p) { Err(_) => (Err(AnyError), w), Ok(r) => (Ok(()), set_bal(w, from, r)) },
        }
    }
}
pub open spec fn mint_w(w: St, to: Addr, amount: Seq<Coin>) -> (AnyResult<()>, St) {
    let p = positives(amount);
    if p.len() == 0 { (Err(AnyError), w) } else {
        match ledger(w, to) { Err(e) => (Err(AnyError), w), Ok(b) => (Ok(()), set_bal(w, to, nb_add(b, p))) }
    }
}
// a transfer is a debit of the sender followed by a credit of the recipient
pub open spec fn send_w(w: St, from: Addr, to: Addr, amount: Seq<Coin>) -> (AnyResult<()>, St) {
    let (r1, w1) = burn_w(w, from, amount);
    match r1 { Err(e) => (Err(AnyError), w1), Ok(_) => mint_w(w1, to, amount) }
}

// what is recorded is well-formed (set_balance normalises; add / sub keep it)
pub open spec fn bank_wf(w: St) -> bool {
    forall|a: Addr| w.contains_key(#[trigger] bal_key(a)) ==> NativeBalance::de(w[bal_key(a)]) is Ok && nb_wf(NativeBalance::de(w[bal_key(a)]).unwrap().0@)
}
// keys of different accounts differ (the account bytes determine the address)
pub axiom fn axiom_addr_bytes_inj(a: Addr, b: Addr)
    ensures a.bytes() == b.bytes() ==> a == b;

pub proof fn lemma_positives(v: Seq<Coin>, d: Seq<char>)
    ensures all_pos(positives(v)), amt(positives(v), d) == amt(v, d)
    decreases v.len()
{
    if v.len() > 0 {
        lemma_positives(v.drop_last(), d);
        let p0 = positives(v.drop_last());
        if v.last().amount.u != 0 {
            assert(p0.push(v.last()).drop_last() =~= p0);
            assert forall|i: int| 0 <= i < positives(v).len() implies (#[trigger] positives(v)[i]).amount.u > 0 by {
                if i < p0.len() { assert(positives(v)[i] == p0[i]); }
            }
        }
    }
}

pub proof fn lemma_ledger_set(w: St, a: Addr, v: Seq<Coin>, b: Addr)
    ensures ledger(set_bal(w, a, v), a) == Ok::<Seq<Coin>, AnyError>(nb_normalize(v)),
        b != a ==> ledger(set_bal(w, a, v), b) == ledger(w, b)
{
    broadcast use {axiom_vec_canon, axiom_vec_of_view};
    axiom_cw_roundtrip(nb_of(nb_normalize(v)));
    axiom_nb_len(v, v);
    if b != a {
        axiom_addr_bytes_inj(a, b);
        lemma_concat_cancel(lp(ns_balances()), a.bytes(), b.bytes());
    }
}

// [C09] debit: succeeds iff some amount is positive and every denomination's total is covered; takes exactly that
// much from the sender; touches no other account; a failure changes nothing
pub proof fn lemma_burn(w: St, from: Addr, amount: Seq<Coin>, d: Seq<char>, other: Addr)
    requires bank_wf(w), ledger(w, from) is Ok, forall|x: Seq<char>| amt(ledger(w, from).unwrap(), x) <= u128::MAX
    ensures ({
        let (r, w1) = burn_w(w, from, amount);
        let a = ledger(w, from).unwrap();
        &&& (r is Ok) == (positives(amount).len() > 0 && forall|x: Seq<char>| amt(amount, x) <= amt(a, x))
        &&& r is Err ==> w1 == w
        &&& r is Ok ==> ledger(w1, from) is Ok && amt(ledger(w1, from).unwrap(), d) == amt(a, d) - amt(amount, d)
        &&& (r is Ok && other != from) ==> ledger(w1, other) == ledger(w, other)
    })
{
    let p = positives(amount);
    let a = ledger(w, from).unwrap();
    assert forall|x: Seq<char>| amt(p, x) == amt(amount, x) by { lemma_positives(amount, x); }
    lemma_positives(amount, d);
    lemma_ledger_wf(w, from);
    if p.len() > 0 {
        axiom_nb_sub(a, p);
        if nb_sub(a, p) is Ok {
            let r = nb_sub(a, p).unwrap();
            lemma_ledger_set(w, from, r, other);
            axiom_nb_normalize(r, d);
        }
    }
}
pub proof fn lemma_ledger_wf(w: St, a: Addr)
    requires bank_wf(w), ledger(w, a) is Ok
    ensures nb_wf(ledger(w, a).unwrap())
{
    if w.contains_key(bal_key(a)) { } else { axiom_nb_wf_empty(); }
}
// [C09] credit: succeeds iff some amount is positive; adds exactly that much; touches no other account
pub proof fn lemma_mint(w: St, to: Addr, amount: Seq<Coin>, d: Seq<char>, other: Addr)
    requires bank_wf(w), ledger(w, to) is Ok, fits128(ledger(w, to).unwrap(), positives(amount))
    ensures ({
        let (r, w1) = mint_w(w, to, amount);
        let b = ledger(w, to).unwrap();
        &&& (r is Ok) == (positives(amount).len() > 0)
        &&& r is Err ==> w1 == w
        &&& r is Ok ==> ledger(w1, to) is Ok && amt(ledger(w1, to).unwrap(), d) == amt(b, d) + amt(amount, d)
        &&& (r is Ok && other != to) ==> ledger(w1, other) == ledger(w, other)
    })
{
    let p = positives(amount);
    let b = ledger(w, to).unwrap();
    lemma_positives(amount, d);
    if p.len() > 0 {
        axiom_nb_add(b, p, d);
        lemma_ledger_set(w, to, nb_add(b, p), other);
        axiom_nb_normalize(nb_add(b, p), d);
    }
}

pub proof fn lemma_set_bal_wf(w: St, a: Addr, v: Seq<Coin>)
    requires bank_wf(w)
    ensures bank_wf(set_bal(w, a, v))
{
    broadcast use {axiom_vec_canon, axiom_vec_of_view};
    let w1 = set_bal(w, a, v);
    axiom_cw_roundtrip(nb_of(nb_normalize(v)));
    axiom_nb_len(v, v);
    axiom_nb_normalize(v, Seq::<char>::empty());
    assert forall|b: Addr| w1.contains_key(#[trigger] bal_key(b)) implies NativeBalance::de(w1[bal_key(b)]) is Ok && nb_wf(NativeBalance::de(w1[bal_key(b)]).unwrap().0@) by {
        if b != a {
            axiom_addr_bytes_inj(a, b);
            lemma_concat_cancel(lp(ns_balances()), a.bytes(), b.bytes());
        }
    }
}

// [C09] THE PROPERTY for a transfer between two different accounts: it succeeds iff some amount is positive and the
// sender covers every denomination's total; it moves exactly the stated amount of each denomination from sender to
// recipient and changes no other balance (so every denomination's total supply is unchanged); a failure changes nothing
pub proof fn lemma_send(w: St, from: Addr, to: Addr, amount: Seq<Coin>, d: Seq<char>, other: Addr)
    requires bank_wf(w), from != to, ledger(w, from) is Ok, ledger(w, to) is Ok,
        forall|x: Seq<char>| amt(ledger(w, from).unwrap(), x) <= u128::MAX,
        fits128(ledger(w, to).unwrap(), positives(amount)),
    ensures ({
        let (r, w1) = send_w(w, from, to, amount);
        let a = ledger(w, from).unwrap();
        let b = ledger(w, to).unwrap();
        &&& (r is Ok) == (positives(amount).len() > 0 && forall|x: Seq<char>| amt(amount, x) <= amt(a, x))
        &&& r is Err ==> w1 == w
        &&& r is Ok ==> ledger(w1, from) is Ok && ledger(w1, to) is Ok
                && amt(ledger(w1, from).unwrap(), d) == amt(a, d) - amt(amount, d)
                && amt(ledger(w1, to).unwrap(), d) == amt(b, d) + amt(amount, d)
                && amt(ledger(w1, from).unwrap(), d) + amt(ledger(w1, to).unwrap(), d) == amt(a, d) + amt(b, d)
        &&& (r is Ok && other != from && other != to) ==> ledger(w1, other) == ledger(w, other)
    })
{
    lemma_burn(w, from, amount, d, to);
    lemma_burn(w, from, amount, d, other);
    let (r1, wb) = burn_w(w, from, amount);
    if r1 is Ok {
        let p = positives(amount);
        let a = ledger(w, from).unwrap();
        lemma_ledger_wf(w, from);
        assert forall|x: Seq<char>| amt(p, x) == amt(amount, x) by { lemma_positives(amount, x); }
        lemma_positives(amount, d);
        axiom_nb_sub(a, p);
        lemma_set_bal_wf(w, from, nb_sub(a, p).unwrap());
        assert(ledger(wb, to) == ledger(w, to));
        lemma_mint(wb, to, amount, d, from);
        lemma_mint(wb, to, amount, d, other);
    }
}

// [C09] a transfer to oneself leaves every balance as it was, but still fails when it is not covered
pub proof fn lemma_send_self(w: St, a: Addr, amount: Seq<Coin>, d: Seq<char>)
    requires bank_wf(w), ledger(w, a) is Ok, forall|x: Seq<char>| amt(ledger(w, a).unwrap(), x) <= u128::MAX
    ensures ({
        let (r, w1) = send_w(w, a, a, amount);
        let bal = ledger(w, a).unwrap();
        &&& (r is Ok) == (positives(amount).len() > 0 && forall|x: Seq<char>| amt(amount, x) <= amt(bal, x))
        &&& r is Err ==> w1 == w
        &&& r is Ok ==> ledger(w1, a) is Ok && amt(ledger(w1, a).unwrap(), d) == amt(bal, d)
    })
{
    lemma_burn(w, a, amount, d, a);
    let (r1, wb) = burn_w(w, a, amount);
    if r1 is Ok {
        let p = positives(amount);
        let bal = ledger(w, a).unwrap();
        lemma_ledger_wf(w, a);
        assert forall|x: Seq<char>| amt(p, x) == amt(amount, x) by { lemma_positives(amount, x); }
        lemma_positives(amount, d);
        axiom_nb_sub(bal, p);
        lemma_set_bal_wf(w, a, nb_sub(bal, p).unwrap());
        let after = ledger(wb, a).unwrap();
        assert forall|x: Seq<char>| amt(after, x) + amt(p, x) <= u128::MAX by {
            lemma_burn(w, a, amount, x, a);
        }
        lemma_mint(wb, a, amount, d, a);
    }
}
