#!/usr/bin/env python3
"""usage: vx/mutate.py <rel-file> <old-text> <new-text> <property>...
Applies a textual mutation to a scratch copy of /repo/src and runs the checks of the given properties on it."""
import os, shutil, subprocess, sys, tempfile
rel, old, new = sys.argv[1:4]
props = sys.argv[4:]
d = tempfile.mkdtemp(prefix="vxmut.")
try:
    shutil.copytree("/repo/src", os.path.join(d, "repo", "src"))
    p = os.path.join(d, "repo", rel)
    s = open(p).read()
    if s.count(old) != 1:
        print("mutation anchor occurs %d times" % s.count(old)); sys.exit(3)
    open(p, "w").write(s.replace(old, new))
    env = dict(os.environ, VX_REPO=os.path.join(d, "repo"), VX_EVIDENCE_DIR=os.path.join(d, "evidence"))
    rc = 0
    for pid in props:
        r = subprocess.run([sys.executable, "/verif/vx/vx.py", "check", pid], env=env)
        rc = max(rc, r.returncode)
    sys.exit(rc)
finally:
    shutil.rmtree(d, ignore_errors=True)
