#!/usr/bin/env python3
"""Semantics-preserving changes (benign/*.diff, each listed with the property whose functions it touches in
benign/INDEX.txt) must NOT be reported as violations: applies each to a scratch copy of /repo/src and runs the check.
Writes benign/RESULTS.md.  usage: vx/run_benign.py"""
import os, subprocess, sys, tempfile, shutil
V = os.path.dirname(os.path.dirname(os.path.abspath(__file__)))
rows = []
for ln in open(V + "/benign/INDEX.txt"):
    if not ln.strip():
        continue
    name, prop = ln.split()
    d = tempfile.mkdtemp(prefix="vxben.")
    try:
        shutil.copytree("/repo/src", d + "/repo/src")
        p = subprocess.run(["patch", "-p1", "-s", "-i", "%s/benign/%s.diff" % (V, name)], cwd=d + "/repo")
        if p.returncode != 0:
            rows.append((name, prop, "patch does not apply"))
            continue
        env = dict(os.environ, VX_REPO=d + "/repo", VX_EVIDENCE_DIR=d + "/ev", VX_REPLAY_DIR=d + "/rp")
        r = subprocess.run([sys.executable, V + "/vx/vx.py", "check", prop], env=env, stdout=subprocess.PIPE, stderr=subprocess.STDOUT, text=True)
        rows.append((name, prop, {0: "OK", 1: "VIOLATION (false alarm)", 2: "undecided"}.get(r.returncode, str(r.returncode))))
        print(rows[-1])
    finally:
        shutil.rmtree(d, ignore_errors=True)
with open(V + "/benign/RESULTS.md", "w") as fh:
    fh.write("# Semantics-preserving changes and what the checks say\n\n| change | property | result |\n|---|---|---|\n")
    for r in rows:
        fh.write("| %s | %s | %s |\n" % r)
sys.exit(1 if any("false alarm" in r[2] for r in rows) else 0)
