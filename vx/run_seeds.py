#!/usr/bin/env python3
"""Runs every seeded change under /verif/seeded/<id>/ against the checks (on a scratch copy of /repo/src with the
patch applied) and writes /verif/seeded/RESULTS.md + results.json.  usage: vx/run_seeds.py [seed-dir-names...]"""
import json, os, subprocess, sys, tempfile, shutil, re
V = os.path.dirname(os.path.dirname(os.path.abspath(__file__)))
seeds = sorted(d for d in os.listdir(V + "/seeded") if os.path.isdir(V + "/seeded/" + d))
if len(sys.argv) > 1:
    seeds = [s for s in seeds if s in sys.argv[1:]]
cfg = json.load(open(V + "/vx/properties.json"))["properties"]
res_path = V + "/seeded/results.json"
results = json.load(open(res_path)) if os.path.exists(res_path) else {}
for sd in seeds:
    meta = json.load(open("%s/seeded/%s/meta.json" % (V, sd)))
    prop = meta["property"]
    d = tempfile.mkdtemp(prefix="vxseed.")
    try:
        shutil.copytree("/repo/src", d + "/repo/src")
        p = subprocess.run(["patch", "-p1", "-s", "-i", "%s/seeded/%s/patch.diff" % (V, sd)], cwd=d + "/repo")
        if p.returncode != 0:
            results[sd] = {"property": prop, "error": meta.get("superseded", "patch does not apply to the current tree")}
            continue
        env = dict(os.environ, VX_REPO=d + "/repo", VX_EVIDENCE_DIR=d + "/ev", VX_REPLAY_DIR=d + "/rp")
        out = {}
        # the owning property first, then every other claimed property (a change may break several)
        order = [prop] + [x for x in sorted(cfg) if x != prop]
        for pid in order:
            if pid not in cfg:
                continue
            if pid != prop and out.get(prop, {}).get("rc") in (1, 2) and os.environ.get("VX_SEEDS_ALL") != "1":
                break   # caught (or undecided) by its own check: the other checks are only consulted for misses
            r = subprocess.run([sys.executable, V + "/vx/vx.py", "check", pid], env=env, stdout=subprocess.PIPE, stderr=subprocess.STDOUT, text=True)
            obl = sorted(set(re.findall(r"obligation=(\S+)", r.stdout)))
            out[pid] = {"rc": r.returncode, "obligations": obl}
        caught_by = [pid for pid, o in out.items() if o["rc"] == 1]
        results[sd] = {"property": prop, "own_check_rc": out.get(prop, {}).get("rc"), "caught_by": caught_by,
                       "undecided_in": [pid for pid, o in out.items() if o["rc"] == 2],
                       "failed_obligations": {pid: o["obligations"] for pid, o in out.items() if o["rc"] == 1}}
        print(sd, "own rc", results[sd]["own_check_rc"], "caught by", caught_by, "undecided", results[sd]["undecided_in"])
    finally:
        shutil.rmtree(d, ignore_errors=True)
    json.dump(results, open(res_path, "w"), indent=1, sort_keys=True)
lines = ["# Seeded changes and which checks catch them", "",
         "| seed | property | own check | caught by | failed obligations (first) |", "|---|---|---|---|---|"]
for sd in sorted(results):
    r = results[sd]
    if "error" in r:
        lines.append("| %s | %s | - | - | %s |" % (sd, r["property"], r["error"])); continue
    own = {0: "missed", 1: "VIOLATION", 2: "undecided"}.get(r["own_check_rc"], "not claimed")
    fo = "; ".join("%s: %s" % (p, ", ".join(o[:2])) for p, o in list(r["failed_obligations"].items())[:2])
    lines.append("| %s | %s | %s | %s | %s |" % (sd, r["property"], own, " ".join(r["caught_by"]) or "-", fo))
open(V + "/seeded/RESULTS.md", "w").write("\n".join(lines) + "\n")
