"""Rust source scanner: masks comments / strings, finds items, balances braces,
resolves #[cfg(..)] attributes. Pure python, no third-party packages.

Nothing here rewrites executable text except by the named, logged rules
(cfg resolution, doc-comment / derive dropping)."""
import re

OPEN = "([{"
CLOSE = ")]}"
PAIR = {"(": ")", "[": "]", "{": "}"}


def mask(text):
    """Return a string of equal length where comments, string and char literal
    *contents* are replaced by spaces (newlines kept). Delimiting quotes of
    strings are replaced by '"' ... '"' -> kept as '"' so that tokens do not glue."""
    out = list(text)
    i, n = 0, len(text)

    def blank(a, b):
        for k in range(a, b):
            if out[k] != "\n":
                out[k] = " "

    while i < n:
        c = text[i]
        if c == "/" and i + 1 < n and text[i + 1] == "/":
            j = text.find("\n", i)
            if j < 0:
                j = n
            blank(i, j)
            i = j
        elif c == "/" and i + 1 < n and text[i + 1] == "*":
            depth, j = 1, i + 2
            while j < n and depth:
                if text.startswith("/*", j):
                    depth += 1
                    j += 2
                elif text.startswith("*/", j):
                    depth -= 1
                    j += 2
                else:
                    j += 1
            blank(i, j)
            i = j
        elif c == '"' or (c in "br" and _is_str_start(text, i)):
            j = _skip_string(text, i)
            # keep the outer quotes as a placeholder token
            blank(i, j)
            out[i] = '"'
            out[j - 1] = '"'
            i = j
        elif c == "'":
            # char literal or lifetime
            if i + 1 < n and text[i + 1] == "\\":
                j = text.find("'", i + 2)
                # '\'' case
                if text[i + 2] == "'" and j == i + 2:
                    j = text.find("'", i + 3)
                blank(i + 1, j)
                i = j + 1
            elif i + 2 < n and text[i + 2] == "'":
                blank(i + 1, i + 2)
                i += 3
            else:
                i += 1
        else:
            i += 1
    return "".join(out)


def _is_str_start(text, i):
    # b"..", r"..", r#".."#, br".."
    if i > 0 and (text[i - 1].isalnum() or text[i - 1] == "_"):
        return False
    m = re.match(r'(b|r|br)(#*)"', text[i:i + 12])
    if not m:
        return False
    if "r" not in m.group(1) and m.group(2):
        return False
    return True


def _skip_string(text, i):
    n = len(text)
    m = re.match(r'(b|r|br)?(#*)"', text[i:i + 12])
    prefix, hashes = m.group(1) or "", m.group(2)
    j = i + m.end()
    if "r" in prefix:
        term = '"' + hashes
        k = text.find(term, j)
        return (k + len(term)) if k >= 0 else n
    while j < n:
        if text[j] == "\\":
            j += 2
        elif text[j] == '"':
            return j + 1
        else:
            j += 1
    return n


def match_close(m, i):
    """m: masked text, i: index of an opening bracket. Returns index of the matching closer."""
    depth = 0
    op = m[i]
    n = len(m)
    j = i
    while j < n:
        c = m[j]
        if c in OPEN:
            depth += 1
        elif c in CLOSE:
            depth -= 1
            if depth == 0:
                return j
        j += 1
    raise ValueError("unbalanced bracket at %d (%r)" % (i, op))


def match_angle(m, i):
    """i: index of '<' opening generics. Returns index of matching '>' ( '->' and '=>' are skipped)."""
    depth = 0
    j = i
    n = len(m)
    while j < n:
        c = m[j]
        if c == "<":
            depth += 1
        elif c == ">" and m[j - 1] not in "-=":
            depth -= 1
            if depth == 0:
                return j
        elif c in "({[":
            j = match_close(m, j)
        j += 1
    raise ValueError("unbalanced angle at %d" % i)


class Src:
    def __init__(self, path, text=None):
        self.path = path
        self.text = text if text is not None else open(path, encoding="utf-8").read()
        self.m = mask(self.text)

    def line_of(self, idx):
        return self.text.count("\n", 0, idx) + 1


ITEM_KW = r"(?:fn|impl|struct|enum|trait|mod|const|static|type|use|macro_rules!)"


def find_body_open(m, start):
    """From `start` (inside an item header) return index of the first '{' or ';' at bracket depth 0."""
    j = start
    n = len(m)
    while j < n:
        c = m[j]
        if c in "([":
            j = match_close(m, j)
        elif c == "{" or c == ";":
            return j
        j += 1
    raise ValueError("no body from %d" % start)


def item_start(src, kw_idx, floor):
    """Walk back from the keyword over qualifiers and attributes (and doc comments) to the item start."""
    text, m = src.text, src.m
    i = kw_idx
    while True:
        # skip whitespace backwards
        j = i
        while j > floor and m[j - 1] in " \t\n":
            j -= 1
        if j <= floor:
            return i
        # qualifier words
        mm = re.search(r"(pub\s*\([^)]*\)|pub|const|async|unsafe|default|extern\s*\"\s*\")$", m[floor:j])
        if mm:
            i = floor + mm.start()
            continue
        if m[j - 1] == "]":
            # attribute: find matching '['
            depth = 0
            k = j - 1
            while k >= floor:
                if m[k] == "]":
                    depth += 1
                elif m[k] == "[":
                    depth -= 1
                    if depth == 0:
                        break
                k -= 1
            if k > floor and m[k - 1] == "#":
                i = k - 1
                continue
            if k > floor + 1 and m[k - 1] == "!" and m[k - 2] == "#":
                return i
        return i


def header_key(header):
    """Normalise an impl header 'impl<A,B> Tr<A> for Ty<B> where ..' -> 'Tr for Ty'."""
    h = re.sub(r"\s+", " ", header.strip())
    h = re.sub(r"^(unsafe )?impl\b", "", h).strip()
    if h.startswith("<"):
        j = match_angle(h, 0)
        h = h[j + 1:].strip()
    h = re.split(r"\bwhere\b", h)[0].strip()
    # strip generic args everywhere
    out, depth = [], 0
    k = 0
    while k < len(h):
        c = h[k]
        if c == "<":
            depth += 1
        elif c == ">" and (k == 0 or h[k - 1] not in "-="):
            depth -= 1
        elif depth == 0:
            out.append(c)
        k += 1
    h = re.sub(r"\s+", " ", "".join(out)).strip()
    h = h.replace("dyn ", "")
    return h


def full_header_key(header):
    """'impl<A> Tr<X> for Ty<B> where ..' -> 'Tr<X>forTy<B>' (generic arguments kept, all whitespace removed)."""
    h = re.sub(r"\s+", " ", header.strip())
    h = re.sub(r"^(unsafe )?impl\b", "", h).strip()
    if h.startswith("<"):
        j = match_angle(h, 0)
        h = h[j + 1:].strip()
    h = re.split(r"\bwhere\b", h)[0].strip()
    if h.endswith("{"):
        h = h[:-1]
    return re.sub(r"\s+", "", h)


class Item:
    def __init__(self, src, kind, name, start, hdr_end, end):
        self.src, self.kind, self.name = src, kind, name
        self.start, self.hdr_end, self.end = start, hdr_end, end  # hdr_end: index of '{' or ';'

    @property
    def text(self):
        return self.src.text[self.start:self.end]

    @property
    def header(self):
        return self.src.text[self.start:self.hdr_end]

    @property
    def line(self):
        return self.src.line_of(self.start)


def items_in(src, lo, hi):
    """List items directly inside text[lo:hi] (file level or the inside of an impl/trait/mod block)."""
    m = src.m
    res = []
    pos = lo
    pat = re.compile(r"\b(fn|impl|struct|enum|trait|mod|const|static|type|use|macro_rules)\b")
    floor = lo
    while True:
        mm = pat.search(m, pos, hi)
        if not mm:
            break
        kw = mm.group(1)
        ki = mm.start()
        # `const fn`, `unsafe impl`: keyword const followed by fn -> treat at fn
        if kw == "const" and re.match(r"const\s+(fn|unsafe)\b", m[ki:ki + 20]):
            pos = mm.end()
            continue
        if kw == "impl" and ki > floor and re.search(r"[:\(<,&]\s*$|->\s*$|\bdyn\s*$", m[floor:ki]):
            # `impl Trait` in type position - cannot be at item position after floor reset, ignore
            pass
        start = item_start(src, ki, floor)
        body = find_body_open(m, mm.end())
        if m[body] == "{" and kw not in ("use", "type", "const", "static"):
            end = match_close(m, body) + 1
        elif m[body] == "{":
            # const X: T = Foo { .. };  -> find terminating ';'
            j = body
            while m[j] != ";":
                if m[j] in OPEN:
                    j = match_close(m, j)
                j += 1
            body = j
            end = j + 1
        else:
            end = body + 1
        if kw == "macro_rules":
            # macro_rules! name { .. }
            b = m.find("{", mm.end())
            p = m.find("(", mm.end())
            if p >= 0 and (b < 0 or p < b):
                end = match_close(m, p) + 1
                if m[end:end + 1] == ";":
                    end += 1
            else:
                end = match_close(m, b) + 1
            body = end
        header = src.text[ki:body]
        full = None
        if kw == "impl":
            name = header_key(header)
            full = full_header_key(header)
        elif kw == "use":
            name = re.sub(r"\s+", " ", header)
        else:
            nm = re.match(r"\w+!?\s+([A-Za-z_]\w*)", m[ki:body + 1])
            name = nm.group(1) if nm else ""
        res.append(Item(src, kw, name, start, body, end))
        res[-1].full = full
        pos = end
        floor = end
    return res


def find_item(src, path):
    """path: 'fn foo' | 'struct X' | 'impl Tr for Ty' | 'Ty :: foo' | 'Tr for Ty :: foo' | 'trait Tr :: foo'
    Returns Item (for impl-qualified fns all impl blocks with that key are searched)."""
    parts = [p.strip() for p in path.split("::")]
    top = items_in(src, 0, len(src.text))
    # also look into inline (non-test) modules one level deep
    if len(parts) == 1:
        p = parts[0]
        mk = re.match(r"(fn|struct|enum|trait|const|static|type|impl|macro_rules)\s+(.*)$", p)
        if mk:
            kind, name = mk.group(1), mk.group(2).strip()
        else:
            kind, name = "fn", p
        c = [it for it in top if it.kind == kind and (it.name == name or (kind == "impl" and "<" in name and getattr(it, "full", None) == re.sub(r"\s+", "", name)))]
        if len(c) != 1:
            raise LookupError("%s: %d candidates for %r" % (src.path, len(c), path))
        return c[0]
    owner, fname = parts[0], parts[1]
    cands = []
    for it in top:
        if it.kind == "impl" and (it.name == owner or ("<" in owner and getattr(it, "full", None) == re.sub(r"\s+", "", owner))) or (it.kind == "trait" and owner == "trait " + it.name):
            inner = items_in(src, it.hdr_end + 1, it.end - 1)
            for f in inner:
                if f.kind == "fn" and f.name == fname:
                    f.owner = it
                    cands.append(f)
    if len(cands) != 1:
        raise LookupError("%s: %d candidates for %r" % (src.path, len(cands), path))
    return cands[0]


# ---------------------------------------------------------------- cfg resolution

def eval_cfg(expr, features):
    """expr: inside of cfg( .. ). Returns True/False, or None if unknown predicate."""
    e = expr.strip()
    mm = re.match(r'^feature\s*=\s*"([^"]*)"$', e)
    if mm:
        return mm.group(1) in features
    if e == "test":
        return False
    for fn, comb in (("not", None), ("all", all), ("any", any)):
        if e.startswith(fn + "(") and e.endswith(")"):
            inner = e[len(fn) + 1:-1]
            parts = _split_top(inner)
            vals = [eval_cfg(p, features) for p in parts if p.strip()]
            if any(v is None for v in vals):
                return None
            if fn == "not":
                return not vals[0]
            return comb(vals)
    return None


def _split_top(s):
    parts, depth, cur = [], 0, []
    for ch in s:
        if ch == "(":
            depth += 1
        elif ch == ")":
            depth -= 1
        if ch == "," and depth == 0:
            parts.append("".join(cur))
            cur = []
        else:
            cur.append(ch)
    parts.append("".join(cur))
    return parts


def attr_target_end(m, i):
    """m masked text; i = index just after an attribute. Returns end index (exclusive) of the construct the
    attribute applies to (item, statement, match arm, field or struct-literal field)."""
    n = len(m)
    j = i
    # skip further attributes
    while True:
        while j < n and m[j] in " \t\n":
            j += 1
        if m.startswith("#[", j):
            j = match_close(m, j + 1) + 1
        else:
            break
    saw_block = False
    while j < n:
        c = m[j]
        if c in "([":
            j = match_close(m, j) + 1
            continue
        if c == "{":
            j = match_close(m, j) + 1
            saw_block = True
            # what follows?
            k = j
            while k < n and m[k] in " \t\n":
                k += 1
            nxt = m[k:k + 4]
            if nxt[:1] in (",", ";"):
                return k + 1
            if nxt[:1] in (".", "?") or nxt.startswith("else") or nxt.startswith("=>") or nxt[:1] == "=":
                j = k
                continue
            return j
        if c in ",;":
            return j + 1
        if c in ")]}":
            return j
        j += 1
    return n


def resolve_cfg(text, features, log=None):
    """Apply cfg attributes for the given feature set to `text`. Returns new text.
    true  -> attribute removed, construct kept
    false -> attribute and construct removed
    Also handles #[cfg_attr(..)] by dropping it (logged)."""
    while True:
        m = mask(text)
        mm = re.search(r"#\[cfg\(", m)
        if not mm:
            break
        a0 = mm.start()
        a1 = match_close(m, a0 + 1) + 1
        expr = text[a0 + 6:a1 - 2]
        val = eval_cfg(expr, features)
        if val is None:
            raise ValueError("cannot evaluate cfg(%s)" % expr)
        if val:
            # drop attribute (and trailing whitespace up to newline)
            e = a1
            while e < len(text) and text[e] in " \t":
                e += 1
            if e < len(text) and text[e] == "\n":
                e += 1
                # also drop the indentation preceding the attribute
                s = a0
                while s > 0 and text[s - 1] in " \t":
                    s -= 1
                a0 = s
            text = text[:a0] + text[e:]
            if log is not None:
                log.append({"rule": "cfg-true", "cfg": expr})
        else:
            e = attr_target_end(m, a1)
            s = a0
            while s > 0 and text[s - 1] in " \t":
                s -= 1
            while e < len(text) and text[e] in " \t":
                e += 1
            if e < len(text) and text[e] == "\n":
                e += 1
            if log is not None:
                log.append({"rule": "cfg-false", "cfg": expr, "dropped": text[a1:e].strip()[:200]})
            text = text[:s] + text[e:]
    return text


def strip_docs_and_attrs(text, log=None):
    """Drop doc comments and the attributes Verus cannot or need not see (derive, inline, allow(clippy..), doc)."""
    lines = text.split("\n")
    out = []
    for ln in lines:
        s = ln.strip()
        if s.startswith("///") or s.startswith("//!"):
            continue
        out.append(ln)
    text = "\n".join(out)
    pat = re.compile(r"[ \t]*#\[(derive|inline|allow|doc|serde|must_use|cfg_attr|deprecated|schemars|prost|track_caller|rustfmt::skip)\b")
    while True:
        m = mask(text)
        mm = pat.search(m)
        if not mm:
            break
        a0 = mm.start()
        lb = m.index("[", a0)
        a1 = match_close(m, lb) + 1
        e = a1
        while e < len(text) and text[e] in " \t":
            e += 1
        if e < len(text) and text[e] == "\n":
            e += 1
        if log is not None:
            log.append({"rule": "drop-attr", "attr": text[a0:a1].strip()})
        text = text[:a0] + text[e:]
    return text
