#!/bin/bash
# usage: vx/confirm_seed.sh <prop> <k> [features]   -- confirms agent mutation k of property <prop> in its worktree /tmp/wt/<prop>
# and stores it under /verif/seeded/<prop>-m<k>/ with meta.json
P=$1; K=$2; FEAT=${3:-}
# round 2: SUFFIX=b uses worktree /tmp/wt/<prop>b and stores mutation k as seeded/<prop>-m<k+KOFF>
SUFFIX=${SUFFIX:-}; KOFF=${KOFF:-0}; KD=$((K+KOFF))
WT=/tmp/wt/$P$SUFFIX; OUT=/tmp/wt/$P$SUFFIX.out; DST=/verif/seeded/$P-m$KD
cd $WT || exit 2
git checkout -q -- . ; git clean -fdq tests
git apply --check $OUT/m$K.diff || { echo "diff does not apply"; exit 2; }
git apply $OUT/m$K.diff
cp $OUT/m${K}_demo.rs tests/zz_seed_demo.rs
suite_default=$(cargo test --offline 2>&1 | grep -E "^test result" | grep -v "zz_seed" ; )
suite_ok=$(cargo test --offline -- --skip zz_never 2>&1 | grep -E "^test result|Running tests/zz_seed" )
# run: existing suite with mutation (exclude demo), demo with mutation
cargo test --offline --lib --tests --doc 2>/dev/null >/dev/null
S1=$(cargo test --offline 2>&1 | awk '/Running tests\/zz_seed_demo/{skip=1} /^test result/{ if(skip){skip=0; print "DEMO " $0} else print "SUITE " $0 }')
SA=$(cargo test --offline --all-features 2>&1 | awk '/Running tests\/zz_seed_demo/{skip=1} /^test result/{ if(skip){skip=0; print "DEMO " $0} else print "SUITE " $0 }')
git checkout -q -- .
S2=$(cargo test --offline $FEAT --test zz_seed_demo 2>&1 | grep -E "^test result")
S2A=$(cargo test --offline --all-features --test zz_seed_demo 2>&1 | grep -E "^test result")
rm -f tests/zz_seed_demo.rs
mkdir -p $DST
cp $OUT/m$K.diff $DST/patch.diff; cp $OUT/m${K}_demo.rs $DST/demo.rs; cp $OUT/m$K.txt $DST/agent_notes.txt
python3 - "$P" "$KD" "$S1" "$SA" "$S2" "$S2A" <<'PY'
import json,sys,re
P,K,S1,SA,S2,S2A=sys.argv[1:7]
def parse(s):
    suite=[l for l in s.split("\n") if l.startswith("SUITE")]
    demo=[l for l in s.split("\n") if l.startswith("DEMO")]
    sf=sum(int(re.search(r"(\d+) failed",l).group(1)) for l in suite) if suite else -1
    sp=sum(int(re.search(r"(\d+) passed",l).group(1)) for l in suite) if suite else -1
    df=sum(int(re.search(r"(\d+) failed",l).group(1)) for l in demo) if demo else -1
    dp=sum(int(re.search(r"(\d+) passed",l).group(1)) for l in demo) if demo else -1
    return {"suite_passed":sp,"suite_failed":sf,"demo_passed":dp,"demo_failed":df}
def parse2(s):
    m=re.search(r"(\d+) passed; (\d+) failed",s)
    return {"demo_passed":int(m.group(1)),"demo_failed":int(m.group(2))} if m else {"demo_passed":-1,"demo_failed":-1}
meta={"property":P,"mutation":int(K),"with_mutation_default_features":parse(S1),"with_mutation_all_features":parse(SA),
      "without_mutation_default_features":parse2(S2),"without_mutation_all_features":parse2(S2A),
      "commands":["git apply patch.diff; cp demo.rs tests/zz_seed_demo.rs; cargo test --offline; cargo test --offline --all-features; git checkout -- .; cargo test --offline --test zz_seed_demo; cargo test --offline --all-features --test zz_seed_demo"]}
w=meta["with_mutation_default_features"]; wa=meta["with_mutation_all_features"]; wo=meta["without_mutation_default_features"]; woa=meta["without_mutation_all_features"]
meta["confirmed"]= (w["suite_failed"]==0 and wa["suite_failed"]==0 and (w["demo_failed"]>0 or wa["demo_failed"]>0) and wo["demo_failed"]==0 and woa["demo_failed"]==0)
json.dump(meta,open("/verif/seeded/%s-m%s/meta.json"%(P,K),"w"),indent=1)
print(P,K,"confirmed" if meta["confirmed"] else "NOT CONFIRMED",w,wa,wo,woa)
PY
