#!/bin/bash
# usage: vx/confirm_round.sh <suffix> <prop>...   -- confirms mutations 1..3 of each /tmp/wt/<prop><suffix>.out and stores them
# after the property's existing seeds; then runs the property's own check on each new seed
SUF=$1; shift
for P in "$@"; do
  [ -d /tmp/wt/$P$SUF.out ] || { echo "$P: no output dir"; continue; }
  N=$(ls -d /verif/seeded/$P-m* 2>/dev/null | sed 's/.*-m//' | sort -n | tail -1); N=${N:-0}
  for k in 1 2 3; do
    [ -f /tmp/wt/$P$SUF.out/m$k.diff ] || continue
    SUFFIX=$SUF KOFF=$N /verif/vx/confirm_seed.sh $P $k 2>&1 | tail -1 | cut -c1-60
    KD=$((k+N))
    if python3 -c "import json,sys; sys.exit(0 if json.load(open('/verif/seeded/$P-m$KD/meta.json'))['confirmed'] else 1)" 2>/dev/null; then
      r=$(/verif/vx/mutest.sh /verif/seeded/$P-m$KD/patch.diff $P 2>&1 | tail -1 | cut -c1-60); echo "   check: $P-m$KD: $r"
    else
      echo "   NOT CONFIRMED: removing seeded/$P-m$KD"; rm -rf /verif/seeded/$P-m$KD
    fi
  done
done
