"""Thorough tier: differential cross-check of the ASSUMED prelude contracts against the real dependencies.
/verif/replay/prelude_crosscheck.rs is dropped into tests/ of a scratch copy of /repo (Cargo.toml, Cargo.lock, src) and
run with `cargo test --offline`; it evaluates every formula the prelude states about cosmwasm-std (Decimal, Uint128,
Timestamp), cw-storage-plus (raw key layout, load / save / update / range) and cw-utils (NativeBalance) on pseudo-random
and boundary inputs.  A failure means a trusted contract is wrong: the property checks are then UNDECIDED, never a
violation of the property."""
import os
import re
import shutil
import subprocess
import time

VERIF = os.path.dirname(os.path.dirname(os.path.abspath(__file__)))
REPO = os.environ.get("VX_REPO", "/repo")


def run(scratch):
    t0 = time.time()
    d = os.path.join(scratch, "crosscheck")
    os.makedirs(os.path.join(d, "tests"))
    for f in ("Cargo.toml", "Cargo.lock"):
        src = os.path.join(REPO, f)
        if not os.path.exists(src):
            src = os.path.join("/repo", f)
        shutil.copy(src, os.path.join(d, f))
    shutil.copytree(os.path.join(REPO, "src"), os.path.join(d, "src"))
    shutil.copy(os.path.join(VERIF, "replay", "prelude_crosscheck.rs"), os.path.join(d, "tests", "vx_crosscheck.rs"))
    env = dict(os.environ, CARGO_NET_OFFLINE="true")
    env["CARGO_TARGET_DIR"] = os.environ.get("VX_REPLAY_TARGET", "/tmp/vx_replay_target")
    cmd = ["cargo", "test", "--offline", "--test", "vx_crosscheck"]
    res = {"name": "prelude_crosscheck", "cmd": " ".join(cmd) + "   (replay/prelude_crosscheck.rs in a scratch copy of /repo)",
           "kind": "differential test of the trusted prelude against cosmwasm-std / cw-storage-plus / cw-utils (not a proof)"}
    try:
        p = subprocess.run(cmd, cwd=d, env=env, stdout=subprocess.PIPE, stderr=subprocess.STDOUT, text=True, timeout=1800)
        out = p.stdout
    except subprocess.TimeoutExpired:
        res.update({"status": "undecided", "reason": "timeout", "wall_s": round(time.time() - t0, 1)})
        return res
    m = re.search(r"test result: (\w+)\. (\d+) passed; (\d+) failed", out)
    res["wall_s"] = round(time.time() - t0, 1)
    if not m:
        res.update({"status": "undecided", "reason": "cross-check did not build or run: " + out.strip()[-400:]})
        return res
    res["tests_passed"] = int(m.group(2))
    res["tests_failed"] = int(m.group(3))
    res["tests"] = re.findall(r"^test (\w+) \.\.\. (\w+)", out, re.M)
    if m.group(1) == "ok" and int(m.group(3)) == 0:
        res["status"] = "ok"
    else:
        fails = [l for l in out.split("\n") if "panicked" in l or "assertion" in l][:5]
        res.update({"status": "undecided", "reason": "a trusted prelude contract disagrees with the dependency: " + " | ".join(fails)[:600]})
    return res
