"""Kani driver: loop-free full-domain harnesses (complete proofs, not bounded) for the functions Verus cannot parse.
The harness modules of /verif/kani/*.harness.rs are APPENDED under cfg(kani) to a scratch copy of /repo's working
tree; /repo itself is never touched."""
import json
import os
import re
import shutil
import subprocess
import time

VERIF = os.path.dirname(os.path.dirname(os.path.abspath(__file__)))
REPO = os.environ.get("VX_REPO", "/repo")

HOOKS = {
    "contract_wrapper": {
        "append": {"src/contracts.rs": "kani/contracts_rs.harness.rs"},
        "filter": "contracts::vx_harness",
        "jobs": 8,
        "harness_clause": {
            "with_checksum_keeps_entry_points": "C20.wrapper.with_checksum",
            "with_sudo_keeps_rest": "C20.wrapper.with_sudo",
            "with_sudo_empty_keeps_rest": "C20.wrapper.with_sudo_empty",
            "with_reply_keeps_rest": "C20.wrapper.with_reply",
            "with_reply_empty_keeps_rest": "C20.wrapper.with_reply_empty",
            "with_migrate_keeps_rest": "C20.wrapper.with_migrate",
            "with_migrate_empty_keeps_rest": "C20.wrapper.with_migrate_empty",
            "new_has_no_optional_parts": "C20.wrapper.new_defaults",
            "new_with_empty_has_no_optional_parts": "C20.wrapper.new_with_empty_defaults",
        },
        "replay": "replay/c20_wrapper.rs",
    },
    "encode_length": {
        "append": {"src/prefixed_storage/length_prefixed.rs": "kani/length_prefixed.harness.rs"},
        "filter": "length_prefixed::vx_harness",
        "jobs": 2,
        "harness_clause": {
            "encode_length_is_big_endian_u16": "C07.enc.bytes(kani)",
            "encode_length_panics_above_u16": "C07.enc.pre(kani)",
        },
    },
}


def run(name, scratch, tier):
    hook = HOOKS[name]
    t0 = time.time()
    d = os.path.join(scratch, "kani_" + name)
    os.makedirs(d)
    repo_root = REPO
    for f in ("Cargo.toml", "Cargo.lock"):
        src = os.path.join(repo_root, f)
        if not os.path.exists(src):
            src = os.path.join("/repo", f)      # mutation copies carry only src/
        shutil.copy(src, os.path.join(d, f))
    shutil.copytree(os.path.join(repo_root, "src"), os.path.join(d, "src"))
    os.makedirs(os.path.join(d, ".cargo"))
    with open(os.path.join(d, ".cargo", "config.toml"), "w") as fh:
        fh.write("[net]\noffline = true\n")
    for rel, hfile in hook["append"].items():
        p = os.path.join(d, rel)
        if not os.path.exists(p):
            return {"name": name, "status": "undecided", "reason": "lost file " + rel, "obligations": 0, "violations": []}
        with open(p, "a") as fh:
            fh.write("\n" + open(os.path.join(VERIF, hfile)).read())
    env = dict(os.environ, CARGO_NET_OFFLINE="true")
    env.setdefault("CARGO_TARGET_DIR", os.environ.get("VX_KANI_TARGET", "/tmp/vx_kani_target"))
    cmd = ["cargo", "kani", "-Z", "unstable-options", "--harness", hook["filter"], "-j", str(hook["jobs"]),
           "--output-format", "terse"]
    try:
        p = subprocess.run(cmd, cwd=d, env=env, stdout=subprocess.PIPE, stderr=subprocess.STDOUT, text=True, timeout=2400)
        out = p.stdout
    except subprocess.TimeoutExpired as e:
        return {"name": name, "status": "undecided", "reason": "kani timeout", "obligations": 0, "violations": [],
                "cmd": " ".join(cmd)}
    summ = re.search(r"Complete - (\d+) successfully verified harnesses, (\d+) failures, (\d+) total", out)
    failed = re.findall(r"Verification failed for - (\S+)", out)
    res = {"name": name, "cmd": " ".join(cmd) + "   (in a scratch copy of /repo with kani/*.harness.rs appended)",
           "wall_s": round(time.time() - t0, 1), "backend": "kani 0.68 / cbmc (loop-free, full input domain: complete)",
           "harnesses": sorted(hook["harness_clause"]), "violations": []}
    if not summ:
        # compile error or tool failure: undecided, never an alarm
        tail = "\n".join(out.strip().split("\n")[-15:])
        res.update({"status": "undecided", "reason": "kani did not complete: " + tail[-600:], "obligations": 0})
        return res
    total = int(summ.group(3))
    if total != len(hook["harness_clause"]):
        res.update({"status": "undecided", "reason": "expected %d harnesses, kani ran %d" % (len(hook["harness_clause"]), total),
                    "obligations": 0})
        return res
    res["obligations"] = total
    res["checks_per_harness"] = re.findall(r"\*\* (\d+) of (\d+) failed", out)
    res["status"] = "ok" if not failed else "failed"
    for h in failed:
        short = h.split("::")[-1]
        cid = hook["harness_clause"].get(short, name + "." + short)
        # the verifier's counterexample
        cex = ""
        try:
            p2 = subprocess.run(["cargo", "kani", "-Z", "concrete-playback", "--concrete-playback=print", "--harness", h,
                                 "--output-format", "terse"], cwd=d, env=env, stdout=subprocess.PIPE,
                                stderr=subprocess.STDOUT, text=True, timeout=900)
            m = re.search(r"Concrete playback unit test.*?```(.*?)```", p2.stdout, re.S)
            cex = m.group(1) if m else "\n".join(p2.stdout.split("\n")[-40:])
        except Exception as e:  # noqa
            cex = "concrete playback not available: %s" % e
        fail_lines = "\n".join(l for l in out.split("\n") if "Failed Checks" in l or "File:" in l)[:2000]
        v = {"clause": cid, "fn": "src/contracts.rs :: ContractWrapper" if name == "contract_wrapper" else "src/prefixed_storage/length_prefixed.rs :: encode_length",
             "text": "kani harness " + h,
             "diag": {"msg": "kani: VERIFICATION FAILED for harness " + h, "rendered": fail_lines, "src": []},
             "replay_extra": "kani counterexample (concrete playback):\n" + cex}
        # replay on the real code through the public API
        if hook.get("replay"):
            ok, log = replay_public(d, env, os.path.join(VERIF, hook["replay"]), short)
            v["replay_extra"] += "\n\nreplay on the real code (cargo test, public API):\n" + log
            v["has_input"] = ok
        res["violations"].append(v)
    return res


def replay_public(d, env, test_file, which):
    """Runs the replay test `which` from test_file against the scratch copy (real code + harness under cfg(kani),
    which cargo test does not compile). Returns (reproduced, log)."""
    try:
        os.makedirs(os.path.join(d, "tests"), exist_ok=True)
        shutil.copy(test_file, os.path.join(d, "tests", "vx_replay.rs"))
        env2 = dict(env)
        env2["CARGO_TARGET_DIR"] = os.environ.get("VX_REPLAY_TARGET", "/tmp/vx_replay_target")
        p = subprocess.run(["cargo", "test", "--offline", "--test", "vx_replay", which], cwd=d, env=env2,
                           stdout=subprocess.PIPE, stderr=subprocess.STDOUT, text=True, timeout=1200)
        failed = re.search(r"test result: FAILED", p.stdout) is not None
        lines = [l for l in p.stdout.split("\n") if l.startswith("test ") or "panicked" in l or "assertion" in l]
        return failed, "\n".join(lines[:20])
    except Exception as e:  # noqa
        return False, "replay could not run: %s" % e
