#!/usr/bin/env python3
"""setup_cmd: checks that the tools needed by the checks are present and that the pipeline detects a
deliberately broken body (negative control on extracted text; /repo is not touched)."""
import shutil, subprocess, sys
ok = True
for tool in ("verus", "python3"):
    if shutil.which(tool) is None:
        print("missing tool:", tool); ok = False
try:
    out = subprocess.run(["verus", "--version"], stdout=subprocess.PIPE, stderr=subprocess.STDOUT, text=True, timeout=60).stdout
    print(out.strip().split("\n")[1] if "\n" in out else out.strip())
except Exception as e:
    print("verus not runnable:", e); ok = False
sys.exit(0 if ok else 1)
