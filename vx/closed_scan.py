"""C19 closedness scan: the simulator's non-test code must not read or write anything outside App{router, api,
storage, block}: no process-wide or thread-local mutable state, no clock, no randomness, no environment, and no
iteration over randomly seeded hash containers.  A syntactic obligation (like the divergence check): it is decided by
this scanner, not by the SMT solver, and is reported as clause C19.closed."""
import os
import re
from rsrc import mask, Src, items_in

PATTERNS = [
    (r"\bstatic\s+mut\b", "static mut"),
    (r"\bstatic\s+\w+\s*:\s*[^=;]*\b(Mutex|RwLock|RefCell|Cell|OnceCell|OnceLock|LazyLock|Lazy|Atomic\w+)\b", "interior-mutable static"),
    (r"\bthread_local!\s*[\{\(]", "thread_local!"),
    (r"\blazy_static!\s*[\{\(]", "lazy_static!"),
    (r"\bSystemTime\b", "SystemTime (wall clock)"),
    (r"\bInstant\s*::\s*now\b", "Instant::now (clock)"),
    (r"\brand\s*::|\bthread_rng\b|\bOsRng\b|\bgetrandom\b", "randomness"),
    (r"\bstd\s*::\s*env\b|\benv\s*::\s*var\b", "process environment"),
    (r"\bstd\s*::\s*process\s*::\s*id\b", "process id"),
]
HASH_DECL = re.compile(r"\b(HashMap|HashSet)\b")
HASH_ITER = re.compile(r"\.\s*(iter|iter_mut|into_iter|keys|values|values_mut|into_keys|into_values|drain)\s*\(|\bfor\b[^;{]*\bin\b")


def non_test_text(src):
    """masked text with #[cfg(test)] modules and src/tests, src/test_helpers removed"""
    m = src.m
    out = m
    for mm in re.finditer(r"#\[cfg\(test\)\]\s*(pub\s+)?mod\s+\w+\s*\{", m):
        b = m.index("{", mm.start())
        depth, j = 0, b
        while j < len(m):
            if m[j] == "{":
                depth += 1
            elif m[j] == "}":
                depth -= 1
                if depth == 0:
                    break
            j += 1
        out = out[:mm.start()] + re.sub(r"[^\n]", " ", out[mm.start():j + 1]) + out[j + 1:]
    return out


def scan(repo):
    hits = []
    files = 0
    for root, dirs, fs in os.walk(os.path.join(repo, "src")):
        rel_root = os.path.relpath(root, repo)
        if rel_root.startswith(os.path.join("src", "tests")) or rel_root.startswith(os.path.join("src", "test_helpers")):
            continue
        for f in sorted(fs):
            if not f.endswith(".rs"):
                continue
            p = os.path.join(root, f)
            src = Src(p)
            files += 1
            txt = non_test_text(src)
            rel = os.path.relpath(p, repo)
            for rx, what in PATTERNS:
                for mm in re.finditer(rx, txt):
                    hits.append({"file": rel, "line": txt.count("\n", 0, mm.start()) + 1, "what": what,
                                 "text": src.text.split("\n")[txt.count("\n", 0, mm.start())].strip()[:160]})
            if HASH_DECL.search(txt):
                # a hash container is only a problem when it is iterated (random seed => order differs between apps)
                lines = txt.split("\n")
                for k, ln in enumerate(lines):
                    if HASH_DECL.search(ln):
                        # look for iteration in the enclosing 40 lines
                        window = "\n".join(lines[k:k + 40])
                        if HASH_ITER.search(window):
                            hits.append({"file": rel, "line": k + 1, "what": "iteration over HashMap/HashSet (randomly seeded order)",
                                         "text": src.text.split("\n")[k].strip()[:160]})
                            break
    return files, hits
