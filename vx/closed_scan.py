"""C19 closedness scan: the simulator's non-test code must not read or write anything outside App{router, api,
storage, block}: no process-wide or thread-local mutable state, no clock, no randomness, no environment, and no
iteration over randomly seeded hash containers.  A syntactic obligation (like the divergence check): it is decided by
this scanner, not by the SMT solver, and is reported as clause C19.closed."""
import os
import re
from rsrc import mask, Src, items_in

PATTERNS = [
    (r"\bstatic\s+mut\b", "static mut"),
    # any `static` whose declared type is not plainly immutable data (a string / byte slice, a number, a bool, a byte
    # array): interior mutability can hide behind a user-defined wrapper type
    (r"\bstatic\s+(?!mut\b)\w+\s*:\s*(?!&(?:'static\s+)?(?:str|\[u8\])\s*=|(?:u8|u16|u32|u64|u128|usize|i8|i16|i32|i64|i128|isize|bool|char|f32|f64)\s*=|\[(?:u8|u16|u32|u64)\s*;[^\]]*\]\s*=)", "static item of a type that may hold mutable state"),
    (r"\bthread_local!\s*[\{\(]", "thread_local!"),
    (r"\blazy_static!\s*[\{\(]", "lazy_static!"),
    (r"\bSystemTime\b|\bUNIX_EPOCH\b", "SystemTime / UNIX_EPOCH (wall clock)"),
    (r"\bInstant\b", "Instant (clock)"),
    (r"\brand\s*::|\bthread_rng\b|\bOsRng\b|\bgetrandom\b", "randomness"),
    (r"\bRandomState\b|\bDefaultHasher\b|\bhash_one\b", "randomly seeded hasher"),
    (r"\bstd\s*::\s*env\b|\benv\s*::\s*var\b", "process environment"),
    (r"\bstd\s*::\s*process\s*::\s*id\b", "process id"),
    (r"\bstd\s*::\s*fs\b|\bFile\s*::\s*(open|create)\b|\bstd\s*::\s*net\b|\bstdin\s*\(", "file / network / console input"),
    (r"\bthread\s*::\s*current\b|\bThreadId\b", "thread identity"),
    (r"\bas\s+\*(const|mut)\b|\{:p\}|\baddr_of(_mut)?!|\b(Rc|Arc)\s*::\s*as_ptr\b", "address of an object used as data"),
]
HASH_DECL = re.compile(r"\b(HashMap|HashSet)\b")
HASH_ITER = re.compile(r"\.\s*(iter|iter_mut|into_iter|keys|values|values_mut|into_keys|into_values|drain)\s*\(|\bfor\b[^;{]*\bin\b")


def non_test_text(src):
    """masked text with #[cfg(test)] modules and src/tests, src/test_helpers removed"""
    m = src.m
    out = m
    for mm in re.finditer(r"#\[cfg\(test\)\]\s*(pub\s+)?mod\s+\w+\s*\{", m):
        b = m.index("{", mm.start())
        depth, j = 0, b
        while j < len(m):
            if m[j] == "{":
                depth += 1
            elif m[j] == "}":
                depth -= 1
                if depth == 0:
                    break
            j += 1
        out = out[:mm.start()] + re.sub(r"[^\n]", " ", out[mm.start():j + 1]) + out[j + 1:]
    return out


def scan(repo):
    hits = []
    files = 0
    for root, dirs, fs in os.walk(os.path.join(repo, "src")):
        rel_root = os.path.relpath(root, repo)
        if rel_root.startswith(os.path.join("src", "tests")) or rel_root.startswith(os.path.join("src", "test_helpers")):
            continue
        for f in sorted(fs):
            if not f.endswith(".rs"):
                continue
            p = os.path.join(root, f)
            src = Src(p)
            files += 1
            txt = non_test_text(src)
            rel = os.path.relpath(p, repo)
            for rx, what in PATTERNS:
                for mm in re.finditer(rx, txt):
                    hits.append({"file": rel, "line": txt.count("\n", 0, mm.start()) + 1, "what": what,
                                 "text": src.text.split("\n")[txt.count("\n", 0, mm.start())].strip()[:160]})
            if HASH_DECL.search(txt):
                # a hash container is only a problem when it is iterated (random seed => order differs between apps):
                # names declared with a hash type anywhere in the file (fields, locals, parameters), iterated anywhere
                names = set(re.findall(r"\b(\w+)\s*:\s*(?:&\s*(?:mut\s+)?)?(?:std\s*::\s*collections\s*::\s*)?Hash(?:Map|Set)\b", txt))
                names |= set(re.findall(r"\blet\s+(?:mut\s+)?(\w+)\s*(?::[^=;]*)?=\s*(?:std\s*::\s*collections\s*::\s*)?Hash(?:Map|Set)\s*::", txt))
                names |= set(re.findall(r"\blet\s+(?:mut\s+)?(\w+)\s*:\s*[^=;]*\bHash(?:Map|Set)\b", txt))
                lines = txt.split("\n")
                done = False
                for nm in sorted(names):
                    it = re.compile(r"\b%s\b\s*\.\s*(iter|iter_mut|into_iter|keys|values|values_mut|into_keys|into_values|drain)\s*\(|\bfor\b[^;{]*\bin\b[^;{]*\b%s\b" % (re.escape(nm), re.escape(nm)))
                    mm = it.search(txt)     # over the whole text: `name` and `.into_iter()` may sit on different lines
                    if mm:
                        k = txt.count("\n", 0, mm.start())
                        hits.append({"file": rel, "line": k + 1, "what": "iteration over the HashMap/HashSet `%s` (randomly seeded order)" % nm,
                                     "text": src.text.split("\n")[k].strip()[:160]})
                        done = True
                        break
                if not done:
                    # the hash container is built and consumed in one expression (no name): collect::<HashSet<_>>().into_iter() etc.
                    for k, ln in enumerate(lines):
                        if HASH_DECL.search(ln) and HASH_ITER.search(ln):
                            hits.append({"file": rel, "line": k + 1, "what": "iteration over a HashMap/HashSet (randomly seeded order)",
                                         "text": src.text.split("\n")[k].strip()[:160]})
                            break
    return files, hits
