#!/bin/sh
# usage: vx/mutest.sh <patch-file> <property>...   -- apply patch to a scratch copy of /repo/src, run checks there
set -e
P="$1"; shift
D=$(mktemp -d /tmp/vxmut.XXXXXX)
mkdir -p $D/repo && cp -r /repo/src $D/repo/src && cp /repo/Cargo.toml /repo/Cargo.lock $D/repo/ 2>/dev/null || true
(cd $D/repo && patch -p1 -s < "$P")
rc=0
for pid in "$@"; do VX_REPO=$D/repo VX_EVIDENCE_DIR=$D/ev VX_REPLAY_DIR=$D/rp python3 /verif/vx/vx.py check $pid || rc=$?; done
rm -rf $D
exit $rc
