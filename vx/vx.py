#!/usr/bin/env python3
"""vx -- contract-based deductive verification driver for cw-multi-test.

  vx.py gen   <group>                 assemble a group, print the path of the generated file
  vx.py dev   <group> [verus args]    assemble + verify, print mapped diagnostics (developer loop)
  vx.py check <property> [--tier quick|thorough] [--replay path]
  vx.py all   [--tier ..]             run every claimed property (used by setup / development)

Exit codes of `check`: 0 = every obligation of the property discharged, 1 = VIOLATION line(s) printed,
2 = undecided (never an alarm)."""
import json
import os
import re
import shutil
import subprocess
import sys
import tempfile
import time
import hashlib
from concurrent.futures import ThreadPoolExecutor
from rsrc import find_item

HERE = os.path.dirname(os.path.abspath(__file__))
sys.path.insert(0, HERE)
from assemble import Group, Undecided, VERIF, REPO  # noqa: E402

VERUS = os.environ.get("VX_VERUS", "verus")
SCRATCH_ROOT = os.environ.get("VX_SCRATCH", os.environ.get("TMPDIR", "/tmp"))


def load_props():
    cfg = json.load(open(os.path.join(VERIF, "vx", "properties.json")))
    return cfg


def scratch_dir():
    d = tempfile.mkdtemp(prefix="vx.", dir=SCRATCH_ROOT)
    return d


def run_verus(path, rlimit=30, extra=None, timeout=1500):
    cmd = [VERUS, path, "--output-json", "--time", "--multiple-errors", "20", "--rlimit", str(rlimit),
           "--triggers-mode", "silent"]
    if extra:
        cmd += extra
    cmd += ["--", "--error-format=json"]
    t0 = time.time()
    try:
        p = subprocess.run(cmd, stdout=subprocess.PIPE, stderr=subprocess.PIPE, text=True, timeout=timeout,
                           cwd=os.path.dirname(path))
        out, err, rc = p.stdout, p.stderr, p.returncode
    except subprocess.TimeoutExpired as e:
        out, err, rc = (e.stdout or ""), (e.stderr or ""), -9
        if isinstance(out, bytes):
            out = out.decode(errors="replace")
        if isinstance(err, bytes):
            err = err.decode(errors="replace")
    wall = time.time() - t0
    diags = []
    other = []
    for ln in err.split("\n"):
        ln = ln.strip()
        if ln.startswith("{"):
            try:
                diags.append(json.loads(ln))
                continue
            except Exception:
                pass
        if ln:
            other.append(ln)
    js = None
    try:
        js = json.loads(out[out.index("{"):]) if "{" in out else None
    except Exception:
        js = None
    return {"cmd": " ".join(cmd), "rc": rc, "diags": diags, "stderr_other": other, "json": js, "wall": wall}


HARD_ERR = re.compile(r"^(E\d+)$")


def classify(group, res):
    """Map verus diagnostics to failed clauses / body failures / tool errors."""
    fails = []     # dicts: clause (or None), fn, msg, rendered, where
    group.canary_failed = set()
    tool = []      # compile / unsupported errors
    gen_name = os.path.basename(group.gen_path)
    for d in res["diags"]:
        if d.get("level") != "error":
            continue
        msg = d.get("message", "")
        if msg.startswith("aborting due to"):
            continue
        code = (d.get("code") or {}).get("code") if d.get("code") else None
        spans = []
        for sp in d.get("spans", []):
            # follow macro expansions back to the call site in the generated file
            cur = sp
            for _ in range(8):
                if cur.get("file_name", "").endswith(gen_name):
                    break
                nxt = (cur.get("expansion") or {}).get("span")
                if not nxt:
                    break
                cur = nxt
            if cur.get("file_name", "").endswith(gen_name):
                if cur is not sp:
                    cur = dict(cur, is_primary=sp.get("is_primary"))
                spans.append(cur)
        is_vc = any(k in msg for k in ("postcondition not satisfied", "precondition not satisfied",
                                       "assertion failed", "invariant not satisfied", "possible arithmetic",
                                       "possible division", "decreases not satisfied", "unreachable",
                                       "might not be allowed", "possible bit shift", "cannot show",
                                       "failed to show", "could not prove", "loop invariant", "may underflow",
                                       "recommendation not met", "termination", "might fail",
                                       "index out of bounds", "constructed value may fail", "unable to prove", "fails to satisfy"))
        rl = ("Resource limit" in msg) or ("rlimit" in msg)
        if code or (not is_vc and not rl):
            hints = []
            for sp in spans:
                ln = sp.get("line_start", 0)
                if 1 <= ln <= len(group.out.map) and group.out.map[ln - 1]["kind"] == "hint":
                    hints.append(group.out.map[ln - 1]["hint"])
                elif 1 <= ln <= len(group.out.map) and group.out.map[ln - 1].get("opt"):
                    hints.append(group.out.map[ln - 1]["opt"])
            unsize = None
            if "unsizing operation from `&mut " in msg and "to `&mut dyn Storage`" in msg:
                for sp in spans:
                    if sp.get("is_primary") and sp.get("line_start") == sp.get("line_end"):
                        tm = re.search(r"from `&mut ([A-Za-z_0-9]+)", msg)
                        unsize = (sp["line_start"], sp["column_start"], sp["column_end"], tm.group(1) if tm else "")
            havoc = None
            if " is not supported" in msg and "assume_specification" in msg:
                hm = re.search(r"may resolve this error:\s*(pub assume_specification.*?;)", d.get("rendered", ""), re.S)
                if hm:
                    havoc = " ".join(hm.group(1).split())
                    havoc = havoc.replace("std::str::<impl str>::", "str::").replace("std::slice::<impl [T]>::", "<[T]>::")
            in_src = any(1 <= sp.get("line_start", 0) <= len(group.out.map) and group.out.map[sp["line_start"] - 1]["kind"] == "src" for sp in spans)
            tool.append({"msg": msg, "rendered": d.get("rendered", "")[:2000], "hints": hints, "unsize": unsize, "havoc": havoc, "in_src": in_src})
            continue
        hit_clauses, hit_src, hit_tmpl = [], [], []
        canary_hit = False
        for s in spans:
            ln = s.get("line_start", 0)
            if 1 <= ln <= len(group.out.map) and group.out.map[ln - 1]["kind"] == "canary":
                group.canary_failed.add(group.out.map[ln - 1]["name"])
                canary_hit = True
        if canary_hit:
            continue   # expected failure of a vacuity canary
        for s in spans:
            ln = s.get("line_start", 0)
            if 1 <= ln <= len(group.out.map):
                info = group.out.map[ln - 1]
                if info["kind"] == "clause":
                    hit_clauses.append(info["id"])
                elif info["kind"] in ("src", "hint"):
                    le = max(ln, min(s.get("line_end", ln), ln + 12))
                    hit_src.append(dict(info, gen_line=ln, gen_text=" ".join(x.strip() for x in group.out.lines[ln - 1:le])))
                else:
                    hit_tmpl.append(info)
        fails.append({"msg": msg, "rlimit": rl, "clauses": hit_clauses, "src": hit_src, "tmpl": hit_tmpl,
                      "rendered": d.get("rendered", "")[:3000]})
    return fails, tool


def assemble(gname, scratch, disabled_hints=None, extra_items=None):
    g = Group(gname, disabled_hints=disabled_hints, extra_items=extra_items)
    g.process()
    text = g.finish()
    g.gen_path = os.path.join(scratch, gname + ".rs")
    with open(g.gen_path, "w") as f:
        f.write(text)
    g.gen_text = text
    return g


def scan_assumptions(g):
    """List every trusted item in the generated file."""
    res = []
    lines = g.gen_text.split("\n")
    for k, ln in enumerate(lines):
        for pat, what in ((r"#\[verifier::external_body\]", "external_body"),
                          (r"\bassume_specification\b", "assume_specification"),
                          (r"\bassume\s*\(", "assume"), (r"\badmit\s*\(", "admit"),
                          (r"#\[verifier::external", "external"),
                          (r"exec_allows_no_decreases_clause", "no_decreases"),
                          (r"\buninterp\s+spec\s+fn", "uninterp"),
                          (r"\baxiom\b|broadcast\s+axiom", "axiom")):
            if re.search(pat, ln):
                # name: next 'fn NAME' / 'struct NAME' on this or following lines
                name = ""
                for kk in range(k, min(k + 6, len(lines))):
                    mm = re.search(r"\b(?:fn|struct|enum|type)\s+(\w+)|\[\s*([^\]]+)\s*\]\s*\(", lines[kk])
                    if mm:
                        name = mm.group(1) or mm.group(2)
                        break
                info = g.out.map[k]
                res.append({"what": what, "name": name.strip(), "gen_line": k + 1, "kind": info["kind"],
                            "origin": "%s:%s" % (info.get("file", "?"), info.get("line", "?"))})
                break
    return res


def verify_group(gname, scratch, rlimit=30):
    """Assemble and verify one group. Returns dict."""
    t0 = time.time()
    disabled = set()
    extra_items = []
    for _round in range(8):
        try:
            g = assemble(gname, scratch, disabled, extra_items)
        except Undecided as e:
            return {"group": gname, "status": "undecided", "reason": str(e), "wall": time.time() - t0}
        except Exception as e:   # a text the extractor cannot take apart is a tool limit, never an alarm
            return {"group": gname, "status": "undecided", "reason": "extractor could not process the current source (%s: %s)" % (type(e).__name__, str(e)[:200]), "wall": time.time() - t0}
        res = run_verus(g.gen_path, rlimit=rlimit)
        fails, tool = classify(g, res)
        # rule R3 applied where the verifier asks for it: `&mut T -> &mut dyn Storage` unsizing is not supported by
        # Verus; the expression at the reported span is wrapped in the identity shim as_dyn_mut(..) and the run repeated
        for _r3 in range(6):
            uns = [t for t in tool if t.get("unsize")]
            if not uns or len(uns) != len(tool):
                break
            text = g.gen_text
            lines = text.split("\n")
            edits = sorted(set((u["unsize"][0], u["unsize"][1], u["unsize"][2], u["unsize"][3]) for u in uns), reverse=True)
            for (ln, c0, c1, styp) in edits:
                L = lines[ln - 1]
                expr = L[c0 - 1:c1 - 1]
                shim = {"PrefixedStorage": "ps_as_dyn_mut", "StorageTransaction": "tx_as_dyn_mut"}.get(styp, "as_dyn_mut")
                lines[ln - 1] = L[:c0 - 1] + shim + "(" + expr + ")" + L[c1 - 1:]
                g.rewrites.append({"rule": "R3-auto", "item": g.out.map[ln - 1].get("fn", ""), "expr": expr})
            g.gen_text = "\n".join(lines)
            with open(g.gen_path, "w") as fh:
                fh.write(g.gen_text)
            res = run_verus(g.gen_path, rlimit=rlimit)
            fails, tool = classify(g, res)
        # std functions without a Verus specification that appear in extracted repo code: Verus prints the
        # assume_specification it wants; it is added WITHOUT any ensures (the result is arbitrary), so everything that
        # depends on the call has to be proved without knowing what it returns.  Recorded in the evidence.
        for _hv in range(4):
            hv = [t for t in tool if t.get("havoc") and t.get("in_src")]
            if not hv or len(hv) != len(tool):
                break
            decls = sorted(set(t["havoc"] for t in hv))
            text = g.gen_text
            k = text.rindex("} // verus!")
            add = "".join("// unspecified std function (result arbitrary)\n" + d + "\n" for d in decls)
            g.gen_text = text[:k] + add + text[k:]
            g.havoc = getattr(g, "havoc", []) + decls
            nl = add.count("\n")
            idx = g.gen_text[:k].count("\n")
            g.out.map[idx:idx] = [{"kind": "tmpl", "file": "generated:havoc", "line": 0}] * nl
            with open(g.gen_path, "w") as fh:
                fh.write(g.gen_text)
            res = run_verus(g.gen_path, rlimit=rlimit)
            fails, tool = classify(g, res)
        # a constant of the repo that (changed) code refers to but no contract names is pulled in from the files this
        # group extracts from, and the run repeated
        added = False
        for t in tool:
            mm = re.search(r"cannot find value `(\w+)` in this scope", t["msg"])
            if mm and t.get("in_src"):
                nm = mm.group(1)
                for relf, src in list(g.srcs.items()):
                    try:
                        it = find_item(src, "const " + nm)
                    except LookupError:
                        continue
                    if (relf, "const " + nm) not in extra_items:
                        extra_items.append((relf, "const " + nm))
                        added = True
                    break
        if added:
            continue
        # proof hints that no longer type-check on this tree are dropped and the rest is verified without them
        bad = set(h for t in tool for h in t.get("hints", []))
        if tool and bad and not bad <= disabled:
            if os.environ.get("VX_SHOW_DROPPED"):
                for t in tool:
                    if t.get("hints"):
                        print("DROPPED HINT:", t["hints"], "\n", t["rendered"][:1500])
            disabled |= bad
            continue
        break
    # retry once with a larger rlimit on resource-limit failures
    if any(f["rlimit"] for f in fails) and not tool:
        res = run_verus(g.gen_path, rlimit=rlimit * 4)
        fails, tool = classify(g, res)
    status = "ok"
    reason = ""
    if tool:
        status, reason = "undecided", "verus rejected the generated text: " + tool[0]["msg"]
    elif res["json"] is None:
        status, reason = "undecided", "no verus json output (rc=%s) %s" % (res["rc"], " | ".join(res["stderr_other"][:3]))
    elif any(f["rlimit"] for f in fails):
        status, reason = "undecided", "resource limit"
    elif fails:
        status = "failed"
    elif not res["json"]["verification-results"]["success"] and not g.canaries:
        status, reason = "undecided", "verus reports failure without a mapped diagnostic"
    if status in ("ok", "failed") and set(g.canaries) - g.canary_failed:
        status, reason = "undecided", "vacuity canary verified (assumptions inconsistent?): %s" % sorted(set(g.canaries) - g.canary_failed)
    assumptions = scan_assumptions(g)
    forbidden = [a for a in assumptions if a["what"] in ("assume", "admit") and a["kind"] == "src"]
    if forbidden:
        status, reason = "undecided", "assume/admit inside extracted repo code"
    return {"group": gname, "status": status, "reason": reason, "g": g, "res": res, "fails": fails, "tool": tool,
            "assumptions": assumptions, "wall": time.time() - t0}


# ---------------------------------------------------------------------------------------------- dev

def cmd_dev(args):
    gname = args[0]
    keep = os.path.join(SCRATCH_ROOT, "vxdev")
    os.makedirs(keep, exist_ok=True)
    r = verify_group(gname, keep)
    if "g" not in r:
        print("UNDECIDED:", r.get("reason"))
        return 2
    g, res, fails, tool = r["g"], r["res"], r["fails"], r["tool"]
    print("generated", g.gen_path, "lines", len(g.out.lines), "clauses", len(g.clauses), "fns", len(g.functions), "status", r["status"], r["reason"])
    if g.lost:
        print("lost anchors:", g.lost)
    auto = [x for x in g.rewrites if x.get("rule") == "R3-auto"]
    if auto:
        print("auto R3:", [(x["item"].split("::")[-1].strip(), x["expr"]) for x in auto])
    if getattr(g, "havoc", None):
        print("unspecified std functions (havoc):", g.havoc)
    for t in tool:
        print("TOOL ERROR:", t["msg"])
        print(t["rendered"])
    for f in fails:
        print("FAIL:", f["msg"], "clauses=", f["clauses"], "src=", [(s["file"], s["line"], s["fn"]) for s in f["src"]][:3],
              "tmpl=", [(s["file"], s["line"]) for s in f["tmpl"]][:3])
        print(f["rendered"])
    for o in res["stderr_other"][:20]:
        print("stderr:", o)
    if res["json"]:
        vr = res["json"]["verification-results"]
        print("verified", vr.get("verified"), "errors", vr.get("errors"), "success", vr.get("success"), "wall %.1fs" % res["wall"])
        try:
            for mod in res["json"]["times-ms"]["smt"]["smt-run-module-times"]:
                fb = sorted(mod.get("function-breakdown", []), key=lambda x: -x["time-micros"])[:8]
                for x in fb:
                    print("   %8.2fs rlimit=%s %s" % (x["time-micros"] / 1e6, x.get("rlimit"), x["function"]))
        except Exception:
            pass
    else:
        print("no json; rc", res["rc"])
    return 0


# ---------------------------------------------------------------------------------------------- check

def known_findings():
    p = os.path.join(VERIF, "known_findings.txt")
    out = []
    if os.path.exists(p):
        for ln in open(p):
            ln = ln.strip()
            if ln.startswith("finding:"):
                d = dict(re.findall(r"(\w+)=(\S+)", ln))
                d["line"] = ln
                out.append(d)
    return out


def cmd_check(args):
    pid = args[0]
    tier = os.environ.get("VERIF_TIER", "quick")
    replay = None
    i = 1
    while i < len(args):
        if args[i] == "--tier":
            tier = args[i + 1]
            i += 2
        elif args[i] == "--replay":
            replay = args[i + 1]
            i += 2
        else:
            i += 1
    if replay:
        print(open(replay).read())
        return 0
    seed = int(os.environ.get("VERIF_SEED", "0") or 0)
    cfg = load_props()
    if pid not in cfg["properties"]:
        print("property %s is not claimed (see MANIFEST.json not_applicable)" % pid)
        return 2
    pc = cfg["properties"][pid]
    groups = list(pc["groups"])
    if tier == "thorough":
        for g2 in pc.get("thorough_groups", []):
            if g2 not in groups:
                groups.append(g2)
    t0 = time.time()
    scratch = scratch_dir()
    try:
        rl = 30 if tier == "quick" else 120
        with ThreadPoolExecutor(max_workers=min(16, len(groups))) as ex:
            results = list(ex.map(lambda gn: verify_group(gn, scratch, rl), groups))
        extra_results = []
        if pc.get("closed_scan"):
            import closed_scan
            t1 = time.time()
            nfiles, hits = closed_scan.scan(REPO)
            er = {"name": "closed_scan", "cmd": "vx/closed_scan.py over %s/src (non-test code)" % REPO, "status": "ok" if not hits else "failed",
                  "obligations": 1, "files_scanned": nfiles, "wall_s": round(time.time() - t1, 2), "violations": []}
            if nfiles == 0:
                er.update({"status": "undecided", "reason": "no source files found", "obligations": 0})
            for h in hits[:5]:
                er["violations"].append({"clause": "C19.closed", "fn": "%s:%s" % (h["file"], h["line"]), "text": "no state outside App{router,api,storage,block}: " + h["what"],
                                         "diag": {"msg": "closedness scan: " + h["what"], "rendered": "%s:%s: %s" % (h["file"], h["line"], h["text"]), "src": []}})
            # one VIOLATION line per clause id is enough
            er["violations"] = er["violations"][:1]
            extra_results.append(er)
        EXTRA_EVIDENCE.clear()
        if tier == "thorough" and all(r["status"] in ("ok", "failed") for r in results):
            # (a group whose only failures are listed known findings has status "failed": its stability is not re-measured)
            EXTRA_EVIDENCE["proof_stability"] = proof_stability([r for r in results if r["status"] == "ok"], rl, seed)
            EXTRA_EVIDENCE["negative_controls"] = negative_controls(pid)
        hooks = list(pc.get("kani", [])) + (list(pc.get("thorough_kani", [])) if tier == "thorough" else [])
        for hook in hooks:
            import kani_driver
            extra_results.append(kani_driver.run(hook, scratch, tier))
        if tier == "thorough":
            # the trusted prelude is cross-checked against the real dependencies (a differential test, not a proof)
            import crosscheck_driver
            xr = crosscheck_driver.run(scratch)
            xr["obligations"] = 0
            xr["violations"] = []
            extra_results.append(xr)
        rc = report(pid, pc, tier, seed, results, extra_results, time.time() - t0)
    finally:
        shutil.rmtree(scratch, ignore_errors=True)
    return rc


EXTRA_EVIDENCE = {}


def proof_stability(results, rl, seed):
    """thorough tier: every group that verified is verified again under two other SMT random seeds; a proof that
    only goes through for one seed is brittle (reported, never an alarm)."""
    out = []
    def one(args):
        r, sd = args
        g = r["g"]
        res2 = run_verus(g.gen_path, rlimit=rl, extra=["--smt-option", "smt.random_seed=%d" % sd])
        fails2, tool2 = classify(g, res2)
        return {"group": g.name, "smt_random_seed": sd, "stable": not fails2 and not tool2,
                "failed": [f["msg"] for f in fails2][:3] + [t["msg"] for t in tool2][:2], "wall_s": round(res2.get("wall", 0), 1)}
    jobs = [(r, seed + k) for r in results for k in (1, 2)]
    with ThreadPoolExecutor(max_workers=8) as ex:
        out = list(ex.map(one, jobs))
    return out


def negative_controls(pid):
    """thorough tier: every stored seeded change of this property (seeded/<pid>-m*/patch.diff; each breaks the property
    while the repo's own suite stays green) is applied to a scratch copy and the quick check must report a violation."""
    sdir = os.path.join(VERIF, "seeded")
    seeds = sorted(d for d in os.listdir(sdir) if d.startswith(pid + "-") and os.path.exists(os.path.join(sdir, d, "patch.diff"))) if os.path.isdir(sdir) else []
    def one(sd):
        d = tempfile.mkdtemp(prefix="vxneg.")
        try:
            shutil.copytree(os.path.join(REPO, "src"), os.path.join(d, "repo", "src"))
            p = subprocess.run(["patch", "-p1", "-s", "-i", os.path.join(sdir, sd, "patch.diff")], cwd=os.path.join(d, "repo"),
                               stdout=subprocess.PIPE, stderr=subprocess.STDOUT)
            if p.returncode != 0:
                return {"seed": sd, "applied": False}
            env = dict(os.environ, VX_REPO=os.path.join(d, "repo"), VX_EVIDENCE_DIR=os.path.join(d, "ev"), VX_REPLAY_DIR=os.path.join(d, "rp"), VERIF_TIER="quick")
            r = subprocess.run([sys.executable, os.path.abspath(__file__), "check", pid, "--tier", "quick"], env=env, stdout=subprocess.PIPE, stderr=subprocess.STDOUT, text=True)
            return {"seed": sd, "applied": True, "detected": r.returncode == 1, "rc": r.returncode,
                    "obligations": sorted(set(re.findall(r"obligation=(\S+)", r.stdout)))[:4]}
        finally:
            shutil.rmtree(d, ignore_errors=True)
    with ThreadPoolExecutor(max_workers=3) as ex:
        return list(ex.map(one, seeds))


def clause_props(c):
    return c["props"]


def report(pid, pc, tier, seed, results, extra_results, wall):
    ev_path = os.path.join(os.environ.get("VX_EVIDENCE_DIR", os.path.join(VERIF, "evidence")), pid + ".json")
    os.makedirs(os.path.dirname(ev_path), exist_ok=True)
    undecided = [r for r in results if r["status"] == "undecided"]
    my_clauses = {}
    assumed_clauses = {}
    syn_fail = []
    fn_of_prop = set()
    functions, assumptions, rewrites, lost = [], [], [], []
    canaries, havocs = [], []
    per_fn_time = []
    verified_items = 0
    cmds = []
    spec_hashes = {}
    # supporting obligations: clauses written for another property that this property's mechanism rests on (e.g. the
    # rollback of a failed sub-message for the bank's "fails and changes nothing"); listed per property in
    # vx/properties.json under "also" as regular expressions over clause ids
    also = [re.compile(p) for p in pc.get("also", [])]
    for r in results:
        if "g" not in r:
            continue
        for cid, c in r["g"].clauses.items():
            if pid not in c["props"] and any(p.match(cid) for p in also):
                c["props"] = list(c["props"]) + [pid]
                c["supporting"] = True
    for r in results:
        if "g" not in r:
            continue
        g = r["g"]
        spec_hashes[g.name] = g.spec_hash.hexdigest()
        for cid, c in g.clauses.items():
            if pid in c["props"]:
                if c.get("assumed"):
                    assumed_clauses[cid] = dict(c, group=g.name)
                    continue
                my_clauses[cid] = dict(c, group=g.name)
                fn_of_prop.add(c["fn"])
                if c.get("syntactic") is False:
                    syn_fail.append(cid)
        for fn, pl in g.fn_props.items():
            if pid in pl:
                fn_of_prop.add(fn)
        cmds.append(r["res"]["cmd"])
        if r["res"]["json"]:
            verified_items += r["res"]["json"]["verification-results"].get("verified", 0)
            try:
                for mod in r["res"]["json"]["times-ms"]["smt"]["smt-run-module-times"]:
                    for x in mod.get("function-breakdown", []):
                        per_fn_time.append({"function": x["function"], "smt_s": round(x["time-micros"] / 1e6, 3),
                                            "rlimit": x.get("rlimit"), "group": g.name})
            except Exception:
                pass
    for r in results:
        if "g" not in r:
            continue
        g = r["g"]
        for f in g.functions:
            if f["path"] in fn_of_prop or f["kind"] == "item":
                functions.append(dict(f, group=g.name))
        for a in r["assumptions"]:
            assumptions.append("%s %s (%s, group %s)" % (a["what"], a["name"], a["origin"], g.name))
        rewrites += [dict(x, group=g.name) for x in g.rewrites if x.get("item") in fn_of_prop]
        canaries += [{"group": g.name, "canary": c, "failed_as_required": c in g.canary_failed} for c in g.canaries]
        havocs += [{"group": g.name, "decl": h} for h in getattr(g, "havoc", [])]
        lost += g.lost
    # ---- failures relevant to this property
    failed = {}   # clause id -> failure
    body_fail = []
    internal = []
    for r in results:
        if r["status"] != "failed":
            continue
        g = r["g"]
        # functions whose proof annotations (hints, closure / loop annotations) no longer attach to the code on this
        # tree: their proof could not be replayed, so a failure inside them is UNDECIDED (exit 2), never an alarm
        lost_fns = {}
        for l in g.lost:
            # only PROOF HINTS count here (a hint that could not be placed even by following the diff, or that no
            # longer type-checks).  A contract annotation whose construct is gone (a closure, a loop, a comparison
            # that no longer exists in that form) is different: the clauses that depended on it are checked without it
            # and reported if they fail (an obligation that held on the unchanged tree and now fails).
            if l.get("kind") == "hint":
                lost_fns.setdefault(l.get("where", ""), []).append(l.get("anchor", ""))
        def _lost(fn, what):
            if fn in lost_fns:
                undecided.append({"group": g.name, "reason": "proof annotations of %s no longer attach to the code (lost anchor %r): %s is not decided" % (fn, lost_fns[fn][0][:60], what)})
                return True
            return False
        for f in r["fails"]:
            if f["clauses"]:
                for cid in f["clauses"]:
                    if cid in g.clauses and pid in g.clauses[cid]["props"]:
                        if _lost(g.clauses[cid]["fn"], "clause " + cid) or any(_lost(x["fn"], "clause " + cid) for x in f["src"]):
                            continue
                        # a failed *assumed* clause is a precondition of a callee stub that a verified caller
                        # in this group does not establish: attribute it to the caller if it belongs to the property
                        if g.clauses[cid].get("assumed"):
                            callers = [x["fn"] for x in f["src"]]
                            if not any(c in fn_of_prop for c in callers):
                                continue
                        failed.setdefault(cid, f)
            elif f["src"] or f.get("hint_src"):
                fn = (f["src"] or f["hint_src"])[0]["fn"]
                if fn in fn_of_prop:
                    if _lost(fn, "an implicit obligation in its body"):
                        continue
                    body_fail.append((fn, f, g))
            else:
                internal.append((g.name, f))
    n_obl = len(my_clauses) + len([f for f in functions if f["kind"] == "fn"])
    violations = []
    allc = dict(assumed_clauses)
    allc.update(my_clauses)
    for cid, f in failed.items():
        violations.append({"clause": cid, "fn": allc[cid]["fn"], "text": allc[cid]["text"], "diag": f})
    for cid in syn_fail:
        if cid not in failed:
            violations.append({"clause": cid, "fn": my_clauses[cid]["fn"], "text": my_clauses[cid]["text"],
                               "diag": {"msg": "syntactic obligation failed: the body is not a single diverging macro call",
                                        "rendered": "", "src": []}})
    seen_body = set()
    for fn, f, g in body_fail:
        # one report per (function, source line); the text of the source line lets a known finding name exactly one
        # failing statement of a function (known_findings.txt: at=<substring of that line>)
        at_line, at_text = None, ""
        for sx in (f.get("src") or []):
            at_line = sx.get("gen_line")
            at_text = re.sub(r"/\*VX[A-Z]+ [^*]*\*/", "", sx.get("gen_text", "")).strip()[:240]
            break
        if (fn, at_line) in seen_body:
            continue
        seen_body.add((fn, at_line))
        violations.append({"clause": "%s.body(%s)" % (pid, fn.split("::")[-1].strip()), "fn": fn, "at": at_text,
                           "text": "implicit obligation (call precondition / assertion / overflow / bounds) in the body"
                                   + ((" at `%s`" % at_text) if at_text else ""),
                           "diag": f})
    kani_ev = []
    for er in extra_results:
        kani_ev.append({k: v for k, v in er.items() if k not in ("violations",)})
        if er.get("status") == "undecided":
            undecided.append({"group": "kani:" + er.get("name", ""), "reason": er.get("reason", "")})
        for v in er.get("violations", []):
            violations.append(v)
        n_obl += er.get("obligations", 0)
    status = "ok"
    rc = 0
    if undecided or internal:
        status, rc = "undecided", 2
    # known findings
    kf = known_findings()
    out_lines = []
    real = []
    known = []
    known_info = []
    for v in violations:
        k = [x for x in kf if x.get("property") == pid and x.get("clause") == v["clause"]
             and ("at" not in x or x["at"] in v.get("at", ""))]
        if k:
            out_lines.append("KNOWN-FINDING: property=%s %s" % (pid, re.sub(r"^property=\S+\s*", "", k[0]["line"][len("finding:"):].strip())))
            known.append({"clause": v["clause"], "at": v.get("at", ""), "finding": re.sub(r"^property=\S+\s*", "", k[0]["line"][len("finding:"):].strip())[:400]})
        else:
            real.append(v)
    # findings that no clause of the check detects (clause=-): demonstrated against the real code by the named replay
    # test, printed on every run for their property, suppressing nothing
    for x in kf:
        if x.get("property") == pid and x.get("clause") == "-":
            out_lines.append("KNOWN-FINDING: property=%s %s" % (pid, re.sub(r"^property=\S+\s*", "", x["line"][len("finding:"):].strip())))
            known_info.append(re.sub(r"^property=\S+\s*", "", x["line"][len("finding:"):].strip())[:400])
    if real:
        status, rc = "violation", 1
    # the obligations of the claim are those that have to hold: the clauses listed as known findings (failing, printed,
    # not repaired) are counted apart, under coverage.known_findings
    n_total = n_obl
    n_obl = n_total - len(known)
    n_dis = n_obl - len(real)
    for v in real:
        rdir = os.environ.get("VX_REPLAY_DIR", os.path.join(VERIF, "replay_out"))
        os.makedirs(rdir, exist_ok=True)
        safe = re.sub(r"[^A-Za-z0-9_.-]", "_", v["clause"])
        rp = os.path.join(rdir, "%s-%s.txt" % (pid, safe))
        with open(rp, "w") as fh:
            fh.write("property: %s\nfailed obligation: %s\nfunction: %s\nclause text: %s\n" % (pid, v["clause"], v["fn"], v["text"]))
            d = v["diag"]
            fh.write("verifier message: %s\n" % d.get("msg", ""))
            for s in d.get("src", [])[:5]:
                fh.write("source location: %s:%s (%s)\n" % (s["file"], s["line"], s["fn"]))
            fh.write("counterexample: none (the verifier gives no model) -- no-failing-input-found\n")
            fh.write("\n--- verifier output ---\n%s\n" % d.get("rendered", ""))
            if v.get("replay_extra"):
                fh.write("\n--- replay ---\n%s\n" % v["replay_extra"])
        tail = "" if v.get("has_input") else " no-failing-input-found"
        out_lines.append("VIOLATION property=%s replay=%s obligation=%s%s" % (pid, rp, v["clause"], tail))
    # vacuity guards
    if rc == 0 and (len(my_clauses) == 0 and not extra_results):
        status, rc = "undecided", 2
        undecided.append({"group": "-", "reason": "no clause of this property was generated (lost functions?)"})
    trusted = sorted(set(assumptions))
    ev = {
        "property_id": pid, "tier": tier, "seed": seed, "level": "proof",
        "coverage": {
            "obligations": n_obl, "discharged": max(n_dis, 0),
            "obligations_generated": n_total, "known_findings": known, "known_findings_not_detected_by_a_clause": known_info,
            "checker_cmd": " ; ".join(cmds + [e.get("cmd", "") for e in extra_results]),
            "trusted_base": trusted,
            "explanation": pc.get("explanation", ""),
            "backend": "verus 0.2026.09.13 / z3" + (" + kani 0.68 / cbmc" if any(e.get("name") in ("contract_wrapper", "encode_length") for e in extra_results) else "") + (" + cargo test (prelude cross-check, a differential test)" if any(e.get("name") == "prelude_crosscheck" for e in extra_results) else ""),
            "labelled_clauses": len(my_clauses),
            "supporting_clauses_of_other_properties": sorted(cid for cid, c in my_clauses.items() if c.get("supporting")),
            "verus_verified_items": verified_items,
            "functions_under_contract": functions,
            "per_function_smt": sorted(per_fn_time, key=lambda x: -x["smt_s"])[:40],
            "rewrites": rewrites[:200],
            "lost_optional_anchors": lost,
            "hints_reanchored_by_diff": [x for r0 in results if r0.get("g") is not None for x in getattr(r0["g"], "reanchored", [])],
            "vacuity_canaries": canaries,
            "unspecified_std_functions": havocs,
            "not_covered": pc.get("not_covered", []),
            "spec_sha256": spec_hashes,
            "kani": [k for k in kani_ev if k.get("name") != "prelude_crosscheck"],
            "prelude_crosscheck": [k for k in kani_ev if k.get("name") == "prelude_crosscheck"],
            "proof_stability": EXTRA_EVIDENCE.get("proof_stability", []),
            "negative_controls": EXTRA_EVIDENCE.get("negative_controls", []),
            "status": status,
            "undecided": [{"group": u.get("group"), "reason": u.get("reason")} for u in undecided],
            "samples": [{"clause": cid, "fn": c["fn"], "kind": c["kind"], "text": c["text"][:400]}
                        for cid, c in list(sorted(my_clauses.items()))[:12]],
        },
        "assumptions": list(pc.get("assumptions", [])) + trusted,
        "wall_s": round(wall, 2),
        "violations": len(real),
    }
    with open(ev_path, "w") as fh:
        json.dump(ev, fh, indent=1)
    for ln in out_lines:
        print(ln)
    if rc == 2:
        for u in undecided:
            print("UNDECIDED property=%s group=%s reason=%s" % (pid, u.get("group"), u.get("reason")))
        for gname, f in internal:
            print("UNDECIDED property=%s group=%s internal lemma/spec failure: %s" % (pid, gname, f["msg"]))
            print(f["rendered"])
    print("%s: %s  obligations=%d discharged=%d clauses=%d functions=%d wall=%.1fs" % (
        pid, status.upper(), n_obl, max(n_dis, 0), len(my_clauses), len([f for f in functions if f['kind'] == 'fn']), wall))
    return rc


def cmd_all(args):
    cfg = load_props()
    rc_all = 0
    for pid in sorted(cfg["properties"]):
        rc = cmd_check([pid] + args)
        rc_all = max(rc_all, rc)
    return rc_all


def main():
    if len(sys.argv) < 2:
        print(__doc__)
        return 2
    cmd, args = sys.argv[1], sys.argv[2:]
    if cmd == "gen":
        d = os.path.join(SCRATCH_ROOT, "vxdev")
        os.makedirs(d, exist_ok=True)
        g = assemble(args[0], d)
        print(g.gen_path)
        return 0
    if cmd == "dev":
        return cmd_dev(args)
    if cmd == "check":
        return cmd_check(args)
    if cmd == "all":
        return cmd_all(args)
    print(__doc__)
    return 2


def write_baseline():
    """VX_WRITE_BASELINE=1: record the text of every function under contract as it is on this tree (the tree the
    proofs were written against) in baseline/functions.json; lost hint anchors are later re-placed by a line diff
    against these texts."""
    import assemble as _a
    if not _a.BASELINE_OUT:
        return
    bp = os.path.join(VERIF, "baseline", "functions.json")
    os.makedirs(os.path.dirname(bp), exist_ok=True)
    cur = {}
    if os.path.exists(bp):
        cur = json.load(open(bp))
    cur.update(_a.BASELINE_OUT)
    json.dump(cur, open(bp, "w"), indent=0, sort_keys=True)
    print("baseline: %d function texts recorded in %s" % (len(cur), bp))


if __name__ == "__main__":
    rc = main()
    if os.environ.get("VX_WRITE_BASELINE"):
        write_baseline()
    sys.exit(rc)
