"""Group assembler: reads a group template (groups/*.rs), extracts the named items from /repo's
working tree, applies the logged rewrite rules, splices contracts and emits one Verus file plus a
line map (generated line -> clause id / source location / template location)."""
import json
import os
import re
import hashlib

from rsrc import (Src, find_item, items_in, resolve_cfg, strip_docs_and_attrs, mask, match_close,
                  find_body_open, match_angle)

VERIF = os.path.dirname(os.path.dirname(os.path.abspath(__file__)))
REPO = os.environ.get("VX_REPO", "/repo")
ALL_FEATURES = ["staking", "stargate", "cosmwasm_1_1", "cosmwasm_1_2", "cosmwasm_1_3", "cosmwasm_1_4",
                "cosmwasm_2_0", "cosmwasm_2_1", "cosmwasm_2_2"]


class Undecided(Exception):
    """The machinery cannot decide (lost function, unsupported construct). Never an alarm."""


class Out:
    def __init__(self):
        self.lines = []   # text lines
        self.map = []     # per line: dict(kind=.., ...)

    def emit(self, text, info):
        for ln in text.split("\n"):
            self.lines.append(ln)
            self.map.append(info)

    def emit_src(self, text, file, first_line, fn, extra=None):
        for k, ln in enumerate(text.split("\n")):
            self.lines.append(ln)
            d = {"kind": "src", "file": file, "line": first_line + k, "fn": fn}
            if extra:
                d.update(extra)
            self.map.append(d)


def parse_quoted_pair(arg):
    # "old" => "new"
    dec = json.JSONDecoder()
    arg = arg.strip()
    a, i = dec.raw_decode(arg)
    rest = arg[i:].strip()
    if not rest.startswith("=>"):
        raise ValueError("expected => in %r" % arg)
    b, _ = dec.raw_decode(rest[2:].strip())
    return a, b


def parse_quoted_then_text(arg):
    dec = json.JSONDecoder()
    arg = arg.strip()
    a, i = dec.raw_decode(arg)
    return a, arg[i:].strip()


def decode_bytes_literal(lit):
    """lit: the inside of b"..." (source text). Returns list of ints."""
    out = []
    i = 0
    while i < len(lit):
        c = lit[i]
        if c == "\\":
            n = lit[i + 1]
            if n == "x":
                out.append(int(lit[i + 2:i + 4], 16)); i += 4
            elif n == "n":
                out.append(10); i += 2
            elif n == "r":
                out.append(13); i += 2
            elif n == "t":
                out.append(9); i += 2
            elif n == "0":
                out.append(0); i += 2
            elif n in "\\\"'":
                out.append(ord(n)); i += 2
            else:
                raise ValueError("unsupported escape in byte string: " + lit)
        else:
            out += list(c.encode("utf-8")); i += 1
    return out


def publicise(text, is_item):
    """Rule R10: visibility normalisation (no runtime meaning): items, fields and inherent fns become `pub`."""
    m = mask(text)
    # leading visibility of the item/fn
    mm = re.match(r"\s*(?:#\[[^\]]*\]\s*)*", m)
    i = mm.end() if mm else 0
    vm = re.match(r"pub\s*\([^)]*\)\s*|pub\s+", m[i:])
    if vm:
        text = text[:i] + "pub " + text[i + vm.end():]
    else:
        text = text[:i] + "pub " + text[i:]
    if is_item and re.match(r"\s*(?:#\[[^\]]*\]\s*)*pub\s+struct\b", mask(text)):
        m = mask(text)
        b = m.find("{")
        if b >= 0:
            e = match_close(m, b)
            inner = text[b + 1:e]
            im = mask(inner)
            out, depth, k, start = [], 0, 0, True
            res = []
            last = 0
            # add pub to each field at depth 0: a field starts after '{' or after a ',' at depth 0
            pos = 0
            pieces = []
            d = 0
            seg_start = 0
            for idx, ch in enumerate(im):
                if ch in "([{<":
                    d += 1
                elif ch in ")]}>" and not (ch == ">" and idx > 0 and im[idx - 1] in "-="):
                    d -= 1
                elif ch == "," and d == 0:
                    pieces.append(inner[seg_start:idx + 1])
                    seg_start = idx + 1
            pieces.append(inner[seg_start:])
            newp = []
            for pc in pieces:
                fm = re.match(r"(\s*)(pub\s*\([^)]*\)\s*|pub\s+)?(\w+\s*:)", pc)
                if fm:
                    pc = fm.group(1) + "pub " + pc[fm.end(2) if fm.group(2) else fm.end(1):]
                newp.append(pc)
            text = text[:b + 1] + "".join(newp) + text[e:]
    return text


CLAUSE_RE = re.compile(r"^\[([A-Za-z0-9_.,\- ]+)\]\s*(.*)$", re.S)


def slice_match(text, scrut, keep, fn_id, log):
    m = mask(text)
    mm = re.search(r"\bmatch\s+" + re.escape(scrut) + r"\s*\{", m)
    if not mm:
        raise Undecided("lost match on %s in %s" % (scrut, fn_id))
    b0 = mm.end() - 1
    b1 = match_close(m, b0)
    out = []
    pos = b0 + 1
    dropped = 0
    while True:
        # skip whitespace / comments (masked as spaces)
        while pos < b1 and m[pos] in " \n\t,":
            pos += 1
        if pos >= b1:
            break
        # pattern up to `=>` at depth 0
        j = pos
        while j < b1:
            c = m[j]
            if c in "([{":
                j = match_close(m, j) + 1
                continue
            if m.startswith("=>", j):
                break
            j += 1
        pat = text[pos:j]
        k = j + 2
        while m[k] in " \n\t":
            k += 1
        if m[k] == "{":
            e = match_close(m, k) + 1
        else:
            e = k
            while e < b1:
                c = m[e]
                if c in "([{":
                    e = match_close(m, e) + 1
                    continue
                if c == ",":
                    break
                e += 1
        body = text[k:e]
        if any(re.search(r"\b" + re.escape(kv) + r"\b", pat) for kv in keep):
            out.append(text[pos:e])
        else:
            out.append(pat.rstrip() + " => { unreachable!() }")
            dropped += 1
        pos = e
    log.append({"rule": "slice-match", "scrutinee": scrut, "kept": keep, "arms_replaced_by_unreachable": dropped})
    return text[:b0 + 1] + "\n" + ",\n".join(out) + ",\n" + text[b1:]


BASELINE_OUT = {}


class Group:
    def __init__(self, name, features=None, disabled_hints=None, extra_items=None):
        self.name = name
        self.path = os.path.join(VERIF, "groups", name + ".rs")
        self.features = list(ALL_FEATURES) if features is None else features
        self.out = Out()
        self.clauses = {}      # id -> dict(text, kind, fn, props, gen_line)
        self.functions = []    # dicts: path, file, line, sha256, lines, fn_id
        self.rewrites = []     # log
        self.lost = []         # lost optional anchors
        self.global_rewrites = []  # (regex, repl)
        self.extra_items = list(extra_items or [])
        self.reanchored = []
        self.srcs = {}
        self.trusted = []      # names of assumed items (external_body / assume_specification) collected later
        self.spec_hash = hashlib.sha256()
        self.stub_mode = False
        self.canaries = []
        self.byte_consts = {}
        self.fn_props = {}
        self.disabled_hints = set(disabled_hints or [])
        self.hint_keys = []

    # ------------------------------------------------------------------ helpers
    def src(self, rel):
        if rel not in self.srcs:
            p = os.path.join(REPO, rel)
            if not os.path.exists(p):
                raise Undecided("lost file %s" % rel)
            self.srcs[rel] = Src(p)
        return self.srcs[rel]

    def locate(self, rel, path):
        try:
            return find_item(self.src(rel), path)
        except LookupError as e:
            raise Undecided("lost item %s :: %s (%s)" % (rel, path, e))

    def prep_text(self, text, log):
        text = resolve_cfg(text, self.features, log)
        text = strip_docs_and_attrs(text, log)
        # rule R19: fully qualified dependency / crate paths are shortened (the prelude mirrors the names at the root)
        new_text, n = re.subn(r"\b(?:cosmwasm_std|cw_storage_plus|cw_utils)::(?:testing::)?(?=[A-Za-z_])", "", text)
        if n:
            log.append({"rule": "R19-path", "count": n})
            text = new_text
        # rule R1: a closure parameter `_` gets a name (Verus: "only variables are supported here")
        def r1(mm):
            self._r1 = getattr(self, "_r1", 0)
            parts = [x.strip() for x in mm.group(1).split(",")]
            out = []
            for x in parts:
                if x == "_":
                    out.append("_vx%d" % self._r1)
                    self._r1 += 1
                else:
                    out.append(x)
            log.append({"rule": "R1-closure-underscore", "from": mm.group(0)})
            return "|" + ", ".join(out) + "|"
        text = re.sub(r"\|((?:\s*\w+\s*,)*\s*_\s*(?:,\s*\w+\s*)*)\|", r1, text)
        # rule R1b: a closure whose single parameter is a tuple pattern `|(a, _)| body` becomes
        # `|vx_pN| { let (a, _) = vx_pN; body }` (Verus: "only variables are supported here, not general patterns")
        while True:
            m = mask(text)
            mm = re.search(r"\|\((\s*(?:&?\s*(?:mut\s+)?\w+|_)\s*(?:,\s*(?:&?\s*(?:mut\s+)?\w+|_)\s*)+)\)\|", m)
            if not mm:
                break
            self._r1 = getattr(self, "_r1", 0)
            name = "vx_p%d" % self._r1
            self._r1 += 1
            pat = text[mm.start() + 1:mm.end() - 1]
            k = mm.end()
            while m[k] in " \n\t":
                k += 1
            if m[k] == "{":
                text = text[:mm.start()] + "|" + name + "|" + text[mm.end():k + 1] + " let " + pat + " = " + name + ";" + text[k + 1:]
            else:
                # expression body: up to the first `,` or unmatched closer at depth 0
                j, depth = k, 0
                while j < len(m):
                    c = m[j]
                    if c in "([{":
                        j = match_close(m, j)
                    elif c in ")]}" or (c == "," and depth == 0) or c == ";":
                        break
                    j += 1
                text = text[:mm.start()] + "|" + name + "| { let " + pat + " = " + name + "; " + text[k:j] + " }" + text[j:]
            log.append({"rule": "R1b-closure-tuple-pattern", "from": mm.group(0)})
        # rule R16: byte-string literals b"..." become generated constant functions whose contract states their
        # bytes (Verus does not know the contents of byte-string literals); the bytes are read from the source text
        while True:
            m = mask(text)
            # in the mask a string literal is `"   "` starting at the position of its prefix (b / r / br)
            pos = -1
            for qm in re.finditer(r'"', m):
                k = qm.start()
                if text[k] == "b" and text[k + 1:k + 2] == '"':
                    pos = k
                    break
            if pos < 0:
                break
            class _M:  # minimal match-like object
                def __init__(self, a): self.a = a
                def start(self): return self.a
            mm = _M(pos)
            q0 = pos + 1
            q1 = m.index('"', q0 + 1)
            lit = text[q0 + 1:q1]
            bs = decode_bytes_literal(lit)
            name = "vx_bytes_" + hashlib.sha256(lit.encode()).hexdigest()[:10]
            if name not in self.byte_consts:
                self.byte_consts[name] = (lit, bs)
            log.append({"rule": "R16-bytes-literal", "literal": lit})
            text = text[:mm.start()] + name + "()" + text[q1 + 1:]
        # rule R13: the message arguments of panic!/unimplemented!/unreachable! are dropped (payloads are opaque;
        # reaching the macro stays a proof obligation)
        while True:
            m = mask(text)
            mm = re.search(r"\b(panic|unimplemented|unreachable)!\(\s*[^)\s]", m)
            if not mm:
                break
            p0 = m.index("(", mm.start())
            p1 = match_close(m, p0)
            log.append({"rule": "R13-panic-args", "from": text[mm.start():p1 + 1][:120]})
            text = text[:p0 + 1] + text[p1:]
        for rx, rp, tag in self.global_rewrites:
            new, n = re.subn(rx, rp, text)
            if n:
                log.append({"rule": tag, "count": n, "regex": rx})
                text = new
        return text

    # ------------------------------------------------------------------ template
    def process(self, path=None, depth=0):
        path = path or self.path
        raw = open(path, encoding="utf-8").read()
        self.spec_hash.update(raw.encode())
        lines = raw.split("\n")
        rel = os.path.relpath(path, VERIF)
        i = 0
        while i < len(lines):
            ln = lines[i]
            st = ln.strip()
            if not st.startswith("//@"):
                if depth == 0 and st.startswith("} // verus!"):
                    # constants of the repo that changed code refers to but no contract names: pulled in on demand
                    for relf, ipath in self.extra_items:
                        try:
                            self.emit_item(relf, ipath, [], "auto-item", 0)
                            self.rewrites.append({"rule": "auto-item", "item": "%s::%s" % (relf, ipath)})
                        except Undecided:
                            pass
                self.out.emit(ln, {"kind": "tmpl", "file": rel, "line": i + 1})
                i += 1
                continue
            body = st[3:].strip()
            if body.startswith("include "):
                inc = os.path.join(VERIF, body[8:].strip())
                self.process(inc, depth + 1)
                i += 1
            elif body.startswith("include_stubs "):
                # same contract file, but every fn becomes a contract-only stub (callee seen by contract, rule R6)
                inc = os.path.join(VERIF, body[14:].strip())
                saved = self.stub_mode
                self.stub_mode = True
                self.process(inc, depth + 1)
                self.stub_mode = saved
                i += 1
            elif body.startswith("features:"):
                self.features = body[9:].split()
                i += 1
            elif body.startswith("rewrite "):
                tag, rest = body[8:].split(None, 1)
                a, b = parse_quoted_pair(rest)
                self.global_rewrites.append((a, b, tag))
                i += 1
            elif body.startswith("item! "):
                relf, ipath = [x.strip() for x in body[6:].split("::", 1)]
                self.emit_item(relf, ipath, [], rel, i + 1)
                i += 1
            elif body.startswith(("fn ", "fn? ", "item ", "impl_open ")):
                kind, rest = body.split(None, 1)
                relf, ipath = [x.strip() for x in rest.split("::", 1)]
                subs = []
                i += 1
                while i < len(lines):
                    s2 = lines[i].strip()
                    if not s2.startswith("//@"):
                        raise ValueError("%s:%d: unterminated block" % (rel, i + 1))
                    b2 = s2[3:].strip()
                    if b2 == "end":
                        break
                    if b2.startswith("|"):
                        subs[-1][1] += "\n" + b2[1:].rstrip()
                    else:
                        parts = b2.split(None, 1)
                        subs.append([parts[0], parts[1] if len(parts) > 1 else "", i + 1])
                    i += 1
                i += 1
                if kind == "fn?":
                    # optional helper: if it no longer exists its contract block is dropped (logged)
                    try:
                        self.locate(relf, ipath)
                    except Undecided as e:
                        self.lost.append({"where": "%s :: %s" % (relf, ipath), "anchor": "optional function missing"})
                        continue
                    self.emit_fn(relf, ipath, subs, rel)
                elif kind == "fn":
                    self.emit_fn(relf, ipath, subs, rel)
                elif kind == "item":
                    self.emit_item(relf, ipath, subs, rel, i)
                else:
                    self.emit_impl_open(relf, ipath, subs, rel)
            elif body.startswith("canary "):
                # vacuity guard: a proof fn that assumes the named facts and claims `false`; it MUST fail to verify
                name, cbody = body[7:].split(None, 1)
                self.canaries.append(name)
                self.out.emit("pub proof fn vx_canary_%s() ensures false { %s }" % (name, cbody),
                              {"kind": "canary", "name": name, "file": rel, "line": i + 1})
                i += 1
            elif body == "" or body.startswith("#"):
                i += 1
            else:
                raise ValueError("%s:%d: unknown directive %r" % (rel, i + 1, body))

    # ------------------------------------------------------------------ items
    def emit_item(self, relf, ipath, subs, tmpl, tline):
        it = self.locate(relf, ipath)
        log = []
        text = self.prep_text(it.text, log)
        for d, arg, dl in subs:
            text = self.apply_replace(d, arg, text, "%s::%s" % (relf, ipath), log)
        if ipath.startswith("const "):
            # elided lifetimes of reference-typed constants are 'static (Verus wants them written out)
            text2 = re.sub(r"(const\s+\w+\s*:\s*)&(?!\s*')", r"\1&'static ", text)
            if text2 != text:
                log.append({"rule": "const-static-lifetime"})
                text = text2
        text = publicise(text, True)
        log.append({"rule": "R10-visibility"})
        # a byte-string constant becomes an exec const whose contract states its bytes (taken from the source literal)
        cm = re.match(r"\s*pub const (\w+): &(?:'static )?\[u8\] = (vx_bytes_\w+)\(\);\s*$", text)
        if cm:
            lit, bs = self.byte_consts[cm.group(2)]
            seq = "seq![" + ", ".join("%du8" % b for b in bs) + "]" if bs else "Seq::<u8>::empty()"
            text = "pub exec const %s: &'static [u8] ensures %s@ == %s { %s() }" % (cm.group(1), cm.group(1), seq, cm.group(2))
            log.append({"rule": "R16-bytes-const", "name": cm.group(1)})
        for d, arg, dl in subs:
            if d == "exec_const":
                # `pub const N: T = E;` -> `pub exec const N: T ensures <contract> { E }`  (Verus consts are dual-mode;
                # an exec const may call exec functions; the initialiser expression stays the repo's)
                cm2 = re.match(r"\s*pub const (\w+): (.*?) = (.*);\s*$", text, re.S)
                if not cm2:
                    raise Undecided("exec_const: %s :: %s is not a plain const item" % (relf, ipath))
                text = "pub exec const %s: %s ensures %s { %s }" % (cm2.group(1), cm2.group(2), arg, cm2.group(3))
                log.append({"rule": "exec-const", "name": cm2.group(1)})
        for d, arg, dl in subs:
            if d == "attr":
                self.out.emit(arg, {"kind": "tmpl", "file": tmpl, "line": tline})
        self.rewrites += [dict(x, item="%s::%s" % (relf, ipath)) for x in log]
        self.out.emit_src(text, relf, it.line, ipath)
        self.functions.append({"path": "%s :: %s" % (relf, ipath), "kind": "item", "file": relf, "line": it.line,
                               "lines": it.text.count("\n") + 1,
                               "sha256": hashlib.sha256(it.text.encode()).hexdigest()})

    def emit_impl_open(self, relf, ipath, subs, tmpl):
        pick = [arg for d, arg, dl in subs if d == "pick"]
        if pick:
            fname = pick[0].split()[-1]
            try:
                f = find_item(self.src(relf), "%s :: %s" % (ipath, fname))
            except LookupError as e:
                raise Undecided("lost item %s :: %s :: %s (%s)" % (relf, ipath, fname, e))
            it = f.owner
        else:
            it = self.locate(relf, "impl " + ipath)
        log = []
        hdr = self.prep_text(it.header, log)
        for d, arg, dl in subs:
            hdr = self.apply_replace(d, arg, hdr, "%s::impl %s" % (relf, ipath), log)
        self.rewrites += [dict(x, item="%s::impl %s" % (relf, ipath)) for x in log]
        self.out.emit_src(hdr.rstrip() + " {", relf, it.line, "impl " + ipath)

    def apply_replace(self, d, arg, text, where, log):
        if d in ("replace_re", "replace_re?", "replace?"):
            # optional annotations are droppable: if the text they produce does not type-check on this tree the
            # annotation is disabled and the function is verified without it
            okey = "%s @ %s" % (where, parse_quoted_pair(arg)[0])
            if okey in self.disabled_hints:
                self.lost.append({"where": where, "anchor": parse_quoted_pair(arg)[0][:80], "why": "annotation does not type-check on this tree"})
                return text
        if d in ("replace_re", "replace_re?"):
            a, b = parse_quoted_pair(arg)
            if d.endswith("?"):
                self.hint_keys.append("%s @ %s" % (where, a))
                mk = "/*VXOPT %d*/" % (len(self.hint_keys) - 1)
                b = mk + b.replace("\n", "\n" + mk)
            new, n = re.subn(a, b, text, flags=re.S)
            if n == 0:
                if d.endswith("?"):
                    self.lost.append({"where": where, "anchor": a})
                    return text
                raise Undecided("lost pattern in %s: %r" % (where, a))
            log.append({"rule": "replace_re", "pattern": a, "to": b, "count": n})
            return new
        if d in ("replace", "replace?", "replace*"):
            a, b = parse_quoted_pair(arg)
            n = text.count(a)
            if n == 0:
                if d == "replace?":
                    self.lost.append({"where": where, "anchor": a})
                    return text
                if d == "replace*":
                    return text
                raise Undecided("lost anchor in %s: %r" % (where, a))
            if n > 1 and d != "replace*":
                raise Undecided("ambiguous anchor in %s: %r (%d)" % (where, a, n))
            log.append({"rule": "replace", "from": a, "to": b, "count": n})
            if d == "replace?":
                self.hint_keys.append("%s @ %s" % (where, a))
                mk = "/*VXOPT %d*/" % (len(self.hint_keys) - 1)
                b = mk + b.replace("\n", "\n" + mk)
            return text.replace(a, b)
        return text

    def add_clause(self, cid_text, kind, fn_id, expr):
        ids = [x.strip() for x in cid_text.split(",")]
        cid = ids[0]
        props = []
        for x in ids:
            p = x.split(".")[0]
            if re.match(r"^C\d+$", p) and p not in props:
                props.append(p)
        if cid in self.clauses:
            raise ValueError("duplicate clause id %s" % cid)
        self.clauses[cid] = {"kind": kind, "fn": fn_id, "props": props, "text": " ".join(expr.split()),
                             "assumed": bool(self.stub_mode)}
        return cid

    def emit_fn(self, relf, ipath, subs, tmpl):
        it = self.locate(relf, ipath)
        fn_id = "%s :: %s" % (relf, ipath)
        log = []
        raw = it.text
        if os.environ.get("VX_WRITE_BASELINE"):
            BASELINE_OUT[fn_id] = raw
        text = self.prep_text(raw, log)
        # --- collect directives
        ret = None
        reqs, enss, decs, attrs = [], [], [], []
        begin = []
        loops = {}
        drop_body = False
        diverges = None
        for d, arg, dl in subs:
            if d == "ret":
                ret = arg.strip()
            elif d == "requires":
                reqs.append(arg)
            elif d == "ensures":
                enss.append(arg)
            elif d == "decreases":
                decs.append(arg)
            elif d == "attr":
                attrs.append(arg)
            elif d == "props":
                self.fn_props.setdefault(fn_id, [])
                self.fn_props[fn_id] += [x.strip() for x in arg.split(",")]
            elif d == "no_decreases":
                attrs.append("#[verifier::exec_allows_no_decreases_clause]")
            elif d == "drop_body":
                drop_body = True
            elif d == "diverges":
                diverges = arg
                drop_body = True
            elif d == "begin":
                begin.append(arg)
            elif d == "loop":
                n, k, rest = arg.split(None, 2) if len(arg.split(None, 2)) == 3 else (arg.split(None, 2) + [""])[:3]
                loops.setdefault(int(n), []).append((k, rest))
            elif d in ("replace", "replace?", "replace*", "replace_re", "replace_re?"):
                text = self.apply_replace(d, arg, text, fn_id, log)
            elif d == "slice_match":
                # `slice_match <scrutinee> keep A|B`: arms of `match <scrutinee> {` whose pattern names none of the kept
                # variants get the body `unreachable!()`, which the verifier must PROVE unreachable from the function's
                # precondition (so the sliced function agrees with the real one wherever the precondition holds)
                scrut, _, keep = arg.partition(" keep ")
                text = slice_match(text, scrut.strip(), [k.strip() for k in keep.split("|")], fn_id, log)
            elif d in ("before", "after", "before?", "after?"):
                pass  # handled below, after body split
            else:
                raise ValueError("%s: unknown fn directive %r" % (tmpl, d))
        # rule R28: a by-value `mut self` receiver (Verus: "mut self" unsupported) becomes `self` with
        # `let mut self_ = self;` as the first statement, and the body reads `self_` wherever it read `self`
        mm = mask(text)
        ms = re.search(r"\(\s*mut\s+self\s*(?=[,)])", mm)
        if ms and ms.start() == mm.index("(", re.search(r"\bfn\b", mm).end() + 0) if ms else False:
            b0 = mm.index("{", ms.end())
            b1 = mm.rindex("}")
            head = text[:ms.start()] + "(self" + text[ms.end():b0 + 1]
            body_m, body_t = mm[b0 + 1:b1], text[b0 + 1:b1]
            out, last = [], 0
            for w in re.finditer(r"\bself\b", body_m):
                out.append(body_t[last:w.start()]); out.append("self_"); last = w.end()
            out.append(body_t[last:])
            text = head + " let mut self_ = self;" + "".join(out) + text[b1:]
            log.append({"rule": "R28-mut-self-receiver"})
        owner = getattr(it, "owner", None)
        if not (owner is not None and (owner.kind == "trait" or " for " in owner.name)):
            text = publicise(text, False)
            log.append({"rule": "R10-visibility"})
        if self.stub_mode:
            drop_body = True
            loops = {}
            begin = []
        m = mask(text)
        kw = re.search(r"\bfn\b", m)
        # param list
        p0 = m.index("(", kw.end())
        # generics may precede '(' and contain parens in bounds like Fn(..) -> skip angle first
        g = re.match(r"\s*\w+\s*<", m[kw.end():])
        if g:
            a0 = kw.end() + g.end() - 1
            a1 = match_angle(m, a0)
            p0 = m.index("(", a1)
        p1 = match_close(m, p0)
        b0 = find_body_open(m, p1 + 1)
        if m[b0] != "{":
            raise Undecided("%s has no body" % fn_id)
        b1 = match_close(m, b0)
        sig = text[:p1 + 1]
        mid = text[p1 + 1:b0]
        body = text[b0 + 1:b1]
        # return type / where split
        wm = re.search(r"\bwhere\b", mask(mid))
        where = ""
        rt = mid
        if wm:
            rt, where = mid[:wm.start()], mid[wm.start():]
        rt = rt.strip()
        if ret and rt.startswith("->"):
            rt = "-> (%s: %s)" % (ret, rt[2:].strip())
        elif ret and not rt:
            rt = "-> (%s: ())" % ret
        where = where.strip()
        if where and not where.rstrip().endswith(","):
            where = where.rstrip() + ","
        # --- emit
        for a in attrs:
            self.out.emit(a, {"kind": "tmpl", "file": tmpl, "line": 0})
        if drop_body:
            self.out.emit("#[verifier::external_body]", {"kind": "tmpl", "file": tmpl, "line": 0})
        first_line = it.line
        # signature lines map to source
        self.out.emit_src(sig + (" " + rt if rt else ""), relf, first_line, fn_id)
        if where:
            self.out.emit_src(where, relf, first_line, fn_id)
        for kind, lst in (("requires", reqs), ("ensures", enss)):
            if not lst:
                continue
            self.out.emit("    " + kind, {"kind": "tmpl", "file": tmpl, "line": 0})
            for c in lst:
                mm = CLAUSE_RE.match(c.strip())
                if not mm:
                    raise ValueError("%s: clause without [id]: %r" % (tmpl, c))
                cid = self.add_clause(mm.group(1), kind, fn_id, mm.group(2))
                expr = mm.group(2).strip()
                if expr.endswith(","):
                    expr = expr[:-1]
                self.clauses[cid]["gen_line"] = len(self.out.lines) + 1
                n_before = len(self.out.lines)
                self.out.emit("        (" + expr + "),", {"kind": "clause", "id": cid, "fn": fn_id})
        if decs:
            self.out.emit("    decreases " + ", ".join(decs) + ",", {"kind": "tmpl", "file": tmpl, "line": 0})
        if diverges is not None:
            mm = CLAUSE_RE.match(diverges.strip() + " body is a single diverging macro call")
            cid = self.add_clause(mm.group(1), "diverges", fn_id, mm.group(2))
            btxt = mask(body).strip()
            # syntactic divergence: the whole body is `unimplemented!(..)` / `panic!(..)` / `unreachable!(..)` / `todo!(..)`
            ok = re.match(r"^(unimplemented|panic|unreachable|todo)\s*!\s*\(.*\)\s*;?$", btxt, re.S) is not None
            self.clauses[cid]["syntactic"] = ok
            self.clauses[cid]["gen_line"] = len(self.out.lines) + 1
            self.out.emit("    ensures", {"kind": "tmpl", "file": tmpl, "line": 0})
            self.out.emit("        (false),", {"kind": "clause", "id": cid, "fn": fn_id})
        if drop_body:
            self.out.emit("{ unimplemented!() }", {"kind": "tmpl", "file": tmpl, "line": 0})
            self.functions.append({"path": fn_id, "kind": "stub", "file": relf, "line": it.line,
                                   "lines": raw.count("\n") + 1,
                                   "sha256": hashlib.sha256(raw.encode()).hexdigest()})
            self.rewrites += [dict(x, item=fn_id) for x in log]
            return
        # --- body: loops, hints
        body = self.annotate_loops(body, loops, fn_id, tmpl, log)
        for d, arg, dl in subs:
            if d in ("before", "after", "before?", "after?"):
                anchor, txt = parse_quoted_then_text(arg)
                blines = body.split("\n")
                occ = 0
                om = re.search(r"@@(\d+)$", anchor)
                if om:
                    occ = int(om.group(1))
                    anchor = anchor[:om.start()]
                def _orig(l):
                    # the source part of a line that already carries inserted hints
                    ps = [x for x in l.split("\x01") if not x.startswith("/*VXHINT")]
                    return ps[0] if ps else ""
                if anchor.startswith("re:"):
                    idx = [k for k, l in enumerate(blines) if re.search(anchor[3:], _orig(l))]
                else:
                    idx = [k for k, l in enumerate(blines) if anchor in _orig(l)]
                if len(idx) <= occ:
                    k = self.reanchor(fn_id, anchor, occ, d.startswith("before"), blines, subs, loops, tmpl, _orig)
                    if k is None:
                        self.lost.append({"where": fn_id, "anchor": anchor, "kind": "hint"})
                        continue
                    self.reanchored.append({"where": fn_id, "anchor": anchor, "to_body_line": k})
                    log.append({"rule": "hint-reanchored-by-diff", "anchor": anchor[:80]})
                else:
                    k = idx[occ]
                if om:
                    anchor = anchor + "@@%d" % occ
                hkey = "%s @ %s" % (fn_id, anchor)
                if hkey in self.disabled_hints:
                    self.lost.append({"where": fn_id, "anchor": anchor, "kind": "hint", "why": "hint does not type-check on this tree"})
                    continue
                self.hint_keys.append(hkey)
                marker = "/*VXHINT %d*/ " % (len(self.hint_keys) - 1) + " ".join(txt.split("\n"))
                if d.startswith("before"):
                    blines[k] = marker + "\x01" + blines[k]
                else:
                    blines[k] = blines[k] + "\x01" + marker
                body = "\n".join(blines)
        body_first = first_line + text[:b0 + 1].count("\n")
        self.out.emit("{" + ("".join(" " + " ".join(b.split("\n")) for b in begin)), {"kind": "src", "file": relf, "line": body_first, "fn": fn_id})
        # body text starts right after '{' -- usually a newline
        btxt = body
        if btxt.startswith("\n"):
            btxt = btxt[1:]
            body_first += 1
        if btxt.endswith("\n"):
            btxt = btxt[:-1]
        # cfg resolution may have removed lines; line numbers are then approximate (to the fn)
        for k, ln in enumerate(btxt.split("\n")):
            for part in ln.split("\x01"):
                hm = re.match(r"/\*VXHINT (\d+)\*/", part)
                if hm:
                    self.out.emit(part, {"kind": "hint", "file": relf, "line": body_first + k, "fn": fn_id,
                                         "hint": self.hint_keys[int(hm.group(1))]})
                else:
                    om = re.search(r"/\*VXOPT (\d+)\*/", part)
                    info = {"kind": "src", "file": relf, "line": body_first + k, "fn": fn_id}
                    if om:
                        info["opt"] = self.hint_keys[int(om.group(1))]
                    self.out.emit(part, info)
        self.out.emit("}", {"kind": "src", "file": relf, "line": it.src.line_of(it.end - 1), "fn": fn_id})
        self.functions.append({"path": fn_id, "kind": "fn", "file": relf, "line": it.line,
                               "lines": raw.count("\n") + 1,
                               "sha256": hashlib.sha256(raw.encode()).hexdigest()})
        self.rewrites += [dict(x, item=fn_id) for x in log]

    # ------------------------------------------------------------------ baseline texts and diff-following anchors
    _baseline = None

    def baseline_text(self, fn_id):
        if Group._baseline is None:
            bp = os.path.join(VERIF, "baseline", "functions.json")
            try:
                Group._baseline = json.load(open(bp))
            except Exception:
                Group._baseline = {}
        return Group._baseline.get(fn_id)

    def transformed_body(self, raw, subs, loops, fn_id, tmpl):
        """The function body as it looks when the hints are attached (after cfg resolution, rewrite rules, the
        function's own replace / slice directives and loop annotation), for an arbitrary version `raw` of the function.
        Used for the BASELINE version: nothing is logged or recorded."""
        saved = (self.lost, self.hint_keys, self.rewrites, self.clauses, self.byte_consts if hasattr(self, "byte_consts") else None)
        self.lost, self.hint_keys, self.rewrites = [], list(self.hint_keys), []
        self.clauses = {}
        if saved[4] is not None:
            self.byte_consts = dict(saved[4])
        try:
            log = []
            text = self.prep_text(raw, log)
            for d, arg, dl in subs:
                if d in ("replace", "replace?", "replace*", "replace_re", "replace_re?"):
                    text = self.apply_replace(d, arg, text, fn_id, log)
                elif d == "slice_match":
                    scrut, _, keep = arg.partition(" keep ")
                    text = slice_match(text, scrut.strip(), [k.strip() for k in keep.split("|")], fn_id, log)
            m = mask(text)
            kw = re.search(r"\bfn\b", m)
            p0 = m.index("(", kw.end())
            g = re.match(r"\s*\w+\s*<", m[kw.end():])
            if g:
                a1 = match_angle(m, kw.end() + g.end() - 1)
                p0 = m.index("(", a1)
            p1 = match_close(m, p0)
            b0 = find_body_open(m, p1 + 1)
            b1 = match_close(m, b0)
            body = text[b0 + 1:b1]
            body = self.annotate_loops(body, loops, fn_id, tmpl, log)
            return body
        except Exception as e:
            if os.environ.get("VX_SHOW_DROPPED"):
                import traceback
                traceback.print_exc()
            return None
        finally:
            self.lost, self.hint_keys, self.rewrites, self.clauses = saved[0], saved[1], saved[2], saved[3]
            if saved[4] is not None:
                self.byte_consts = saved[4]

    def reanchor(self, fn_id, anchor, occ, before, cur_lines, subs, loops, tmpl, orig_fn):
        """Anchors follow the diff: the line the anchor names in the BASELINE version of the function is mapped through
        a line diff to the corresponding position of the current version."""
        import difflib
        raw0 = self.baseline_text(fn_id)
        if not raw0:
            return None
        body0 = self.transformed_body(raw0, subs, loops, fn_id, tmpl)
        if body0 is None:
            return None
        b0 = [l.rstrip() for l in body0.split("\n")]
        if anchor.startswith("re:"):
            idx = [k for k, l in enumerate(body0.split("\n")) if re.search(anchor[3:], l)]
        else:
            idx = [k for k, l in enumerate(body0.split("\n")) if anchor in l]
        if len(idx) <= occ:
            return None
        kb = idx[occ]
        c0 = [orig_fn(l).rstrip() for l in cur_lines]
        sm = difflib.SequenceMatcher(None, b0, c0, autojunk=False)
        def boundary_after(k):
            # a hint goes AFTER line k only if that line ends a statement / opens or closes a block
            while k < len(c0) - 1 and not re.search(r"[;{}]\s*(//.*)?$", c0[k]):
                k += 1
            return k
        def boundary_before(k):
            while k > 0 and not re.search(r"[;{}]\s*(//.*)?$", c0[k - 1]):
                k -= 1
            return k
        def depths(lines):
            # brace depth AFTER each line (string / comment contents are rare in these bodies; approximate count)
            out, dep = [], 0
            for l in lines:
                l2 = re.sub(r'"(?:[^"\\\\]|\\\\.)*"', '""', l.split("//")[0])
                dep += l2.count("{") - l2.count("}")
                out.append(dep)
            return out
        db, dc = depths(b0), depths(c0)
        want = (db[kb - 1] if kb > 0 else 0) if before else db[kb]
        def ok_after(k):
            return 0 <= k < len(c0) and dc[k] == want and re.search(r"[;{}]\s*$", c0[k].split("//")[0].rstrip()) is not None
        def ok_before(k):
            return 0 <= k < len(c0) and (dc[k - 1] if k > 0 else 0) == want and (k == 0 or re.search(r"[;{}]\s*$", c0[k - 1].split("//")[0].rstrip()) is not None)
        def nearest(k, ok):
            for delta in range(0, len(c0) + 1):
                for cand in (k - delta, k + delta):
                    if ok(cand):
                        return cand
            return None
        for tag, i1, i2, j1, j2 in sm.get_opcodes():
            if i1 <= kb < i2:
                if tag == "equal":
                    return j1 + (kb - i1)
                if before:
                    return nearest(min(j1, len(c0) - 1), ok_before)
                return nearest(max(min(j2 - 1, len(c0) - 1), 0) if j2 > j1 else max(j1 - 1, 0), ok_after)
        return None

    def annotate_loops(self, body, loops, fn_id, tmpl, log):
        if not loops:
            return body
        m = mask(body)
        found = [mm for mm in re.finditer(r"\b(for|while|loop)\b", m)]
        # ignore `for` inside `for<'a>` HRTB or impl .. for: inside fn bodies these do not occur in this code base
        for n, items in sorted(loops.items(), reverse=True):
            if n >= len(found):
                self.lost.append({"where": fn_id, "anchor": "loop %d" % n})
                continue
            mm = found[n]
            kw = mm.group(1)
            # find body '{' of loop at depth 0 from keyword
            j = mm.end()
            if kw == "for":
                # the loop pattern may itself contain braces (`for Attribute { key, value } in ..`): the body starts at
                # the first `{` after the `in` keyword at depth 0
                jj = j
                while jj < len(m):
                    c = m[jj]
                    if c in "([{":
                        jj = match_close(m, jj)
                    elif re.match(r"\bin\b", m[jj:]) and not (m[jj - 1].isalnum() or m[jj - 1] == "_"):
                        j = jj + 2
                        break
                    jj += 1
            while True:
                c = m[j]
                if c in "([":
                    j = match_close(m, j)
                elif c == "{":
                    break
                j += 1
            binder = None
            invs, decs, invx, enss = [], [], [], []
            for k, rest in items:
                if k == "binder":
                    binder = rest.strip()
                elif k == "invariant":
                    invs.append(rest)
                elif k == "invariant_except_break":
                    invx.append(rest)
                elif k == "ensures":
                    enss.append(rest)
                elif k == "decreases":
                    decs.append(rest)
                else:
                    raise ValueError("unknown loop directive %r" % k)
            head = body[mm.start():j]
            if binder and kw == "for":
                hm = re.match(r"(for\s+.*?\s+in\s+)(.*)$", head, re.S)
                if not hm:
                    self.lost.append({"where": fn_id, "anchor": "loop %d (for .. in)" % n})
                    continue
                head = hm.group(1) + binder + ": " + hm.group(2)
            ann = []
            for kwd, lst in (("invariant_except_break", invx), ("invariant", invs), ("ensures", enss)):
                if not lst:
                    continue
                ann.append(kwd)
                for c in lst:
                    cm = CLAUSE_RE.match(c.strip())
                    if not cm:
                        raise ValueError("%s: loop %s without [id]: %r" % (tmpl, kwd, c))
                    cid = self.add_clause(cm.group(1), "loop-" + kwd, fn_id, cm.group(2))
                    expr = cm.group(2).strip().rstrip(",")
                    ann.append("/*VXCLAUSE %s*/ (%s)," % (cid, " ".join(expr.split())))
            if decs:
                ann.append("decreases " + ", ".join(decs) + ",")
            body = body[:mm.start()] + head.rstrip() + "\n" + "\n".join(ann) + "\n" + body[j:]
            log.append({"rule": "loop-annotate", "loop": n})
        return body

    # ------------------------------------------------------------------ result
    def finish(self):
        # generated constant functions of rule R16 go right before the end of the verus! block
        if self.byte_consts:
            idx = max(k for k, ln in enumerate(self.out.lines) if ln.strip().startswith("} // verus!"))
            gen = []
            for name, (lit, bs) in sorted(self.byte_consts.items()):
                seq = "seq![" + ", ".join("%du8" % b for b in bs) + "]" if bs else "Seq::<u8>::empty()"
                gen.append("#[verifier::external_body]")
                gen.append("pub const fn %s() -> (r: &'static [u8; %d]) ensures r@ == %s { b\"%s\" }" % (name, len(bs), seq, lit))
            self.out.lines[idx:idx] = gen
            self.out.map[idx:idx] = [{"kind": "tmpl", "file": "generated:R16", "line": 0}] * len(gen)
        # post-process: VXCLAUSE markers inside bodies become clause lines in the map
        for k, ln in enumerate(self.out.lines):
            mm = re.search(r"/\*VXCLAUSE ([^*]+)\*/", ln)
            if mm:
                cid = mm.group(1).strip()
                if cid not in self.clauses:
                    # clause introduced by a desugaring rule (replace_re): belongs to the function of this line
                    fn_here = self.out.map[k].get("fn", "")
                    self.add_clause(cid, "invariant", fn_here, ln.split("*/", 1)[1])
                    cid = cid.split(",")[0].strip()
                self.out.map[k] = {"kind": "clause", "id": cid, "fn": self.clauses[cid]["fn"]}
                self.clauses[cid]["gen_line"] = k + 1
        return "\n".join(self.out.lines) + "\n"
