// appended to a scratch copy of src/contracts.rs under cfg(kani): loop-free harnesses over a SYMBOLIC 32-byte checksum.
// Each with_* step must keep every other entry point (pointer identity of the boxed closures) and the checksum.
#[cfg(kani)]
mod vx_harness {
    use super::*;
    use cosmwasm_std::{Binary, Checksum, Deps, DepsMut, Empty, Env, MessageInfo, Reply, Response, StdError, StdResult};

    fn ex(_: DepsMut, _: Env, _: MessageInfo, _: Empty) -> StdResult<Response> { Err(StdError::generic_err("x")) }
    fn qu(_: Deps, _: Env, _: Empty) -> StdResult<Binary> { Err(StdError::generic_err("x")) }
    fn pe(_: DepsMut, _: Env, _: Empty) -> StdResult<Response> { Err(StdError::generic_err("x")) }
    fn re(_: DepsMut, _: Env, _: Reply) -> StdResult<Response> { Err(StdError::generic_err("x")) }

    fn any_checksum() -> Checksum {
        let bytes: [u8; 32] = kani::any();
        Checksum::from(bytes)
    }
    fn p<T: ?Sized>(b: &Box<T>) -> *const u8 { (&**b) as *const T as *const u8 }
    fn po<T: ?Sized>(b: &Option<Box<T>>) -> Option<*const u8> { b.as_ref().map(|x| p(x)) }

    type W = ContractWrapper<Empty, Empty, Empty, StdError, StdError, StdError, Empty, Empty, Empty, StdError, StdError, Empty, StdError>;
    fn full(cs: Checksum) -> W {
        ContractWrapper::new(ex, ex, qu).with_sudo(pe).with_reply(re).with_migrate(pe).with_checksum(cs)
    }

    #[kani::proof]
    fn with_checksum_keeps_entry_points() {
        let cs = any_checksum();
        let w: W = ContractWrapper::new(ex, ex, qu).with_sudo(pe).with_reply(re).with_migrate(pe);
        let (e, i, q, s, r, m) = (p(&w.execute_fn), p(&w.instantiate_fn), p(&w.query_fn), po(&w.sudo_fn), po(&w.reply_fn), po(&w.migrate_fn));
        let w2 = w.with_checksum(cs);
        assert!(w2.checksum == Some(cs));
        assert!(p(&w2.execute_fn) == e && p(&w2.instantiate_fn) == i && p(&w2.query_fn) == q);
        assert!(po(&w2.sudo_fn) == s && po(&w2.reply_fn) == r && po(&w2.migrate_fn) == m);
        assert!(w2.sudo_fn.is_some() && w2.reply_fn.is_some() && w2.migrate_fn.is_some());
    }
    #[kani::proof]
    fn with_sudo_keeps_rest() {
        let cs = any_checksum();
        let w = full(cs);
        let (e, i, q, r, m) = (p(&w.execute_fn), p(&w.instantiate_fn), p(&w.query_fn), po(&w.reply_fn), po(&w.migrate_fn));
        let w2 = w.with_sudo(pe);
        assert!(w2.checksum == Some(cs));                                            // C20.wrapper.keeps_checksum
        assert!(p(&w2.execute_fn) == e && p(&w2.instantiate_fn) == i && p(&w2.query_fn) == q);
        assert!(po(&w2.reply_fn) == r && po(&w2.migrate_fn) == m && w2.sudo_fn.is_some());
    }
    #[kani::proof]
    fn with_sudo_empty_keeps_rest() {
        let cs = any_checksum();
        let w = full(cs);
        let (e, i, q, r, m) = (p(&w.execute_fn), p(&w.instantiate_fn), p(&w.query_fn), po(&w.reply_fn), po(&w.migrate_fn));
        let w2 = w.with_sudo_empty(pe);
        assert!(w2.checksum == Some(cs));
        assert!(p(&w2.execute_fn) == e && p(&w2.instantiate_fn) == i && p(&w2.query_fn) == q);
        assert!(po(&w2.reply_fn) == r && po(&w2.migrate_fn) == m && w2.sudo_fn.is_some());
    }
    #[kani::proof]
    fn with_reply_keeps_rest() {
        let cs = any_checksum();
        let w = full(cs);
        let (e, i, q, s, m) = (p(&w.execute_fn), p(&w.instantiate_fn), p(&w.query_fn), po(&w.sudo_fn), po(&w.migrate_fn));
        let w2 = w.with_reply(re);
        assert!(w2.checksum == Some(cs));
        assert!(p(&w2.execute_fn) == e && p(&w2.instantiate_fn) == i && p(&w2.query_fn) == q);
        assert!(po(&w2.sudo_fn) == s && po(&w2.migrate_fn) == m && w2.reply_fn.is_some());
    }
    #[kani::proof]
    fn with_reply_empty_keeps_rest() {
        let cs = any_checksum();
        let w = full(cs);
        let (e, i, q, s, m) = (p(&w.execute_fn), p(&w.instantiate_fn), p(&w.query_fn), po(&w.sudo_fn), po(&w.migrate_fn));
        let w2 = w.with_reply_empty(re);
        assert!(w2.checksum == Some(cs));
        assert!(p(&w2.execute_fn) == e && p(&w2.instantiate_fn) == i && p(&w2.query_fn) == q);
        assert!(po(&w2.sudo_fn) == s && po(&w2.migrate_fn) == m && w2.reply_fn.is_some());
    }
    #[kani::proof]
    fn with_migrate_keeps_rest() {
        let cs = any_checksum();
        let w = full(cs);
        let (e, i, q, s, r) = (p(&w.execute_fn), p(&w.instantiate_fn), p(&w.query_fn), po(&w.sudo_fn), po(&w.reply_fn));
        let w2 = w.with_migrate(pe);
        assert!(w2.checksum == Some(cs));
        assert!(p(&w2.execute_fn) == e && p(&w2.instantiate_fn) == i && p(&w2.query_fn) == q);
        assert!(po(&w2.sudo_fn) == s && po(&w2.reply_fn) == r && w2.migrate_fn.is_some());
    }
    #[kani::proof]
    fn with_migrate_empty_keeps_rest() {
        let cs = any_checksum();
        let w = full(cs);
        let (e, i, q, s, r) = (p(&w.execute_fn), p(&w.instantiate_fn), p(&w.query_fn), po(&w.sudo_fn), po(&w.reply_fn));
        let w2 = w.with_migrate_empty(pe);
        assert!(w2.checksum == Some(cs));
        assert!(p(&w2.execute_fn) == e && p(&w2.instantiate_fn) == i && p(&w2.query_fn) == q);
        assert!(po(&w2.sudo_fn) == s && po(&w2.reply_fn) == r && w2.migrate_fn.is_some());
    }
    // "defaults for the rest": a fresh wrapper has exactly the three supplied entry points, no optional one, no checksum
    #[kani::proof]
    fn new_has_no_optional_parts() {
        let w = ContractWrapper::new(ex, ex, qu);
        assert!(w.sudo_fn.is_none() && w.reply_fn.is_none() && w.migrate_fn.is_none());
        assert!(w.checksum.is_none());
    }
    #[kani::proof]
    fn new_with_empty_has_no_optional_parts() {
        let w: ContractWrapper<Empty, Empty, Empty, StdError, StdError, StdError> = ContractWrapper::new_with_empty(ex, ex, qu);
        assert!(w.sudo_fn.is_none() && w.reply_fn.is_none() && w.migrate_fn.is_none());
        assert!(w.checksum.is_none());
    }
}
