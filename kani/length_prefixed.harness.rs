// appended to a scratch copy of src/prefixed_storage/length_prefixed.rs under cfg(kani): loop-free, every length.
#[cfg(kani)]
mod vx_harness {
    use super::*;
    // any sub-slice of a 65537-byte array: its length is symbolic in 0..=65537 (encode_length only looks at .len())
    #[kani::proof]
    fn encode_length_is_big_endian_u16() {
        let arr = [0u8; 0x1_0001];
        let ns: &[u8] = kani::slice::any_slice_of_array(&arr);
        kani::assume(ns.len() <= 0xFFFF);
        let len = ns.len();
        let r = encode_length(ns);
        assert!(r[0] as usize == (len / 256) % 256);      // C07.enc.bytes
        assert!(r[1] as usize == len % 256);
    }
    #[kani::proof]
    #[kani::should_panic]
    fn encode_length_panics_above_u16() {
        let arr = [0u8; 0x1_0001];
        let ns: &[u8] = kani::slice::any_slice_of_array(&arr);
        kani::assume(ns.len() > 0xFFFF);
        let _ = encode_length(ns);
    }
}
