// ---------------------------------------------------------------------------
// prelude/btree_range.rs -- ASSUMED contracts of the std pieces StorageTransaction::range is glued from (std docs):
//   BTreeMap::range(bounds) yields exactly the entries whose key lies within the bounds, in ascending key order;
//   Iterator::rev reverses; iter::empty yields nothing; Option::map_or.
// (Bound / RangeBounds for a pair of bounds are specified by vstd itself.)
// ---------------------------------------------------------------------------
#[verifier::external_type_specification]
#[verifier::external_body]
#[verifier::reject_recursive_types(K)]
#[verifier::reject_recursive_types(V)]
pub struct ExBRange<'a, K, V>(std::collections::btree_map::Range<'a, K, V>);

#[verifier::external_type_specification]
#[verifier::external_body]
#[verifier::reject_recursive_types(T)]
pub struct ExEmpty<T>(core::iter::Empty<T>);

// what `m.range(bounds)` has to yield, for any key / bounds type; instantiated for Vec<u8> keys by axiom_brange_vec_u8
pub uninterp spec fn brange_ok<K, V, R>(m: Map<K, V>, range: R, rem: Seq<(&K, &V)>) -> bool;
// when `m.range(bounds)` does not panic (std: "Panics if range start > end. Panics if range start == end and both bounds are Excluded");
// instantiated for Vec<u8> keys by axiom_brange_pre_vec_u8
pub uninterp spec fn brange_pre<K, R>(range: R) -> bool;
pub assume_specification<'a, K: Ord, V, A: core::alloc::Allocator + Clone, T: Ord + ?Sized, R: core::ops::RangeBounds<T>> [std::collections::BTreeMap::<K, V, A>::range::<T, R>] (m: &'a std::collections::BTreeMap<K, V, A>, range: R) -> (r: std::collections::btree_map::Range<'a, K, V>)
    where K: core::borrow::Borrow<T>
    requires brange_pre::<K, R>(range)
    ensures brange_ok(m@, range, r.remaining());

// Iterator::rev (rule R8'': `x.rev()` -> `vx_rev(x)`; a provided trait method cannot be given a generic specification)
#[verifier::external_body]
pub fn vx_rev<I: DoubleEndedIterator>(it: I) -> (r: core::iter::Rev<I>)
    ensures r.remaining() == it.remaining().reverse()
{ it.rev() }

pub assume_specification<T> [core::iter::empty::<T>] () -> (r: core::iter::Empty<T>)
    ensures r.remaining().len() == 0;

// (Option::map_or is specified in prelude/std_ext.rs)
