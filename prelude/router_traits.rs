// ---------------------------------------------------------------------------
// prelude/router_traits.rs -- the repo's dyn-dispatched traits (src/app.rs CosmosRouter, src/module.rs Module,
// src/wasm.rs Wasm, src/stargate.rs Stargate, and the marker traits Bank/Staking/Distribution/Ibc/Gov), re-declared
// with SPEC FUNCTIONS that stand for "what the callee does".  A caller is verified against these contracts only.
// For user-supplied implementers the contract is an assumption (a module is a deterministic function of the chain
// state, block, sender and message); for the repo's own implementers it is proved in the implementer's group.
// Rule R2: `dyn CosmosRouter<ExecC = A, QueryC = B>` is written `dyn CosmosRouter<A, B>` (Verus has no dyn with
// associated-type bindings).
// ---------------------------------------------------------------------------
pub trait CosmosRouter<ExecC, QueryC> {
    spec fn exec_sem(&self, pre: St, block: BlockInfo, sender: Addr, msg: CosmosMsg<ExecC>) -> (AnyResult<AppResponse>, St);
    spec fn query_sem(&self, st: St, block: BlockInfo, request: QueryRequest<QueryC>) -> AnyResult<Binary>;
    spec fn sudo_sem(&self, pre: St, block: BlockInfo, msg: SudoMsg) -> (AnyResult<AppResponse>, St);

    fn execute(&self, api: &dyn Api, storage: &mut dyn Storage, block: &BlockInfo, sender: Addr, msg: CosmosMsg<ExecC>) -> (r: AnyResult<AppResponse>)
        ensures (r, final(storage).view()) == self.exec_sem(old(storage).view(), *block, sender, msg);
    fn query(&self, api: &dyn Api, storage: &dyn Storage, block: &BlockInfo, request: QueryRequest<QueryC>) -> (r: AnyResult<Binary>)
        ensures r == self.query_sem(storage.view(), *block, request);
    fn sudo(&self, api: &dyn Api, storage: &mut dyn Storage, block: &BlockInfo, msg: SudoMsg) -> (r: AnyResult<AppResponse>)
        ensures (r, final(storage).view()) == self.sudo_sem(old(storage).view(), *block, msg);
}

pub trait Module {
    type ExecT;
    type QueryT;
    type SudoT;
    spec fn exec_sem<ExecC, QueryC>(&self, router: &dyn CosmosRouter<ExecC, QueryC>, pre: St, block: BlockInfo, sender: Addr, msg: Self::ExecT) -> (AnyResult<AppResponse>, St);
    spec fn query_sem(&self, qsnap: (St, BlockInfo), st: St, block: BlockInfo, request: Self::QueryT) -> AnyResult<Binary>;
    spec fn sudo_sem<ExecC, QueryC>(&self, router: &dyn CosmosRouter<ExecC, QueryC>, pre: St, block: BlockInfo, msg: Self::SudoT) -> (AnyResult<AppResponse>, St);

    fn execute<ExecC, QueryC>(&self, api: &dyn Api, storage: &mut dyn Storage, router: &dyn CosmosRouter<ExecC, QueryC>, block: &BlockInfo, sender: Addr, msg: Self::ExecT) -> (r: AnyResult<AppResponse>)
        ensures (r, final(storage).view()) == self.exec_sem(router, old(storage).view(), *block, sender, msg);
    fn query(&self, api: &dyn Api, storage: &dyn Storage, querier: &dyn Querier, block: &BlockInfo, request: Self::QueryT) -> (r: AnyResult<Binary>)
        ensures r == self.query_sem(querier.snap(), storage.view(), *block, request);
    fn sudo<ExecC, QueryC>(&self, api: &dyn Api, storage: &mut dyn Storage, router: &dyn CosmosRouter<ExecC, QueryC>, block: &BlockInfo, msg: Self::SudoT) -> (r: AnyResult<AppResponse>)
        ensures (r, final(storage).view()) == self.sudo_sem(router, old(storage).view(), *block, msg);
}
pub trait Bank: Module<ExecT = BankMsg, QueryT = BankQuery, SudoT = BankSudo> {}
pub trait Staking: Module<ExecT = StakingMsg, QueryT = StakingQuery, SudoT = StakingSudo> {
    spec fn queue_sem<ExecC, QueryC>(&self, router: &dyn CosmosRouter<ExecC, QueryC>, pre: St, block: BlockInfo) -> (AnyResult<AppResponse>, St);
    fn process_queue<ExecC, QueryC>(&self, api: &dyn Api, storage: &mut dyn Storage, router: &dyn CosmosRouter<ExecC, QueryC>, block: &BlockInfo) -> (r: AnyResult<AppResponse>)
        ensures (r, final(storage).view()) == self.queue_sem(router, old(storage).view(), *block);
}
pub trait Distribution: Module<ExecT = DistributionMsg, QueryT = Empty, SudoT = Empty> {}
pub trait Ibc: Module<ExecT = IbcMsg, QueryT = IbcQuery, SudoT = Empty> {}
pub trait Gov: Module<ExecT = GovMsg, QueryT = Empty, SudoT = Empty> {}

pub trait Stargate {
    spec fn stargate_sem<ExecC, QueryC>(&self, router: &dyn CosmosRouter<ExecC, QueryC>, pre: St, block: BlockInfo, sender: Addr, type_url: String, value: Binary) -> (AnyResult<AppResponse>, St);
    spec fn any_sem<ExecC, QueryC>(&self, router: &dyn CosmosRouter<ExecC, QueryC>, pre: St, block: BlockInfo, sender: Addr, msg: AnyMsg) -> (AnyResult<AppResponse>, St);
    spec fn query_stargate_sem(&self, qsnap: (St, BlockInfo), st: St, block: BlockInfo, path: String, data: Binary) -> AnyResult<Binary>;
    spec fn query_grpc_sem(&self, qsnap: (St, BlockInfo), st: St, block: BlockInfo, request: GrpcQuery) -> AnyResult<Binary>;

    fn execute_stargate<ExecC, QueryC>(&self, api: &dyn Api, storage: &mut dyn Storage, router: &dyn CosmosRouter<ExecC, QueryC>, block: &BlockInfo, sender: Addr, type_url: String, value: Binary) -> (r: AnyResult<AppResponse>)
        ensures (r, final(storage).view()) == self.stargate_sem(router, old(storage).view(), *block, sender, type_url, value);
    fn execute_any<ExecC, QueryC>(&self, api: &dyn Api, storage: &mut dyn Storage, router: &dyn CosmosRouter<ExecC, QueryC>, block: &BlockInfo, sender: Addr, msg: AnyMsg) -> (r: AnyResult<AppResponse>)
        ensures (r, final(storage).view()) == self.any_sem(router, old(storage).view(), *block, sender, msg);
    fn query_stargate(&self, api: &dyn Api, storage: &dyn Storage, querier: &dyn Querier, block: &BlockInfo, path: String, data: Binary) -> (r: AnyResult<Binary>)
        ensures r == self.query_stargate_sem(querier.snap(), storage.view(), *block, path, data);
    fn query_grpc(&self, api: &dyn Api, storage: &dyn Storage, querier: &dyn Querier, block: &BlockInfo, request: GrpcQuery) -> (r: AnyResult<Binary>)
        ensures r == self.query_grpc_sem(querier.snap(), storage.view(), *block, request);
}

pub trait Wasm<ExecC, QueryC> {
    spec fn exec_sem(&self, router: &dyn CosmosRouter<ExecC, QueryC>, pre: St, block: BlockInfo, sender: Addr, msg: WasmMsg) -> (AnyResult<AppResponse>, St);
    spec fn query_sem(&self, qsnap: (St, BlockInfo), st: St, block: BlockInfo, request: WasmQuery) -> AnyResult<Binary>;
    spec fn sudo_sem(&self, router: &dyn CosmosRouter<ExecC, QueryC>, pre: St, block: BlockInfo, msg: WasmSudo) -> (AnyResult<AppResponse>, St);

    fn execute(&self, api: &dyn Api, storage: &mut dyn Storage, router: &dyn CosmosRouter<ExecC, QueryC>, block: &BlockInfo, sender: Addr, msg: WasmMsg) -> (r: AnyResult<AppResponse>)
        ensures (r, final(storage).view()) == self.exec_sem(router, old(storage).view(), *block, sender, msg);
    fn query(&self, api: &dyn Api, storage: &dyn Storage, querier: &dyn Querier, block: &BlockInfo, request: WasmQuery) -> (r: AnyResult<Binary>)
        ensures r == self.query_sem(querier.snap(), storage.view(), *block, request);
    fn sudo(&self, api: &dyn Api, storage: &mut dyn Storage, router: &dyn CosmosRouter<ExecC, QueryC>, block: &BlockInfo, msg: WasmSudo) -> (r: AnyResult<AppResponse>)
        ensures (r, final(storage).view()) == self.sudo_sem(router, old(storage).view(), *block, msg);

    // the storage accessors App forwards to (for WasmKeeper their content is proved in group wasm_call:
    // C08.dump.own_window, C08.cs.window, C08.csm.window): functions of the store handed in and the address
    spec fn dump_sem(&self, st: St, address: Addr) -> Seq<Record>;
    spec fn cs_window(&self, st: St, address: Addr) -> St;
    fn dump_wasm_raw(&self, storage: &dyn Storage, address: &Addr) -> (r: Vec<Record>)
        ensures r@ == self.dump_sem(storage.view(), *address);
    fn contract_storage<'a>(&self, storage: &'a dyn Storage, address: &Addr) -> (r: Box<dyn Storage + 'a>)
        ensures r.view() == self.cs_window(storage.view(), *address);
    fn contract_storage_mut<'a>(&self, storage: &'a mut dyn Storage, address: &Addr) -> (r: Box<dyn Storage + 'a>)
        ensures r.view() == self.cs_window(old(storage).view(), *address);
}

// src/executor.rs: the Executor trait (only `execute` is abstract; helpers are default methods built on it)
pub trait Executor<C> {
    fn execute(&mut self, sender: Addr, msg: CosmosMsg<C>) -> (r: AnyResult<AppResponse>);
}
