// ---------------------------------------------------------------------------
// prelude/std_ext.rs -- ASSUMED specs of std functions vstd does not cover
// ---------------------------------------------------------------------------
pub assume_specification<T> [Option::<T>::or] (a: Option<T>, b: Option<T>) -> (r: Option<T>)
    ensures r == (match a { Some(x) => Some(x), None => b });

// strings as values: str_of is the inverse of the view (a string is determined by its characters)   TRUSTED
pub uninterp spec fn str_of(s: Seq<char>) -> String;
pub broadcast axiom fn axiom_str_canon(v: String)
    ensures #[trigger] str_of(v@) == v;
pub broadcast axiom fn axiom_str_of_view(s: Seq<char>)
    ensures s.len() <= usize::MAX ==> (#[trigger] str_of(s))@ == s;
pub proof fn lemma_str_eq(a: String, b: String)
    requires a@ == b@
    ensures a == b
{
    axiom_str_canon(a);
    axiom_str_canon(b);
}

// a vector of a non-zero-sized element type holds at most isize::MAX elements (Rust allocation limit)   TRUSTED
pub axiom fn axiom_vec_len<T>(v: Vec<T>)
    ensures v@.len() <= 0x7fff_ffff_ffff_ffff;

// vectors as values: vec_of is the inverse of the view (every vector is determined by its elements)   TRUSTED
pub uninterp spec fn vec_of<T>(s: Seq<T>) -> Vec<T>;
pub broadcast axiom fn axiom_vec_canon<T>(v: Vec<T>)
    ensures #[trigger] vec_of(v@) == v;
pub broadcast axiom fn axiom_vec_of_view<T>(s: Seq<T>)
    ensures s.len() <= usize::MAX ==> (#[trigger] vec_of(s))@ == s;

pub proof fn lemma_vec_eq<T>(a: Vec<T>, b: Vec<T>)
    requires a@ == b@
    ensures a == b
{
    axiom_vec_canon(a);
    axiom_vec_canon(b);
}
// extensionality as broadcast (multi-pattern on the two views); consequences of the canon axioms above
pub broadcast proof fn lemma_str_ext_b(a: String, b: String)
    ensures #[trigger] a@ == #[trigger] b@ ==> a == b
{
    axiom_str_canon(a);
    axiom_str_canon(b);
}
pub broadcast proof fn lemma_vec_ext_b<T>(a: Vec<T>, b: Vec<T>)
    ensures #[trigger] a@ == #[trigger] b@ ==> a == b
{
    axiom_vec_canon(a);
    axiom_vec_canon(b);
}
