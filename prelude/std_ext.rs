// ---------------------------------------------------------------------------
// prelude/std_ext.rs -- ASSUMED specs of std functions vstd does not cover
// ---------------------------------------------------------------------------
pub assume_specification<T> [Option::<T>::or] (a: Option<T>, b: Option<T>) -> (r: Option<T>)
    ensures r == (match a { Some(x) => Some(x), None => b });

pub assume_specification<T, E> [Option::<Result<T, E>>::transpose] (o: Option<Result<T, E>>) -> (r: Result<Option<T>, E>)
    ensures r == (match o { None => Ok(None), Some(Ok(x)) => Ok(Some(x)), Some(Err(e)) => Err(e) });

// Option / Result combinators vstd does not cover (closure results through call_ensures)
pub assume_specification<T, F: FnOnce(T) -> bool> [Option::<T>::is_some_and] (o: Option<T>, f: F) -> (r: bool)
    requires o is Some ==> f.requires((o->Some_0,))
    ensures match o { None => !r, Some(x) => f.ensures((x,), r) };
pub assume_specification<T, F: FnOnce(T) -> bool> [Option::<T>::is_none_or] (o: Option<T>, f: F) -> (r: bool)
    requires o is Some ==> f.requires((o->Some_0,))
    ensures match o { None => r, Some(x) => f.ensures((x,), r) };
pub assume_specification<T, P: FnOnce(&T) -> bool> [Option::<T>::filter] (o: Option<T>, p: P) -> (r: Option<T>)
    requires o is Some ==> p.requires((&o->Some_0,))
    ensures match o { None => r is None, Some(x) => exists|b: bool| p.ensures((&x,), b) && r == (if b { Some(x) } else { None::<T> }) };
pub assume_specification<T, E, U, F: FnOnce(T) -> Result<U, E>> [Result::<T, E>::and_then] (o: Result<T, E>, f: F) -> (r: Result<U, E>)
    requires o is Ok ==> f.requires((o->Ok_0,))
    ensures match o { Ok(x) => f.ensures((x,), r), Err(e) => r == Err::<U, E>(e) };
pub assume_specification<T, E, G, F: FnOnce(E) -> Result<T, G>> [Result::<T, E>::or_else] (o: Result<T, E>, f: F) -> (r: Result<T, G>)
    requires o is Err ==> f.requires((o->Err_0,))
    ensures match o { Ok(x) => r == Ok::<T, G>(x), Err(e) => f.ensures((e,), r) };
pub assume_specification<T, E, F> [Result::<T, E>::or] (a: Result<T, E>, b: Result<T, F>) -> (r: Result<T, F>)
    ensures r == (match a { Ok(x) => Ok(x), Err(_) => b });

// strings as values: str_of is the inverse of the view (a string is determined by its characters)   TRUSTED
pub uninterp spec fn str_of(s: Seq<char>) -> String;
pub broadcast axiom fn axiom_str_canon(v: String)
    ensures #[trigger] str_of(v@) == v;
pub broadcast axiom fn axiom_str_of_view(s: Seq<char>)
    // only for texts of at most 16 320 characters (<= 0xFF00 bytes in UTF-8): no proof builds a longer string, and with a
    // larger bound the input assumption axiom_addr_len (every address has at most 0xFF00 bytes) is refutable by
    // constructing a 65 536-character address in spec code (audit P2 derived `false` that way; canary `addr_len` in
    // prelude/cw_plus_ext.rs keeps that derivation failing)
    ensures s.len() <= 0x3FC0 ==> (#[trigger] str_of(s))@ == s;
pub proof fn lemma_str_eq(a: String, b: String)
    requires a@ == b@
    ensures a == b
{
    axiom_str_canon(a);
    axiom_str_canon(b);
}

// a vector of a non-zero-sized element type holds at most isize::MAX elements (Rust allocation limit)   TRUSTED
// (used for Vec<Event> / Vec<u8> only; not true of zero-sized element types)
pub axiom fn axiom_vec_len<T>(v: Vec<T>)
    ensures v@.len() <= 0x7fff_ffff_ffff_ffff;

// vectors as values: vec_of is the inverse of the view (every vector is determined by its elements)   TRUSTED
pub uninterp spec fn vec_of<T>(s: Seq<T>) -> Vec<T>;
pub broadcast axiom fn axiom_vec_canon<T>(v: Vec<T>)
    ensures #[trigger] vec_of(v@) == v;
pub broadcast axiom fn axiom_vec_of_view<T>(s: Seq<T>)
    // (audit P2: with the bound usize::MAX this axiom contradicted axiom_vec_len -- `false` was derivable from a
    // sequence of 2^63 elements; a Vec holds at most isize::MAX elements)
    ensures s.len() <= 0x7fff_ffff_ffff_ffff ==> (#[trigger] vec_of(s))@ == s;

pub proof fn lemma_vec_eq<T>(a: Vec<T>, b: Vec<T>)
    requires a@ == b@
    ensures a == b
{
    axiom_vec_canon(a);
    axiom_vec_canon(b);
}
// extensionality as broadcast (multi-pattern on the two views); consequences of the canon axioms above
pub broadcast proof fn lemma_str_ext_b(a: String, b: String)
    ensures #[trigger] a@ == #[trigger] b@ ==> a == b
{
    axiom_str_canon(a);
    axiom_str_canon(b);
}
pub broadcast proof fn lemma_vec_ext_b<T>(a: Vec<T>, b: Vec<T>)
    ensures #[trigger] a@ == #[trigger] b@ ==> a == b
{
    axiom_vec_canon(a);
    axiom_vec_canon(b);
}

// ---- str: trimming is an uninterpreted function of the characters; emptiness / first char / byte length by view
pub uninterp spec fn spec_trim(s: Seq<char>) -> Seq<char>;
pub uninterp spec fn spec_utf8_len(s: Seq<char>) -> nat;
pub axiom fn axiom_utf8_len_empty(s: Seq<char>)
    ensures (spec_utf8_len(s) == 0) == (s.len() == 0);
pub assume_specification [str::trim] (s: &str) -> (r: &str) ensures r@ == spec_trim(s@);
pub uninterp spec fn spec_starts_with<P>(s: Seq<char>, p: P) -> bool;
pub assume_specification<P: core::str::pattern::Pattern> [str::starts_with::<P>] (s: &str, p: P) -> (r: bool) ensures r == spec_starts_with(s@, p);
pub broadcast axiom fn axiom_starts_with_char(s: Seq<char>, c: char) ensures #[trigger] spec_starts_with(s, c) == (s.len() > 0 && s[0] == c);
// str::len is the UTF-8 byte length: an uninterpreted function of the characters (rule R14: `x.len()` on a str -> str_len(x))
#[verifier::external_body]
pub fn str_len(s: &str) -> (r: usize) ensures r == spec_utf8_len(s@) { s.len() }

//@ canary canon broadcast use {axiom_vec_canon, axiom_vec_of_view, axiom_str_canon, axiom_str_of_view, lemma_str_ext_b, lemma_vec_ext_b}; let v = vec_of(seq![1u8, 2u8]); let s = str_of("ab"@); axiom_vec_canon(v); axiom_str_canon(s); assert(vec_of(seq![1u8, 2u8])@ == seq![1u8, 2u8]); assert(vec_of(seq![3u8])@ != vec_of(seq![1u8, 2u8])@);

// Option::map_or (std docs)   ASSUMED
pub assume_specification<T, U, F: FnOnce(T) -> U> [Option::<T>::map_or] (o: Option<T>, default: U, f: F) -> (r: U)
    requires o matches Some(x) ==> f.requires((x,))
    ensures match o { Some(x) => f.ensures((x,), r), None => r == default };

// `x.into()` for a caller-chosen `U: Into<String>` (rule R25): a pure function of x
pub uninterp spec fn spec_into<U, T>(u: U) -> T;
pub open spec fn spec_into_string<U>(u: U) -> String { spec_into::<U, String>(u) }
#[verifier::external_body]
pub fn vx_into<U: Into<T>, T>(u: U) -> (r: T) ensures r == spec_into::<U, T>(u) { u.into() }
pub fn vx_into_string<U: Into<String>>(u: U) -> (r: String) ensures r == spec_into_string(u) { vx_into::<U, String>(u) }
