// ---------------------------------------------------------------------------
// prelude/cosmwasm.rs -- ASSUMED shapes / contracts of cosmwasm_std, anyhow and the dyn-callee traits of the repo
// (trusted, not verified).  Data types mirror the public fields of cosmwasm_std 2.2.2 that the repo code touches.
// ---------------------------------------------------------------------------
#[derive(Debug)]
pub struct StdError;
pub type StdResult<T> = Result<T, StdError>;
impl From<StdError> for AnyError {
    fn from(e: StdError) -> (r: AnyError) { AnyError }
}
pub trait AnyContext<T> {
    fn context(self, c: String) -> (r: AnyResult<T>);
}
impl<T> AnyContext<T> for AnyResult<T> {
    fn context(self, c: String) -> (r: AnyResult<T>) ensures r == self { self }
}

// ---- strings: contents are uninterpreted except where a contract says otherwise
#[verifier::external_body]
pub fn fmt_str(parts: &str) -> (r: String) { String::new() }

#[verifier::external_body]
#[verifier::accept_recursive_types(T)]
pub struct PhantomData<T> { p: core::marker::PhantomData<T> }

// ---- Addr
pub struct Addr { pub s: String }
impl Clone for Addr { #[verifier::external_body] fn clone(&self) -> (r: Self) ensures r == *self { Addr { s: self.s.clone() } } }
impl Addr {
    #[verifier::external_body]
    pub fn unchecked(s: String) -> (r: Addr) ensures r.s@ == s@ { Addr { s } }
    #[verifier::external_body]
    pub fn as_str(&self) -> (r: &str) ensures r@ == self.s@ { self.s.as_str() }
    pub uninterp spec fn bytes(&self) -> Seq<u8>;
    #[verifier::external_body]
    pub fn as_bytes(&self) -> (r: &[u8]) ensures r@ == self.bytes() { self.s.as_bytes() }
    #[verifier::external_body]
    pub fn into_string(self) -> (r: String) ensures r@ == self.s@ { self.s }
    #[verifier::external_body]
    pub fn to_string(&self) -> (r: String) ensures r@ == self.s@ { self.s.clone() }
}
// ASSUMPTION on inputs: an address is at most 0xFF00 bytes long (bech32 addresses are < 100 bytes; longer namespaces panic by design)
pub axiom fn axiom_addr_len(a: Addr)
    ensures a.bytes().len() <= 0xFF00;
// two addresses with the same text are the same address, and have the same bytes
pub axiom fn axiom_addr_ext(a: Addr, b: Addr)
    ensures a.s@ == b.s@ ==> a == b;
#[verifier::external_body]
pub fn addr_eq(a: &Addr, b: &Addr) -> (r: bool) ensures r == (*a == *b) { a.s == b.s }
#[verifier::external_body]
pub fn addr_into_string(a: Addr) -> (r: String) ensures r@ == a.s@ { a.s }
#[verifier::external_body]
pub fn opt_addr_eq(a: &Option<Addr>, b: &Option<Addr>) -> (r: bool) ensures r == (*a == *b) { true }

// ---- Binary / Checksum
pub struct Binary { pub b: Vec<u8> }
impl Clone for Binary { #[verifier::external_body] fn clone(&self) -> (r: Self) ensures r == *self { Binary { b: self.b.clone() } } }
impl Binary {
    #[verifier::external_body]
    pub fn to_vec(&self) -> (r: Vec<u8>) ensures r@ == self.b@ { self.b.clone() }
    #[verifier::external_body]
    pub fn as_slice(&self) -> (r: &[u8]) ensures r@ == self.b@ { self.b.as_slice() }
    #[verifier::external_body]
    pub fn is_empty(&self) -> (r: bool) ensures r == (self.b@.len() == 0) { self.b.is_empty() }
    #[verifier::external_body]
    pub fn len(&self) -> (r: usize) ensures r == self.b@.len() { self.b.len() }
    #[verifier::external_body]
    pub fn from_vec(v: Vec<u8>) -> (r: Binary) ensures r.b@ == v@ { Binary { b: v } }
    #[verifier::external_body]
    pub fn default() -> (r: Binary) ensures r.b@.len() == 0, r.b == vec_of(Seq::<u8>::empty()) { Binary { b: Vec::new() } }
}
pub axiom fn axiom_binary_ext(a: Binary, b: Binary)
    ensures a.b@ == b.b@ ==> a == b;
#[verifier::external_body]
pub fn opt_binary_unwrap_or_default(o: Option<Binary>) -> (r: Binary)
    ensures match o { Some(x) => r == x, None => r.b@.len() == 0 }
{ o.unwrap_or(Binary { b: Vec::new() }) }

#[derive(Clone, Copy)]
pub struct Checksum { pub c: [u8; 32] }
impl Checksum {
    #[verifier::external_body]
    pub fn as_slice(&self) -> (r: &[u8]) ensures r@ == self.c@ { &self.c }
}

// ---- coins, events, attributes
pub struct Uint128 { pub u: u128 }
impl Clone for Uint128 { fn clone(&self) -> (r: Self) ensures r == *self { Uint128 { u: self.u } } }
impl Copy for Uint128 {}
pub struct Coin { pub denom: String, pub amount: Uint128 }
impl Clone for Coin { #[verifier::external_body] fn clone(&self) -> (r: Self) ensures r == *self { Coin { denom: self.denom.clone(), amount: self.amount } } }

pub struct Attribute { pub key: String, pub value: String }
impl Clone for Attribute { #[verifier::external_body] fn clone(&self) -> (r: Self) ensures r == *self { Attribute { key: self.key.clone(), value: self.value.clone() } } }
pub struct Event { pub ty: String, pub attributes: Vec<Attribute> }
impl Clone for Event { #[verifier::external_body] fn clone(&self) -> (r: Self) ensures r == *self { Event { ty: self.ty.clone(), attributes: self.attributes.clone() } } }

// value of an attribute given as &Addr / &str / String: uninterpreted text of the argument
pub trait AttrVal { spec fn text(&self) -> Seq<char>; }
impl AttrVal for &Addr { open spec fn text(&self) -> Seq<char> { self.s@ } }
impl AttrVal for Addr { open spec fn text(&self) -> Seq<char> { self.s@ } }
impl AttrVal for &str { open spec fn text(&self) -> Seq<char> { self@ } }
impl AttrVal for String { open spec fn text(&self) -> Seq<char> { self@ } }
impl AttrVal for &String { open spec fn text(&self) -> Seq<char> { self@ } }
impl Event {
    #[verifier::external_body]
    pub fn new(ty: &str) -> (r: Event) ensures r.ty@ == ty@, r.attributes@.len() == 0 { Event { ty: ty.to_string(), attributes: Vec::new() } }
    #[verifier::external_body]
    pub fn add_attribute<V: AttrVal>(self, key: &str, value: V) -> (r: Event)
        ensures r.ty == self.ty, r.attributes@.len() == self.attributes@.len() + 1,
            r.attributes@.subrange(0, self.attributes@.len() as int) == self.attributes@,
            r.attributes@.last().key@ == key@, r.attributes@.last().value@ == value.text()
    { self }
    #[verifier::external_body]
    pub fn add_attributes(self, attrs: Vec<Attribute>) -> (r: Event)
        ensures r.ty == self.ty, r.attributes@ == self.attributes@ + attrs@
    { self }
}
#[verifier::external_body]
pub fn mock_wasmd_attr<V: AttrVal>(key: &str, value: V) -> (r: Attribute)
    ensures r.key@ == key@, r.value@ == value.text()
{ Attribute { key: key.to_string(), value: String::new() } }

// ---- block / env
pub struct Timestamp { pub nanos: u64 }
impl Clone for Timestamp { fn clone(&self) -> (r: Self) ensures r == *self { Timestamp { nanos: self.nanos } } }
impl Copy for Timestamp {}
pub struct BlockInfo { pub height: u64, pub time: Timestamp, pub chain_id: String }
impl Clone for BlockInfo { #[verifier::external_body] fn clone(&self) -> (r: Self) ensures r == *self { BlockInfo { height: self.height, time: self.time, chain_id: self.chain_id.clone() } } }
pub struct ContractInfo { pub address: Addr }
pub struct TransactionInfo { pub index: u32 }
pub struct Env { pub block: BlockInfo, pub contract: ContractInfo, pub transaction: Option<TransactionInfo> }
pub struct MessageInfo { pub sender: Addr, pub funds: Vec<Coin> }

// ---- messages
pub enum ReplyOn { Always, Error, Success, Never }
impl vstd::std_specs::cmp::PartialEqSpecImpl for ReplyOn {
    open spec fn obeys_eq_spec() -> bool { true }
    open spec fn eq_spec(&self, other: &ReplyOn) -> bool { *self == *other }
}
impl PartialEq for ReplyOn {
    fn eq(&self, o: &ReplyOn) -> (r: bool) {
        match (self, o) { (ReplyOn::Always, ReplyOn::Always) => true, (ReplyOn::Error, ReplyOn::Error) => true, (ReplyOn::Success, ReplyOn::Success) => true, (ReplyOn::Never, ReplyOn::Never) => true, _ => false }
    }
}
// cosmwasm_std::UNUSED_MSG_ID: the reply id of sub-messages that do not ask for a reply
pub const UNUSED_MSG_ID: u64 = 0;
pub enum BankMsg { Send { to_address: String, amount: Vec<Coin> }, Burn { amount: Vec<Coin> } }
pub enum WasmMsg {
    Execute { contract_addr: String, msg: Binary, funds: Vec<Coin> },
    Instantiate { admin: Option<String>, code_id: u64, msg: Binary, funds: Vec<Coin>, label: String },
    Instantiate2 { admin: Option<String>, code_id: u64, label: String, msg: Binary, funds: Vec<Coin>, salt: Binary },
    Migrate { contract_addr: String, new_code_id: u64, msg: Binary },
    UpdateAdmin { contract_addr: String, admin: String },
    ClearAdmin { contract_addr: String },
}
impl Clone for WasmMsg { #[verifier::external_body] fn clone(&self) -> (r: Self) ensures r == *self { unimplemented!() } }
pub enum StakingMsg {
    Delegate { validator: String, amount: Coin },
    Undelegate { validator: String, amount: Coin },
    Redelegate { src_validator: String, dst_validator: String, amount: Coin },
}
pub enum DistributionMsg {
    SetWithdrawAddress { address: String },
    WithdrawDelegatorReward { validator: String },
    FundCommunityPool { amount: Vec<Coin> },
}
pub struct GovMsg { pub opaque: u64 }
pub struct IbcMsg { pub opaque: u64 }
pub struct AnyMsg { pub type_url: String, pub value: Binary }
pub struct Empty {}
pub enum CosmosMsg<T> {
    Bank(BankMsg),
    Custom(T),
    Staking(StakingMsg),
    Distribution(DistributionMsg),
    Stargate { type_url: String, value: Binary },
    Any(AnyMsg),
    Ibc(IbcMsg),
    Wasm(WasmMsg),
    Gov(GovMsg),
}
pub struct SubMsg<T> { pub id: u64, pub payload: Binary, pub msg: CosmosMsg<T>, pub gas_limit: Option<u64>, pub reply_on: ReplyOn }
// SubMsg constructors (cosmwasm-std 2.2.2 results/submessages.rs; ASSUMED).  `impl Into<CosmosMsg<T>>` / `impl Into<Binary>`
// are taken at the identity instance (the only one the repository uses them at).
impl<T> SubMsg<T> {
    pub fn new(msg: CosmosMsg<T>) -> (r: Self) ensures r == (SubMsg { id: 0u64, payload: r.payload, msg, gas_limit: None::<u64>, reply_on: ReplyOn::Never }), r.payload.b@.len() == 0
    { SubMsg::reply_never(msg) }
    pub fn reply_never(msg: CosmosMsg<T>) -> (r: Self) ensures r == (SubMsg { id: 0u64, payload: r.payload, msg, gas_limit: None::<u64>, reply_on: ReplyOn::Never }), r.payload.b@.len() == 0
    { SubMsg { id: 0, payload: Binary::default(), msg, gas_limit: None, reply_on: ReplyOn::Never } }
    pub fn reply_on_success(msg: CosmosMsg<T>, id: u64) -> (r: Self) ensures r == (SubMsg { id, payload: r.payload, msg, gas_limit: None::<u64>, reply_on: ReplyOn::Success }), r.payload.b@.len() == 0
    { SubMsg { id, payload: Binary::default(), msg, gas_limit: None, reply_on: ReplyOn::Success } }
    pub fn reply_on_error(msg: CosmosMsg<T>, id: u64) -> (r: Self) ensures r == (SubMsg { id, payload: r.payload, msg, gas_limit: None::<u64>, reply_on: ReplyOn::Error }), r.payload.b@.len() == 0
    { SubMsg { id, payload: Binary::default(), msg, gas_limit: None, reply_on: ReplyOn::Error } }
    pub fn reply_always(msg: CosmosMsg<T>, id: u64) -> (r: Self) ensures r == (SubMsg { id, payload: r.payload, msg, gas_limit: None::<u64>, reply_on: ReplyOn::Always }), r.payload.b@.len() == 0
    { SubMsg { id, payload: Binary::default(), msg, gas_limit: None, reply_on: ReplyOn::Always } }
    pub fn with_gas_limit(self, limit: u64) -> (r: Self) ensures r == (SubMsg { gas_limit: Some(limit), ..self })
    { let mut s = self; s.gas_limit = Some(limit); s }
    pub fn with_payload(self, payload: Binary) -> (r: Self) ensures r == (SubMsg { payload, ..self })
    { let mut s = self; s.payload = payload; s }
}
pub struct MsgResponse { pub type_url: String, pub value: Binary }
pub struct SubMsgResponse { pub events: Vec<Event>, pub data: Option<Binary>, pub msg_responses: Vec<MsgResponse> }
pub enum SubMsgResult { Ok(SubMsgResponse), Err(String) }
impl SubMsgResult {
    pub fn is_ok(&self) -> (r: bool) ensures r == (*self is Ok) { match self { SubMsgResult::Ok(_) => true, SubMsgResult::Err(_) => false } }
}
pub struct Reply { pub id: u64, pub payload: Binary, pub gas_used: u64, pub result: SubMsgResult }
pub struct Response<T> { pub messages: Vec<SubMsg<T>>, pub attributes: Vec<Attribute>, pub events: Vec<Event>, pub data: Option<Binary> }

// ---- queries
pub struct PageRequest { pub opaque: u64 }
pub enum BankQuery {
    Supply { denom: String },
    Balance { address: String, denom: String },
    AllBalances { address: String },
    DenomMetadata { denom: String },
    AllDenomMetadata { pagination: Option<PageRequest> },
}
pub struct AllBalanceResponse { pub amount: Vec<Coin> }
impl AllBalanceResponse { pub fn new(amount: Vec<Coin>) -> (r: Self) ensures r.amount == amount { AllBalanceResponse { amount } } }
pub struct BalanceResponse { pub amount: Coin }
impl BalanceResponse { pub fn new(amount: Coin) -> (r: Self) ensures r.amount == amount { BalanceResponse { amount } } }
pub struct SupplyResponse { pub amount: Coin }
impl SupplyResponse { pub fn new(amount: Coin) -> (r: Self) ensures r.amount == amount { SupplyResponse { amount } } }
pub enum StakingQuery {
    BondedDenom {},
    AllDelegations { delegator: String },
    Delegation { delegator: String, validator: String },
    AllValidators {},
    Validator { address: String },
}
pub struct IbcQuery { pub opaque: u64 }
pub struct GrpcQuery { pub path: String, pub data: Binary }
pub enum WasmQuery {
    Smart { contract_addr: String, msg: Binary },
    Raw { contract_addr: String, key: Binary },
    ContractInfo { contract_addr: String },
    CodeInfo { code_id: u64 },
}
// (cosmwasm-std 2.2.2 with all features: Bank, Custom, Staking, Distribution, Stargate, Ibc, Wasm, Grpc)
pub struct DistributionQuery { pub raw: Binary }   // its variants carry no information the router looks at
pub enum QueryRequest<C> {
    Bank(BankQuery),
    Distribution(DistributionQuery),
    Custom(C),
    Staking(StakingQuery),
    Stargate { path: String, data: Binary },
    Ibc(IbcQuery),
    Wasm(WasmQuery),
    Grpc(GrpcQuery),
}

// ---- Api: address validation / canonicalisation are fixed uninterpreted functions of the string (one Api object
// is passed down every call of a transaction; two different Api objects are never related by a contract)
pub uninterp spec fn spec_valid_addr(s: Seq<char>) -> bool;
pub uninterp spec fn spec_canon_addr(s: Seq<char>) -> StdResult<CanonicalAddr>;
pub struct CanonicalAddr { pub b: Binary }
pub trait Api {
    fn addr_validate(&self, human: &str) -> (r: StdResult<Addr>)
        ensures (r is Ok) == spec_valid_addr(human@), r is Ok ==> r.unwrap().s@ == human@;
    fn addr_canonicalize(&self, human: &str) -> (r: StdResult<CanonicalAddr>)
        ensures r == spec_canon_addr(human@);
    fn addr_humanize(&self, canonical: &CanonicalAddr) -> (r: StdResult<Addr>)
        ensures r == spec_humanize_addr(*canonical);
}
pub uninterp spec fn spec_humanize_addr(c: CanonicalAddr) -> StdResult<Addr>;
// cosmwasm_std::instantiate2_address: a fixed function of (checksum, creator, salt)   ASSUMED (cosmwasm-std addresses.rs)
pub uninterp spec fn spec_instantiate2(checksum: Seq<u8>, creator: CanonicalAddr, salt: Seq<u8>) -> StdResult<CanonicalAddr>;
#[verifier::external_body]
pub fn instantiate2_address(checksum: &[u8], creator: &CanonicalAddr, salt: &[u8]) -> (r: StdResult<CanonicalAddr>)
    ensures r == spec_instantiate2(checksum@, *creator, salt@)
{ unimplemented!() }

// ---- queriers: a querier is characterised by the snapshot of chain state (and block) it answers from
pub trait Querier {
    spec fn snap(&self) -> (St, BlockInfo);
}
#[verifier::external_body]
#[verifier::reject_recursive_types(C)]
pub struct QuerierWrapper<'a, C> { q: &'a dyn Querier, p: core::marker::PhantomData<C> }
impl<'a, C> QuerierWrapper<'a, C> {
    pub uninterp spec fn snap(&self) -> (St, BlockInfo);
    #[verifier::external_body]
    pub fn new(q: &'a dyn Querier) -> (r: Self) ensures r.snap() == q.snap() { QuerierWrapper { q, p: core::marker::PhantomData } }
    // Deref<Target = dyn Querier> (cosmwasm-std traits.rs): the wrapped querier
    #[verifier::external_body]
    pub fn deref(&self) -> (r: &'a dyn Querier) ensures r.snap() == self.snap() { self.q }
}

// ---- the repo's response type (src/executor.rs); plain data, mirrored so every group sees the same type
pub struct AppResponse { pub events: Vec<Event>, pub data: Option<Binary> }
impl AppResponse {
    #[verifier::external_body]
    pub fn default() -> (r: AppResponse) ensures r.events == vec_of(Seq::<Event>::empty()), r.data is None { AppResponse { events: Vec::new(), data: None } }
}
impl Clone for AppResponse { #[verifier::external_body] fn clone(&self) -> (r: Self) ensures r == *self { AppResponse { events: self.events.clone(), data: self.data.clone() } } }


impl Uint128 {
    pub fn is_zero(&self) -> (r: bool) ensures r == (self.u == 0) { self.u == 0 }
}
// cosmwasm_std::coin(amount, denom: impl Into<String>)
pub trait IntoStr { spec fn str_view(&self) -> Seq<char>; }
impl IntoStr for String { open spec fn str_view(&self) -> Seq<char> { self@ } }
impl<'a> IntoStr for &'a String { open spec fn str_view(&self) -> Seq<char> { self@ } }
impl<'a> IntoStr for &'a str { open spec fn str_view(&self) -> Seq<char> { self@ } }
#[verifier::external_body]
pub fn coin<S: IntoStr>(amount: u128, denom: S) -> (r: Coin)
    ensures r.amount.u == amount, r.denom@ == denom.str_view()
{ unimplemented!() }
impl vstd::std_specs::convert::FromSpecImpl<Uint128> for u128 {
    open spec fn obeys_from_spec() -> bool { true }
    open spec fn from_spec(x: Uint128) -> u128 { x.u }
}
impl From<Uint128> for u128 { fn from(x: Uint128) -> (r: u128) { x.u } }
pub struct Decimal { pub atomics: u128 }
impl Clone for Decimal { fn clone(&self) -> (r: Self) ensures r == *self { Decimal { atomics: self.atomics } } }
impl Copy for Decimal {}

// ---- serde / marker traits: (de)serialisation is an uninterpreted function of the value
pub trait Serialize {}
// cosmwasm_std::{ContractInfoResponse, CodeInfoResponse} (plain records with `new`; cosmwasm-std 2.2.2 query/wasm.rs)
pub struct ContractInfoResponse { pub code_id: u64, pub creator: Addr, pub admin: Option<Addr>, pub pinned: bool, pub ibc_port: Option<String> }
impl ContractInfoResponse {
    pub fn new(code_id: u64, creator: Addr, admin: Option<Addr>, pinned: bool, ibc_port: Option<String>) -> (r: Self)
        ensures r == (ContractInfoResponse { code_id, creator, admin, pinned, ibc_port })
    { ContractInfoResponse { code_id, creator, admin, pinned, ibc_port } }
}
pub struct CodeInfoResponse { pub code_id: u64, pub creator: Addr, pub checksum: Checksum }
impl CodeInfoResponse {
    pub fn new(code_id: u64, creator: Addr, checksum: Checksum) -> (r: Self)
        ensures r == (CodeInfoResponse { code_id, creator, checksum })
    { CodeInfoResponse { code_id, creator, checksum } }
}
impl Serialize for ContractInfoResponse {}
impl Serialize for CodeInfoResponse {}
impl Serialize for Empty {}
impl Serialize for AllBalanceResponse {}
impl Serialize for BalanceResponse {}
impl Serialize for SupplyResponse {}
pub trait DeserializeOwned {}
impl<C> DeserializeOwned for QueryRequest<C> {}
pub trait CustomMsg {}
pub trait CustomQuery {}
// cosmwasm_std query result envelopes (plain enums; cosmwasm-std 2.2.2 results/{system_result,contract_result}.rs, errors/system_error.rs)
pub enum ContractResult<S> { Ok(S), Err(String) }
pub enum SystemError { InvalidRequest { error: String, request: Binary }, Other }
pub enum SystemResult<S> { Ok(S), Err(SystemError) }
pub type QuerierResult = SystemResult<ContractResult<Binary>>;
// From<Result<S, E: ToString>> for ContractResult<S>: Ok stays Ok, an error becomes its text   (rule R31: `x.into()` -> this shim)
#[verifier::external_body]
pub fn any_to_contract_result<S>(r: AnyResult<S>) -> (c: ContractResult<S>)
    ensures match r { Ok(v) => c == ContractResult::<S>::Ok(v), Err(_) => c is Err }
{ unimplemented!() }
// From<&[u8]> for Binary
#[verifier::external_body]
pub fn binary_from_slice(b: &[u8]) -> (r: Binary) ensures r.b@ == b@ { unimplemented!() }

// cosmwasm_std::from_json: decoding is a fixed function of the bytes (which function: serde_json, ASSUMED)
pub uninterp spec fn spec_from_json<T>(b: Seq<u8>) -> StdResult<T>;
#[verifier::external_body]
pub fn from_json<T: DeserializeOwned>(value: Vec<u8>) -> (r: StdResult<T>)
    ensures r == spec_from_json::<T>(value@)
{ unimplemented!() }
pub uninterp spec fn spec_json<T>(t: T) -> Binary;
pub uninterp spec fn spec_json_ok<T>(t: T) -> bool;
#[verifier::external_body]
pub fn to_json_binary<T: Serialize>(msg: &T) -> (r: StdResult<Binary>)
    ensures (r is Ok) == spec_json_ok(*msg), r is Ok ==> r.unwrap() == spec_json(*msg)
{ unimplemented!() }

pub uninterp spec fn spec_err_text(e: AnyError) -> String;
#[verifier::external_body]
pub fn fmt_debug_err(e: &AnyError) -> (r: String) ensures r == spec_err_text(*e) { String::new() }

#[verifier::external_body]
pub fn fmt_wasm_prefix(ty: &String) -> (r: String) ensures r@ == "wasm-"@ + ty@ { String::new() }

// ---- conversions (From impls of cosmwasm_std), with their meaning as spec
impl vstd::std_specs::convert::FromSpecImpl<Addr> for String {
    open spec fn obeys_from_spec() -> bool { true }
    open spec fn from_spec(a: Addr) -> String { a.s }
}
impl From<Addr> for String { fn from(a: Addr) -> (r: String) { a.s } }
impl<'a> vstd::std_specs::convert::FromSpecImpl<&'a Addr> for String {
    open spec fn obeys_from_spec() -> bool { true }
    open spec fn from_spec(a: &'a Addr) -> String { a.s }
}
impl<'a> From<&'a Addr> for String { #[verifier::external_body] fn from(a: &'a Addr) -> (r: String) { a.s.clone() } }
impl vstd::std_specs::convert::FromSpecImpl<Vec<u8>> for Binary {
    open spec fn obeys_from_spec() -> bool { true }
    open spec fn from_spec(v: Vec<u8>) -> Binary { Binary { b: v } }
}
impl From<Vec<u8>> for Binary { fn from(v: Vec<u8>) -> (r: Binary) { Binary { b: v } } }
impl<T> vstd::std_specs::convert::FromSpecImpl<BankMsg> for CosmosMsg<T> {
    open spec fn obeys_from_spec() -> bool { true }
    open spec fn from_spec(m: BankMsg) -> CosmosMsg<T> { CosmosMsg::Bank(m) }
}
impl<T> From<BankMsg> for CosmosMsg<T> { fn from(m: BankMsg) -> (r: CosmosMsg<T>) { CosmosMsg::Bank(m) } }
impl<T> vstd::std_specs::convert::FromSpecImpl<WasmMsg> for CosmosMsg<T> {
    open spec fn obeys_from_spec() -> bool { true }
    open spec fn from_spec(m: WasmMsg) -> CosmosMsg<T> { CosmosMsg::Wasm(m) }
}
impl<T> From<WasmMsg> for CosmosMsg<T> { fn from(m: WasmMsg) -> (r: CosmosMsg<T>) { CosmosMsg::Wasm(m) } }

// ---- equality of addresses is equality of the values
impl vstd::std_specs::cmp::PartialEqSpecImpl for Addr {
    open spec fn obeys_eq_spec() -> bool { true }
    open spec fn eq_spec(&self, other: &Addr) -> bool { *self == *other }
}
impl PartialEq for Addr {
    #[verifier::external_body]
    fn eq(&self, other: &Addr) -> (r: bool) { self.s == other.s }
}
impl Eq for Addr {}

pub uninterp spec fn spec_u64_text(n: u64) -> Seq<char>;
#[verifier::external_body]
pub fn u64_to_string(n: u64) -> (r: String) ensures r@ == spec_u64_text(n) { n.to_string() }

// ---- error constructors (payloads opaque)
pub enum OverflowOperation { Add, Sub, Mul, Pow, Shr, Shl }
pub struct OverflowError { pub operation: OverflowOperation }
impl OverflowError { pub fn new(operation: OverflowOperation) -> (r: OverflowError) { OverflowError { operation } } }
impl StdError {
    pub fn overflow(e: OverflowError) -> (r: StdError) { StdError }
    #[verifier::external_body]
    pub fn generic_err(msg: &str) -> (r: StdError) { StdError }
    #[verifier::external_body]
    pub fn not_found(kind: &str) -> (r: StdError) { StdError }
}
impl vstd::std_specs::convert::FromSpecImpl<StdError> for AnyError {
    open spec fn obeys_from_spec() -> bool { true }
    open spec fn from_spec(e: StdError) -> AnyError { AnyError }
}

// cosmwasm_std::testing::mock_env(): a fixed environment (contents uninterpreted)
pub uninterp spec fn spec_mock_env() -> Env;
#[verifier::external_body]
pub fn mock_env() -> (r: Env) ensures r == spec_mock_env() { unimplemented!() }
// the block of that environment (cosmwasm-std 2.2.2 testing/mock.rs: height 12_345, time 1_571_797_419_879_305_533 ns,
// chain id "cosmos-testnet-14002")   ASSUMED; lets a spelled-out copy of the default block be compared with it
pub axiom fn axiom_mock_env_block()
    ensures spec_mock_env().block.height == 12_345, spec_mock_env().block.time.nanos == 1_571_797_419_879_305_533,
            spec_mock_env().block.chain_id@ == "cosmos-testnet-14002"@;
impl Timestamp {
    // cosmwasm-std 2.2.2 timestamp.rs: from_nanos(n) = Timestamp(Uint64::new(n)); from_seconds(s) = Timestamp(Uint64::new(s *
    // 1_000_000_000)) -- the multiplication panics in debug builds and wraps in release: the contract speaks of the in-range case only   ASSUMED
    pub fn from_nanos(n: u64) -> (r: Timestamp) ensures r.nanos == n { Timestamp { nanos: n } }
    #[verifier::external_body]
    pub fn from_seconds(s: u64) -> (r: Timestamp) ensures s * 1_000_000_000 <= u64::MAX ==> r.nanos == s * 1_000_000_000 { unimplemented!() }
}
