// ---------------------------------------------------------------------------
// prelude/peekable.rs -- ASSUMED contract of std::iter::Peekable (std docs): a peekable iterator is characterised by
// the sequence it has still to yield; peek shows the first element without consuming it, next consumes it.
// ---------------------------------------------------------------------------
#[verifier::external_type_specification]
#[verifier::external_body]
#[verifier::reject_recursive_types(I)]
pub struct ExPeekable<I: Iterator>(core::iter::Peekable<I>);

pub uninterp spec fn pk_rem<I: Iterator>(p: &core::iter::Peekable<I>) -> Seq<I::Item>;

pub assume_specification<I: Iterator> [core::iter::Peekable::<I>::peek] (p: &mut core::iter::Peekable<I>) -> (r: Option<&I::Item>)
    ensures pk_rem(final(p)) == pk_rem(old(p)),
        match r { Some(x) => pk_rem(old(p)).len() > 0 && *x == pk_rem(old(p))[0], None => pk_rem(old(p)).len() == 0 };
pub assume_specification<I: Iterator> [<core::iter::Peekable<I> as Iterator>::next] (p: &mut core::iter::Peekable<I>) -> (r: Option<I::Item>)
    ensures match r {
        Some(x) => pk_rem(old(p)).len() > 0 && x == pk_rem(old(p))[0] && pk_rem(final(p)) == pk_rem(old(p)).drop_first(),
        None => pk_rem(old(p)).len() == 0 && pk_rem(final(p)).len() == 0 };
// Iterator::peekable (rule R8': `x.peekable()` -> `vx_peekable(x)`; a provided trait method cannot be given a generic specification)
#[verifier::external_body]
pub fn vx_peekable<I: Iterator>(it: I) -> (r: core::iter::Peekable<I>)
    ensures pk_rem(&r) == it.remaining()
{ it.peekable() }
