// ---------------------------------------------------------------------------
// prelude/wasm_traits.rs -- contract code, address / checksum generators (user-supplied dyn callees of wasm.rs)
// A contract entry point is a deterministic function of: the contract's own storage window, the snapshot its querier
// answers from, the environment, the message info and the message.  ASSUMED (it is the Contract interface).
// ---------------------------------------------------------------------------
#[verifier::reject_recursive_types(C)]
pub struct DepsMut<'a, C> { pub storage: &'a mut dyn Storage, pub api: &'a dyn Api, pub querier: QuerierWrapper<'a, C> }
#[verifier::reject_recursive_types(C)]
pub struct Deps<'a, C> { pub storage: &'a dyn Storage, pub api: &'a dyn Api, pub querier: QuerierWrapper<'a, C> }

pub enum Entry { Execute, Instantiate, Sudo, Reply, Migrate }

pub trait Contract<C, Q> {
    // entry points that may write: kind, own window before, querier snapshot, env, info (None where the entry point
    // has none), raw message (for Reply: the reply value) -> (response, own window after)
    spec fn entry_sem(&self, kind: Entry, own: St, qsnap: (St, BlockInfo), env: Env, info: Option<MessageInfo>, msg: Seq<u8>, reply: Option<Reply>) -> (AnyResult<Response<C>>, St);
    spec fn query_sem(&self, own: St, qsnap: (St, BlockInfo), env: Env, msg: Seq<u8>) -> AnyResult<Binary>;
    spec fn checksum_sem(&self) -> Option<Checksum>;

    fn execute(&self, deps: DepsMut<Q>, env: Env, info: MessageInfo, msg: Vec<u8>) -> (r: AnyResult<Response<C>>)
        ensures (r, final(deps.storage).view()) == self.entry_sem(Entry::Execute, old(deps.storage).view(), deps.querier.snap(), env, Some(info), msg@, None);
    fn instantiate(&self, deps: DepsMut<Q>, env: Env, info: MessageInfo, msg: Vec<u8>) -> (r: AnyResult<Response<C>>)
        ensures (r, final(deps.storage).view()) == self.entry_sem(Entry::Instantiate, old(deps.storage).view(), deps.querier.snap(), env, Some(info), msg@, None);
    fn query(&self, deps: Deps<Q>, env: Env, msg: Vec<u8>) -> (r: AnyResult<Binary>)
        ensures r == self.query_sem(deps.storage.view(), deps.querier.snap(), env, msg@);
    fn sudo(&self, deps: DepsMut<Q>, env: Env, msg: Vec<u8>) -> (r: AnyResult<Response<C>>)
        ensures (r, final(deps.storage).view()) == self.entry_sem(Entry::Sudo, old(deps.storage).view(), deps.querier.snap(), env, None, msg@, None);
    fn reply(&self, deps: DepsMut<Q>, env: Env, msg: Reply) -> (r: AnyResult<Response<C>>)
        ensures (r, final(deps.storage).view()) == self.entry_sem(Entry::Reply, old(deps.storage).view(), deps.querier.snap(), env, None, Seq::<u8>::empty(), Some(msg));
    fn migrate(&self, deps: DepsMut<Q>, env: Env, msg: Vec<u8>) -> (r: AnyResult<Response<C>>)
        ensures (r, final(deps.storage).view()) == self.entry_sem(Entry::Migrate, old(deps.storage).view(), deps.querier.snap(), env, None, msg@, None);
    fn checksum(&self) -> (r: Option<Checksum>)
        ensures r == self.checksum_sem();
}

pub trait AddressGenerator {
    spec fn addr_sem(&self, code_id: u64, instance_id: u64) -> AnyResult<Addr>;
    spec fn predictable_sem(&self, code_id: u64, instance_id: u64, checksum: Seq<u8>, creator: CanonicalAddr, salt: Seq<u8>) -> AnyResult<Addr>;
    fn contract_address(&self, api: &dyn Api, storage: &mut dyn Storage, code_id: u64, instance_id: u64) -> (r: AnyResult<Addr>)
        ensures r == self.addr_sem(code_id, instance_id), final(storage).view() == old(storage).view();
    fn predictable_contract_address(&self, api: &dyn Api, storage: &mut dyn Storage, code_id: u64, instance_id: u64, checksum: &[u8], creator: &CanonicalAddr, salt: &[u8]) -> (r: AnyResult<Addr>)
        ensures r == self.predictable_sem(code_id, instance_id, checksum@, *creator, salt@), final(storage).view() == old(storage).view();
}
pub trait ChecksumGenerator {
    spec fn checksum_sem(&self, creator: Addr, code_id: u64) -> Checksum;
    fn checksum(&self, creator: &Addr, code_id: u64) -> (r: Checksum)
        ensures r == self.checksum_sem(*creator, code_id);
}

// the repository's default generators (src/addresses.rs, src/checksums.rs): only their existence is needed here
pub struct SimpleAddressGenerator;
// what the trait's default methods compute (proved for them in group `addresses`): the plain address is a function of
// (code id, instance id); the salted address of (checksum, creator, salt) ONLY
pub uninterp spec fn spec_instantiate_address(code_id: u64, instance_id: u64) -> CanonicalAddr;
pub open spec fn humanized(c: CanonicalAddr) -> AnyResult<Addr> { match spec_humanize_addr(c) { Ok(a) => Ok(a), Err(_) => Err(AnyError) } }
pub open spec fn plain_addr(code_id: u64, instance_id: u64) -> AnyResult<Addr> { humanized(spec_instantiate_address(code_id, instance_id)) }
pub open spec fn salted_addr(checksum: Seq<u8>, creator: CanonicalAddr, salt: Seq<u8>) -> AnyResult<Addr> {
    match spec_instantiate2(checksum, creator, salt) { Err(_) => Err(AnyError), Ok(c) => humanized(c) }
}
impl AddressGenerator for SimpleAddressGenerator {
    open spec fn addr_sem(&self, code_id: u64, instance_id: u64) -> AnyResult<Addr> { plain_addr(code_id, instance_id) }
    open spec fn predictable_sem(&self, code_id: u64, instance_id: u64, checksum: Seq<u8>, creator: CanonicalAddr, salt: Seq<u8>) -> AnyResult<Addr> { salted_addr(checksum, creator, salt) }
    #[verifier::external_body]
    fn contract_address(&self, api: &dyn Api, storage: &mut dyn Storage, code_id: u64, instance_id: u64) -> (r: AnyResult<Addr>) { unimplemented!() }
    #[verifier::external_body]
    fn predictable_contract_address(&self, api: &dyn Api, storage: &mut dyn Storage, code_id: u64, instance_id: u64, checksum: &[u8], creator: &CanonicalAddr, salt: &[u8]) -> (r: AnyResult<Addr>) { unimplemented!() }
}
pub struct SimpleChecksumGenerator;
impl ChecksumGenerator for SimpleChecksumGenerator {
    uninterp spec fn checksum_sem(&self, creator: Addr, code_id: u64) -> Checksum;
    #[verifier::external_body]
    fn checksum(&self, creator: &Addr, code_id: u64) -> (r: Checksum) { unimplemented!() }
}
impl Default for Binary { #[verifier::external_body] fn default() -> (r: Self) ensures r.b@.len() == 0 { Binary { b: Vec::new() } } }
pub open spec fn empty_binary() -> Binary { Binary { b: vec_of(Seq::<u8>::empty()) } }
