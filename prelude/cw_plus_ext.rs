// ---------------------------------------------------------------------------
// prelude/cw_plus_ext.rs -- ASSUMED contracts of further cw_storage_plus API used by staking.rs (cw-storage-plus 2.0.0):
//   Item<T> (raw key = the namespace bytes, no length prefix), Map::update, composite keys (&Addr, &str), &str keys;
//   std: BTreeSet<Addr> key laws, VecDeque::front.
// ---------------------------------------------------------------------------
impl<'a> CwKey for &'a str { open spec fn key_path(&self) -> Seq<u8> { str_bytes(self@) } }
// composite key: every element but the last is length-prefixed (src/keys.rs + src/path.rs)
impl<'a, 'b> CwKey for (&'a Addr, &'b str) { open spec fn key_path(&self) -> Seq<u8> { lp(self.0.bytes()) + str_bytes(self.1@) } }

// (axiom_str_bytes_inj / axiom_str_bytes_ascii live next to str_bytes in prelude/cw_plus.rs)
// Addr::as_bytes is the UTF-8 encoding of the address text
pub axiom fn axiom_addr_bytes(a: Addr)
    ensures a.bytes() == str_bytes(a.s@);

//@ canary addr_len let s = Seq::<char>::new(0x10000, |i: int| 'a'); let a = Addr { s: str_of(s) }; axiom_str_of_view(s); axiom_addr_bytes(a); axiom_str_bytes_ascii(s); axiom_addr_len(a); axiom_str_canon(a.s);
impl<K: CwKey, V: CwVal> Map<K, V> {
    // Map::update = may_load, action, save (src/map.rs): nothing is written unless the action returns Ok
    #[verifier::external_body]
    pub fn update<A, E>(&self, store: &mut dyn Storage, k: K, action: A) -> (r: Result<V, E>)
        where A: FnOnce(Option<V>) -> Result<V, E>, E: From<StdError>
        requires forall|x: Option<V>| map_may_load::<V>(old(store).view(), self.raw_key(k)) == Ok::<Option<V>, StdError>(x) ==> action.requires((x,))
        ensures match map_may_load::<V>(old(store).view(), self.raw_key(k)) {
            Err(_) => r is Err && final(store).view() == old(store).view(),
            Ok(x) => exists|out: Result<V, E>| action.ensures((x,), out) && match out {
                Ok(v) => if v.ser_ok() { r == Ok::<V, E>(v) && final(store).view() == old(store).view().insert(self.raw_key(k), v.ser()) }
                         else { r is Err && final(store).view() == old(store).view() },
                Err(e) => r is Err && final(store).view() == old(store).view(),
            },
        }
    { unimplemented!() }
}

#[verifier::external_body]
#[verifier::reject_recursive_types(T)]
pub struct Item<T> { p: core::marker::PhantomData<T> }
impl<T: CwVal> Item<T> {
    pub uninterp spec fn ns(&self) -> Seq<u8>;
    #[verifier::external_body]
    pub const fn new(namespace: &'static str) -> (r: Self) ensures r.ns() == str_bytes(namespace@) { Item { p: core::marker::PhantomData } }
    #[verifier::external_body]
    pub fn load(&self, store: &dyn Storage) -> (r: StdResult<T>)
        ensures r == map_load::<T>(store.view(), self.ns())
    { unimplemented!() }
    #[verifier::external_body]
    pub fn may_load(&self, store: &dyn Storage) -> (r: StdResult<Option<T>>)
        ensures r == map_may_load::<T>(store.view(), self.ns())
    { unimplemented!() }
    #[verifier::external_body]
    pub fn save(&self, store: &mut dyn Storage, data: &T) -> (r: StdResult<()>)
        ensures (r is Ok) == data.ser_ok(),
            r is Ok ==> final(store).view() == old(store).view().insert(self.ns(), data.ser()),
            r is Err ==> final(store).view() == old(store).view()
    { unimplemented!() }
}

// ---- BTreeSet<Addr>: Addr orders by its text (derive(Ord) on a String newtype): a total order (TRUSTED)
impl PartialOrd for Addr { #[verifier::external_body] fn partial_cmp(&self, o: &Addr) -> (r: Option<core::cmp::Ordering>) { self.s.partial_cmp(&o.s) } }
impl Ord for Addr { #[verifier::external_body] fn cmp(&self, o: &Addr) -> (r: core::cmp::Ordering) { self.s.cmp(&o.s) } }
pub axiom fn axiom_addr_key_laws()
    ensures vstd::laws_cmp::obeys_cmp_spec::<Addr>();

pub assume_specification<T, A: core::alloc::Allocator> [std::collections::VecDeque::<T, A>::front] (q: &std::collections::VecDeque<T, A>) -> (r: Option<&T>)
    ensures match r { Some(x) => q@.len() > 0 && *x == q@[0], None => q@.len() == 0 };

pub assume_specification [<String as PartialEq<str>>::eq] (a: &String, b: &str) -> (r: bool)
    ensures r == (a@ == b@);

// element access used by rule D5 (iter_mut().filter(p).for_each(f) unrolled by its std definition)
#[verifier::external_body]
pub fn vx_deque_get_mut<T>(q: &mut VecDeque<T>, i: usize) -> (r: &mut T)
    requires i < old(q)@.len()
    ensures *r == old(q)@[i as int], final(q)@ == old(q)@.update(i as int, *final(r))
{ q.get_mut(i).unwrap() }

// two stores agree at key k
pub open spec fn same_at(a: St, b: St, k: Seq<u8>) -> bool { a.contains_key(k) == b.contains_key(k) && a[k] == b[k] }
// ---- cw_storage_plus::Deque (src/deque.rs): head / tail counters and the elements live under keys
//   lp(namespace) ++ ("h" | "t" | big-endian index); push_back touches only such keys.   ASSUMED
#[verifier::external_body]
#[verifier::reject_recursive_types(T)]
pub struct Deque<T> { p: core::marker::PhantomData<T> }
impl<T: CwVal> Deque<T> {
    pub uninterp spec fn ns(&self) -> Seq<u8>;
    #[verifier::external_body]
    pub const fn new(namespace: &'static str) -> (r: Self) ensures r.ns() == str_bytes(namespace@) { Deque { p: core::marker::PhantomData } }
    #[verifier::external_body]
    pub fn push_back(&self, store: &mut dyn Storage, value: &T) -> (r: StdResult<()>)
        ensures forall|k: Seq<u8>| !starts_with(k, lp(self.ns())) ==> #[trigger] same_at(final(store).view(), old(store).view(), k)
    { unimplemented!() }
}
