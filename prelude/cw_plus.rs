// ---------------------------------------------------------------------------
// prelude/cw_plus.rs -- ASSUMED contract of cw_storage_plus::Map over a raw Storage (cw-storage-plus 2.0.0,
// src/map.rs + src/path.rs): the raw key of entry k is lp(namespace) ++ key_path(k); the value is the JSON
// serialisation (uninterpreted, round trip assumed); load / may_load / save / remove / update act on that one key.
// NOTE: this type is named `Map` as in the repo code; vstd's spec map is written vstd::map::Map where needed.
// ---------------------------------------------------------------------------
pub trait CwVal: Sized {
    spec fn ser(&self) -> Seq<u8>;
    spec fn ser_ok(&self) -> bool;
    spec fn de(b: Seq<u8>) -> StdResult<Self>;
}
// round trip: what was saved is what is loaded
pub axiom fn axiom_cw_roundtrip<V: CwVal>(v: V)
    ensures V::de(v.ser()) == Ok::<V, StdError>(v);

pub trait CwKey {
    spec fn key_path(&self) -> Seq<u8>;
}
impl<'a> CwKey for &'a Addr { open spec fn key_path(&self) -> Seq<u8> { self.bytes() } }

#[verifier::external_body]
#[verifier::reject_recursive_types(K)]
#[verifier::reject_recursive_types(V)]
pub struct Map<K, V> { p: core::marker::PhantomData<(K, V)> }


pub uninterp spec fn str_bytes(s: Seq<char>) -> Seq<u8>;   // UTF-8 bytes of a string
// UTF-8 encoding facts (TRUSTED): injective; an ASCII string encodes to its own code points
pub axiom fn axiom_str_bytes_inj(a: Seq<char>, b: Seq<char>)
    ensures str_bytes(a) == str_bytes(b) ==> a == b;
pub axiom fn axiom_str_bytes_ascii(s: Seq<char>)
    requires forall|i: int| 0 <= i < s.len() ==> (s[i] as u32) < 128
    ensures str_bytes(s).len() == s.len(), forall|i: int| 0 <= i < s.len() ==> str_bytes(s)[i] == s[i] as u8;

pub open spec fn map_load<V: CwVal>(st: St, raw: Seq<u8>) -> StdResult<V> {
    if st.contains_key(raw) { V::de(st[raw]) } else { Err(StdError) }
}
pub open spec fn map_may_load<V: CwVal>(st: St, raw: Seq<u8>) -> StdResult<Option<V>> {
    if st.contains_key(raw) { match V::de(st[raw]) { Ok(v) => Ok(Some(v)), Err(e) => Err(e) } } else { Ok(None) }
}

impl<K: CwKey, V: CwVal> Map<K, V> {
    pub uninterp spec fn ns(&self) -> Seq<u8>;
    pub open spec fn raw_key(&self, k: K) -> Seq<u8> { lp(self.ns()) + k.key_path() }

    #[verifier::external_body]
    pub const fn new(namespace: &'static str) -> (r: Self) ensures r.ns() == str_bytes(namespace@) { Map { p: core::marker::PhantomData } }

    #[verifier::external_body]
    pub fn load(&self, store: &dyn Storage, k: K) -> (r: StdResult<V>)
        ensures r == map_load::<V>(store.view(), self.raw_key(k))
    { unimplemented!() }
    #[verifier::external_body]
    pub fn may_load(&self, store: &dyn Storage, k: K) -> (r: StdResult<Option<V>>)
        ensures r == map_may_load::<V>(store.view(), self.raw_key(k))
    { unimplemented!() }
    #[verifier::external_body]
    pub fn save(&self, store: &mut dyn Storage, k: K, data: &V) -> (r: StdResult<()>)
        ensures (r is Ok) == data.ser_ok(),
            r is Ok ==> final(store).view() == old(store).view().insert(self.raw_key(k), data.ser()),
            r is Err ==> final(store).view() == old(store).view()
    { unimplemented!() }
    #[verifier::external_body]
    pub fn remove(&self, store: &mut dyn Storage, k: K)
        ensures final(store).view() == old(store).view().remove(self.raw_key(k))
    { unimplemented!() }
}

// Result<T, StdError> -> AnyResult<T>  (`.map_err(Into::into)` in the repo; rule R17 rewrites it to this function)
pub fn std_to_any<T>(r: StdResult<T>) -> (o: AnyResult<T>)
    ensures match r { Ok(v) => o == Ok::<T, AnyError>(v), Err(_) => o == Err::<T, AnyError>(AnyError) }
{
    match r { Ok(v) => Ok(v), Err(_) => Err(AnyError) }
}

// ---- Map::range over ALL entries (cw-storage-plus src/map.rs `range(store, None, None, order)`): the records of the
// map's namespace window in raw-key order, each decoded; a record that does not decode yields Err in its place.
#[verifier::external_body]
#[verifier::reject_recursive_types(V)]
pub struct EntryIter<V> { p: core::marker::PhantomData<V> }
impl<V> EntryIter<V> { pub uninterp spec fn rem(&self) -> Seq<StdResult<(Addr, V)>>; }
pub open spec fn entries_of<V: CwVal>(w: St, recs: Seq<RecV>, items: Seq<StdResult<(Addr, V)>>, order: Order) -> bool {
    &&& is_range_of(recs, w, None, None, order)
    &&& items.len() == recs.len()
    &&& forall|i: int| 0 <= i < recs.len() ==> match V::de((#[trigger] recs[i]).1) { Ok(v) => items[i] matches Ok(p) && p.1 == v && p.0.bytes() == recs[i].0, Err(_) => items[i] is Err }
}
impl<'a, V: CwVal> Map<&'a Addr, V> {
    #[verifier::external_body]
    pub fn range(&self, store: &dyn Storage, min: Option<core::ops::Bound<&'a Addr>>, max: Option<core::ops::Bound<&'a Addr>>, order: Order) -> (r: EntryIter<V>)
        requires min is None, max is None
        ensures exists|recs: Seq<RecV>| entries_of::<V>(window(store.view(), lp(self.ns())), recs, r.rem(), order)
    { unimplemented!() }
}
// ---- Map::range_raw over ALL entries (cw-storage-plus src/map.rs `range_raw(store, None, None, order)`): one item per record
// of the map's namespace window (raw key, decoded value or Err), in raw-key order; `Iterator::count` consumes it and
// returns the number of items.   ASSUMED
#[verifier::external_body]
#[verifier::reject_recursive_types(V)]
pub struct RawEntryIter<V> { p: core::marker::PhantomData<V> }
impl<V> RawEntryIter<V> {
    pub uninterp spec fn rem_len(&self) -> nat;
    #[verifier::external_body]
    pub fn count(self) -> (r: usize) ensures r as nat == self.rem_len() { unimplemented!() }
}
impl<'a, V: CwVal> Map<&'a Addr, V> {
    #[verifier::external_body]
    pub fn range_raw(&self, store: &dyn Storage, min: Option<core::ops::Bound<&'a Addr>>, max: Option<core::ops::Bound<&'a Addr>>, order: Order) -> (r: RawEntryIter<V>)
        requires min is None, max is None
        ensures exists|recs: Seq<RecV>| is_range_of(recs, window(store.view(), lp(self.ns())), None, None, order) && r.rem_len() == recs.len()
    { unimplemented!() }
}
// Iterator::collect::<StdResult<Vec<_>>>() (rule D9): all items in order if every one is Ok, otherwise the first error
#[verifier::external_body]
pub fn entries_collect<V>(it: EntryIter<V>) -> (r: StdResult<Vec<(Addr, V)>>)
    ensures match r {
        Ok(v) => v@.len() == it.rem().len() && forall|i: int| 0 <= i < v@.len() ==> it.rem()[i] == Ok::<(Addr, V), StdError>(#[trigger] v@[i]),
        Err(_) => exists|i: int| 0 <= i < it.rem().len() && it.rem()[i] is Err,
    }
{ unimplemented!() }
