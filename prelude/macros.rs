// shadowed error / formatting macros (must be textually before use; outside verus!):
// error payloads and formatted strings are opaque, only Ok / Err and control flow matter.
#[allow(unused_macros)]
macro_rules! bail { ($($t:tt)*) => { return Err(AnyError) }; }
#[allow(unused_macros)]
macro_rules! anyhow { ($($t:tt)*) => { AnyError }; }
#[allow(unused_macros)]
macro_rules! format { ($($t:tt)*) => { fmt_str("") }; }
