// shadowed error / formatting macros (must be textually before use; outside verus!):
// error payloads and formatted strings are opaque, only Ok / Err and control flow matter.
#[allow(unused_macros)]
macro_rules! bail { ($($t:tt)*) => { return Err(AnyError) }; }
#[allow(unused_macros)]
macro_rules! anyhow { ($($t:tt)*) => { AnyError }; }
#[allow(unused_macros)]
macro_rules! format { ($($t:tt)*) => { fmt_str("") }; }
// cosmwasm_std::ensure! / ensure_eq! by their definitions (cosmwasm-std 2.2.2 src/errors/mod.rs... `if !cond { return Err(From::from(e)) }`)
#[allow(unused_macros)]
macro_rules! ensure { ($cond:expr, $e:expr $(,)?) => { if !($cond) { return Err(core::convert::From::from($e)); } }; }
#[allow(unused_macros)]
macro_rules! ensure_eq { ($a:expr, $b:expr, $e:expr $(,)?) => { if !($a == $b) { return Err(core::convert::From::from($e)); } }; }
