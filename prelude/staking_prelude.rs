// ---------------------------------------------------------------------------
// prelude/staking_prelude.rs -- ASSUMED contracts of cosmwasm_std::{Decimal, Uint128, Timestamp} arithmetic as used by
// staking.rs (cosmwasm-std 2.2.2, src/math/decimal.rs, uint128.rs, timestamp.rs): exact integer formulas.
// Overflow of the 128-bit results PANICS in the real code; the contracts below state the result for results that
// fit (partial correctness with respect to overflow); underflow / division by zero are preconditions.
// ---------------------------------------------------------------------------
pub open spec fn dec_one() -> nat { 1_000_000_000_000_000_000 }
pub open spec fn dmul(a: nat, b: nat) -> nat { a * b / dec_one() }              // Decimal * Decimal
pub open spec fn ddiv(a: nat, b: nat) -> nat { if b == 0 { 0 } else { a * dec_one() / b } }   // Decimal / Decimal
pub open spec fn dratio(n: nat, d: nat) -> nat { if d == 0 { 0 } else { n * dec_one() / d } } // Decimal::from_ratio
pub open spec fn fits(x: nat) -> bool { x <= u128::MAX }

impl Decimal {
    #[verifier::external_body]
    pub fn zero() -> (r: Decimal) ensures r.atomics == 0 { Decimal { atomics: 0 } }
    #[verifier::external_body]
    pub fn one() -> (r: Decimal) ensures r.atomics == dec_one() { Decimal { atomics: 1_000_000_000_000_000_000 } }
    pub fn is_zero(&self) -> (r: bool) ensures r == (self.atomics == 0) { self.atomics == 0 }
    pub fn atomics(&self) -> (r: Uint128) ensures r.u == self.atomics { Uint128 { u: self.atomics } }
    pub fn new(value: Uint128) -> (r: Decimal) ensures r.atomics == value.u { Decimal { atomics: value.u } }
    pub fn raw(value: u128) -> (r: Decimal) ensures r.atomics == value { Decimal { atomics: value } }
    // floor / ceil to whole tokens
    pub fn to_uint_floor(self) -> (r: Uint128) ensures r.u == self.atomics / 1_000_000_000_000_000_000 { Uint128 { u: self.atomics / 1_000_000_000_000_000_000 } }
    #[verifier::external_body]
    pub fn to_uint_ceil(self) -> (r: Uint128) ensures r.u == (self.atomics + 999_999_999_999_999_999) / 1_000_000_000_000_000_000 { Uint128 { u: 0 } }
    #[verifier::external_body]
    pub fn percent(x: u64) -> (r: Decimal) ensures r.atomics == x * 10_000_000_000_000_000 { Decimal { atomics: 0 } }
    // from_ratio(n, d): floor(n * 10^18 / d); panics for d == 0 (precondition) and on overflow (partial correctness)
    #[verifier::external_body]
    pub fn from_ratio<A: IntoU128, B: IntoU128>(n: A, d: B) -> (r: Decimal)
        requires d.as_nat() > 0
        ensures fits(dratio(n.as_nat(), d.as_nat())) ==> r.atomics == dratio(n.as_nat(), d.as_nat())
    { Decimal { atomics: 0 } }
}
pub trait IntoU128 { spec fn as_nat(&self) -> nat; }
impl IntoU128 for u128 { open spec fn as_nat(&self) -> nat { *self as nat } }
impl IntoU128 for u64 { open spec fn as_nat(&self) -> nat { *self as nat } }
impl IntoU128 for Uint128 { open spec fn as_nat(&self) -> nat { self.u as nat } }

impl Coin {
    // Coin::new(amount: impl Into<Uint128>, denom: impl Into<String>)  (cosmwasm-std coin.rs)   ASSUMED
    #[verifier::external_body]
    pub fn new<A: IntoU128, D: IntoStr>(amount: A, denom: D) -> (r: Coin) ensures r.amount.u == amount.as_nat(), r.denom@ == denom.str_view() { unimplemented!() }
}
impl vstd::std_specs::ops::MulSpecImpl<Decimal> for Decimal {
    open spec fn obeys_mul_spec() -> bool { false }
    open spec fn mul_req(self, rhs: Decimal) -> bool { true }
    open spec fn mul_spec(self, rhs: Decimal) -> Decimal { arbitrary() }
}
impl core::ops::Mul<Decimal> for Decimal {
    type Output = Decimal;
    #[verifier::external_body]
    fn mul(self, o: Decimal) -> (r: Decimal)
        ensures fits(dmul(self.atomics as nat, o.atomics as nat)) ==> r.atomics == dmul(self.atomics as nat, o.atomics as nat)
    { self }
}
impl vstd::std_specs::ops::DivSpecImpl<Decimal> for Decimal {
    open spec fn obeys_div_spec() -> bool { false }
    open spec fn div_req(self, rhs: Decimal) -> bool { rhs.atomics > 0 }
    open spec fn div_spec(self, rhs: Decimal) -> Decimal { arbitrary() }
}
impl core::ops::Div<Decimal> for Decimal {
    type Output = Decimal;
    #[verifier::external_body]
    fn div(self, o: Decimal) -> (r: Decimal)
        ensures fits(ddiv(self.atomics as nat, o.atomics as nat)) ==> r.atomics == ddiv(self.atomics as nat, o.atomics as nat)
    { self }
}
impl vstd::std_specs::ops::DivSpecImpl<Uint128> for Decimal {
    open spec fn obeys_div_spec() -> bool { false }
    open spec fn div_req(self, rhs: Uint128) -> bool { rhs.u > 0 }
    open spec fn div_spec(self, rhs: Uint128) -> Decimal { arbitrary() }
}
impl core::ops::Div<Uint128> for Decimal {
    type Output = Decimal;
    // Decimal / Uint128 = floor(atomics / rhs)
    #[verifier::external_body]
    fn div(self, o: Uint128) -> (r: Decimal)
        ensures r.atomics == self.atomics / o.u
    { self }
}
impl vstd::std_specs::ops::AddSpecImpl<Decimal> for Decimal {
    open spec fn obeys_add_spec() -> bool { false }
    open spec fn add_req(self, rhs: Decimal) -> bool { true }
    open spec fn add_spec(self, rhs: Decimal) -> Decimal { arbitrary() }
}
impl core::ops::Add<Decimal> for Decimal {
    type Output = Decimal;
    #[verifier::external_body]
    fn add(self, o: Decimal) -> (r: Decimal)
        ensures fits((self.atomics + o.atomics) as nat) ==> r.atomics == self.atomics + o.atomics
    { self }
}
impl vstd::std_specs::ops::SubSpecImpl<Decimal> for Decimal {
    open spec fn obeys_sub_spec() -> bool { true }
    open spec fn sub_req(self, rhs: Decimal) -> bool { self.atomics >= rhs.atomics }
    open spec fn sub_spec(self, rhs: Decimal) -> Decimal { Decimal { atomics: (self.atomics - rhs.atomics) as u128 } }
}
impl core::ops::Sub<Decimal> for Decimal {
    type Output = Decimal;
    fn sub(self, o: Decimal) -> (r: Decimal) { Decimal { atomics: self.atomics - o.atomics } }
}
impl core::ops::AddAssign<Decimal> for Decimal {
    #[verifier::external_body]
    fn add_assign(&mut self, o: Decimal)
        ensures fits((old(self).atomics + o.atomics) as nat) ==> final(self).atomics == old(self).atomics + o.atomics
    { }
}
impl vstd::std_specs::ops::AddAssignSpecImpl<Decimal> for Decimal {
    open spec fn obeys_add_assign_spec() -> bool { false }
    open spec fn add_assign_req(&self, rhs: Decimal) -> bool { true }
    open spec fn add_assign_spec(&self, rhs: Decimal) -> &Self { arbitrary() }
}
impl core::ops::SubAssign<Decimal> for Decimal {
    #[verifier::external_body]
    fn sub_assign(&mut self, o: Decimal) { }
}
impl vstd::std_specs::ops::SubAssignSpecImpl<Decimal> for Decimal {
    open spec fn obeys_sub_assign_spec() -> bool { true }
    open spec fn sub_assign_req(&self, rhs: Decimal) -> bool { self.atomics >= rhs.atomics }
    open spec fn sub_assign_spec(&self, rhs: Decimal) -> &Self { &Decimal { atomics: (self.atomics - rhs.atomics) as u128 } }
}
impl core::ops::MulAssign<Decimal> for Decimal {
    #[verifier::external_body]
    fn mul_assign(&mut self, o: Decimal)
        ensures fits(dmul(old(self).atomics as nat, o.atomics as nat)) ==> final(self).atomics == dmul(old(self).atomics as nat, o.atomics as nat)
    { }
}
impl vstd::std_specs::ops::MulAssignSpecImpl<Decimal> for Decimal {
    open spec fn obeys_mul_assign_spec() -> bool { false }
    open spec fn mul_assign_req(&self, rhs: Decimal) -> bool { true }
    open spec fn mul_assign_spec(&self, rhs: Decimal) -> &Self { arbitrary() }
}
impl vstd::std_specs::cmp::PartialEqSpecImpl for Decimal {
    open spec fn obeys_eq_spec() -> bool { true }
    open spec fn eq_spec(&self, other: &Decimal) -> bool { self.atomics == other.atomics }
}
impl PartialEq for Decimal { fn eq(&self, o: &Decimal) -> (r: bool) { self.atomics == o.atomics } }
impl vstd::std_specs::cmp::PartialOrdSpecImpl for Decimal {
    open spec fn obeys_partial_cmp_spec() -> bool { true }
    open spec fn partial_cmp_spec(&self, other: &Decimal) -> Option<core::cmp::Ordering> {
        if self.atomics < other.atomics { Some(core::cmp::Ordering::Less) } else if self.atomics == other.atomics { Some(core::cmp::Ordering::Equal) } else { Some(core::cmp::Ordering::Greater) }
    }
}
impl Eq for Decimal {}
impl vstd::std_specs::cmp::OrdSpecImpl for Decimal {
    open spec fn obeys_cmp_spec() -> bool { true }
    open spec fn cmp_spec(&self, other: &Decimal) -> core::cmp::Ordering {
        if self.atomics < other.atomics { core::cmp::Ordering::Less } else if self.atomics == other.atomics { core::cmp::Ordering::Equal } else { core::cmp::Ordering::Greater }
    }
}
impl Ord for Decimal {
    fn cmp(&self, o: &Decimal) -> (r: core::cmp::Ordering) {
        if self.atomics < o.atomics { core::cmp::Ordering::Less } else if self.atomics == o.atomics { core::cmp::Ordering::Equal } else { core::cmp::Ordering::Greater }
    }
}
impl PartialOrd for Decimal {
    fn partial_cmp(&self, o: &Decimal) -> (r: Option<core::cmp::Ordering>) {
        if self.atomics < o.atomics { Some(core::cmp::Ordering::Less) } else if self.atomics == o.atomics { Some(core::cmp::Ordering::Equal) } else { Some(core::cmp::Ordering::Greater) }
    }
}

impl Uint128 {
    pub fn new(u: u128) -> (r: Uint128) ensures r.u == u { Uint128 { u } }
    pub fn zero() -> (r: Uint128) ensures r.u == 0 { Uint128 { u: 0 } }
    #[verifier::external_body]
    pub fn to_string(&self) -> (r: String) { String::new() }
    pub fn u128(&self) -> (r: u128) ensures r == self.u { self.u }
    // Uint128::mul_floor(Decimal) = floor(self * atomics / 10^18)
    #[verifier::external_body]
    pub fn mul_floor(self, d: Decimal) -> (r: Uint128)
        ensures fits(dmul(self.u as nat, d.atomics as nat)) ==> r.u == dmul(self.u as nat, d.atomics as nat)
    { self }
    // ceil(self * atomics / 10^18)
    #[verifier::external_body]
    pub fn mul_ceil(self, d: Decimal) -> (r: Uint128)
        ensures fits((self.u as nat * d.atomics as nat + dec_one() - 1) as nat / dec_one()) ==> r.u == (self.u as nat * d.atomics as nat + dec_one() - 1) as nat / dec_one()
    { self }
    // floor(self * n / d); panics for d == 0 and on overflow
    #[verifier::external_body]
    pub fn multiply_ratio<A: IntoU128, B: IntoU128>(&self, n: A, d: B) -> (r: Uint128)
        requires d.as_nat() > 0
        ensures fits(self.u as nat * n.as_nat() / d.as_nat()) ==> r.u == self.u as nat * n.as_nat() / d.as_nat()
    { *self }
    pub fn saturating_sub(self, o: Uint128) -> (r: Uint128)
        ensures r.u == if self.u >= o.u { (self.u - o.u) as u128 } else { 0u128 }
    { if self.u >= o.u { Uint128 { u: self.u - o.u } } else { Uint128 { u: 0 } } }
    pub fn checked_sub(self, o: Uint128) -> (r: Result<Uint128, OverflowError>)
        ensures match r { Ok(x) => self.u >= o.u && x.u == self.u - o.u, Err(_) => self.u < o.u }
    { if self.u >= o.u { Ok(Uint128 { u: self.u - o.u }) } else { Err(OverflowError { operation: OverflowOperation::Sub }) } }
    pub fn checked_add(self, o: Uint128) -> (r: Result<Uint128, OverflowError>)
        ensures match r { Ok(x) => self.u + o.u <= u128::MAX && x.u == self.u + o.u, Err(_) => self.u + o.u > u128::MAX }
    { if self.u <= u128::MAX - o.u { Ok(Uint128 { u: self.u + o.u }) } else { Err(OverflowError { operation: OverflowOperation::Add }) } }
}
impl vstd::std_specs::convert::FromSpecImpl<OverflowError> for AnyError {
    open spec fn obeys_from_spec() -> bool { true }
    open spec fn from_spec(e: OverflowError) -> AnyError { AnyError }
}
impl From<OverflowError> for AnyError { fn from(e: OverflowError) -> (r: AnyError) { AnyError } }

impl Timestamp {
    pub fn nanos(&self) -> (r: u64) ensures r == self.nanos { self.nanos }
    pub fn seconds(&self) -> (r: u64) ensures r == self.nanos / 1_000_000_000 { self.nanos / 1_000_000_000 }
    // minus_*: strict_sub (panic on underflow); plus_seconds: `a * 1_000_000_000` is a plain u64 multiplication (wraps when overflow checks are off), then strict_add; the contract below is conditional on the sum fitting and says nothing otherwise = precondition / partial correctness
    pub fn minus_nanos(&self, sub: u64) -> (r: Timestamp) requires self.nanos >= sub ensures r.nanos == self.nanos - sub { Timestamp { nanos: self.nanos - sub } }
    #[verifier::external_body]
    pub fn plus_seconds(&self, add: u64) -> (r: Timestamp)
        ensures self.nanos + add * 1_000_000_000 <= u64::MAX ==> r.nanos == self.nanos + add * 1_000_000_000
    { *self }
    #[verifier::external_body]
    pub fn minus_seconds(&self, sub: u64) -> (r: Timestamp)
        requires self.nanos >= sub * 1_000_000_000
        ensures r.nanos == self.nanos - sub * 1_000_000_000
    { *self }
}
impl vstd::std_specs::cmp::PartialEqSpecImpl for Timestamp {
    open spec fn obeys_eq_spec() -> bool { true }
    open spec fn eq_spec(&self, other: &Timestamp) -> bool { self.nanos == other.nanos }
}
impl PartialEq for Timestamp { fn eq(&self, o: &Timestamp) -> (r: bool) { self.nanos == o.nanos } }
impl vstd::std_specs::cmp::PartialOrdSpecImpl for Timestamp {
    open spec fn obeys_partial_cmp_spec() -> bool { true }
    open spec fn partial_cmp_spec(&self, other: &Timestamp) -> Option<core::cmp::Ordering> {
        if self.nanos < other.nanos { Some(core::cmp::Ordering::Less) } else if self.nanos == other.nanos { Some(core::cmp::Ordering::Equal) } else { Some(core::cmp::Ordering::Greater) }
    }
}
impl PartialOrd for Timestamp {
    fn partial_cmp(&self, o: &Timestamp) -> (r: Option<core::cmp::Ordering>) {
        if self.nanos < o.nanos { Some(core::cmp::Ordering::Less) } else if self.nanos == o.nanos { Some(core::cmp::Ordering::Equal) } else { Some(core::cmp::Ordering::Greater) }
    }
}

pub struct Validator { pub address: String, pub commission: Decimal, pub max_commission: Decimal, pub max_change_rate: Decimal }

// ---- Uint128 comparison / arithmetic operators (overflow panics: partial correctness; underflow is a precondition)
impl vstd::std_specs::cmp::PartialEqSpecImpl for Uint128 {
    open spec fn obeys_eq_spec() -> bool { true }
    open spec fn eq_spec(&self, other: &Uint128) -> bool { self.u == other.u }
}
impl PartialEq for Uint128 { fn eq(&self, o: &Uint128) -> (r: bool) { self.u == o.u } }
impl vstd::std_specs::cmp::PartialOrdSpecImpl for Uint128 {
    open spec fn obeys_partial_cmp_spec() -> bool { true }
    open spec fn partial_cmp_spec(&self, other: &Uint128) -> Option<core::cmp::Ordering> {
        if self.u < other.u { Some(core::cmp::Ordering::Less) } else if self.u == other.u { Some(core::cmp::Ordering::Equal) } else { Some(core::cmp::Ordering::Greater) }
    }
}
impl PartialOrd for Uint128 {
    fn partial_cmp(&self, o: &Uint128) -> (r: Option<core::cmp::Ordering>) {
        if self.u < o.u { Some(core::cmp::Ordering::Less) } else if self.u == o.u { Some(core::cmp::Ordering::Equal) } else { Some(core::cmp::Ordering::Greater) }
    }
}
impl vstd::std_specs::ops::AddSpecImpl<Uint128> for Uint128 {
    open spec fn obeys_add_spec() -> bool { false }
    open spec fn add_req(self, rhs: Uint128) -> bool { true }
    open spec fn add_spec(self, rhs: Uint128) -> Uint128 { arbitrary() }
}
impl core::ops::Add<Uint128> for Uint128 {
    type Output = Uint128;
    #[verifier::external_body]
    // cosmwasm-std: `+` on Uint128 panics on overflow, so a call that returns did not overflow (partial correctness)
    fn add(self, o: Uint128) -> (r: Uint128)
        ensures fits((self.u + o.u) as nat), r.u == self.u + o.u
    { self }
}
impl vstd::std_specs::ops::SubSpecImpl<Uint128> for Uint128 {
    open spec fn obeys_sub_spec() -> bool { true }
    open spec fn sub_req(self, rhs: Uint128) -> bool { self.u >= rhs.u }
    open spec fn sub_spec(self, rhs: Uint128) -> Uint128 { Uint128 { u: (self.u - rhs.u) as u128 } }
}
impl core::ops::Sub<Uint128> for Uint128 {
    type Output = Uint128;
    fn sub(self, o: Uint128) -> (r: Uint128) { Uint128 { u: self.u - o.u } }
}
impl core::ops::AddAssign<Uint128> for Uint128 {
    #[verifier::external_body]
    // likewise `+=` (panics on overflow)
    fn add_assign(&mut self, o: Uint128)
        ensures fits((old(self).u + o.u) as nat), final(self).u == old(self).u + o.u
    { }
}
impl vstd::std_specs::ops::AddAssignSpecImpl<Uint128> for Uint128 {
    open spec fn obeys_add_assign_spec() -> bool { false }
    open spec fn add_assign_req(&self, rhs: Uint128) -> bool { true }
    open spec fn add_assign_spec(&self, rhs: Uint128) -> &Self { arbitrary() }
}


// ---- staking query responses (cosmwasm_std::{Delegation, FullDelegation, DelegationResponse, ...}): plain records
pub struct Delegation { pub delegator: Addr, pub validator: String, pub amount: Coin }
impl Delegation { pub fn new(delegator: Addr, validator: String, amount: Coin) -> (r: Self) ensures r == (Delegation { delegator, validator, amount }) { Delegation { delegator, validator, amount } } }
pub struct FullDelegation { pub delegator: Addr, pub validator: String, pub amount: Coin, pub can_redelegate: Coin, pub accumulated_rewards: Vec<Coin> }
impl FullDelegation {
    pub fn new(delegator: Addr, validator: String, amount: Coin, can_redelegate: Coin, accumulated_rewards: Vec<Coin>) -> (r: Self)
        ensures r == (FullDelegation { delegator, validator, amount, can_redelegate, accumulated_rewards })
    { FullDelegation { delegator, validator, amount, can_redelegate, accumulated_rewards } }
}
pub struct DelegationResponse { pub delegation: Option<FullDelegation> }
impl DelegationResponse { pub fn new(delegation: Option<FullDelegation>) -> (r: Self) ensures r.delegation == delegation { DelegationResponse { delegation } } }
pub struct AllDelegationsResponse { pub delegations: Vec<Delegation> }
impl AllDelegationsResponse { pub fn new(delegations: Vec<Delegation>) -> (r: Self) ensures r.delegations == delegations { AllDelegationsResponse { delegations } } }
pub struct BondedDenomResponse { pub denom: String }
impl BondedDenomResponse { pub fn new(denom: String) -> (r: Self) ensures r.denom == denom { BondedDenomResponse { denom } } }
pub struct AllValidatorsResponse { pub validators: Vec<Validator> }
impl AllValidatorsResponse { pub fn new(validators: Vec<Validator>) -> (r: Self) ensures r.validators == validators { AllValidatorsResponse { validators } } }
pub struct ValidatorResponse { pub validator: Option<Validator> }
impl ValidatorResponse { pub fn new(validator: Option<Validator>) -> (r: Self) ensures r.validator == validator { ValidatorResponse { validator } } }
impl Serialize for DelegationResponse {}
impl Serialize for AllDelegationsResponse {}
impl Serialize for BondedDenomResponse {}
impl Serialize for AllValidatorsResponse {}
impl Serialize for ValidatorResponse {}
