// ---------------------------------------------------------------------------
// prelude/cw_utils.rs -- ASSUMED contract of cw_utils::NativeBalance (cw-utils 2.0.0, src/balance.rs).
// The three operations the bank uses are uninterpreted functions on coin lists; what is assumed of them is stated
// as axioms over amt(list, denom) = total amount of that denomination in the list.
// ---------------------------------------------------------------------------
pub struct NativeBalance(pub Vec<Coin>);

pub open spec fn amt(v: Seq<Coin>, d: Seq<char>) -> nat
    decreases v.len()
{
    if v.len() == 0 { 0 } else { amt(v.drop_last(), d) + (if v.last().denom@ == d { v.last().amount.u as nat } else { 0 }) }
}
pub open spec fn all_pos(v: Seq<Coin>) -> bool { forall|i: int| 0 <= i < v.len() ==> (#[trigger] v[i]).amount.u > 0 }
// a normalised balance: no zero amounts, each denomination at most once (sorted by denomination)
pub uninterp spec fn nb_wf(v: Seq<Coin>) -> bool;
pub uninterp spec fn nb_normalize(v: Seq<Coin>) -> Seq<Coin>;
pub uninterp spec fn nb_add(a: Seq<Coin>, b: Seq<Coin>) -> Seq<Coin>;
pub uninterp spec fn nb_sub(a: Seq<Coin>, b: Seq<Coin>) -> StdResult<Seq<Coin>>;
pub open spec fn fits128(a: Seq<Coin>, b: Seq<Coin>) -> bool { forall|d: Seq<char>| amt(a, d) + amt(b, d) <= u128::MAX }

// normalize keeps every denomination's total (when it fits 128 bits) and yields a normalised list
pub axiom fn axiom_nb_normalize(v: Seq<Coin>, d: Seq<char>)
    ensures nb_wf(nb_normalize(v)), amt(v, d) <= u128::MAX ==> amt(nb_normalize(v), d) == amt(v, d);
// a normalised balance lists every denomination at most once and no zero amount (cw-utils 2.0.0 NativeBalance::normalize
// merges duplicates and drops zeros; checked by the differential test replay/prelude_crosscheck.rs)   ASSUMED
pub open spec fn nb_unique(v: Seq<Coin>) -> bool { forall|i: int, j: int| 0 <= i < j < v.len() ==> (#[trigger] v[i]).denom@ != (#[trigger] v[j]).denom@ }
pub axiom fn axiom_nb_wf_unique(v: Seq<Coin>)
    ensures nb_wf(v) ==> nb_unique(v) && all_pos(v);
pub axiom fn axiom_nb_wf_empty()
    ensures nb_wf(Seq::<Coin>::empty());
// a + b adds denomination-wise (u128 overflow panics: the statement is for sums that fit)
pub axiom fn axiom_nb_add(a: Seq<Coin>, b: Seq<Coin>, d: Seq<char>)
    ensures fits128(a, b) ==> amt(nb_add(a, b), d) == amt(a, d) + amt(b, d),
        nb_wf(a) && all_pos(b) ==> nb_wf(nb_add(a, b));
// a - coins subtracts coin by coin; it fails iff some running balance would go below zero (or the denomination is
// absent); for positive coins that is: some denomination's total exceeds the balance
pub axiom fn axiom_nb_sub(a: Seq<Coin>, b: Seq<Coin>)
    requires nb_wf(a), all_pos(b)
    ensures (nb_sub(a, b) is Ok) == (forall|d: Seq<char>| amt(b, d) <= amt(a, d)),
        nb_sub(a, b) is Ok ==> nb_wf(nb_sub(a, b).unwrap()) && forall|d: Seq<char>| amt(nb_sub(a, b).unwrap(), d) == amt(a, d) - amt(b, d);

// the three functions model results of executions that returned a Vec: their results fit a Vec
pub axiom fn axiom_nb_len(a: Seq<Coin>, b: Seq<Coin>)
    ensures nb_normalize(a).len() <= 0x7fff_ffff_ffff_ffff, nb_add(a, b).len() <= 0x7fff_ffff_ffff_ffff, nb_sub(a, b) is Ok ==> nb_sub(a, b).unwrap().len() <= 0x7fff_ffff_ffff_ffff;

impl NativeBalance {
    #[verifier::external_body]
    pub fn into_vec(self) -> (r: Vec<Coin>) ensures r == self.0 { self.0 }
    #[verifier::external_body]
    pub fn normalize(&mut self) ensures final(self).0@ == nb_normalize(old(self).0@) { }
}
impl Default for NativeBalance {
    #[verifier::external_body]
    fn default() -> (r: Self) ensures r.0@ == Seq::<Coin>::empty() { NativeBalance(Vec::new()) }
}
impl vstd::std_specs::ops::AddSpecImpl<NativeBalance> for NativeBalance {
    open spec fn obeys_add_spec() -> bool { false }
    open spec fn add_req(self, rhs: NativeBalance) -> bool { true }
    open spec fn add_spec(self, rhs: NativeBalance) -> NativeBalance { arbitrary() }
}
impl core::ops::Add<NativeBalance> for NativeBalance {
    type Output = NativeBalance;
    #[verifier::external_body]
    fn add(self, o: NativeBalance) -> (r: NativeBalance) ensures r.0@ == nb_add(self.0@, o.0@) { self }
}
impl vstd::std_specs::ops::SubSpecImpl<Vec<Coin>> for NativeBalance {
    open spec fn obeys_sub_spec() -> bool { false }
    open spec fn sub_req(self, rhs: Vec<Coin>) -> bool { true }
    open spec fn sub_spec(self, rhs: Vec<Coin>) -> StdResult<NativeBalance> { arbitrary() }
}
impl core::ops::Sub<Vec<Coin>> for NativeBalance {
    type Output = StdResult<NativeBalance>;
    #[verifier::external_body]
    fn sub(self, amount: Vec<Coin>) -> (r: StdResult<NativeBalance>)
        ensures match nb_sub(self.0@, amount@) { Ok(v) => r is Ok && r.unwrap().0@ == v, Err(_) => r is Err }
    { Ok(self) }
}
impl CwVal for NativeBalance {
    uninterp spec fn ser(&self) -> Seq<u8>;
    open spec fn ser_ok(&self) -> bool { true }
    uninterp spec fn de(b: Seq<u8>) -> StdResult<Self>;
}

// further NativeBalance API (single-coin forms): uninterpreted results, related to the list forms only by name
pub uninterp spec fn nb_sub1(a: Seq<Coin>, c: Coin) -> StdResult<Seq<Coin>>;
pub uninterp spec fn nb_sub_sat(a: Seq<Coin>, c: Coin) -> StdResult<Seq<Coin>>;
pub uninterp spec fn nb_add1(a: Seq<Coin>, c: Coin) -> Seq<Coin>;
pub uninterp spec fn nb_has(a: Seq<Coin>, c: Coin) -> bool;
impl NativeBalance {
    #[verifier::external_body]
    pub fn has(&self, required: &Coin) -> (r: bool) ensures r == nb_has(self.0@, *required) { true }
    #[verifier::external_body]
    pub fn sub_saturating(self, other: Coin) -> (r: StdResult<NativeBalance>)
        ensures match nb_sub_sat(self.0@, other) { Ok(v) => r is Ok && r.unwrap().0@ == v, Err(_) => r is Err }
    { Ok(self) }
}
impl vstd::std_specs::ops::SubSpecImpl<Coin> for NativeBalance {
    open spec fn obeys_sub_spec() -> bool { false }
    open spec fn sub_req(self, rhs: Coin) -> bool { true }
    open spec fn sub_spec(self, rhs: Coin) -> StdResult<NativeBalance> { arbitrary() }
}
impl core::ops::Sub<Coin> for NativeBalance {
    type Output = StdResult<NativeBalance>;
    #[verifier::external_body]
    fn sub(self, c: Coin) -> (r: StdResult<NativeBalance>)
        ensures match nb_sub1(self.0@, c) { Ok(v) => r is Ok && r.unwrap().0@ == v, Err(_) => r is Err }
    { Ok(self) }
}
impl vstd::std_specs::ops::AddSpecImpl<Coin> for NativeBalance {
    open spec fn obeys_add_spec() -> bool { false }
    open spec fn add_req(self, rhs: Coin) -> bool { true }
    open spec fn add_spec(self, rhs: Coin) -> NativeBalance { arbitrary() }
}
impl core::ops::Add<Coin> for NativeBalance {
    type Output = NativeBalance;
    #[verifier::external_body]
    fn add(self, c: Coin) -> (r: NativeBalance) ensures r.0@ == nb_add1(self.0@, c) { self }
}
//@ canary nb let a = Seq::<Coin>::empty(); let c = Coin { denom: str_of("x"@), amount: Uint128 { u: 5 } }; let b = seq![c]; axiom_nb_wf_empty(); axiom_nb_len(a, b); axiom_nb_add(a, b, "x"@); axiom_nb_add(b, b, "x"@); axiom_nb_normalize(b, "x"@); axiom_nb_normalize(nb_add(a, b), "x"@); assert(all_pos(b)); axiom_nb_sub(a, b); axiom_nb_sub(nb_add(a, b), b); axiom_cw_roundtrip(NativeBalance(vec_of(b)));
