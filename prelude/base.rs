// ---------------------------------------------------------------------------
// prelude/base.rs -- ASSUMED contracts of std / cosmwasm_std::Storage (trusted, not verified)
// ---------------------------------------------------------------------------
// ASSUMPTION: 64-bit target (usize is 8 bytes)
global size_of usize == 8;

pub assume_specification<T: Clone> [<[T]>::to_vec] (s: &[T]) -> (r: Vec<T>)
    ensures r@ == s@;

// Option::as_deref for Option<Vec<u8>> yields the same bytes as a slice.
pub uninterp spec fn spec_deref<T: core::ops::Deref>(t: &T) -> &T::Target;
pub assume_specification<T: core::ops::Deref> [std::option::Option::<T>::as_deref] (o: &Option<T>) -> (r: Option<&T::Target>)
    ensures match *o { Some(v) => r == Some(spec_deref(&v)), None => r is None };
pub axiom fn axiom_vec_deref(v: Vec<u8>)
    ensures spec_deref(&v)@ == v@;

// anyhow::Error / StdError are opaque: contracts speak about Ok / Err only.
#[derive(Debug)]
pub struct AnyError;
pub type AnyResult<T> = Result<T, AnyError>;

pub type St = IMap<Seq<u8>, Seq<u8>>;
pub type Record = (Vec<u8>, Vec<u8>);
pub type RecV = (Seq<u8>, Seq<u8>);

#[derive(Clone, Copy, PartialEq, Eq)]
pub enum Order { Ascending, Descending }

pub open spec fn recs_view(s: Seq<Record>) -> Seq<RecV> {
    Seq::new(s.len(), |i: int| (s[i].0@, s[i].1@))
}

// stand-in for Box<dyn Iterator<Item = Record> + 'a>  (rule R7): an opaque iterator of records
#[verifier::external_body]
pub struct RecordIter<'a> { inner: Box<dyn Iterator<Item = Record> + 'a> }
impl<'a> vstd::std_specs::iter::IteratorSpecImpl for RecordIter<'a> {
    open spec fn obeys_prophetic_iter_laws(&self) -> bool { true }
    open spec fn remaining(&self) -> Seq<Record> { self.rem() }
    open spec fn will_return_none(&self) -> bool { true }
    open spec fn decrease(&self) -> Option<nat> { Some(self.rem().len()) }
    open spec fn peek(&self, i: int) -> Option<Record> { if 0 <= i < self.rem().len() { Some(self.rem()[i]) } else { None } }
}
impl<'a> Iterator for RecordIter<'a> {
    type Item = Record;
    #[verifier::external_body]
    fn next(&mut self) -> (r: Option<Record>) { self.inner.next() }
}
impl<'a> RecordIter<'a> {
    pub uninterp spec fn rem(&self) -> Seq<Record>;
    #[verifier::external_body]
    pub fn boxed<I: Iterator<Item = Record> + 'a>(i: I) -> (r: RecordIter<'a>)
        ensures r.remaining() == i.remaining()
    { RecordIter { inner: Box::new(i) } }
}

// std::iter::Iterator::map (rule R8: `X.map(F)` -> `iter_map(X, F)` at the listed sites), as used with a total,
// non-panicking closure: yields f(x) for every x, in order. vstd's own spec of Iterator::map only gives `len <=`
// and types the items by an associated-type projection that Verus does not normalise reliably, so the adapter
// is represented by an opaque iterator whose item type is the closure's declared result type.   TRUSTED.
#[verifier::external_body]
#[verifier::reject_recursive_types(I)]
#[verifier::reject_recursive_types(B)]
#[verifier::reject_recursive_types(F)]
pub struct MapIter<I: Iterator, B, F: FnMut(I::Item) -> B> { inner: core::iter::Map<I, F> }
impl<I: Iterator, B, F: FnMut(I::Item) -> B> vstd::std_specs::iter::IteratorSpecImpl for MapIter<I, B, F> {
    open spec fn obeys_prophetic_iter_laws(&self) -> bool { true }
    open spec fn remaining(&self) -> Seq<B> { self.rem() }
    open spec fn will_return_none(&self) -> bool { true }
    open spec fn decrease(&self) -> Option<nat> { Some(self.rem().len()) }
    open spec fn peek(&self, i: int) -> Option<B> { if 0 <= i < self.rem().len() { Some(self.rem()[i]) } else { None } }
}
impl<I: Iterator, B, F: FnMut(I::Item) -> B> Iterator for MapIter<I, B, F> {
    type Item = B;
    #[verifier::external_body]
    fn next(&mut self) -> (r: Option<B>) { self.inner.next() }
}
impl<I: Iterator, B, F: FnMut(I::Item) -> B> MapIter<I, B, F> {
    pub uninterp spec fn rem(&self) -> Seq<B>;
}
#[verifier::external_body]
pub fn iter_map<I: Iterator, B, F: FnMut(I::Item) -> B>(i: I, f: F) -> (r: MapIter<I, B, F>)
    requires
        forall|k: int| 0 <= k < i.remaining().len() ==> #[trigger] f.requires((i.remaining()[k],)),
    ensures
        r.rem().len() == i.remaining().len(),
        forall|k: int| 0 <= k < i.remaining().len() ==> f.ensures((i.remaining()[k],), #[trigger] r.rem()[k]),
{ MapIter { inner: i.map(f) } }

// Iterator::collect::<Vec<Record>>() on a record iterator yields its remaining elements in order   TRUSTED
#[verifier::external_body]
pub fn iter_collect<'a>(i: RecordIter<'a>) -> (r: Vec<Record>)
    ensures r@ == i.remaining()
{ i.collect() }

pub trait Storage {
    spec fn view(&self) -> St;

    fn get(&self, key: &[u8]) -> (r: Option<Vec<u8>>)
        ensures match r { Some(v) => self.view().contains_key(key@) && self.view()[key@] == v@, None => !self.view().contains_key(key@) };

    fn range<'a>(&'a self, start: Option<&[u8]>, end: Option<&[u8]>, order: Order) -> (r: RecordIter<'a>)
        ensures is_range_of(recs_view(r.remaining()), self.view(), opt_view(start), opt_view(end), order);

    fn set(&mut self, key: &[u8], value: &[u8])
        ensures final(self).view() == old(self).view().insert(key@, value@);

    fn remove(&mut self, key: &[u8])
        ensures final(self).view() == old(self).view().remove(key@);
}

pub open spec fn opt_view(o: Option<&[u8]>) -> Option<Seq<u8>> {
    match o { Some(s) => Some(s@), None => None }
}

pub open spec fn optvec_view(o: Option<Vec<u8>>) -> Option<Seq<u8>> {
    match o { Some(s) => Some(s@), None => None }
}

// identity coercion  &mut T -> &mut dyn Storage  (rule R3; Verus has no &mut unsizing)   TRUSTED
#[verifier::external_body]
pub fn as_dyn_mut<'a, T: Storage>(x: &'a mut T) -> (r: &'a mut dyn Storage)
    ensures r.view() == old(x).view(), final(x).view() == final(r).view()
{ x }
// identity coercion  &T -> &dyn Storage  (rule R3b: Verus accepts the unsizing of a shared reference but does not relate
// the view of the trait object to the view of the value)   TRUSTED
#[verifier::external_body]
pub fn as_dyn_ref<'a, T: Storage>(x: &'a T) -> (r: &'a dyn Storage)
    ensures r.view() == x.view()
{ x }
//@ canary base let m = IMap::<Seq<u8>, Seq<u8>>::empty();
