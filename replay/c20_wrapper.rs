// replay driver for C20.wrapper.*: one test per with_* step, named like the Kani harness it replays.
// Each builds a wrapper with every entry point and a checksum, applies the step, and checks through the PUBLIC API
// that the checksum survived (Contract::checksum) - the witness family of the clause.
use cosmwasm_std::{Binary, Checksum, Deps, DepsMut, Empty, Env, MessageInfo, Reply, Response, StdError, StdResult};
use cw_multi_test::{Contract, ContractWrapper};

fn ex(_: DepsMut, _: Env, _: MessageInfo, _: Empty) -> StdResult<Response> { Err(StdError::generic_err("x")) }
fn qu(_: Deps, _: Env, _: Empty) -> StdResult<Binary> { Err(StdError::generic_err("x")) }
fn pe(_: DepsMut, _: Env, _: Empty) -> StdResult<Response> { Err(StdError::generic_err("x")) }
fn re(_: DepsMut, _: Env, _: Reply) -> StdResult<Response> { Err(StdError::generic_err("x")) }
fn cs() -> Checksum { Checksum::from([7u8; 32]) }

#[test] fn with_checksum_keeps_entry_points() {
    let w = ContractWrapper::new(ex, ex, qu).with_sudo(pe).with_reply(re).with_migrate(pe).with_checksum(cs());
    assert_eq!(w.checksum(), Some(cs()));
}
#[test] fn with_sudo_keeps_rest() { let w = ContractWrapper::new(ex, ex, qu).with_checksum(cs()).with_sudo(pe); assert_eq!(w.checksum(), Some(cs())); }
#[test] fn with_sudo_empty_keeps_rest() { let w = ContractWrapper::new(ex, ex, qu).with_checksum(cs()).with_sudo_empty(pe); assert_eq!(w.checksum(), Some(cs())); }
#[test] fn with_reply_keeps_rest() { let w = ContractWrapper::new(ex, ex, qu).with_checksum(cs()).with_reply(re); assert_eq!(w.checksum(), Some(cs())); }
#[test] fn with_reply_empty_keeps_rest() { let w = ContractWrapper::new(ex, ex, qu).with_checksum(cs()).with_reply_empty(re); assert_eq!(w.checksum(), Some(cs())); }
#[test] fn with_migrate_keeps_rest() { let w = ContractWrapper::new(ex, ex, qu).with_checksum(cs()).with_migrate(pe); assert_eq!(w.checksum(), Some(cs())); }
#[test] fn with_migrate_empty_keeps_rest() { let w = ContractWrapper::new(ex, ex, qu).with_checksum(cs()).with_migrate_empty(pe); assert_eq!(w.checksum(), Some(cs())); }
#[test] fn new_has_no_optional_parts() { let w = ContractWrapper::new(ex, ex, qu); assert_eq!(w.checksum(), None); }
#[test] fn new_with_empty_has_no_optional_parts() { let w: ContractWrapper<Empty, Empty, Empty, StdError, StdError, StdError> = ContractWrapper::new_with_empty(ex, ex, qu); assert_eq!(w.checksum(), None); }
