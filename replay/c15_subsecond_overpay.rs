#![cfg(feature = "staking")]
use cosmwasm_std::{coin, coins, BlockInfo, Decimal, StakingMsg, Validator, Timestamp};
use cw_multi_test::{AppBuilder, Executor, IntoAddr, IntoBech32, StakingInfo};

#[test]
fn c15_subsecond_overpay() {
    let d = "delegator".into_addr();
    let val = "val".into_bech32_with_prefix("cosmwasmvaloper").to_string();
    let stake: u128 = 1_000_000_000_000; // 1e12 tokens
    let mut app = AppBuilder::default().build(|router, api, storage| {
        router.bank.init_balance(storage, &d, coins(stake, "TOKEN")).unwrap();
        router.staking.setup(storage, StakingInfo { bonded_denom: "TOKEN".into(), unbonding_time: 60, apr: Decimal::percent(10) }).unwrap();
        let block = cosmwasm_std::testing::mock_env().block;
        router.staking.add_validator(api, storage, &block, Validator::new(val.clone(), Decimal::zero(), Decimal::percent(90), Decimal::percent(1))).unwrap();
    });
    // delegate at x.9 s
    let t0 = app.block_info().time;
    app.update_block(|b: &mut BlockInfo| { b.time = Timestamp::from_nanos((t0.nanos() / 1_000_000_000 + 10) * 1_000_000_000 + 950_000_000); });
    app.execute(d.clone(), StakingMsg::Delegate { validator: val.clone(), amount: coin(stake, "TOKEN") }.into()).unwrap();
    // 0.2 s later
    app.update_block(|b: &mut BlockInfo| { b.time = Timestamp::from_nanos(b.time.nanos() + 100_000_000); });
    let r = app.wrap().query_delegation(d.clone(), val.clone()).unwrap().unwrap();
    let shown: u128 = r.accumulated_rewards.iter().map(|c| c.amount.u128()).sum();
    // bound: stake * apr * elapsed / year = 1e15 * 0.1 * 0.2 / 31536000 = 634195.8 tokens
    let bound = stake / 10 / 10 / 31_536_000 + 1; // 0.1 s
    println!("shown {} bound {}", shown, bound);
    assert!(shown <= bound, "over-paid: shown {} > bound {}", shown, bound);
}
