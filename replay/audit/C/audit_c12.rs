//! Audit C12: admin-gated Migrate / UpdateAdmin / ClearAdmin (public API only).

use cosmwasm_std::{
    to_json_binary, Addr, Binary, CosmosMsg, Deps, DepsMut, Empty, Env, MessageInfo, Reply,
    Response, StdError, StdResult, SubMsg, WasmMsg,
};
use cw_multi_test::{App, Contract, ContractWrapper, Executor};
use cw_storage_plus::Item;
use serde::{Deserialize, Serialize};

const LOG: Item<Vec<String>> = Item::new("log");

#[derive(Serialize, Deserialize, Clone, Debug)]
enum Exec {
    Ping,
    /// send `msg` as a sub-message (reply always) from this contract
    Relay { msg: CosmosMsg },
}
#[derive(Serialize, Deserialize, Clone, Debug)]
struct Mig {
    fail: bool,
}

fn push(deps: DepsMut, s: String) -> StdResult<()> {
    let mut l = LOG.may_load(deps.storage)?.unwrap_or_default();
    l.push(s);
    LOG.save(deps.storage, &l)
}

macro_rules! versioned {
    ($name:ident, $v:expr) => {
        mod $name {
            use super::*;
            fn instantiate(deps: DepsMut, _e: Env, _i: MessageInfo, _m: Empty) -> StdResult<Response> {
                push(deps, format!("{}:init", $v))?;
                Ok(Response::new())
            }
            fn execute(deps: DepsMut, _e: Env, _i: MessageInfo, m: Exec) -> StdResult<Response> {
                match m {
                    Exec::Ping => {
                        push(deps, format!("{}:exec", $v))?;
                        Ok(Response::new().add_attribute("served_by", $v))
                    }
                    Exec::Relay { msg } => {
                        push(deps, format!("{}:relay", $v))?;
                        Ok(Response::new().add_submessage(SubMsg::reply_always(msg, 1)))
                    }
                }
            }
            fn query(deps: Deps, _e: Env, _m: Empty) -> StdResult<Binary> {
                to_json_binary(&($v.to_string(), LOG.may_load(deps.storage)?.unwrap_or_default()))
            }
            fn sudo(deps: DepsMut, _e: Env, _m: Empty) -> StdResult<Response> {
                push(deps, format!("{}:sudo", $v))?;
                Ok(Response::new())
            }
            fn migrate(deps: DepsMut, env: Env, m: Mig) -> StdResult<Response> {
                push(deps, format!("{}:migrate@{}", $v, env.contract.address))?;
                if m.fail {
                    return Err(StdError::generic_err("migrate refused"));
                }
                Ok(Response::new())
            }
            fn reply(deps: DepsMut, _e: Env, r: Reply) -> StdResult<Response> {
                #[allow(deprecated)]
                let ok = r.result.is_ok();
                push(deps, format!("{}:reply:{}", $v, if ok { "ok" } else { "err" }))?;
                Ok(Response::new())
            }
            pub fn contract() -> Box<dyn Contract<Empty>> {
                Box::new(
                    ContractWrapper::new(execute, instantiate, query)
                        .with_sudo(sudo)
                        .with_migrate(migrate)
                        .with_reply(reply),
                )
            }
        }
    };
}
versioned!(v1, "v1");
versioned!(v2, "v2");

fn state(app: &App, c: &Addr) -> (String, Vec<String>) {
    app.wrap().query_wasm_smart(c, &Empty {}).unwrap()
}
fn snapshot(app: &App) -> Vec<(Vec<u8>, Vec<u8>)> {
    use cosmwasm_std::{Order, Storage};
    app.storage().range(None, None, Order::Ascending).collect()
}
fn migrate_msg(c: &Addr, id: u64, fail: bool) -> CosmosMsg {
    WasmMsg::Migrate { contract_addr: c.to_string(), new_code_id: id, msg: to_json_binary(&Mig { fail }).unwrap() }.into()
}
fn update_admin(c: &Addr, a: &Addr) -> CosmosMsg {
    WasmMsg::UpdateAdmin { contract_addr: c.to_string(), admin: a.to_string() }.into()
}
fn clear_admin(c: &Addr) -> CosmosMsg {
    WasmMsg::ClearAdmin { contract_addr: c.to_string() }.into()
}

#[test]
fn only_current_admin_and_nothing_changes_otherwise() {
    let mut app = App::default();
    let creator = app.api().addr_make("creator");
    let admin = app.api().addr_make("admin");
    let admin2 = app.api().addr_make("admin2");
    let stranger = app.api().addr_make("stranger");
    let id1 = app.store_code(v1::contract());
    let id2 = app.store_code(v2::contract());
    let c = app.instantiate_contract(id1, creator.clone(), &Empty {}, &[], "c", Some(admin.to_string())).unwrap();
    let no_admin = app.instantiate_contract(id1, creator.clone(), &Empty {}, &[], "n", None).unwrap();

    let snap = snapshot(&app);
    for who in [&creator, &stranger, &admin2, &c, &no_admin] {
        for target in [&c, &no_admin] {
            for msg in [migrate_msg(target, id2, false), update_admin(target, who), clear_admin(target)] {
                app.execute((*who).clone(), msg.clone()).expect_err(&format!("{who} {msg:?}"));
                assert_eq!(snapshot(&app), snap);
            }
        }
    }
    // the admin of c is not the admin of no_admin
    for msg in [migrate_msg(&no_admin, id2, false), update_admin(&no_admin, &admin), clear_admin(&no_admin)] {
        app.execute(admin.clone(), msg).unwrap_err();
        assert_eq!(snapshot(&app), snap);
    }
    // same thing as sub-messages of a contract that is not the admin: caught error, nothing changed but the relay's log
    app.execute_contract(stranger.clone(), no_admin.clone(), &Exec::Relay { msg: migrate_msg(&c, id2, false) }, &[]).unwrap();
    assert_eq!(app.contract_data(&c).unwrap().code_id, id1);
    assert_eq!(state(&app, &c), ("v1".to_string(), vec!["v1:init".to_string()]));
    assert_eq!(state(&app, &no_admin).1, vec!["v1:init", "v1:relay", "v1:reply:err"]);

    // admin change: visible immediately, governs the next attempt
    app.execute(admin.clone(), update_admin(&c, &admin2)).unwrap();
    assert_eq!(app.contract_data(&c).unwrap().admin, Some(admin2.clone()));
    let snap = snapshot(&app);
    for msg in [migrate_msg(&c, id2, false), update_admin(&c, &admin), clear_admin(&c)] {
        app.execute(admin.clone(), msg).unwrap_err();
        assert_eq!(snapshot(&app), snap);
    }
    // failing migrate entry point (sent by the right admin): nothing changes either
    app.execute(admin2.clone(), migrate_msg(&c, id2, true)).unwrap_err();
    assert_eq!(snapshot(&app), snap);
    // unknown code id
    app.execute(admin2.clone(), migrate_msg(&c, 77, false)).unwrap_err();
    assert_eq!(snapshot(&app), snap);

    // successful migration: migrate of the NEW code, same address, existing storage
    app.execute(admin2.clone(), migrate_msg(&c, id2, false)).unwrap();
    let d = app.contract_data(&c).unwrap();
    assert_eq!((d.code_id, d.admin.clone(), d.creator.clone(), d.label.as_str()), (id2, Some(admin2.clone()), creator.clone(), "c"));
    assert_eq!(state(&app, &c), ("v2".to_string(), vec!["v1:init".to_string(), format!("v2:migrate@{c}")]));
    // afterwards every entry point is served by the new code
    let r = app.execute_contract(stranger.clone(), c.clone(), &Exec::Ping, &[]).unwrap();
    assert!(r.events.iter().any(|e| e.attributes.iter().any(|a| a.key == "served_by" && a.value == "v2")));
    app.wasm_sudo(c.clone(), &Empty {}).unwrap();
    app.execute_contract(stranger.clone(), c.clone(), &Exec::Relay { msg: WasmMsg::Execute { contract_addr: no_admin.to_string(), msg: to_json_binary(&Exec::Ping).unwrap(), funds: vec![] }.into() }, &[]).unwrap();
    assert_eq!(
        state(&app, &c).1[2..],
        ["v2:exec", "v2:sudo", "v2:relay", "v2:reply:ok"]
    );
    // the other contract of the same old code is untouched
    assert_eq!(state(&app, &no_admin).0, "v1");

    // clear: then nobody
    app.execute(admin2.clone(), clear_admin(&c)).unwrap();
    assert_eq!(app.contract_data(&c).unwrap().admin, None);
    let snap = snapshot(&app);
    for who in [&admin, &admin2, &creator, &c] {
        for msg in [migrate_msg(&c, id1, false), update_admin(&c, who), clear_admin(&c)] {
            app.execute((*who).clone(), msg).unwrap_err();
            assert_eq!(snapshot(&app), snap);
        }
    }
}

/// A contract that is its own admin migrates itself through a sub-message: the reply (a call made after the
/// migration) must be served by the new code; a refused self-migration leaves the old code serving the reply.
#[test]
fn self_migration_reply_served_by_new_code() {
    let mut app = App::default();
    let creator = app.api().addr_make("creator");
    let id1 = app.store_code(v1::contract());
    let id2 = app.store_code(v2::contract());
    // the address is not known in advance: instantiate with the creator as admin, then hand over
    let c = app.instantiate_contract(id1, creator.clone(), &Empty {}, &[], "self", Some(creator.to_string())).unwrap();
    app.execute(creator.clone(), update_admin(&c, &c)).unwrap();

    // refused: the migrate entry point fails -> code id stays, reply served by v1
    app.execute_contract(creator.clone(), c.clone(), &Exec::Relay { msg: migrate_msg(&c, id2, true) }, &[]).unwrap();
    assert_eq!(app.contract_data(&c).unwrap().code_id, id1);
    assert_eq!(state(&app, &c), ("v1".to_string(), vec!["v1:init".to_string(), "v1:relay".into(), "v1:reply:err".into()]));

    // accepted
    app.execute_contract(creator.clone(), c.clone(), &Exec::Relay { msg: migrate_msg(&c, id2, false) }, &[]).unwrap();
    assert_eq!(app.contract_data(&c).unwrap().code_id, id2);
    let (v, log) = state(&app, &c);
    assert_eq!(v, "v2");
    assert_eq!(log[3..], ["v1:relay".to_string(), format!("v2:migrate@{c}"), "v2:reply:ok".to_string()]);
}
