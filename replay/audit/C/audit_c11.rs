//! Audit C11: code ids, addresses, registry records (public API only).
#![cfg(feature = "cosmwasm_1_2")]

use cosmwasm_std::{
    coin, instantiate2_address, to_json_binary, Addr, Api, Binary, CodeInfoResponse,
    ContractInfoResponse, Deps, DepsMut, Empty, Env, MessageInfo, Response, StdResult, WasmMsg,
    WasmQuery,
};
use cw_multi_test::{App, Contract, ContractWrapper, Executor};
use cw_storage_plus::Item;

const MARK: Item<String> = Item::new("mark");

macro_rules! marked_contract {
    ($name:ident, $tag:expr) => {
        mod $name {
            use super::*;
            fn instantiate(deps: DepsMut, _e: Env, _i: MessageInfo, _m: Empty) -> StdResult<Response> {
                MARK.save(deps.storage, &format!("inst:{}", $tag))?;
                Ok(Response::new())
            }
            fn execute(_d: DepsMut, _e: Env, _i: MessageInfo, _m: Empty) -> StdResult<Response> {
                Ok(Response::new())
            }
            fn query(deps: Deps, _e: Env, _m: Empty) -> StdResult<Binary> {
                to_json_binary(&format!("{}|{}", $tag, MARK.load(deps.storage)?))
            }
            fn migrate(deps: DepsMut, _e: Env, _m: Empty) -> StdResult<Response> {
                let old = MARK.load(deps.storage)?;
                MARK.save(deps.storage, &format!("{old}>mig:{}", $tag))?;
                Ok(Response::new())
            }
            pub fn contract() -> Box<dyn Contract<Empty>> {
                Box::new(ContractWrapper::new(execute, instantiate, query).with_migrate(migrate))
            }
        }
    };
}
marked_contract!(ca, "A");
marked_contract!(cb, "B");
marked_contract!(cc, "C");
marked_contract!(cd, "D");
marked_contract!(ce, "E");

fn q(app: &App, addr: &Addr) -> String {
    app.wrap().query_wasm_smart(addr, &Empty {}).unwrap()
}

fn code_info(app: &App, id: u64) -> StdResult<CodeInfoResponse> {
    app.wrap().query(&WasmQuery::CodeInfo { code_id: id }.into())
}

#[test]
fn ids_and_usability() {
    let mut app = App::default();
    let creator = app.api().addr_make("creator");
    let owner = app.api().addr_make("owner");

    assert_eq!(app.store_code(ca::contract()), 1);
    assert_eq!(
        app.store_code_with_id(creator.clone(), 10, cb::contract()).unwrap(),
        10
    );
    assert_eq!(app.store_code(cc::contract()), 11);
    assert_eq!(app.duplicate_code(10).unwrap(), 12);
    app.store_code_with_id(creator.clone(), 0, cd::contract()).unwrap_err();
    app.store_code_with_id(creator.clone(), 10, cd::contract()).unwrap_err();
    app.store_code_with_id(creator.clone(), 12, cd::contract()).unwrap_err();
    // a gap id is honoured and does not disturb the others
    assert_eq!(app.store_code_with_id(creator.clone(), 5, cd::contract()).unwrap(), 5);
    assert_eq!(app.store_code(ce::contract()), 13);
    assert_eq!(app.duplicate_code(5).unwrap(), 14);
    app.duplicate_code(0).unwrap_err();
    app.duplicate_code(7).unwrap_err();

    let expect = [(1u64, "A"), (5, "D"), (10, "B"), (11, "C"), (12, "B"), (13, "E"), (14, "D")];
    let mut addrs = vec![];
    for (id, tag) in expect {
        // queried under its id
        let ci = code_info(&app, id).unwrap();
        assert_eq!(ci.code_id, id);
        // instantiated under its id: the right code runs
        let a = app
            .instantiate_contract(id, owner.clone(), &Empty {}, &[], format!("l{id}"), Some(owner.to_string()))
            .unwrap();
        assert_eq!(q(&app, &a), format!("{tag}|inst:{tag}"));
        assert!(!addrs.contains(&a), "address reused");
        addrs.push(a);
    }
    // duplicate shares checksum with its source, distinct codes have distinct checksums
    assert_eq!(code_info(&app, 10).unwrap().checksum, code_info(&app, 12).unwrap().checksum);
    assert_ne!(code_info(&app, 10).unwrap().checksum, code_info(&app, 11).unwrap().checksum);
    for id in [0u64, 2, 4, 6, 9, 15] {
        assert!(code_info(&app, id).is_err());
        app.instantiate_contract(id, owner.clone(), &Empty {}, &[], "x", None).unwrap_err();
    }
    // migrated to under its id: the first contract (code 1 = A) visits every id
    let c = addrs[0].clone();
    let mut trail = "inst:A".to_string();
    for (id, tag) in expect {
        app.migrate_contract(owner.clone(), c.clone(), &Empty {}, id).unwrap();
        trail = format!("{trail}>mig:{tag}");
        assert_eq!(q(&app, &c), format!("{tag}|{trail}"));
        assert_eq!(app.contract_data(&c).unwrap().code_id, id);
    }
    for id in [0u64, 2, 15] {
        app.migrate_contract(owner.clone(), c.clone(), &Empty {}, id).unwrap_err();
        assert_eq!(app.contract_data(&c).unwrap().code_id, 14);
    }
}

fn inst2(app: &mut App, sender: &Addr, code_id: u64, salt: &[u8], admin: Option<String>, label: &str, funds: Vec<cosmwasm_std::Coin>) -> anyhow::Result<Addr> {
    let msg = WasmMsg::Instantiate2 {
        admin,
        code_id,
        label: label.to_string(),
        msg: to_json_binary(&Empty {}).unwrap(),
        funds,
        salt: Binary::from(salt),
    };
    let res = app.execute(sender.clone(), msg.into())?;
    let parsed = cw_utils::parse_instantiate_response_data(res.data.unwrap().as_slice()).unwrap();
    Ok(Addr::unchecked(parsed.contract_address))
}

#[test]
fn salted_address_depends_only_on_checksum_creator_salt() {
    let mut app = App::default();
    let alice = app.api().addr_make("alice");
    let bob = app.api().addr_make("bob");
    app.init_modules(|router, _api, storage| {
        router.bank.init_balance(storage, &alice, vec![coin(100, "x")]).unwrap();
    });
    let id_a = app.store_code(ca::contract());
    let id_b = app.store_code(cb::contract());

    let a1 = inst2(&mut app, &alice, id_a, b"salt", None, "first", vec![]).unwrap();
    // independent computation
    let sum = code_info(&app, id_a).unwrap().checksum;
    let canon = app.api().addr_canonicalize(alice.as_str()).unwrap();
    let want = app
        .api()
        .addr_humanize(&instantiate2_address(sum.as_slice(), &canon, b"salt").unwrap())
        .unwrap();
    assert_eq!(a1, want);

    // other instantiations in between change the instance count
    app.instantiate_contract(id_a, alice.clone(), &Empty {}, &[], "n1", None).unwrap();
    app.instantiate_contract(id_b, bob.clone(), &Empty {}, &[], "n2", None).unwrap();
    let id_a_dup = app.duplicate_code(id_a).unwrap();

    // snapshot
    let snap_store: Vec<_> = {
        use cosmwasm_std::{Order, Storage};
        app.storage().range(None, None, Order::Ascending).collect()
    };
    // repeat: same code; duplicate of the code (same checksum); different label/admin/funds -- all are duplicates
    inst2(&mut app, &alice, id_a, b"salt", None, "first", vec![]).unwrap_err();
    inst2(&mut app, &alice, id_a, b"salt", Some(bob.to_string()), "other", vec![coin(5, "x")]).unwrap_err();
    inst2(&mut app, &alice, id_a_dup, b"salt", None, "dup", vec![coin(5, "x")]).unwrap_err();
    let snap_after: Vec<_> = {
        use cosmwasm_std::{Order, Storage};
        app.storage().range(None, None, Order::Ascending).collect()
    };
    assert_eq!(snap_store, snap_after, "rejected duplicate changed the state");
    assert_eq!(app.wrap().query_balance(&alice, "x").unwrap().amount.u128(), 100);
    let d = app.contract_data(&a1).unwrap();
    assert_eq!((d.code_id, d.creator.clone(), d.admin.clone(), d.label.as_str()), (id_a, alice.clone(), None, "first"));

    // any of the three inputs changed -> a different, fresh address
    let a2 = inst2(&mut app, &bob, id_a, b"salt", None, "bob", vec![]).unwrap();
    let a3 = inst2(&mut app, &alice, id_a, b"salt2", None, "s2", vec![]).unwrap();
    let a4 = inst2(&mut app, &alice, id_b, b"salt", None, "b", vec![]).unwrap();
    let all = [a1.clone(), a2, a3, a4];
    for i in 0..4 { for j in 0..i { assert_ne!(all[i], all[j]); } }
}

#[test]
fn record_holds_what_was_supplied() {
    let mut app = App::default();
    let creator = app.api().addr_make("the-creator");
    let id = app.store_code(ca::contract());
    // admin is recorded verbatim, even when it is not a valid address; label verbatim (whitespace kept)
    for (admin, label) in [
        (None, " padded label "),
        (Some("NOT-validated Admin".to_string()), "l"),
        (Some(creator.to_string()), "ünïcode ✓"),
    ] {
        let a = app
            .instantiate_contract(id, creator.clone(), &Empty {}, &[], label, admin.clone())
            .unwrap();
        let d = app.contract_data(&a).unwrap();
        assert_eq!(d.code_id, id);
        assert_eq!(d.creator, creator);
        assert_eq!(d.admin.as_ref().map(|x| x.to_string()), admin);
        assert_eq!(d.label, label);
        let ci: ContractInfoResponse = app
            .wrap()
            .query(&WasmQuery::ContractInfo { contract_addr: a.to_string() }.into())
            .unwrap();
        assert_eq!(ci.code_id, id);
        assert_eq!(ci.creator, creator);
        assert_eq!(ci.admin.map(|x| x.to_string()), admin);
    }
}

/// A failed instantiation (entry point error) leaves no record and the next one may reuse the address; a
/// successful one after it is still at a fresh address.
#[test]
fn failed_instantiation_leaves_nothing() {
    fn inst_fail(_d: DepsMut, _e: Env, _i: MessageInfo, _m: Empty) -> StdResult<Response> {
        Err(cosmwasm_std::StdError::generic_err("no"))
    }
    fn exec(_d: DepsMut, _e: Env, _i: MessageInfo, _m: Empty) -> StdResult<Response> { Ok(Response::new()) }
    fn query(_d: Deps, _e: Env, _m: Empty) -> StdResult<Binary> { to_json_binary(&1u8) }
    let mut app = App::default();
    let s = app.api().addr_make("s");
    let bad = app.store_code(Box::new(ContractWrapper::new(exec, inst_fail, query)));
    let good = app.store_code(ca::contract());
    let a0 = app.instantiate_contract(good, s.clone(), &Empty {}, &[], "g", None).unwrap();
    let before: Vec<_> = { use cosmwasm_std::{Order, Storage}; app.storage().range(None, None, Order::Ascending).collect() };
    app.instantiate_contract(bad, s.clone(), &Empty {}, &[], "b", None).unwrap_err();
    let after: Vec<_> = { use cosmwasm_std::{Order, Storage}; app.storage().range(None, None, Order::Ascending).collect() };
    assert_eq!(before, after);
    let a1 = app.instantiate_contract(good, s.clone(), &Empty {}, &[], "g", None).unwrap();
    assert_ne!(a0, a1);
}
