//! Audit C09: differential test of the bank against a trivial model (public API only).
#![cfg(feature = "cosmwasm_1_1")]

use cosmwasm_std::{coin, Addr, BankMsg, Coin, CosmosMsg};
use cw_multi_test::{App, BankSudo, Executor, SudoMsg};
use std::collections::BTreeMap;

struct Rng(u64);
impl Rng {
    fn next(&mut self) -> u64 {
        self.0 = self
            .0
            .wrapping_mul(6364136223846793005)
            .wrapping_add(1442695040888963407);
        self.0 >> 33
    }
    fn below(&mut self, n: u64) -> u64 {
        self.next() % n
    }
}

type Model = BTreeMap<(usize, String), u128>;

fn total(amount: &[Coin]) -> BTreeMap<String, u128> {
    let mut t = BTreeMap::new();
    for c in amount {
        *t.entry(c.denom.clone()).or_insert(0u128) += c.amount.u128();
    }
    t
}

fn check_all(app: &App, accts: &[Addr], denoms: &[&str], model: &Model, step: usize) {
    for d in denoms {
        let mut sum = 0u128;
        for (i, a) in accts.iter().enumerate() {
            let want = *model.get(&(i, d.to_string())).unwrap_or(&0);
            sum += want;
            let got = app.wrap().query_balance(a, *d).unwrap();
            assert_eq!(got.denom, *d);
            assert_eq!(got.amount.u128(), want, "step {step}: balance of {i} in {d}");
        }
        let supply = app.wrap().query_supply(*d).unwrap();
        assert_eq!(supply.denom, *d);
        assert_eq!(supply.amount.u128(), sum, "step {step}: supply of {d}");
    }
    for (i, a) in accts.iter().enumerate() {
        #[allow(deprecated)]
        let all = app.wrap().query_all_balances(a).unwrap();
        let mut want: Vec<Coin> = denoms
            .iter()
            .filter_map(|d| {
                let v = *model.get(&(i, d.to_string())).unwrap_or(&0);
                if v > 0 {
                    Some(coin(v, *d))
                } else {
                    None
                }
            })
            .collect();
        want.sort_by(|a, b| a.denom.cmp(&b.denom));
        let mut got = all.clone();
        got.sort_by(|a, b| a.denom.cmp(&b.denom));
        assert_eq!(got, want, "step {step}: all balances of {i}");
        // each denomination listed at most once
        for w in all.windows(2) {
            assert_ne!(w[0].denom, w[1].denom);
        }
    }
}

fn random_amount(rng: &mut Rng, denoms: &[&str]) -> Vec<Coin> {
    let n = rng.below(4);
    (0..n)
        .map(|_| {
            let d = denoms[rng.below(denoms.len() as u64) as usize];
            let a = match rng.below(4) {
                0 => 0,
                1 => rng.below(5) as u128,
                _ => rng.below(60) as u128,
            };
            coin(a, d)
        })
        .collect()
}

#[test]
fn bank_differential() {
    for seed in 1..=40u64 {
        let mut rng = Rng(seed);
        let denoms = ["zeta", "alpha", "mid"];
        let mut app = App::default();
        let accts: Vec<Addr> = (0..4)
            .map(|i| app.api().addr_make(&format!("acct{i}")))
            .collect();
        let mut model: Model = BTreeMap::new();
        // genesis: unsorted, with duplicates and zeros
        app.init_modules(|router, _api, storage| {
            router
                .bank
                .init_balance(
                    storage,
                    &accts[0],
                    vec![coin(50, "zeta"), coin(0, "mid"), coin(30, "alpha"), coin(25, "zeta")],
                )
                .unwrap();
        });
        model.insert((0, "zeta".into()), 75);
        model.insert((0, "alpha".into()), 30);
        check_all(&app, &accts, &denoms, &model, 0);

        for step in 1..=120usize {
            let amount = random_amount(&mut rng, &denoms);
            let tot = total(&amount);
            let has_pos = amount.iter().any(|c| c.amount.u128() > 0);
            let from = rng.below(4) as usize;
            let to = rng.below(4) as usize;
            match rng.below(3) {
                0 => {
                    // transfer
                    let covered = tot
                        .iter()
                        .all(|(d, v)| *model.get(&(from, d.clone())).unwrap_or(&0) >= *v);
                    let r = app.send_tokens(accts[from].clone(), accts[to].clone(), &amount);
                    assert_eq!(r.is_ok(), has_pos && covered, "seed {seed} step {step}: send {amount:?}");
                    if r.is_ok() {
                        for (d, v) in &tot {
                            *model.entry((from, d.clone())).or_insert(0) -= v;
                            *model.entry((to, d.clone())).or_insert(0) += v;
                        }
                    }
                }
                1 => {
                    let covered = tot
                        .iter()
                        .all(|(d, v)| *model.get(&(from, d.clone())).unwrap_or(&0) >= *v);
                    let msg: CosmosMsg = BankMsg::Burn {
                        amount: amount.clone(),
                    }
                    .into();
                    let r = app.execute(accts[from].clone(), msg);
                    assert_eq!(r.is_ok(), has_pos && covered, "seed {seed} step {step}: burn {amount:?}");
                    if r.is_ok() {
                        for (d, v) in &tot {
                            *model.entry((from, d.clone())).or_insert(0) -= v;
                        }
                    }
                }
                _ => {
                    let r = app.sudo(SudoMsg::Bank(BankSudo::Mint {
                        to_address: accts[to].to_string(),
                        amount: amount.clone(),
                    }));
                    assert_eq!(r.is_ok(), has_pos, "seed {seed} step {step}: mint {amount:?}");
                    if r.is_ok() {
                        for (d, v) in &tot {
                            *model.entry((to, d.clone())).or_insert(0) += v;
                        }
                    }
                }
            }
            check_all(&app, &accts, &denoms, &model, step);
        }
    }
}

/// Sequential subtraction: a duplicated denomination whose total exceeds the balance must fail and change nothing,
/// even though each single coin is covered.
#[test]
fn duplicated_denomination_total_not_covered() {
    let mut app = App::default();
    let a = app.api().addr_make("a");
    let b = app.api().addr_make("b");
    app.init_modules(|router, _api, storage| {
        router
            .bank
            .init_balance(storage, &a, vec![coin(10, "x"), coin(3, "y")])
            .unwrap();
    });
    // y is debited first (succeeds inside), then x twice (second fails): nothing may remain changed
    app.send_tokens(a.clone(), b.clone(), &[coin(3, "y"), coin(6, "x"), coin(6, "x")])
        .unwrap_err();
    assert_eq!(app.wrap().query_balance(&a, "x").unwrap().amount.u128(), 10);
    assert_eq!(app.wrap().query_balance(&a, "y").unwrap().amount.u128(), 3);
    assert_eq!(app.wrap().query_balance(&b, "x").unwrap().amount.u128(), 0);
    assert_eq!(app.wrap().query_balance(&b, "y").unwrap().amount.u128(), 0);
    assert_eq!(app.wrap().query_supply("x").unwrap().amount.u128(), 10);
    // exactly covered total succeeds
    app.send_tokens(a.clone(), b.clone(), &[coin(5, "x"), coin(5, "x")])
        .unwrap();
    assert_eq!(app.wrap().query_balance(&a, "x").unwrap().amount.u128(), 0);
    assert_eq!(app.wrap().query_balance(&b, "x").unwrap().amount.u128(), 10);
}

/// Observation (not a violation of the statement): a transfer to a string that is not a valid address succeeds;
/// the funds are counted by the supply query but cannot be seen by a balance query.
#[test]
fn transfer_to_unvalidated_recipient() {
    let mut app = App::default();
    let a = app.api().addr_make("a");
    app.init_modules(|router, _api, storage| {
        router
            .bank
            .init_balance(storage, &a, vec![coin(10, "x")])
            .unwrap();
    });
    let msg: CosmosMsg = BankMsg::Send {
        to_address: "not an address".to_string(),
        amount: vec![coin(4, "x")],
    }
    .into();
    let r = app.execute(a.clone(), msg);
    println!("send to invalid recipient: ok={}", r.is_ok());
    println!(
        "supply x = {}, balance(a) = {}, balance(invalid) = {:?}",
        app.wrap().query_supply("x").unwrap().amount,
        app.wrap().query_balance(&a, "x").unwrap().amount,
        app.wrap().query_balance("not an address", "x").map(|c| c.amount).map_err(|_| "query error")
    );
}

/// Observation (outside the statement's 128-bit assumption): two accounts holding u128::MAX each are accepted, after
/// which the supply query panics instead of answering; a mint that overflows one account panics as well.
#[test]
fn overflow_behaviour() {
    let mut app = App::default();
    let a = app.api().addr_make("a");
    let b = app.api().addr_make("b");
    for who in [&a, &b] {
        app.sudo(SudoMsg::Bank(BankSudo::Mint { to_address: who.to_string(), amount: vec![coin(u128::MAX, "x")] })).unwrap();
    }
    let r = std::panic::catch_unwind(std::panic::AssertUnwindSafe(|| app.wrap().query_supply("x").map(|c| c.amount)));
    println!("supply query with 2 x u128::MAX: {}", if r.is_err() { "PANIC".to_string() } else { format!("{:?}", r.unwrap().is_ok()) });
    let r = std::panic::catch_unwind(std::panic::AssertUnwindSafe(|| {
        app.sudo(SudoMsg::Bank(BankSudo::Mint { to_address: a.to_string(), amount: vec![coin(1, "x")] })).is_ok()
    }));
    println!("mint overflowing one account: {}", if r.is_err() { "PANIC".to_string() } else { format!("ok={}", r.unwrap()) });
    assert_eq!(app.wrap().query_balance(&a, "x").unwrap().amount.u128(), u128::MAX);
}
