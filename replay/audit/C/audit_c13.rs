//! Audit C13: attribute / event validation on every entry point, rollback, and pass-through (public API only).

use cosmwasm_std::{
    coin, to_json_binary, Addr, Binary, Deps, DepsMut, Empty, Env, Event, MessageInfo, Reply,
    Response, StdResult, SubMsg, WasmMsg,
};
use cw_multi_test::{App, Contract, ContractWrapper, Executor};
use cw_storage_plus::Item;
use serde::{Deserialize, Serialize};

#[derive(Serialize, Deserialize, Clone, Debug, Default, PartialEq)]
struct Emit {
    attrs: Vec<(String, String)>,
    events: Vec<(String, Vec<(String, String)>)>,
    write: Option<String>,
}

#[derive(Serialize, Deserialize, Clone, Debug)]
enum Exec {
    Emit(Emit),
    /// call self (Emit(inner)) as a sub-message with reply_always; the reply emits `reply`
    Sub { inner: Emit, reply: Emit },
}

const MARK: Item<String> = Item::new("mark");
const REPLY: Item<Emit> = Item::new("reply");

fn respond(deps: DepsMut, e: Emit) -> StdResult<Response> {
    if let Some(w) = &e.write {
        MARK.save(deps.storage, w)?;
    }
    let mut r = Response::new();
    for (k, v) in e.attrs {
        r.attributes.push(cosmwasm_std::Attribute { key: k, value: v });
    }
    for (ty, attrs) in e.events {
        let mut ev = Event::new(ty);
        for (k, v) in attrs {
            ev.attributes.push(cosmwasm_std::Attribute { key: k, value: v });
        }
        r = r.add_event(ev);
    }
    Ok(r)
}

fn instantiate(deps: DepsMut, _e: Env, _i: MessageInfo, m: Emit) -> StdResult<Response> {
    respond(deps, m)
}
fn execute(deps: DepsMut, env: Env, _i: MessageInfo, m: Exec) -> StdResult<Response> {
    match m {
        Exec::Emit(e) => respond(deps, e),
        Exec::Sub { inner, reply } => {
            REPLY.save(deps.storage, &reply)?;
            MARK.save(deps.storage, &"outer".to_string())?;
            Ok(Response::new().add_submessage(SubMsg::reply_always(
                WasmMsg::Execute {
                    contract_addr: env.contract.address.to_string(),
                    msg: to_json_binary(&Exec::Emit(inner))?,
                    funds: vec![],
                },
                7,
            )))
        }
    }
}
fn query(deps: Deps, _e: Env, _m: Empty) -> StdResult<Binary> {
    to_json_binary(&MARK.may_load(deps.storage)?.unwrap_or_default())
}
fn sudo(deps: DepsMut, _e: Env, m: Emit) -> StdResult<Response> {
    respond(deps, m)
}
fn migrate(deps: DepsMut, _e: Env, m: Emit) -> StdResult<Response> {
    respond(deps, m)
}
fn reply(deps: DepsMut, _e: Env, _r: Reply) -> StdResult<Response> {
    let e = REPLY.load(deps.storage)?;
    respond(deps, e)
}

fn contract() -> Box<dyn Contract<Empty>> {
    Box::new(
        ContractWrapper::new(execute, instantiate, query)
            .with_sudo(sudo)
            .with_migrate(migrate)
            .with_reply(reply),
    )
}

fn attr(k: &str, v: &str) -> Emit {
    Emit { attrs: vec![(k.into(), v.into())], events: vec![], write: Some("bad-write".into()) }
}
fn ev_attr(k: &str, v: &str) -> Emit {
    Emit { attrs: vec![], events: vec![("okay".into(), vec![(k.into(), v.into())])], write: Some("bad-write".into()) }
}
fn ev_ty(ty: &str) -> Emit {
    Emit { attrs: vec![], events: vec![(ty.into(), vec![])], write: Some("bad-write".into()) }
}

fn bad_emits() -> Vec<Emit> {
    vec![
        attr("", "v"),
        attr("   ", "v"),
        attr("\t\n", ""),
        attr("_x", "v"),
        attr("  _x", "v"),
        attr("\u{2003}_x", "v"), // unicode whitespace before the underscore
        attr("_", ""),
        ev_attr("", "v"),
        ev_attr(" ", "v"),
        ev_attr("_contract_address", "v"),
        ev_attr(" _y ", "v"),
        ev_ty(""),
        ev_ty("a"),
        ev_ty("  a  "),
        ev_ty("   "),
        ev_ty("\u{2003}a\u{2003}"),
        // a good attribute first, then a bad one (every attribute is checked, not only the first)
        Emit { attrs: vec![("good".into(), "1".into()), ("_bad".into(), "2".into())], events: vec![], write: Some("bad-write".into()) },
        Emit { attrs: vec![("good".into(), "1".into())], events: vec![("fine".into(), vec![]), ("x".into(), vec![])], write: Some("bad-write".into()) },
    ]
}

fn good_emit() -> Emit {
    Emit {
        attrs: vec![
            ("k".into(), "".into()),
            (" padded ".into(), "  v  ".into()),
            ("a_b".into(), "_leading_underscore_value".into()),
            ("é".into(), "".into()),
            ("x_".into(), "   ".into()),
        ],
        events: vec![
            ("ab".into(), vec![("k".into(), "".into())]),
            (" ab ".into(), vec![(" k ".into(), " v ".into())]),
            ("é".into(), vec![]), // one char, two bytes
            ("_u".into(), vec![("k_".into(), "_".into())]),
        ],
        write: Some("good-write".into()),
    }
}

fn mark(app: &App, a: &Addr) -> String {
    app.wrap().query_wasm_smart(a, &Empty {}).unwrap()
}

fn snapshot(app: &App) -> Vec<(Vec<u8>, Vec<u8>)> {
    use cosmwasm_std::{Order, Storage};
    app.storage().range(None, None, Order::Ascending).collect()
}

fn check_good_surfaces(events: &[Event], contract: &Addr) {
    let g = good_emit();
    let wasm = events.iter().find(|e| e.ty == "wasm").expect("wasm event");
    assert_eq!(wasm.attributes[0].key, "_contract_address");
    assert_eq!(wasm.attributes[0].value, contract.as_str());
    let got: Vec<(String, String)> = wasm.attributes[1..].iter().map(|a| (a.key.clone(), a.value.clone())).collect();
    assert_eq!(got, g.attrs);
    for (ty, attrs) in &g.events {
        let e = events.iter().find(|e| e.ty == format!("wasm-{ty}")).unwrap_or_else(|| panic!("event {ty:?}"));
        assert_eq!(e.attributes[0].key, "_contract_address");
        let got: Vec<(String, String)> = e.attributes[1..].iter().map(|a| (a.key.clone(), a.value.clone())).collect();
        assert_eq!(&got, attrs);
    }
}

#[test]
fn every_entry_point_rejects_and_rolls_back() {
    let mut app = App::default();
    let owner = app.api().addr_make("owner");
    app.init_modules(|router, _api, storage| {
        router.bank.init_balance(storage, &owner, vec![coin(1000, "x")]).unwrap();
    });
    let id = app.store_code(contract());
    let id2 = app.store_code(contract());
    let c = app
        .instantiate_contract(id, owner.clone(), &Emit { write: Some("init".into()), ..Default::default() }, &[], "c", Some(owner.to_string()))
        .unwrap();
    assert_eq!(mark(&app, &c), "init");

    for bad in bad_emits() {
        let snap = snapshot(&app);
        // instantiate (with funds: the transfer must be rolled back too)
        app.instantiate_contract(id, owner.clone(), &bad, &[coin(5, "x")], "bad", None)
            .expect_err(&format!("instantiate accepted {bad:?}"));
        assert_eq!(snapshot(&app), snap, "instantiate {bad:?}");
        // execute
        app.execute_contract(owner.clone(), c.clone(), &Exec::Emit(bad.clone()), &[coin(5, "x")])
            .expect_err(&format!("execute accepted {bad:?}"));
        assert_eq!(snapshot(&app), snap, "execute {bad:?}");
        // sudo
        app.wasm_sudo(c.clone(), &bad).expect_err(&format!("sudo accepted {bad:?}"));
        assert_eq!(snapshot(&app), snap, "sudo {bad:?}");
        // migrate (code id must stay)
        app.migrate_contract(owner.clone(), c.clone(), &bad, id2)
            .expect_err(&format!("migrate accepted {bad:?}"));
        assert_eq!(snapshot(&app), snap, "migrate {bad:?}");
        assert_eq!(app.contract_data(&c).unwrap().code_id, id);
        // reply: the sub-call is fine, the reply's response is bad -> the whole call fails
        app.execute_contract(
            owner.clone(),
            c.clone(),
            &Exec::Sub { inner: Emit { write: Some("inner".into()), ..Default::default() }, reply: bad.clone() },
            &[],
        )
        .expect_err(&format!("reply accepted {bad:?}"));
        assert_eq!(snapshot(&app), snap, "reply {bad:?}");
        // bad response of a sub-call is an ordinary, catchable error: its write is rolled back, the reply runs
        let res = app
            .execute_contract(
                owner.clone(),
                c.clone(),
                &Exec::Sub { inner: bad.clone(), reply: Emit { attrs: vec![("seen".into(), "yes".into())], ..Default::default() } },
                &[],
            )
            .unwrap();
        assert!(res.events.iter().any(|e| e.ty == "reply" && e.attributes.iter().any(|a| a.key == "mode" && a.value == "handle_failure")));
        assert_eq!(mark(&app, &c), "outer", "sub-call write survived for {bad:?}");
        // restore
        app.execute_contract(owner.clone(), c.clone(), &Exec::Emit(Emit { write: Some("init".into()), ..Default::default() }), &[]).unwrap();
    }
}

#[test]
fn everything_else_is_accepted_and_surfaces_unchanged() {
    let mut app = App::default();
    let owner = app.api().addr_make("owner");
    let id = app.store_code(contract());
    let g = good_emit();

    // instantiate
    let msg = WasmMsg::Instantiate { admin: Some(owner.to_string()), code_id: id, msg: to_json_binary(&g).unwrap(), funds: vec![], label: "g".into() };
    let res = app.execute(owner.clone(), msg.into()).unwrap();
    let c = Addr::unchecked(cw_utils::parse_instantiate_response_data(res.data.unwrap().as_slice()).unwrap().contract_address);
    check_good_surfaces(&res.events, &c);
    assert_eq!(mark(&app, &c), "good-write");
    // execute
    let res = app.execute_contract(owner.clone(), c.clone(), &Exec::Emit(g.clone()), &[]).unwrap();
    check_good_surfaces(&res.events, &c);
    // sudo
    let res = app.wasm_sudo(c.clone(), &g).unwrap();
    check_good_surfaces(&res.events, &c);
    // migrate
    let res = app.migrate_contract(owner.clone(), c.clone(), &g, id).unwrap();
    check_good_surfaces(&res.events, &c);
    // reply
    let res = app
        .execute_contract(owner.clone(), c.clone(), &Exec::Sub { inner: Emit::default(), reply: g.clone() }, &[])
        .unwrap();
    let pos = res.events.iter().position(|e| e.ty == "reply").unwrap();
    check_good_surfaces(&res.events[pos..], &c);
}

/// Observation: below `App` (no enclosing transaction) the two kinds of failure differ. `WasmKeeper::call_execute`
/// is a public function; here a stand-alone keeper is driven over the raw store handed out by `App::init_modules`.
#[test]
fn direct_call_execute_rollback_difference() {
    use cw_multi_test::{Wasm, WasmKeeper};
    fn exec_err(deps: DepsMut, _e: Env, _i: MessageInfo, _m: Exec) -> StdResult<Response> {
        MARK.save(deps.storage, &"err-write".to_string())?;
        Err(cosmwasm_std::StdError::generic_err("contract error"))
    }
    let mut app = App::default();
    let owner = app.api().addr_make("owner");
    let mut keeper: WasmKeeper<Empty, Empty> = WasmKeeper::new();
    let id = keeper.store_code(owner.clone(), contract());
    let id_err = keeper.store_code(owner.clone(), Box::new(ContractWrapper::new(exec_err, instantiate, query)));
    let block = app.block_info();
    let info = MessageInfo { sender: owner.clone(), funds: vec![] };
    let init = to_json_binary(&Emit { write: Some("init".into()), ..Default::default() }).unwrap().to_vec();
    let bad = to_json_binary(&Exec::Emit(attr("_x", "v"))).unwrap().to_vec();
    let (after_bad_attr, after_contract_err) = app.init_modules(|router, api, storage| {
        let c1 = keeper.register_contract(api, storage, id, owner.clone(), None, "a".into(), 1, None).unwrap();
        keeper.call_instantiate(c1.clone(), api, storage, router, &block, info.clone(), init.clone()).unwrap();
        let c2 = keeper.register_contract(api, storage, id_err, owner.clone(), None, "b".into(), 1, None).unwrap();
        keeper.call_instantiate(c2.clone(), api, storage, router, &block, info.clone(), init.clone()).unwrap();
        keeper.call_execute(api, storage, c1.clone(), router, &block, info.clone(), bad.clone()).unwrap_err();
        keeper.call_execute(api, storage, c2.clone(), router, &block, info.clone(), bad.clone()).unwrap_err();
        (keeper.query_raw(c1, storage, b"mark"), keeper.query_raw(c2, storage, b"mark"))
    });
    println!("state after rejected response : {}", String::from_utf8_lossy(after_bad_attr.as_slice()));
    println!("state after contract error    : {}", String::from_utf8_lossy(after_contract_err.as_slice()));
    // "the same rollback as any other contract error": FAILS on the real code ("bad-write" vs "init")
    assert_eq!(after_bad_attr, after_contract_err);
}
