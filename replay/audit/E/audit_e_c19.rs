//! Audit E / C19: one broad transcript (code ids, instantiate / instantiate2, sub-messages + replies, failing
//! transactions, bank, staking incl. slash and unbonding, queries) run on fresh apps: alone, after other apps were
//! used, interleaved with a noisy app, and in another thread.  Everything observable must be identical.
#![cfg(all(feature = "staking", feature = "stargate", feature = "cosmwasm_2_2"))]

use cosmwasm_schema::cw_serde;
use cosmwasm_std::testing::mock_env;
use cosmwasm_std::{
    coin, coins, to_json_binary, Addr, BankMsg, Binary, CodeInfoResponse, Decimal, Deps, DepsMut, DistributionMsg,
    Empty, Env, MessageInfo, Order, Reply, Response, StakingMsg, StdError, StdResult, Storage, SubMsg, Validator,
    WasmMsg,
};
use cw_multi_test::{
    next_block, App, AppBuilder, AppResponse, Contract, ContractWrapper, Executor, IntoBech32, StakingInfo, StakingSudo,
    SudoMsg,
};
use cw_storage_plus::Item;

const LOG: Item<Vec<String>> = Item::new("log");

#[cw_serde]
enum Exec {
    /// send `amount` to `to` as a sub-message with reply always
    Pay { to: String, amount: u128 },
    /// instantiate a child from `code_id` with reply on success
    Spawn { code_id: u64, salt: Option<Binary> },
    /// always fails after writing
    Fail {},
}

fn note(deps: &mut DepsMut, env: &Env, what: String) -> StdResult<()> {
    let mut l = LOG.may_load(deps.storage)?.unwrap_or_default();
    l.push(format!("{}@{}/{}/{:?}:{}", env.contract.address, env.block.height, env.block.time.nanos(), env.transaction, what));
    LOG.save(deps.storage, &l)
}
fn instantiate(mut deps: DepsMut, env: Env, info: MessageInfo, _: Empty) -> StdResult<Response> {
    note(&mut deps, &env, format!("init by {}", info.sender))?;
    Ok(Response::new().add_attribute("init", env.contract.address.to_string()))
}
fn execute(mut deps: DepsMut, env: Env, info: MessageInfo, msg: Exec) -> StdResult<Response> {
    note(&mut deps, &env, format!("exec {:?} by {} funds {:?}", msg, info.sender, info.funds))?;
    match msg {
        Exec::Pay { to, amount } => Ok(Response::new()
            .add_submessage(SubMsg::reply_always(BankMsg::Send { to_address: to, amount: coins(amount, "utok") }, 7))
            .add_attribute("pay", amount.to_string())),
        Exec::Spawn { code_id, salt } => {
            let m = match salt {
                None => WasmMsg::Instantiate { admin: None, code_id, msg: to_json_binary(&Empty {})?, funds: vec![], label: "child".into() },
                Some(salt) => WasmMsg::Instantiate2 { admin: None, code_id, msg: to_json_binary(&Empty {})?, funds: vec![], label: "child2".into(), salt },
            };
            Ok(Response::new().add_submessage(SubMsg::reply_on_success(m, 8)).set_data(b"spawned"))
        }
        Exec::Fail {} => Err(StdError::generic_err("deliberate failure")),
    }
}
fn reply(mut deps: DepsMut, env: Env, r: Reply) -> StdResult<Response> {
    note(&mut deps, &env, format!("reply {:?}", r))?;
    Ok(Response::new().add_attribute("replied", r.id.to_string()))
}
fn query(deps: Deps, _: Env, _: Empty) -> StdResult<Binary> {
    to_json_binary(&LOG.may_load(deps.storage)?.unwrap_or_default())
}
fn contract() -> Box<dyn Contract<Empty>> {
    Box::new(ContractWrapper::new(execute, instantiate, query).with_reply(reply))
}

const DELEGATORS: [&str; 6] = ["alice", "bob", "carol", "dave", "erin", "frank"];

fn build() -> App {
    let block = mock_env().block;
    AppBuilder::default().build(|router, api, storage| {
        for name in DELEGATORS {
            router.bank.init_balance(storage, &name.into_bech32(), vec![coin(1_000, "stake"), coin(500, "utok")]).unwrap();
        }
        router.staking.setup(storage, StakingInfo { bonded_denom: "stake".into(), unbonding_time: 30, apr: Decimal::percent(10) }).unwrap();
        for v in ["val1", "val2"] {
            router.staking.add_validator(api, storage, &block,
                Validator::new(v.into_bech32().to_string(), Decimal::percent(10), Decimal::percent(90), Decimal::percent(1))).unwrap();
        }
    })
}

fn show(r: anyhow::Result<AppResponse>) -> String {
    match r {
        Ok(a) => format!("OK events={:?} data={:?}", a.events, a.data),
        Err(e) => format!("ERR {:#}", e),
    }
}

/// the transcript; `step` is called between any two actions (used to interleave other apps)
fn transcript(mut step: impl FnMut()) -> Vec<String> {
    let mut out = vec![];
    let mut app = build();
    let a = |n: &str| n.into_bech32();
    step();
    // code ids and checksums
    let c1 = app.store_code(contract());
    let c2 = app.store_code_with_creator(a("alice"), contract());
    let c3 = app.duplicate_code(c1).unwrap();
    let c9 = app.store_code_with_id(a("bob"), 9, contract()).unwrap();
    let c10 = app.store_code(contract());
    out.push(format!("ids {:?} dup0 {:?} again9 {:?}", (c1, c2, c3, c9, c10), app.duplicate_code(0).is_err(), app.store_code_with_id(a("bob"), 9, contract()).is_err()));
    for id in [c1, c2, c3, c9, c10] {
        let ci: CodeInfoResponse = app.wrap().query_wasm_code_info(id).unwrap();
        out.push(format!("code {} {:?}", id, ci));
    }
    step();
    // instances
    let k1 = app.instantiate_contract(c1, a("alice"), &Empty {}, &coins(100, "utok"), "k1", Some(a("alice").to_string())).unwrap();
    step();
    let k2 = app.instantiate2_contract(c9, a("bob"), &Empty {}, &[], "k2", None::<String>, b"salt-a".to_vec()).unwrap();
    let k2_again = app.instantiate2_contract(c9, a("bob"), &Empty {}, &[], "k2", None::<String>, b"salt-a".to_vec());
    out.push(format!("k1 {} k2 {} k2_again {}", k1, k2, k2_again.is_err()));
    step();
    // sub-messages, replies, failures
    out.push(show(app.execute_contract(a("alice"), k1.clone(), &Exec::Pay { to: a("carol").to_string(), amount: 30 }, &[])));
    step();
    out.push(show(app.execute_contract(a("alice"), k1.clone(), &Exec::Pay { to: a("carol").to_string(), amount: 3000 }, &[])));
    out.push(show(app.execute_contract(a("bob"), k1.clone(), &Exec::Spawn { code_id: c3, salt: None }, &[])));
    step();
    out.push(show(app.execute_contract(a("bob"), k2.clone(), &Exec::Spawn { code_id: c2, salt: Some(Binary::from(b"s".to_vec())) }, &[])));
    out.push(show(app.execute_contract(a("bob"), k2.clone(), &Exec::Spawn { code_id: 77, salt: None }, &[])));
    out.push(show(app.execute_contract(a("bob"), k2.clone(), &Exec::Fail {}, &coins(5, "utok"))));
    out.push(format!("{:?}", app.execute_multi(a("dave"), vec![
        BankMsg::Send { to_address: a("erin").to_string(), amount: vec![coin(1, "utok"), coin(2, "stake")] }.into(),
        BankMsg::Send { to_address: a("erin").to_string(), amount: coins(100_000, "utok") }.into(),
    ]).map_err(|e| format!("{:#}", e))));
    step();
    app.update_block(next_block);
    // staking
    for (i, d) in DELEGATORS.iter().enumerate() {
        out.push(show(app.execute(a(d), StakingMsg::Delegate { validator: a("val1").to_string(), amount: coin(100 + 7 * i as u128, "stake") }.into())));
        if i % 2 == 0 {
            out.push(show(app.execute(a(d), StakingMsg::Delegate { validator: a("val2").to_string(), amount: coin(33, "stake") }.into())));
        }
        step();
    }
    app.update_block(|b| { b.height += 1000; b.time = b.time.plus_seconds(3600 * 24 * 30); });
    out.push(show(app.execute(a("alice"), DistributionMsg::WithdrawDelegatorReward { validator: a("val1").to_string() }.into())));
    out.push(show(app.sudo(SudoMsg::Staking(StakingSudo::Slash { validator: a("val1").to_string(), percentage: Decimal::percent(37) }))));
    step();
    out.push(show(app.execute(a("bob"), StakingMsg::Undelegate { validator: a("val1").to_string(), amount: coin(20, "stake") }.into())));
    out.push(show(app.execute(a("carol"), StakingMsg::Redelegate { src_validator: a("val1").to_string(), dst_validator: a("val2").to_string(), amount: coin(10, "stake") }.into())));
    out.push(show(app.execute(a("frank"), StakingMsg::Undelegate { validator: a("val2").to_string(), amount: coin(1, "stake") }.into())));
    app.update_block(|b| { b.height += 10; b.time = b.time.plus_seconds(31); });
    step();
    out.push(show(app.sudo(SudoMsg::Staking(StakingSudo::Slash { validator: a("val1").to_string(), percentage: Decimal::percent(100) }))));
    // queries
    for d in DELEGATORS {
        out.push(format!("{} bal {:?} dels {:?}", d, app.wrap().query_all_balances(a(d)).ok(), app.wrap().query_all_delegations(a(d)).ok()));
    }
    out.push(format!("{:?}", app.wrap().query_all_validators().ok()));
    for k in [&k1, &k2] {
        out.push(format!("log {:?}", app.wrap().query_wasm_smart::<Vec<String>>(k.clone(), &Empty {}).unwrap()));
        out.push(format!("data {:?} dump {:?}", app.contract_data(k).unwrap(), app.dump_wasm_raw(k)));
    }
    out.push(format!("block {:?}", app.block_info()));
    // final storage
    for (k, v) in app.storage().range(None, None, Order::Ascending) {
        out.push(format!("S {} = {}", String::from_utf8_lossy(&k), String::from_utf8_lossy(&v)));
    }
    out
}

/// a different app doing different things
fn noise(app: &mut App, n: &mut u32) {
    *n += 1;
    let who = format!("noise{}", n).into_bech32();
    let id = app.store_code(contract());
    let k = app.instantiate_contract(id, who.clone(), &Empty {}, &[], "noise", None).unwrap();
    let _ = app.execute_contract(who.clone(), k.clone(), &Exec::Spawn { code_id: id, salt: None }, &[]);
    let _ = app.execute_contract(who, k, &Exec::Fail {}, &[]);
    app.update_block(next_block);
}

fn diff(a: &[String], b: &[String]) {
    for (i, (x, y)) in a.iter().zip(b.iter()).enumerate() {
        assert_eq!(x, y, "first difference at transcript line {}", i);
    }
    assert_eq!(a.len(), b.len());
}

#[test]
fn same_transcript_same_everything() {
    let reference = transcript(|| {});
    assert!(reference.len() > 60);
    // again, after an app has lived in this process
    diff(&reference, &transcript(|| {}));
    // interleaved with a noisy app (other code ids, other instances, other blocks)
    let mut other = build();
    let mut n = 0;
    diff(&reference, &transcript(|| noise(&mut other, &mut n)));
    // two transcripts interleaved with each other through threads + a noisy app inside the thread
    let t = std::thread::spawn(|| {
        let mut other = App::default();
        let mut n = 100;
        transcript(|| noise(&mut other, &mut n))
    });
    let here = transcript(|| std::thread::yield_now());
    diff(&reference, &here);
    diff(&reference, &t.join().unwrap());
    // print a digest so that two PROCESS runs can be compared as well
    use sha2::Digest;
    let mut h = sha2::Sha256::new();
    for l in &reference { h.update(l.as_bytes()); h.update(b"\n"); }
    println!("TRANSCRIPT-DIGEST {} lines {}", hex::encode(h.finalize()), reference.len());
}

#[test]
fn print_transcript() {
    for l in transcript(|| {}) { println!("T| {}", &l[..l.len().min(230)]); }
}
