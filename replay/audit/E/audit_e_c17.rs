//! Audit E / C17: inputs which the formal side excludes (missing enum variant in the model, `requires`) but the
//! statement covers.  Every test states what the statement promises; a failing test = the code deviates.
#![cfg(all(feature = "staking", feature = "stargate", feature = "cosmwasm_2_2"))]

use cosmwasm_std::{
    to_json_binary, Binary, CosmosMsg, Deps, DepsMut, DistributionQuery, Empty, Env, MessageInfo,
    QueryRequest, Response, StdResult,
};
use cw_multi_test::{App, Contract, ContractWrapper, Executor, SudoMsg};
use std::panic::{catch_unwind, AssertUnwindSafe};

fn instantiate(_: DepsMut, _: Env, _: MessageInfo, _: Empty) -> StdResult<Response> {
    Ok(Response::new())
}
/// emits a custom message of the chain's custom type (the chain is `Empty`-typed)
fn execute_emit_custom(_: DepsMut, _: Env, _: MessageInfo, _: Empty) -> StdResult<Response> {
    Ok(Response::new().add_message(CosmosMsg::Custom(Empty {})))
}
/// asks the distribution module for the withdraw address of the contract
fn query_distribution(deps: Deps, env: Env, _: Empty) -> StdResult<Binary> {
    let req: QueryRequest<Empty> = QueryRequest::Distribution(DistributionQuery::DelegatorWithdrawAddress {
        delegator_address: env.contract.address.to_string(),
    });
    let res: StdResult<cosmwasm_std::DelegatorWithdrawAddressResponse> = deps.querier.query(&req);
    to_json_binary(&res.is_ok())
}
fn query_nop(_: Deps, _: Env, _: Empty) -> StdResult<Binary> {
    to_json_binary(&true)
}

fn contract_new() -> Box<dyn Contract<Empty>> {
    Box::new(ContractWrapper::new(execute_emit_custom, instantiate, query_nop))
}
fn contract_new_with_empty() -> Box<dyn Contract<Empty>> {
    Box::new(ContractWrapper::new_with_empty(execute_emit_custom, instantiate, query_nop))
}
fn contract_distr_query() -> Box<dyn Contract<Empty>> {
    Box::new(ContractWrapper::new(execute_emit_custom, instantiate, query_distribution))
}

/// statement: each kind of query, submitted by a user, is handed to the module configured for that kind and the
/// module's success or failure is what the caller sees.  A distribution query must therefore give Ok or Err.
#[test]
fn distribution_query_submitted_by_user_returns_a_result() {
    let app = App::default();
    let who = app.api().addr_make("who");
    let req: QueryRequest<Empty> = QueryRequest::Distribution(DistributionQuery::DelegatorWithdrawAddress {
        delegator_address: who.to_string(),
    });
    let outcome = catch_unwind(AssertUnwindSafe(|| {
        app.wrap().query::<cosmwasm_std::DelegatorWithdrawAddressResponse>(&req).is_ok()
    }));
    assert!(outcome.is_ok(), "a distribution query made the simulator panic instead of returning a result");
}

/// same, query emitted by a contract
#[test]
fn distribution_query_emitted_by_contract_returns_a_result() {
    let mut app = App::default();
    let owner = app.api().addr_make("owner");
    let code_id = app.store_code(contract_distr_query());
    let addr = app.instantiate_contract(code_id, owner, &Empty {}, &[], "c", None).unwrap();
    let outcome = catch_unwind(AssertUnwindSafe(|| {
        app.wrap().query_wasm_smart::<bool>(addr.clone(), &Empty {}).is_ok()
    }));
    assert!(outcome.is_ok(), "a distribution query emitted by a contract made the simulator panic");
}

/// statement: a custom message emitted by a contract is handed to the custom module, whose failure is what the
/// caller sees.  Reference: the contract built with `ContractWrapper::new` -> Err from FailingModule.
#[test]
fn custom_message_of_contract_built_with_new_reaches_custom_module() {
    let mut app = App::default();
    let owner = app.api().addr_make("owner");
    let code_id = app.store_code(contract_new());
    let addr = app.instantiate_contract(code_id, owner.clone(), &Empty {}, &[], "c", None).unwrap();
    let err = app.execute_contract(owner, addr, &Empty {}, &[]).unwrap_err();
    assert!(format!("{:#}", err).contains("Unexpected exec msg"), "{:#}", err);
}

/// the very same entry points, wrapped with `new_with_empty` on the very same (Empty-typed) chain
#[test]
fn custom_message_of_contract_built_with_new_with_empty_reaches_custom_module() {
    let mut app = App::default();
    let owner = app.api().addr_make("owner");
    let code_id = app.store_code(contract_new_with_empty());
    let addr = app.instantiate_contract(code_id, owner.clone(), &Empty {}, &[], "c", None).unwrap();
    let outcome = catch_unwind(AssertUnwindSafe(|| app.execute_contract(owner, addr, &Empty {}, &[]).is_err()));
    assert_eq!(outcome.ok(), Some(true), "expected the custom module's error, got a panic");
}

/// privileged custom message: handed to the custom module's `sudo` (FailingModule -> Err)
#[test]
fn custom_sudo_reaches_custom_module() {
    let mut app = App::default();
    let outcome = catch_unwind(AssertUnwindSafe(|| app.sudo(SudoMsg::Custom(Empty {})).is_err()));
    assert_eq!(outcome.ok(), Some(true), "expected the custom module's error, got a panic");
}
