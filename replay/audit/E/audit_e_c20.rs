//! Audit E / C20: builder order independence on the real code (empirical cross-check of the field-wise contracts).
#![cfg(all(feature = "staking", feature = "stargate", feature = "cosmwasm_2_2"))]

use cosmwasm_std::testing::{MockApi, MockStorage};
use cosmwasm_std::{
    Addr, AnyMsg, Api, BankMsg, BankQuery, Binary, BlockInfo, Checksum, Coin, CosmosMsg, CustomMsg, CustomQuery,
    Deps, DepsMut, DistributionMsg, Empty, Env, GovMsg, GrpcQuery, IbcMsg, IbcQuery, MessageInfo, Querier, Reply,
    Response, StakingMsg, StakingQuery, StdError, StdResult, Storage, Timestamp, VoteOption, WasmMsg, WasmQuery,
};
use cw_multi_test::error::{bail, AnyResult};
use cw_multi_test::{
    AppBuilder, AppResponse, Bank, BankSudo, Contract, ContractData, ContractWrapper, CosmosRouter, Distribution,
    Executor, Gov, Ibc, Module, Stargate, Staking, StakingSudo, Wasm, WasmSudo,
};
use serde::de::DeserializeOwned;
use std::cell::Cell;
use std::fmt::Debug;
use std::marker::PhantomData;

struct Tagged<E, Q, S>(PhantomData<(E, Q, S)>, &'static str);
impl<E, Q, S> Tagged<E, Q, S> {
    fn new(tag: &'static str) -> Self {
        Self(PhantomData, tag)
    }
}
impl<E: Debug, Q: Debug, S: Debug> Module for Tagged<E, Q, S> {
    type ExecT = E;
    type QueryT = Q;
    type SudoT = S;
    fn execute<ExecC, QueryC>(&self, _: &dyn Api, _: &mut dyn Storage, _: &dyn CosmosRouter<ExecC = ExecC, QueryC = QueryC>, _: &BlockInfo, _: Addr, _: E) -> AnyResult<AppResponse>
    where
        ExecC: CustomMsg + DeserializeOwned + 'static,
        QueryC: CustomQuery + DeserializeOwned + 'static,
    {
        bail!("{} execute", self.1)
    }
    fn query(&self, _: &dyn Api, _: &dyn Storage, _: &dyn Querier, _: &BlockInfo, _: Q) -> AnyResult<Binary> {
        bail!("{} query", self.1)
    }
    fn sudo<ExecC, QueryC>(&self, _: &dyn Api, _: &mut dyn Storage, _: &dyn CosmosRouter<ExecC = ExecC, QueryC = QueryC>, _: &BlockInfo, _: S) -> AnyResult<AppResponse>
    where
        ExecC: CustomMsg + DeserializeOwned + 'static,
        QueryC: CustomQuery + DeserializeOwned + 'static,
    {
        bail!("{} sudo", self.1)
    }
}
type MyBank = Tagged<BankMsg, BankQuery, BankSudo>;
impl Bank for MyBank {}
type MyStaking = Tagged<StakingMsg, StakingQuery, StakingSudo>;
impl Staking for MyStaking {}
type MyDistr = Tagged<DistributionMsg, Empty, Empty>;
impl Distribution for MyDistr {}
type MyIbc = Tagged<IbcMsg, IbcQuery, Empty>;
impl Ibc for MyIbc {}
type MyGov = Tagged<GovMsg, Empty, Empty>;
impl Gov for MyGov {}
type MyCustom = Tagged<Empty, Empty, Empty>;

struct MyStargate;
impl Stargate for MyStargate {
    fn execute_any<ExecC, QueryC>(&self, _: &dyn Api, _: &mut dyn Storage, _: &dyn CosmosRouter<ExecC = ExecC, QueryC = QueryC>, _: &BlockInfo, _: Addr, _: AnyMsg) -> AnyResult<AppResponse>
    where
        ExecC: CustomMsg + DeserializeOwned + 'static,
        QueryC: CustomQuery + DeserializeOwned + 'static,
    {
        bail!("mystargate any")
    }
    fn query_grpc(&self, _: &dyn Api, _: &dyn Storage, _: &dyn Querier, _: &BlockInfo, _: GrpcQuery) -> AnyResult<Binary> {
        bail!("mystargate grpc")
    }
}

struct MyWasm;
impl Wasm<Empty, Empty> for MyWasm {
    fn execute(&self, _: &dyn Api, _: &mut dyn Storage, _: &dyn CosmosRouter<ExecC = Empty, QueryC = Empty>, _: &BlockInfo, _: Addr, _: WasmMsg) -> AnyResult<AppResponse> {
        bail!("mywasm execute")
    }
    fn query(&self, _: &dyn Api, _: &dyn Storage, _: &dyn Querier, _: &BlockInfo, _: WasmQuery) -> AnyResult<Binary> {
        bail!("mywasm query")
    }
    fn sudo(&self, _: &dyn Api, _: &mut dyn Storage, _: &dyn CosmosRouter<ExecC = Empty, QueryC = Empty>, _: &BlockInfo, _: WasmSudo) -> AnyResult<AppResponse> {
        bail!("mywasm sudo")
    }
    fn store_code(&mut self, _: Addr, _: Box<dyn Contract<Empty, Empty>>) -> u64 {
        4242
    }
    fn store_code_with_id(&mut self, _: Addr, id: u64, _: Box<dyn Contract<Empty, Empty>>) -> AnyResult<u64> {
        Ok(id)
    }
    fn duplicate_code(&mut self, _: u64) -> AnyResult<u64> {
        bail!("mywasm dup")
    }
    fn contract_data(&self, _: &dyn Storage, _: &Addr) -> AnyResult<ContractData> {
        bail!("mywasm contract_data")
    }
    fn dump_wasm_raw(&self, _: &dyn Storage, _: &Addr) -> Vec<cosmwasm_std::Record> {
        vec![]
    }
}

fn block() -> BlockInfo {
    BlockInfo { height: 777, time: Timestamp::from_nanos(123_456), chain_id: "audit-e".to_string() }
}
fn storage() -> MockStorage {
    let mut s = MockStorage::new();
    s.set(b"preexisting", b"value");
    s
}

macro_rules! check_app {
    ($builder:expr) => {{
        let calls = Cell::new(0u32);
        let mut app = $builder.build(|router, api, storage| {
            calls.set(calls.get() + 1);
            // the init function sees the supplied storage, api and components
            assert_eq!(storage.get(b"preexisting"), Some(b"value".to_vec()));
            assert!(api.addr_make("x").as_str().starts_with("audit1"));
            assert_eq!(router.bank.1, "mybank");
            assert_eq!(router.custom.1, "mycustom");
            assert_eq!(router.staking.1, "mystaking");
            assert_eq!(router.distribution.1, "mydistr");
            assert_eq!(router.ibc.1, "myibc");
            assert_eq!(router.gov.1, "mygov");
            storage.set(b"written-by-init", b"1");
        });
        assert_eq!(calls.get(), 1, "init function must run exactly once");
        assert_eq!(app.block_info(), block());
        assert!(app.api().addr_make("x").as_str().starts_with("audit1"));
        assert_eq!(app.storage().get(b"preexisting"), Some(b"value".to_vec()));
        assert_eq!(app.storage().get(b"written-by-init"), Some(b"1".to_vec()));
        let u = app.api().addr_make("u");
        let e = |r: AnyResult<AppResponse>| format!("{:#}", r.unwrap_err());
        assert_eq!(e(app.execute(u.clone(), BankMsg::Burn { amount: vec![] }.into())), "mybank execute");
        assert_eq!(e(app.execute(u.clone(), CosmosMsg::Custom(Empty {}))), "mycustom execute");
        assert_eq!(e(app.execute(u.clone(), StakingMsg::Delegate { validator: "v".into(), amount: Coin::new(1u32, "x") }.into())), "mystaking execute");
        assert_eq!(e(app.execute(u.clone(), DistributionMsg::WithdrawDelegatorReward { validator: "v".into() }.into())), "mydistr execute");
        assert_eq!(e(app.execute(u.clone(), IbcMsg::CloseChannel { channel_id: "c".into() }.into())), "myibc execute");
        assert_eq!(e(app.execute(u.clone(), GovMsg::Vote { proposal_id: 1, option: VoteOption::Yes }.into())), "mygov execute");
        assert_eq!(e(app.execute(u.clone(), CosmosMsg::Any(AnyMsg { type_url: "t".into(), value: Binary::default() }))), "mystargate any");
        assert_eq!(e(app.execute(u.clone(), WasmMsg::ClearAdmin { contract_addr: "c".into() }.into())), "mywasm execute");
        assert_eq!(app.store_code(Box::new(ContractWrapper::new(ex, ex, qu))), 4242);
        // nothing of the failed calls is left behind
        assert_eq!(app.storage().get(b"written-by-init"), Some(b"1".to_vec()));
    }};
}

#[test]
fn all_steps_in_three_orders() {
    let api = || MockApi::default().with_prefix("audit");
    // order 1: declaration order
    check_app!(AppBuilder::new()
        .with_api(api()).with_block(block()).with_storage(storage()).with_bank(MyBank::new("mybank"))
        .with_custom(MyCustom::new("mycustom")).with_wasm(MyWasm).with_staking(MyStaking::new("mystaking"))
        .with_distribution(MyDistr::new("mydistr")).with_ibc(MyIbc::new("myibc")).with_gov(MyGov::new("mygov"))
        .with_stargate(MyStargate));
    // order 2: reversed
    check_app!(AppBuilder::new()
        .with_stargate(MyStargate).with_gov(MyGov::new("mygov")).with_ibc(MyIbc::new("myibc"))
        .with_distribution(MyDistr::new("mydistr")).with_staking(MyStaking::new("mystaking")).with_wasm(MyWasm)
        .with_custom(MyCustom::new("mycustom")).with_bank(MyBank::new("mybank")).with_storage(storage())
        .with_block(block()).with_api(api()));
    // order 3: interleaved, block/storage/api in the middle, repeated steps (last one wins)
    check_app!(AppBuilder::new()
        .with_ibc(MyIbc::new("wrong")).with_storage(MockStorage::new()).with_gov(MyGov::new("mygov")).with_block(block())
        .with_wasm(MyWasm).with_bank(MyBank::new("mybank")).with_api(api()).with_stargate(MyStargate)
        .with_storage(storage()).with_staking(MyStaking::new("mystaking")).with_custom(MyCustom::new("mycustom"))
        .with_ibc(MyIbc::new("myibc")).with_distribution(MyDistr::new("mydistr")));
}

// ---------------------------------------------------------------- ContractWrapper: any order keeps everything
fn ex(_: DepsMut, _: Env, _: MessageInfo, _: Empty) -> StdResult<Response> {
    Ok(Response::new().add_attribute("ep", "exec_or_inst"))
}
fn qu(_: Deps, _: Env, _: Empty) -> StdResult<Binary> {
    Ok(Binary::from(b"query".to_vec()))
}
fn su(_: DepsMut, _: Env, _: Empty) -> StdResult<Response> {
    Ok(Response::new().add_attribute("ep", "sudo"))
}
fn mi(_: DepsMut, _: Env, _: Empty) -> StdResult<Response> {
    Ok(Response::new().add_attribute("ep", "migrate"))
}
fn re(_: DepsMut, _: Env, _: Reply) -> StdResult<Response> {
    Err(StdError::generic_err("reply"))
}

fn check_wrapper(c: Box<dyn Contract<Empty>>, cs: Checksum) {
    use cosmwasm_std::testing::{message_info, mock_dependencies, mock_env};
    assert_eq!(c.checksum(), Some(cs));
    let mut deps = mock_dependencies();
    let info = message_info(&Addr::unchecked("s"), &[]);
    let attr = |r: AnyResult<Response>| r.unwrap().attributes[0].value.clone();
    assert_eq!(attr(c.execute(deps.as_mut(), mock_env(), info.clone(), b"{}".to_vec())), "exec_or_inst");
    assert_eq!(attr(c.instantiate(deps.as_mut(), mock_env(), info, b"{}".to_vec())), "exec_or_inst");
    assert_eq!(c.query(deps.as_ref(), mock_env(), b"{}".to_vec()).unwrap(), Binary::from(b"query".to_vec()));
    assert_eq!(attr(c.sudo(deps.as_mut(), mock_env(), b"{}".to_vec())), "sudo");
    assert_eq!(attr(c.migrate(deps.as_mut(), mock_env(), b"{}".to_vec())), "migrate");
    #[allow(deprecated)]
    let reply = Reply { id: 1, payload: Binary::default(), gas_used: 0, result: cosmwasm_std::SubMsgResult::Err("e".into()) };
    assert!(format!("{:#}", c.reply(deps.as_mut(), mock_env(), reply).unwrap_err()).contains("reply"));
}

#[test]
fn wrapper_orders() {
    let cs = Checksum::generate(b"audit-e");
    check_wrapper(Box::new(ContractWrapper::new(ex, ex, qu).with_checksum(cs).with_sudo(su).with_reply(re).with_migrate(mi)), cs);
    check_wrapper(Box::new(ContractWrapper::new(ex, ex, qu).with_migrate(mi).with_reply(re).with_sudo(su).with_checksum(cs)), cs);
    check_wrapper(Box::new(ContractWrapper::new(ex, ex, qu).with_reply(re).with_checksum(cs).with_migrate(mi).with_sudo(su)), cs);
    check_wrapper(Box::new(ContractWrapper::new_with_empty(ex, ex, qu).with_checksum(cs).with_sudo_empty(su).with_reply_empty(re).with_migrate_empty(mi)), cs);
    check_wrapper(Box::new(ContractWrapper::new_with_empty(ex, ex, qu).with_migrate_empty(mi).with_sudo_empty(su).with_checksum(cs).with_reply_empty(re)), cs);
    // a step repeated: last one wins, the rest is kept
    check_wrapper(Box::new(ContractWrapper::new(ex, ex, qu).with_sudo(mi).with_checksum(Checksum::generate(b"other")).with_migrate(mi).with_reply(re).with_sudo(su).with_checksum(cs)), cs);
}
