//! Audit B / C06: randomized differential test of the transactional overlay against a BTreeMap model.
//! A custom module receives the raw write-cache handed out by App::execute (depth 1) or by
//! execute_submsg below a contract call (depth >= 3) and runs a script on it.

use cosmwasm_schema::cw_serde;
use cosmwasm_std::{
    Addr, Api, Binary, BlockInfo, CosmosMsg, CustomMsg, CustomQuery, Deps, DepsMut, Empty, Env,
    MessageInfo, Order, Querier, Reply, Response, StdError, StdResult, Storage, SubMsg, WasmMsg,
};
use cw_multi_test::error::{bail, AnyResult};
use cw_multi_test::{
    no_init, AppBuilder, AppResponse, Contract, ContractWrapper, CosmosRouter, Executor, Module,
};
use serde::de::DeserializeOwned;
use std::cell::RefCell;
use std::collections::BTreeMap;
use std::rc::Rc;

type Kv = BTreeMap<Vec<u8>, Vec<u8>>;

#[cw_serde]
enum KvOp {
    Set { k: Binary, v: Binary },
    Remove { k: Binary },
    Get { k: Binary },
    Range { start: Option<Binary>, end: Option<Binary>, desc: bool },
}

#[cw_serde]
struct Script {
    ops: Vec<KvOp>,
    fail: bool,
}
impl CustomMsg for Script {}

#[derive(Debug, Clone, PartialEq)]
enum Seen {
    Get(Option<Vec<u8>>),
    Range(Vec<(Vec<u8>, Vec<u8>)>),
}

struct KvModule {
    seen: Rc<RefCell<Vec<Seen>>>,
}

impl Module for KvModule {
    type ExecT = Script;
    type QueryT = Empty;
    type SudoT = Empty;

    fn execute<ExecC, QueryC>(
        &self,
        _api: &dyn Api,
        storage: &mut dyn Storage,
        _router: &dyn CosmosRouter<ExecC = ExecC, QueryC = QueryC>,
        _block: &BlockInfo,
        _sender: Addr,
        msg: Self::ExecT,
    ) -> AnyResult<AppResponse>
    where
        ExecC: CustomMsg + DeserializeOwned + 'static,
        QueryC: CustomQuery + DeserializeOwned + 'static,
    {
        for op in msg.ops {
            match op {
                KvOp::Set { k, v } => storage.set(k.as_slice(), v.as_slice()),
                KvOp::Remove { k } => storage.remove(k.as_slice()),
                KvOp::Get { k } => {
                    let value = storage.get(k.as_slice());
                    self.seen.borrow_mut().push(Seen::Get(value));
                }
                KvOp::Range { start, end, desc } => {
                    let order = if desc { Order::Descending } else { Order::Ascending };
                    let records = storage
                        .range(
                            start.as_ref().map(|b| b.as_slice()),
                            end.as_ref().map(|b| b.as_slice()),
                            order,
                        )
                        .collect();
                    self.seen.borrow_mut().push(Seen::Range(records));
                }
            }
        }
        if msg.fail {
            bail!("script failed on request");
        }
        Ok(AppResponse::default())
    }

    fn query(
        &self,
        _api: &dyn Api,
        _storage: &dyn Storage,
        _querier: &dyn Querier,
        _block: &BlockInfo,
        _request: Self::QueryT,
    ) -> AnyResult<Binary> {
        bail!("no queries")
    }

    fn sudo<ExecC, QueryC>(
        &self,
        _api: &dyn Api,
        _storage: &mut dyn Storage,
        _router: &dyn CosmosRouter<ExecC = ExecC, QueryC = QueryC>,
        _block: &BlockInfo,
        _msg: Self::SudoT,
    ) -> AnyResult<AppResponse>
    where
        ExecC: CustomMsg + DeserializeOwned + 'static,
        QueryC: CustomQuery + DeserializeOwned + 'static,
    {
        bail!("no sudo")
    }
}

#[cw_serde]
struct Step {
    msg: CosmosMsg<Script>,
    catch: bool,
}
#[cw_serde]
struct Forward {
    steps: Vec<Step>,
}
fn fwd_instantiate(_: DepsMut, _: Env, _: MessageInfo, _: Empty) -> StdResult<Response<Script>> {
    Ok(Response::new())
}
fn fwd_execute(_: DepsMut, _: Env, _: MessageInfo, msg: Forward) -> StdResult<Response<Script>> {
    let subs = msg.steps.into_iter().map(|step| {
        if step.catch {
            SubMsg::reply_on_error(step.msg, 1)
        } else {
            SubMsg::new(step.msg)
        }
    });
    Ok(Response::new().add_submessages(subs))
}
fn fwd_query(_: Deps, _: Env, _: Empty) -> StdResult<Binary> {
    Err(StdError::generic_err("no queries"))
}
fn fwd_reply(_: DepsMut, _: Env, _: Reply) -> StdResult<Response<Script>> {
    Ok(Response::new())
}
fn forwarder() -> Box<dyn Contract<Script>> {
    Box::new(ContractWrapper::new(fwd_execute, fwd_instantiate, fwd_query).with_reply(fwd_reply))
}

fn run_on_model(model: &mut Kv, ops: &[KvOp]) -> Vec<Seen> {
    let mut seen = vec![];
    for op in ops {
        match op {
            KvOp::Set { k, v } => {
                model.insert(k.to_vec(), v.to_vec());
            }
            KvOp::Remove { k } => {
                model.remove(k.as_slice());
            }
            KvOp::Get { k } => seen.push(Seen::Get(model.get(k.as_slice()).cloned())),
            KvOp::Range { start, end, desc } => {
                let mut records: Vec<_> = model
                    .iter()
                    .filter(|(k, _)| start.as_ref().map_or(true, |s| k.as_slice() >= s.as_slice()))
                    .filter(|(k, _)| end.as_ref().map_or(true, |e| k.as_slice() < e.as_slice()))
                    .map(|(k, v)| (k.clone(), v.clone()))
                    .collect();
                if *desc {
                    records.reverse();
                }
                seen.push(Seen::Range(records));
            }
        }
    }
    seen
}

fn dump(storage: &dyn Storage) -> Kv {
    storage.range(None, None, Order::Ascending).collect()
}

struct Rng(u64);
impl Rng {
    fn next(&mut self) -> u64 {
        self.0 = self.0.wrapping_mul(6364136223846793005).wrapping_add(1442695040888963407);
        self.0 >> 33
    }
    fn below(&mut self, n: u64) -> u64 {
        self.next() % n
    }
    fn key(&mut self) -> Vec<u8> {
        let alphabet = [0x00u8, 0x61, 0x62, 0xFF];
        let len = self.below(4);
        (0..len).map(|_| alphabet[self.below(4) as usize]).collect()
    }
    fn bound(&mut self) -> Option<Binary> {
        if self.below(4) == 0 { None } else { Some(Binary::from(self.key())) }
    }
    fn op(&mut self) -> KvOp {
        match self.below(10) {
            0..=2 => KvOp::Set { k: self.key().into(), v: vec![1 + self.below(200) as u8].into() },
            3..=4 => KvOp::Remove { k: self.key().into() },
            5..=6 => KvOp::Get { k: self.key().into() },
            _ => KvOp::Range { start: self.bound(), end: self.bound(), desc: self.below(2) == 0 },
        }
    }
    fn ops(&mut self, n: u64) -> Vec<KvOp> {
        let mut v: Vec<KvOp> = (0..n).map(|_| self.op()).collect();
        v.push(KvOp::Range { start: None, end: None, desc: false });
        v.push(KvOp::Range { start: None, end: None, desc: true });
        v
    }
}

#[test]
fn random_depth_1() {
    let mut rng = Rng(0xC06);
    for round in 0..400 {
        let seen = Rc::new(RefCell::new(vec![]));
        let mut app = AppBuilder::new_custom()
            .with_custom(KvModule { seen: seen.clone() })
            .build(no_init);
        let sender = app.api().addr_make("sender");
        for _ in 0..rng.below(8) {
            let k = rng.key();
            app.storage_mut().set(&k, &[7]);
        }
        let base = dump(app.storage());
        let mut model = base.clone();
        let ops = rng.ops(25);
        let fail = rng.below(4) == 0;
        let expected = run_on_model(&mut model, &ops);
        let res = app.execute(sender, CosmosMsg::Custom(Script { ops: ops.clone(), fail }));
        assert_eq!(res.is_err(), fail);
        assert_eq!(expected, *seen.borrow(), "round {round}: ops {ops:?}");
        if fail {
            assert_eq!(base, dump(app.storage()), "round {round}: discarded cache must leave base");
        } else {
            assert_eq!(model, dump(app.storage()), "round {round}: commit must equal model");
        }
    }
}

#[test]
fn random_depth_3() {
    let mut rng = Rng(0xC0603);
    for round in 0..200 {
        let seen = Rc::new(RefCell::new(vec![]));
        let mut app = AppBuilder::new_custom()
            .with_custom(KvModule { seen: seen.clone() })
            .build(no_init);
        let sender = app.api().addr_make("sender");
        let code_id = app.store_code(forwarder());
        let contract = app
            .instantiate_contract(code_id, sender.clone(), &Empty {}, &[], "fwd", None)
            .unwrap();
        for _ in 0..rng.below(8) {
            let k = rng.key();
            app.storage_mut().set(&k, &[7]);
        }
        let mut model = dump(app.storage());

        let first = rng.ops(10);
        let second = rng.ops(10);
        let third = rng.ops(10); // discarded
        let fourth = rng.ops(10);
        let fifth = rng.ops(6);

        let mut expected = run_on_model(&mut model, &first);
        expected.extend(run_on_model(&mut model, &second));
        {
            // third runs on a scratch copy and is rolled back
            let mut scratch = model.clone();
            expected.extend(run_on_model(&mut scratch, &third));
        }
        expected.extend(run_on_model(&mut model, &fourth));
        expected.extend(run_on_model(&mut model, &fifth));

        let custom = |ops: Vec<KvOp>, fail: bool| CosmosMsg::Custom(Script { ops, fail });
        let inner = Forward {
            steps: vec![
                Step { msg: custom(second, false), catch: false },
                Step { msg: custom(third, true), catch: true },
                Step { msg: custom(fourth, false), catch: false },
            ],
        };
        let outer = Forward {
            steps: vec![
                Step { msg: custom(first, false), catch: false },
                Step {
                    msg: WasmMsg::Execute {
                        contract_addr: contract.to_string(),
                        msg: cosmwasm_std::to_json_binary(&inner).unwrap(),
                        funds: vec![],
                    }
                    .into(),
                    catch: false,
                },
                Step { msg: custom(fifth, false), catch: false },
            ],
        };
        app.execute_contract(sender, contract, &outer, &[]).unwrap();
        assert_eq!(expected, *seen.borrow(), "round {round}");
        assert_eq!(model, dump(app.storage()), "round {round}");
    }
}
