//! Audit B / C07: randomized differential test of App's prefixed views against a model on the raw store.

use cosmwasm_std::{Order, Storage};
use cw_multi_test::App;
use std::collections::BTreeMap;

type Kv = BTreeMap<Vec<u8>, Vec<u8>>;

fn lp_nested(path: &[Vec<u8>]) -> Vec<u8> {
    let mut out = vec![];
    for seg in path {
        out.push((seg.len() >> 8) as u8);
        out.push((seg.len() & 255) as u8);
        out.extend_from_slice(seg);
    }
    out
}

fn dump(storage: &dyn Storage) -> Kv {
    storage.range(None, None, Order::Ascending).collect()
}

/// what the view should show: raw entries starting with the prefix, prefix stripped, within [start, end)
fn model_range(raw: &Kv, prefix: &[u8], start: Option<&[u8]>, end: Option<&[u8]>, desc: bool) -> Vec<(Vec<u8>, Vec<u8>)> {
    let mut v: Vec<_> = raw
        .iter()
        .filter(|(k, _)| k.starts_with(prefix))
        .map(|(k, v)| (k[prefix.len()..].to_vec(), v.clone()))
        .filter(|(k, _)| start.map_or(true, |s| k.as_slice() >= s))
        .filter(|(k, _)| end.map_or(true, |e| k.as_slice() < e))
        .collect();
    if desc {
        v.reverse();
    }
    v
}

struct Rng(u64);
impl Rng {
    fn next(&mut self) -> u64 {
        self.0 = self.0.wrapping_mul(6364136223846793005).wrapping_add(1442695040888963407);
        self.0 >> 33
    }
    fn below(&mut self, n: u64) -> u64 {
        self.next() % n
    }
    fn bytes(&mut self, max_len: u64, alphabet: &[u8]) -> Vec<u8> {
        let len = self.below(max_len + 1);
        (0..len).map(|_| alphabet[self.below(alphabet.len() as u64) as usize]).collect()
    }
}

const SEGS: &[&[u8]] = &[b"", b"f", b"fo", b"foo", b"food", b"f\xff", b"f\xff\xff", b"\xff", b"\xff\xff", b"g", b"\x00", b"\x00\x01f", b"e\xff"];
const ALPHA: &[u8] = &[0x00, 0x01, 0x02, b'e', b'f', b'g', b'o', 0xFF];

fn view<'a>(app: &'a App, path: &[Vec<u8>], single: bool) -> Box<dyn Storage + 'a> {
    if single {
        app.prefixed_storage(&path[0])
    } else {
        let p: Vec<&[u8]> = path.iter().map(|s| s.as_slice()).collect();
        app.prefixed_multilevel_storage(&p)
    }
}
fn view_mut<'a>(app: &'a mut App, path: &[Vec<u8>], single: bool) -> Box<dyn Storage + 'a> {
    if single {
        app.prefixed_storage_mut(&path[0])
    } else {
        let p: Vec<&[u8]> = path.iter().map(|s| s.as_slice()).collect();
        app.prefixed_multilevel_storage_mut(&p)
    }
}

#[test]
fn random_views() {
    let mut rng = Rng(0xC07);
    for round in 0..400 {
        let mut app = App::default();
        // adversarial raw content: short raw keys that spell (parts of) prefixes
        for _ in 0..rng.below(25) {
            let k = rng.bytes(6, ALPHA);
            app.storage_mut().set(&k, &[9]);
        }
        // also raw keys under real prefixes
        for _ in 0..rng.below(10) {
            let seg = SEGS[rng.below(SEGS.len() as u64) as usize].to_vec();
            let mut k = lp_nested(&[seg]);
            k.extend(rng.bytes(3, ALPHA));
            app.storage_mut().set(&k, &[8]);
        }
        let mut raw = dump(app.storage());

        for _ in 0..30 {
            // path: 0..3 segments; the single-level API needs exactly one
            let n = rng.below(4);
            let path: Vec<Vec<u8>> = (0..n).map(|_| SEGS[rng.below(SEGS.len() as u64) as usize].to_vec()).collect();
            let single = n == 1 && rng.below(2) == 0;
            let prefix = lp_nested(&path);
            let mutable = rng.below(2) == 0;

            match rng.below(4) {
                0 if mutable => {
                    let k = rng.bytes(3, ALPHA);
                    let v = vec![1 + rng.below(100) as u8];
                    view_mut(&mut app, &path, single).set(&k, &v);
                    let mut rk = prefix.clone();
                    rk.extend(&k);
                    raw.insert(rk, v);
                    assert_eq!(raw, dump(app.storage()), "round {round}: set through {path:?} key {k:?}");
                }
                1 if mutable => {
                    let k = rng.bytes(3, ALPHA);
                    view_mut(&mut app, &path, single).remove(&k);
                    let mut rk = prefix.clone();
                    rk.extend(&k);
                    raw.remove(&rk);
                    assert_eq!(raw, dump(app.storage()), "round {round}: remove through {path:?} key {k:?}");
                }
                2 => {
                    let k = rng.bytes(3, ALPHA);
                    let mut rk = prefix.clone();
                    rk.extend(&k);
                    let got = if mutable { view_mut(&mut app, &path, single).get(&k) } else { view(&app, &path, single).get(&k) };
                    assert_eq!(raw.get(&rk).cloned(), got, "round {round}: get through {path:?} key {k:?}");
                }
                _ => {
                    let s = if rng.below(3) == 0 { None } else { Some(rng.bytes(3, ALPHA)) };
                    let e = if rng.below(3) == 0 { None } else { Some(rng.bytes(3, ALPHA)) };
                    let desc = rng.below(2) == 0;
                    let order = if desc { Order::Descending } else { Order::Ascending };
                    let got: Vec<_> = if mutable {
                        view_mut(&mut app, &path, single).range(s.as_deref(), e.as_deref(), order).collect()
                    } else {
                        view(&app, &path, single).range(s.as_deref(), e.as_deref(), order).collect()
                    };
                    let want = model_range(&raw, &prefix, s.as_deref(), e.as_deref(), desc);
                    assert_eq!(want, got, "round {round}: range through {path:?} [{s:?},{e:?}) desc={desc}; raw={raw:?}");
                }
            }
        }
        assert_eq!(raw, dump(app.storage()));
    }
}

#[test]
fn subwindow_and_disjoint() {
    let mut app = App::default();
    app.prefixed_multilevel_storage_mut(&[b"a", b"b"]).set(b"k", b"v");
    // longer path is the sub-window of the shorter under lp("b")
    let sub: Vec<_> = app.prefixed_storage(b"a").range(None, None, Order::Ascending).collect();
    assert_eq!(sub, vec![(b"\x00\x01bk".to_vec(), b"v".to_vec())]);
    let sub2: Vec<_> = app.prefixed_multilevel_storage(&[]).range(None, None, Order::Ascending).collect();
    assert_eq!(sub2, vec![(b"\x00\x01a\x00\x01bk".to_vec(), b"v".to_vec())]);
    // unrelated paths see nothing
    assert_eq!(app.prefixed_multilevel_storage(&[b"a", b"c"]).range(None, None, Order::Ascending).count(), 0);
    assert_eq!(app.prefixed_multilevel_storage(&[b"ab"]).range(None, None, Order::Ascending).count(), 0);
    assert_eq!(app.prefixed_multilevel_storage(&[b"a", b""]).range(None, None, Order::Ascending).count(), 0);
}

#[test]
#[should_panic]
fn readonly_single_rejects_set() {
    let app = App::default();
    let mut v = app.prefixed_storage(b"x");
    v.set(b"a", b"b");
}
#[test]
#[should_panic]
fn readonly_single_rejects_remove() {
    let app = App::default();
    let mut v = app.prefixed_storage(b"x");
    v.remove(b"a");
}
#[test]
#[should_panic]
fn readonly_multi_rejects_set() {
    let app = App::default();
    let mut v = app.prefixed_multilevel_storage(&[b"x", b"y"]);
    v.set(b"a", b"b");
}
#[test]
#[should_panic]
fn readonly_multi_rejects_remove() {
    let app = App::default();
    let mut v = app.prefixed_multilevel_storage(&[b"x", b"y"]);
    v.remove(b"a");
}

#[test]
fn max_len_namespace_ok() {
    let mut app = App::default();
    let ns = vec![0xFFu8; 0xFFFF];
    app.prefixed_storage_mut(&ns).set(b"k", b"v");
    assert_eq!(app.prefixed_storage(&ns).get(b"k"), Some(b"v".to_vec()));
    let all: Vec<_> = app.prefixed_storage(&ns).range(None, None, Order::Descending).collect();
    assert_eq!(all, vec![(b"k".to_vec(), b"v".to_vec())]);
}
