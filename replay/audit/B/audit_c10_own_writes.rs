#![cfg(all(feature = "staking", feature = "cosmwasm_1_2"))]
//! Audit B / C10 (borderline, see REPORT.md): a scripted contract (direct impl of `Contract`) runs storage operations and queries
//! at chosen points of a message tree and logs what it saw through a side channel.

use cosmwasm_schema::cw_serde;
use cosmwasm_std::testing::mock_env;
use cosmwasm_std::{
    coin, coins, from_json, to_json_binary, Addr, BankMsg, BankQuery, Binary, Coin, CosmosMsg, Decimal, Deps,
    DepsMut, Empty, Env, MessageInfo, Order, QueryRequest, Reply, Response, StakingMsg, StakingQuery, Storage,
    SubMsg, Validator, WasmMsg, WasmQuery,
};
use cw_multi_test::error::{anyhow, AnyResult};
use cw_multi_test::{App, AppBuilder, Contract, Executor, StakingInfo};
use std::cell::RefCell;
use std::collections::BTreeMap;
use std::rc::Rc;

type Kv = BTreeMap<Vec<u8>, Vec<u8>>;

#[cw_serde]
enum Act {
    Set { k: Binary, v: Binary },
    Remove { k: Binary },
    Get { k: Binary },
    Range { start: Option<Binary>, end: Option<Binary>, desc: bool },
    Query { tag: String, req: QueryRequest<Empty> },
    /// dispatch a sub-message; `then` runs in the reply (always called when `catch`)
    Sub { msg: CosmosMsg, catch: bool, then: Vec<Act> },
    Fail,
}

#[derive(Debug, Clone, PartialEq)]
enum Obs {
    Get(Option<Vec<u8>>),
    Range(Vec<(Vec<u8>, Vec<u8>)>),
    Query(String, Result<Binary, String>),
}

#[derive(Clone, Default)]
struct Shared {
    log: Rc<RefCell<Vec<(Addr, Obs)>>>,
    replies: Rc<RefCell<BTreeMap<u64, Vec<Act>>>>,
}

struct Scripted(Shared);

impl Scripted {
    fn read(&self, me: &Addr, storage: &dyn Storage, q: cosmwasm_std::QuerierWrapper, act: &Act) {
        let obs = match act {
            Act::Get { k } => Obs::Get(storage.get(k)),
            Act::Range { start, end, desc } => {
                let order = if *desc { Order::Descending } else { Order::Ascending };
                Obs::Range(
                    storage
                        .range(start.as_ref().map(|b| b.as_slice()), end.as_ref().map(|b| b.as_slice()), order)
                        .collect(),
                )
            }
            Act::Query { tag, req } => {
                let raw = to_json_binary(req).unwrap();
                let res = match q.raw_query(&raw) {
                    cosmwasm_std::SystemResult::Ok(cosmwasm_std::ContractResult::Ok(b)) => Ok(b),
                    cosmwasm_std::SystemResult::Ok(cosmwasm_std::ContractResult::Err(e)) => Err(e),
                    cosmwasm_std::SystemResult::Err(e) => Err(format!("system: {e}")),
                };
                Obs::Query(tag.clone(), res)
            }
            _ => panic!("not a read"),
        };
        self.0.log.borrow_mut().push((me.clone(), obs));
    }

    fn run(&self, deps: DepsMut, env: Env, acts: Vec<Act>) -> AnyResult<Response> {
        let me = env.contract.address.clone();
        let mut resp = Response::new();
        for act in acts {
            match act {
                Act::Set { k, v } => deps.storage.set(&k, &v),
                Act::Remove { k } => deps.storage.remove(&k),
                Act::Fail => return Err(anyhow!("scripted failure")),
                Act::Sub { msg, catch, then } => {
                    let id = {
                        let mut r = self.0.replies.borrow_mut();
                        let id = r.len() as u64 + 1;
                        r.insert(id, then);
                        id
                    };
                    resp = resp.add_submessage(if catch { SubMsg::reply_always(msg, id) } else { SubMsg::reply_on_success(msg, id) });
                }
                read => self.read(&me, deps.storage, deps.querier, &read),
            }
        }
        Ok(resp)
    }
}

impl Contract<Empty> for Scripted {
    fn execute(&self, deps: DepsMut, env: Env, _info: MessageInfo, msg: Vec<u8>) -> AnyResult<Response> {
        self.run(deps, env, from_json(msg)?)
    }
    fn instantiate(&self, deps: DepsMut, env: Env, _info: MessageInfo, msg: Vec<u8>) -> AnyResult<Response> {
        self.run(deps, env, from_json(msg)?)
    }
    fn query(&self, deps: Deps, env: Env, msg: Vec<u8>) -> AnyResult<Binary> {
        let acts: Vec<Act> = from_json(msg)?;
        let mut out: Vec<Option<Binary>> = vec![];
        for act in &acts {
            self.read(&env.contract.address, deps.storage, deps.querier, act);
            if let Act::Get { k } = act {
                out.push(deps.storage.get(k).map(Binary::from));
            }
        }
        Ok(to_json_binary(&out)?)
    }
    fn sudo(&self, deps: DepsMut, env: Env, msg: Vec<u8>) -> AnyResult<Response> {
        self.run(deps, env, from_json(msg)?)
    }
    fn reply(&self, deps: DepsMut, env: Env, msg: Reply) -> AnyResult<Response> {
        let then = self.0.replies.borrow().get(&msg.id).cloned().unwrap_or_default();
        self.run(deps, env, then)
    }
    fn migrate(&self, deps: DepsMut, env: Env, msg: Vec<u8>) -> AnyResult<Response> {
        self.run(deps, env, from_json(msg)?)
    }
}

const DENOM: &str = "stake";

struct World {
    app: App,
    shared: Shared,
    owner: Addr,
    validator: Addr,
    code_id: u64,
    a: Addr,
    b: Addr,
    c: Addr,
}

fn world() -> World {
    let shared = Shared::default();
    let block = mock_env().block;
    let mut owner = Addr::unchecked("x");
    let mut validator = Addr::unchecked("x");
    let mut app = AppBuilder::default().build(|router, api, storage| {
        owner = api.addr_make("owner");
        validator = api.addr_make("validator");
        router.bank.init_balance(storage, &owner, vec![coin(1_000_000, DENOM), coin(500, "other")]).unwrap();
        router
            .staking
            .setup(storage, StakingInfo { bonded_denom: DENOM.to_string(), unbonding_time: 60, apr: Decimal::percent(10) })
            .unwrap();
        router
            .staking
            .add_validator(
                api,
                storage,
                &block,
                Validator::new(validator.to_string(), Decimal::percent(10), Decimal::percent(90), Decimal::percent(1)),
            )
            .unwrap();
    });
    let code_id = app.store_code(Box::new(Scripted(shared.clone())));
    let code_id2 = app.store_code(Box::new(Scripted(shared.clone())));
    let none: Vec<Act> = vec![];
    let a = app.instantiate_contract(code_id, owner.clone(), &none, &coins(1000, DENOM), "a", Some(owner.to_string())).unwrap();
    let b = app.instantiate_contract(code_id, owner.clone(), &none, &coins(1000, DENOM), "b", None).unwrap();
    let c = app.instantiate_contract(code_id2, owner.clone(), &none, &[], "c", None).unwrap();
    app.execute(owner.clone(), StakingMsg::Delegate { validator: validator.to_string(), amount: coin(5000, DENOM) }.into()).unwrap();
    World { app, shared, owner, validator, code_id, a, b, c }
}

fn dump(storage: &dyn Storage) -> Kv {
    storage.range(None, None, Order::Ascending).collect()
}
fn lp(ns: &[u8]) -> Vec<u8> {
    let mut out = vec![(ns.len() >> 8) as u8, (ns.len() & 255) as u8];
    out.extend_from_slice(ns);
    out
}
fn contract_prefix(addr: &Addr) -> Vec<u8> {
    let mut out = lp(b"wasm");
    let mut ns = b"contract_data/".to_vec();
    ns.extend_from_slice(addr.as_bytes());
    out.extend(lp(&ns));
    out
}
fn cat(parts: &[&[u8]]) -> Vec<u8> {
    parts.concat()
}
fn set(k: &[u8], v: &[u8]) -> Act {
    Act::Set { k: k.into(), v: v.into() }
}
fn get(k: &[u8]) -> Act {
    Act::Get { k: k.into() }
}
fn all() -> Act {
    Act::Range { start: None, end: None, desc: false }
}
fn exec(addr: &Addr, acts: Vec<Act>, funds: Vec<Coin>) -> CosmosMsg {
    WasmMsg::Execute { contract_addr: addr.to_string(), msg: to_json_binary(&acts).unwrap(), funds }.into()
}
fn q_raw(tag: &str, addr: &Addr, k: &[u8]) -> Act {
    Act::Query { tag: tag.into(), req: QueryRequest::Wasm(WasmQuery::Raw { contract_addr: addr.to_string(), key: k.into() }) }
}
fn q_smart(tag: &str, addr: &Addr, acts: Vec<Act>) -> Act {
    Act::Query { tag: tag.into(), req: QueryRequest::Wasm(WasmQuery::Smart { contract_addr: addr.to_string(), msg: to_json_binary(&acts).unwrap() }) }
}
fn q_bal(tag: &str, addr: &Addr) -> Act {
    Act::Query { tag: tag.into(), req: QueryRequest::Bank(BankQuery::Balance { address: addr.to_string(), denom: DENOM.into() }) }
}
fn queries(w: &World, tag: &str) -> Vec<Result<Binary, String>> {
    w.shared.log.borrow().iter().filter_map(|(_, o)| match o { Obs::Query(t, r) if t == tag => Some(r.clone()), _ => None }).collect()
}
fn bal_json(amount: u128) -> Binary {
    to_json_binary(&cosmwasm_std::BalanceResponse::new(coin(amount, DENOM))).unwrap()
}


/// BORDERLINE (not counted as a confirmed defect): a contract writes to its own storage and then, in the same
/// entry point, asks its querier for that key (raw query to itself).  On a real chain (wasmd) the query runs on
/// the same store context and returns the new value; here the querier is built over `read_store`, the state
/// at the START of the call (src/wasm.rs with_storage), so the write is invisible until the entry point returns.
/// The spec mirrors this (`ws_args`: qsnap == (s0, block)).
#[test]
fn c10_own_write_visible_through_own_querier() {
    let mut w = world();
    let a = w.a.clone();
    w.app.execute(w.owner.clone(), exec(&a, vec![set(b"k", b"1"), q_raw("self", &a, b"k"), q_smart("self smart", &a, vec![get(b"k")])], vec![])).unwrap();
    assert_eq!(queries(&w, "self"), vec![Ok(Binary::from(b"1"))], "raw self-query does not see the write made earlier in the same entry point");
}
