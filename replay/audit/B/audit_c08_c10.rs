#![cfg(all(feature = "staking", feature = "cosmwasm_1_2"))]
//! Audit B / C08 + C10: a scripted contract (direct impl of `Contract`) runs storage operations and queries
//! at chosen points of a message tree and logs what it saw through a side channel.

use cosmwasm_schema::cw_serde;
use cosmwasm_std::testing::mock_env;
use cosmwasm_std::{
    coin, coins, from_json, to_json_binary, Addr, BankMsg, BankQuery, Binary, Coin, CosmosMsg, Decimal, Deps,
    DepsMut, Empty, Env, MessageInfo, Order, QueryRequest, Reply, Response, StakingMsg, StakingQuery, Storage,
    SubMsg, Validator, WasmMsg, WasmQuery,
};
use cw_multi_test::error::{anyhow, AnyResult};
use cw_multi_test::{App, AppBuilder, Contract, Executor, StakingInfo};
use std::cell::RefCell;
use std::collections::BTreeMap;
use std::rc::Rc;

type Kv = BTreeMap<Vec<u8>, Vec<u8>>;

#[cw_serde]
enum Act {
    Set { k: Binary, v: Binary },
    Remove { k: Binary },
    Get { k: Binary },
    Range { start: Option<Binary>, end: Option<Binary>, desc: bool },
    Query { tag: String, req: QueryRequest<Empty> },
    /// dispatch a sub-message; `then` runs in the reply (always called when `catch`)
    Sub { msg: CosmosMsg, catch: bool, then: Vec<Act> },
    Fail,
}

#[derive(Debug, Clone, PartialEq)]
enum Obs {
    Get(Option<Vec<u8>>),
    Range(Vec<(Vec<u8>, Vec<u8>)>),
    Query(String, Result<Binary, String>),
}

#[derive(Clone, Default)]
struct Shared {
    log: Rc<RefCell<Vec<(Addr, Obs)>>>,
    replies: Rc<RefCell<BTreeMap<u64, Vec<Act>>>>,
}

struct Scripted(Shared);

impl Scripted {
    fn read(&self, me: &Addr, storage: &dyn Storage, q: cosmwasm_std::QuerierWrapper, act: &Act) {
        let obs = match act {
            Act::Get { k } => Obs::Get(storage.get(k)),
            Act::Range { start, end, desc } => {
                let order = if *desc { Order::Descending } else { Order::Ascending };
                Obs::Range(
                    storage
                        .range(start.as_ref().map(|b| b.as_slice()), end.as_ref().map(|b| b.as_slice()), order)
                        .collect(),
                )
            }
            Act::Query { tag, req } => {
                let raw = to_json_binary(req).unwrap();
                let res = match q.raw_query(&raw) {
                    cosmwasm_std::SystemResult::Ok(cosmwasm_std::ContractResult::Ok(b)) => Ok(b),
                    cosmwasm_std::SystemResult::Ok(cosmwasm_std::ContractResult::Err(e)) => Err(e),
                    cosmwasm_std::SystemResult::Err(e) => Err(format!("system: {e}")),
                };
                Obs::Query(tag.clone(), res)
            }
            _ => panic!("not a read"),
        };
        self.0.log.borrow_mut().push((me.clone(), obs));
    }

    fn run(&self, deps: DepsMut, env: Env, acts: Vec<Act>) -> AnyResult<Response> {
        let me = env.contract.address.clone();
        let mut resp = Response::new();
        for act in acts {
            match act {
                Act::Set { k, v } => deps.storage.set(&k, &v),
                Act::Remove { k } => deps.storage.remove(&k),
                Act::Fail => return Err(anyhow!("scripted failure")),
                Act::Sub { msg, catch, then } => {
                    let id = {
                        let mut r = self.0.replies.borrow_mut();
                        let id = r.len() as u64 + 1;
                        r.insert(id, then);
                        id
                    };
                    resp = resp.add_submessage(if catch { SubMsg::reply_always(msg, id) } else { SubMsg::reply_on_success(msg, id) });
                }
                read => self.read(&me, deps.storage, deps.querier, &read),
            }
        }
        Ok(resp)
    }
}

impl Contract<Empty> for Scripted {
    fn execute(&self, deps: DepsMut, env: Env, _info: MessageInfo, msg: Vec<u8>) -> AnyResult<Response> {
        self.run(deps, env, from_json(msg)?)
    }
    fn instantiate(&self, deps: DepsMut, env: Env, _info: MessageInfo, msg: Vec<u8>) -> AnyResult<Response> {
        self.run(deps, env, from_json(msg)?)
    }
    fn query(&self, deps: Deps, env: Env, msg: Vec<u8>) -> AnyResult<Binary> {
        let acts: Vec<Act> = from_json(msg)?;
        let mut out: Vec<Option<Binary>> = vec![];
        for act in &acts {
            self.read(&env.contract.address, deps.storage, deps.querier, act);
            if let Act::Get { k } = act {
                out.push(deps.storage.get(k).map(Binary::from));
            }
        }
        Ok(to_json_binary(&out)?)
    }
    fn sudo(&self, deps: DepsMut, env: Env, msg: Vec<u8>) -> AnyResult<Response> {
        self.run(deps, env, from_json(msg)?)
    }
    fn reply(&self, deps: DepsMut, env: Env, msg: Reply) -> AnyResult<Response> {
        let then = self.0.replies.borrow().get(&msg.id).cloned().unwrap_or_default();
        self.run(deps, env, then)
    }
    fn migrate(&self, deps: DepsMut, env: Env, msg: Vec<u8>) -> AnyResult<Response> {
        self.run(deps, env, from_json(msg)?)
    }
}

const DENOM: &str = "stake";

struct World {
    app: App,
    shared: Shared,
    owner: Addr,
    validator: Addr,
    code_id: u64,
    a: Addr,
    b: Addr,
    c: Addr,
}

fn world() -> World {
    let shared = Shared::default();
    let block = mock_env().block;
    let mut owner = Addr::unchecked("x");
    let mut validator = Addr::unchecked("x");
    let mut app = AppBuilder::default().build(|router, api, storage| {
        owner = api.addr_make("owner");
        validator = api.addr_make("validator");
        router.bank.init_balance(storage, &owner, vec![coin(1_000_000, DENOM), coin(500, "other")]).unwrap();
        router
            .staking
            .setup(storage, StakingInfo { bonded_denom: DENOM.to_string(), unbonding_time: 60, apr: Decimal::percent(10) })
            .unwrap();
        router
            .staking
            .add_validator(
                api,
                storage,
                &block,
                Validator::new(validator.to_string(), Decimal::percent(10), Decimal::percent(90), Decimal::percent(1)),
            )
            .unwrap();
    });
    let code_id = app.store_code(Box::new(Scripted(shared.clone())));
    let code_id2 = app.store_code(Box::new(Scripted(shared.clone())));
    let none: Vec<Act> = vec![];
    let a = app.instantiate_contract(code_id, owner.clone(), &none, &coins(1000, DENOM), "a", Some(owner.to_string())).unwrap();
    let b = app.instantiate_contract(code_id, owner.clone(), &none, &coins(1000, DENOM), "b", None).unwrap();
    let c = app.instantiate_contract(code_id2, owner.clone(), &none, &[], "c", None).unwrap();
    app.execute(owner.clone(), StakingMsg::Delegate { validator: validator.to_string(), amount: coin(5000, DENOM) }.into()).unwrap();
    World { app, shared, owner, validator, code_id, a, b, c }
}

fn dump(storage: &dyn Storage) -> Kv {
    storage.range(None, None, Order::Ascending).collect()
}
fn lp(ns: &[u8]) -> Vec<u8> {
    let mut out = vec![(ns.len() >> 8) as u8, (ns.len() & 255) as u8];
    out.extend_from_slice(ns);
    out
}
fn contract_prefix(addr: &Addr) -> Vec<u8> {
    let mut out = lp(b"wasm");
    let mut ns = b"contract_data/".to_vec();
    ns.extend_from_slice(addr.as_bytes());
    out.extend(lp(&ns));
    out
}
fn cat(parts: &[&[u8]]) -> Vec<u8> {
    parts.concat()
}
fn set(k: &[u8], v: &[u8]) -> Act {
    Act::Set { k: k.into(), v: v.into() }
}
fn get(k: &[u8]) -> Act {
    Act::Get { k: k.into() }
}
fn all() -> Act {
    Act::Range { start: None, end: None, desc: false }
}
fn exec(addr: &Addr, acts: Vec<Act>, funds: Vec<Coin>) -> CosmosMsg {
    WasmMsg::Execute { contract_addr: addr.to_string(), msg: to_json_binary(&acts).unwrap(), funds }.into()
}
fn q_raw(tag: &str, addr: &Addr, k: &[u8]) -> Act {
    Act::Query { tag: tag.into(), req: QueryRequest::Wasm(WasmQuery::Raw { contract_addr: addr.to_string(), key: k.into() }) }
}
fn q_smart(tag: &str, addr: &Addr, acts: Vec<Act>) -> Act {
    Act::Query { tag: tag.into(), req: QueryRequest::Wasm(WasmQuery::Smart { contract_addr: addr.to_string(), msg: to_json_binary(&acts).unwrap() }) }
}
fn q_bal(tag: &str, addr: &Addr) -> Act {
    Act::Query { tag: tag.into(), req: QueryRequest::Bank(BankQuery::Balance { address: addr.to_string(), denom: DENOM.into() }) }
}
fn queries(w: &World, tag: &str) -> Vec<Result<Binary, String>> {
    w.shared.log.borrow().iter().filter_map(|(_, o)| match o { Obs::Query(t, r) if t == tag => Some(r.clone()), _ => None }).collect()
}
fn bal_json(amount: u128) -> Binary {
    to_json_binary(&cosmwasm_std::BalanceResponse::new(coin(amount, DENOM))).unwrap()
}

// ------------------------------------------------------------------------------------------------ C08

#[test]
fn c08_writes_stay_in_own_window() {
    let mut w = world();
    // b and c have some state of their own
    w.app.execute(w.owner.clone(), exec(&w.b, vec![set(b"k", b"b-own")], vec![])).unwrap();
    w.app.execute(w.owner.clone(), exec(&w.c, vec![set(b"k", b"c-own")], vec![])).unwrap();
    let before = dump(w.app.storage());
    let pa = contract_prefix(&w.a);
    let pb = contract_prefix(&w.b);

    // adversarial keys: raw prefixes of other key spaces
    let keys: Vec<Vec<u8>> = vec![
        vec![],
        vec![0],
        vec![0xFF, 0xFF],
        b"k".to_vec(),
        cat(&[&pb, b"k"]),
        cat(&[&lp(b"bank"), &lp(b"balances"), w.owner.as_bytes()]),
        cat(&[&lp(b"wasm"), &lp(b"contracts"), w.b.as_bytes()]),
        cat(&[&lp(b"contracts"), w.b.as_bytes()]),
        cat(&[&lp(b"staking"), &lp(b"stakes")]),
        cat(&[&lp(b"contract_data/"), w.b.as_bytes()]),
    ];
    let mut acts: Vec<Act> = keys.iter().map(|k| set(k, b"evil")).collect();
    acts.push(Act::Remove { k: cat(&[&pb, b"k"]).into() });
    acts.push(Act::Remove { k: b"k".to_vec().into() });
    acts.push(set(b"k", b"a-own"));
    acts.push(all());
    w.app.execute(w.owner.clone(), exec(&w.a, acts, vec![])).unwrap();

    let after = dump(w.app.storage());
    // model: exactly prefix+key entries changed
    let mut model = before.clone();
    for k in &keys {
        model.insert(cat(&[&pa, k]), b"evil".to_vec());
    }
    model.remove(&cat(&[&pa, &pb, b"k"]));
    model.insert(cat(&[&pa, b"k"]), b"a-own".to_vec());
    assert_eq!(model, after);

    // others unaffected, seen through every accessor
    assert_eq!(w.app.dump_wasm_raw(&w.b), vec![(b"k".to_vec(), b"b-own".to_vec())]);
    assert_eq!(w.app.dump_wasm_raw(&w.c), vec![(b"k".to_vec(), b"c-own".to_vec())]);
    assert_eq!(w.app.wrap().query_wasm_raw(&w.b, b"k".to_vec()).unwrap(), Some(b"b-own".to_vec()));
    assert_eq!(w.app.wrap().query_balance(&w.owner, DENOM).unwrap().amount.u128(), 1_000_000 - 2000 - 5000);
    assert_eq!(w.app.contract_data(&w.b).unwrap().code_id, w.code_id);

    // what a itself read back == dump == accessor == raw queries == raw store
    let own: Vec<(Vec<u8>, Vec<u8>)> = match &w.shared.log.borrow().last().unwrap().1 {
        Obs::Range(r) => r.clone(),
        o => panic!("{o:?}"),
    };
    assert_eq!(own, w.app.dump_wasm_raw(&w.a));
    assert_eq!(own, w.app.contract_storage(&w.a).range(None, None, Order::Ascending).collect::<Vec<_>>());
    let desc: Vec<_> = w.app.contract_storage(&w.a).range(None, None, Order::Descending).collect();
    assert_eq!(own.iter().rev().cloned().collect::<Vec<_>>(), desc);
    let from_raw: Vec<_> = after.iter().filter(|(k, _)| k.starts_with(&pa)).map(|(k, v)| (k[pa.len()..].to_vec(), v.clone())).collect();
    assert_eq!(own, from_raw);
    for (k, v) in &own {
        assert_eq!(w.app.wrap().query_wasm_raw(&w.a, k.clone()).unwrap(), Some(v.clone()), "raw query of {k:?}");
        assert_eq!(w.app.contract_storage(&w.a).get(k), Some(v.clone()));
        // the same key asked of b is b's, not a's
        if k != b"k" {
            assert_eq!(w.app.wrap().query_wasm_raw(&w.b, k.clone()).unwrap(), None, "b must not see a's {k:?}");
        }
    }

    // accessor writes are what the contract reads, and only there
    let snap = dump(w.app.storage());
    w.app.contract_storage_mut(&w.a).set(b"via-accessor", b"1");
    let mut m2 = snap.clone();
    m2.insert(cat(&[&pa, b"via-accessor"]), b"1".to_vec());
    assert_eq!(m2, dump(w.app.storage()));
    w.shared.log.borrow_mut().clear();
    w.app.execute(w.owner.clone(), exec(&w.a, vec![get(b"via-accessor")], vec![])).unwrap();
    assert_eq!(w.shared.log.borrow()[0].1, Obs::Get(Some(b"1".to_vec())));

    // from inside another contract: raw and smart queries name the right contract
    w.shared.log.borrow_mut().clear();
    w.app
        .execute(
            w.owner.clone(),
            exec(&w.b, vec![q_raw("b->a", &w.a, b"k"), q_raw("b->b", &w.b, b"k"), q_raw("b->c", &w.c, b"k"), q_smart("b->a smart", &w.a, vec![get(b"k")])], vec![]),
        )
        .unwrap();
    assert_eq!(queries(&w, "b->a"), vec![Ok(Binary::from(b"a-own"))]);
    assert_eq!(queries(&w, "b->b"), vec![Ok(Binary::from(b"b-own"))]);
    assert_eq!(queries(&w, "b->c"), vec![Ok(Binary::from(b"c-own"))]);
    assert_eq!(queries(&w, "b->a smart"), vec![Ok(to_json_binary(&vec![Some(Binary::from(b"a-own"))]).unwrap())]);
}

#[test]
fn c08_iteration_sees_only_own_keys_mid_transaction() {
    let mut w = world();
    // a writes, then calls b which writes and iterates; then a's reply iterates
    let acts = vec![
        set(b"a1", b"1"),
        Act::Sub { msg: exec(&w.b, vec![set(b"b1", b"1"), all(), Act::Range { start: Some(Binary::from(b"")), end: None, desc: true }], vec![]), catch: false, then: vec![all()] },
    ];
    w.app.execute(w.owner.clone(), exec(&w.a, acts, vec![])).unwrap();
    let log = w.shared.log.borrow();
    assert_eq!(log[0], (w.b.clone(), Obs::Range(vec![(b"b1".to_vec(), b"1".to_vec())])));
    assert_eq!(log[1], (w.b.clone(), Obs::Range(vec![(b"b1".to_vec(), b"1".to_vec())])));
    assert_eq!(log[2], (w.a.clone(), Obs::Range(vec![(b"a1".to_vec(), b"1".to_vec())])));
}

// ------------------------------------------------------------------------------------------------ C10

#[test]
fn c10_queries_are_pure_and_repeatable() {
    let mut w = world();
    w.app.execute(w.owner.clone(), exec(&w.a, vec![set(b"k", b"v")], vec![])).unwrap();
    let reqs: Vec<QueryRequest<Empty>> = vec![
        BankQuery::Balance { address: w.a.to_string(), denom: DENOM.into() }.into(),
        #[allow(deprecated)]
        BankQuery::AllBalances { address: w.owner.to_string() }.into(),
        BankQuery::Supply { denom: DENOM.into() }.into(),
        WasmQuery::Raw { contract_addr: w.a.to_string(), key: b"k".into() }.into(),
        WasmQuery::Raw { contract_addr: w.a.to_string(), key: b"missing".into() }.into(),
        WasmQuery::Smart { contract_addr: w.a.to_string(), msg: to_json_binary(&vec![get(b"k"), q_bal("nested", &w.a), q_raw("nested", &w.b, b"x"), q_smart("nested", &w.b, vec![get(b"x")])]).unwrap() }.into(),
        WasmQuery::ContractInfo { contract_addr: w.a.to_string() }.into(),
        WasmQuery::CodeInfo { code_id: w.code_id }.into(),
        StakingQuery::BondedDenom {}.into(),
        StakingQuery::AllDelegations { delegator: w.owner.to_string() }.into(),
        StakingQuery::Delegation { delegator: w.owner.to_string(), validator: w.validator.to_string() }.into(),
        StakingQuery::AllValidators {}.into(),
        StakingQuery::Validator { address: w.validator.to_string() }.into(),
        // failing ones
        WasmQuery::Smart { contract_addr: w.owner.to_string(), msg: Binary::default() }.into(),
        WasmQuery::ContractInfo { contract_addr: w.owner.to_string() }.into(),
        WasmQuery::CodeInfo { code_id: 99 }.into(),
    ];
    let before = dump(w.app.storage());
    let block = w.app.block_info();
    for req in &reqs {
        let raw = to_json_binary(req).unwrap();
        let r1 = format!("{:?}", cosmwasm_std::Querier::raw_query(&w.app, &raw));
        let r2 = format!("{:?}", cosmwasm_std::Querier::raw_query(&w.app, &raw));
        assert_eq!(r1, r2, "{req:?}");
        assert_eq!(before, dump(w.app.storage()), "{req:?} changed the chain state");
    }
    assert_eq!(block, w.app.block_info());

    // the same from inside a contract, twice each, in one execution; the state they leave is only the tx's own
    let acts: Vec<Act> = reqs.iter().flat_map(|r| vec![Act::Query { tag: format!("{r:?}"), req: r.clone() }, Act::Query { tag: format!("{r:?}"), req: r.clone() }]).collect();
    w.shared.log.borrow_mut().clear();
    w.app.execute(w.owner.clone(), exec(&w.c, acts, vec![])).unwrap();
    assert_eq!(before, dump(w.app.storage()), "queries from a contract changed the chain state");
    for r in &reqs {
        let got = queries(&w, &format!("{r:?}"));
        assert_eq!(got.len(), 2);
        assert_eq!(got[0], got[1], "{r:?}");
        // and the same answer as through App
        let raw = to_json_binary(r).unwrap();
        let via_app = match cosmwasm_std::Querier::raw_query(&w.app, &raw) {
            cosmwasm_std::SystemResult::Ok(cosmwasm_std::ContractResult::Ok(b)) => Ok(b),
            cosmwasm_std::SystemResult::Ok(cosmwasm_std::ContractResult::Err(e)) => Err(e),
            cosmwasm_std::SystemResult::Err(e) => Err(format!("system: {e}")),
        };
        assert_eq!(via_app, got[0], "{r:?}: App vs contract");
    }
}

#[test]
fn c10_funds_visible_to_callee() {
    let mut w = world();
    // execute with funds: a's own balance query includes them; so does b's view of a
    w.app
        .execute_contract(w.owner.clone(), w.a.clone(), &vec![q_bal("a self", &w.a), Act::Sub { msg: exec(&w.b, vec![q_bal("b self", &w.b), q_bal("b sees a", &w.a)], coins(7, DENOM)), catch: false, then: vec![q_bal("a after", &w.a)] }], &coins(100, DENOM))
        .unwrap();
    assert_eq!(queries(&w, "a self"), vec![Ok(bal_json(1100))]);
    assert_eq!(queries(&w, "b self"), vec![Ok(bal_json(1007))]);
    assert_eq!(queries(&w, "b sees a"), vec![Ok(bal_json(1093))]);
    assert_eq!(queries(&w, "a after"), vec![Ok(bal_json(1093))]);

    // instantiate with funds, from a contract
    let init = WasmMsg::Instantiate { admin: None, code_id: w.code_id, msg: to_json_binary(&vec![Act::Query { tag: "new self".into(), req: BankQuery::AllBalances { address: "PLACEHOLDER".into() }.into() }]).unwrap(), funds: coins(5, DENOM), label: "n".into() };
    let _ = init; // address unknown beforehand: use the top-level path instead
    let n = w.app.instantiate_contract(w.code_id, w.owner.clone(), &vec![set(b"i", b"1")], &coins(5, DENOM), "n", None).unwrap();
    assert_eq!(w.app.wrap().query_balance(&n, DENOM).unwrap().amount.u128(), 5);

    // migrate and sudo see current state too
    w.app.migrate_contract(w.owner.clone(), w.a.clone(), &vec![q_bal("a migrate", &w.a)], w.code_id).unwrap();
    assert_eq!(queries(&w, "a migrate"), vec![Ok(bal_json(1093))]);
    w.app.wasm_sudo(w.a.clone(), &vec![q_bal("a sudo", &w.b)]).unwrap();
    assert_eq!(queries(&w, "a sudo"), vec![Ok(bal_json(1007))]);
}

#[test]
fn c10_instantiate_sees_its_funds() {
    // the new contract's address is deterministic: learn it from a dry run on a cloned world
    let addr = {
        let mut w = world();
        w.app.instantiate_contract(w.code_id, w.owner.clone(), &Vec::<Act>::new(), &coins(5, DENOM), "n", None).unwrap()
    };
    let mut w = world();
    // top level
    let n = w.app.instantiate_contract(w.code_id, w.owner.clone(), &vec![q_bal("init self", &addr)], &coins(5, DENOM), "n", None).unwrap();
    assert_eq!(n, addr);
    assert_eq!(queries(&w, "init self"), vec![Ok(bal_json(5))]);
}

#[test]
fn c10_completed_effects_visible_rolled_back_invisible() {
    let mut w = world();
    let a = w.a.clone();
    let b = w.b.clone();
    let c = w.c.clone();
    let acts = vec![
        set(b"ka", b"1"),
        // (1) b succeeds: a's reply sees b's write; b saw a's write (a's entry point had returned)
        Act::Sub {
            msg: exec(&b, vec![set(b"k1", b"1"), q_raw("b sees a.ka", &a, b"ka"), q_smart("b sees a.ka smart", &a, vec![get(b"ka")]), q_raw("b sees own k1 via querier", &b, b"k1")], vec![]),
            catch: false,
            then: vec![q_raw("a sees b.k1", &b, b"k1"), q_smart("a sees b.k1 smart", &b, vec![get(b"k1")])],
        },
        // (2) b writes and fails, caught: nobody sees k2 afterwards
        Act::Sub { msg: exec(&b, vec![set(b"k2", b"1"), Act::Fail], coins(3, DENOM)), catch: true, then: vec![q_raw("a sees b.k2 after failure", &b, b"k2"), q_bal("a balance after failed send", &a), q_bal("b balance after failed send", &b)] },
        // (3) b succeeds locally, its child c succeeds, a later child fails uncaught: the whole b subtree is gone
        Act::Sub {
            msg: exec(
                &b,
                vec![
                    set(b"k3", b"1"),
                    Act::Sub { msg: exec(&c, vec![set(b"z", b"1")], vec![]), catch: false, then: vec![q_raw("b sees c.z", &c, b"z")] },
                    Act::Sub { msg: exec(&c, vec![set(b"z2", b"1"), Act::Fail], vec![]), catch: false, then: vec![] },
                ],
                vec![],
            ),
            catch: true,
            then: vec![q_raw("a sees b.k3 after subtree failure", &b, b"k3"), q_raw("a sees c.z after subtree failure", &c, b"z"), q_raw("a still sees b.k1", &b, b"k1")],
        },
        // (4) a sibling called afterwards sees the same
        Act::Sub { msg: exec(&c, vec![q_raw("c sees b.k2", &b, b"k2"), q_raw("c sees b.k3", &b, b"k3"), q_raw("c sees b.k1", &b, b"k1"), q_raw("c sees c.z", &c, b"z")], vec![]), catch: false, then: vec![] },
        // (5) bank send as sub-message, then query
        Act::Sub { msg: BankMsg::Send { to_address: c.to_string(), amount: coins(11, DENOM) }.into(), catch: false, then: vec![q_bal("c after send", &c), q_bal("a after send", &a)] },
        // (6) staking
        Act::Sub {
            msg: StakingMsg::Delegate { validator: w.validator.to_string(), amount: coin(50, DENOM) }.into(),
            catch: false,
            then: vec![Act::Query { tag: "a delegation".into(), req: StakingQuery::AllDelegations { delegator: a.to_string() }.into() }, q_bal("a after delegate", &a)],
        },
    ];
    w.app.execute(w.owner.clone(), exec(&a, acts, vec![])).unwrap();

    let one = || vec![Ok(Binary::from(b"1"))];
    let none = || vec![Ok(Binary::default())];
    assert_eq!(queries(&w, "b sees a.ka"), one());
    assert_eq!(queries(&w, "b sees a.ka smart"), vec![Ok(to_json_binary(&vec![Some(Binary::from(b"1"))]).unwrap())]);
    assert_eq!(queries(&w, "a sees b.k1"), one());
    assert_eq!(queries(&w, "a sees b.k1 smart"), vec![Ok(to_json_binary(&vec![Some(Binary::from(b"1"))]).unwrap())]);
    assert_eq!(queries(&w, "a sees b.k2 after failure"), none());
    assert_eq!(queries(&w, "a balance after failed send"), vec![Ok(bal_json(1000))]);
    assert_eq!(queries(&w, "b balance after failed send"), vec![Ok(bal_json(1000))]);
    assert_eq!(queries(&w, "b sees c.z"), one());
    assert_eq!(queries(&w, "a sees b.k3 after subtree failure"), none());
    assert_eq!(queries(&w, "a sees c.z after subtree failure"), none());
    assert_eq!(queries(&w, "a still sees b.k1"), one());
    assert_eq!(queries(&w, "c sees b.k2"), none());
    assert_eq!(queries(&w, "c sees b.k3"), none());
    assert_eq!(queries(&w, "c sees b.k1"), one());
    assert_eq!(queries(&w, "c sees c.z"), none());
    assert_eq!(queries(&w, "c after send"), vec![Ok(bal_json(11))]);
    assert_eq!(queries(&w, "a after send"), vec![Ok(bal_json(989))]);
    assert_eq!(queries(&w, "a after delegate"), vec![Ok(bal_json(939))]);
    let d = queries(&w, "a delegation");
    let d: cosmwasm_std::AllDelegationsResponse = from_json(d[0].clone().unwrap()).unwrap();
    assert_eq!(d.delegations.len(), 1);
    assert_eq!(d.delegations[0].amount, coin(50, DENOM));
    // informational: a contract's own uncommitted write seen through its querier?
    println!("b sees own k1 via querier: {:?}", queries(&w, "b sees own k1 via querier"));

    // App observes exactly the committed state
    assert_eq!(w.app.wrap().query_wasm_raw(&b, b"k1".to_vec()).unwrap(), Some(b"1".to_vec()));
    assert_eq!(w.app.wrap().query_wasm_raw(&b, b"k2".to_vec()).unwrap(), None);
    assert_eq!(w.app.wrap().query_wasm_raw(&b, b"k3".to_vec()).unwrap(), None);
    assert_eq!(w.app.wrap().query_wasm_raw(&c, b"z".to_vec()).unwrap(), None);

    // a failing top-level transaction leaves nothing, although its queries saw its own effects
    let snap = dump(w.app.storage());
    w.shared.log.borrow_mut().clear();
    let err = w.app.execute(
        w.owner.clone(),
        exec(&a, vec![set(b"t", b"1"), Act::Sub { msg: exec(&b, vec![set(b"t", b"1")], vec![]), catch: false, then: vec![q_raw("mid", &b, b"t"), Act::Fail] }], coins(1, DENOM)),
    );
    assert!(err.is_err());
    assert_eq!(queries(&w, "mid"), one());
    assert_eq!(snap, dump(w.app.storage()));
    assert_eq!(w.app.wrap().query_wasm_raw(&b, b"t".to_vec()).unwrap(), None);
}
