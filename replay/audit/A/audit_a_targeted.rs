//! Audit A: targeted probes for places where the formal side is weaker than the statements C01..C05.
#![cfg(all(feature = "cosmwasm_1_2", feature = "staking"))]

use cosmwasm_std::testing::mock_env;
use cosmwasm_std::{
    coin, coins, to_json_binary, Addr, Api, BankMsg, Binary, CosmosMsg, Decimal, Deps, DepsMut, Empty,
    Env, Event, MessageInfo, Order, Reply, Response, StakingMsg, StdError, StdResult, Storage, SubMsg,
    Validator, WasmMsg,
};
use cw_multi_test::error::AnyResult;
use cw_multi_test::{
    no_init, AddressGenerator, App, AppBuilder, Contract, ContractWrapper, Executor, IntoBech32,
    StakingInfo, SudoMsg, WasmKeeper, WasmSudo,
};
use serde::{Deserialize, Serialize};
use std::cell::RefCell;
use std::panic::{catch_unwind, AssertUnwindSafe};

thread_local! { static LOG: RefCell<Vec<String>> = RefCell::new(vec![]); }
fn take_log() -> Vec<String> {
    LOG.with(|l| std::mem::take(&mut *l.borrow_mut()))
}

#[derive(Serialize, Deserialize, Clone, Debug, Default)]
struct Act {
    tag: String,
    fail: bool,
    data: Option<Binary>,
    msgs: Vec<SubMsg>,
}
fn run(entry: &str, deps: DepsMut, env: Env, sender: Option<Addr>, act: Act) -> StdResult<Response> {
    LOG.with(|l| {
        l.borrow_mut().push(format!(
            "{entry} {} me={} sender={} h={}",
            act.tag,
            env.contract.address,
            sender.map(|a| a.to_string()).unwrap_or("-".into()),
            env.block.height
        ))
    });
    deps.storage.set(act.tag.as_bytes(), b"1");
    if act.fail {
        return Err(StdError::generic_err("scripted failure"));
    }
    let mut r = Response::new().add_submessages(act.msgs).add_attribute("tag", act.tag);
    if let Some(d) = act.data {
        r = r.set_data(d);
    }
    Ok(r)
}
fn instantiate(deps: DepsMut, env: Env, info: MessageInfo, act: Act) -> StdResult<Response> {
    run("instantiate", deps, env, Some(info.sender), act)
}
fn execute(deps: DepsMut, env: Env, info: MessageInfo, act: Act) -> StdResult<Response> {
    run("execute", deps, env, Some(info.sender), act)
}
fn sudo(deps: DepsMut, env: Env, act: Act) -> StdResult<Response> {
    run("sudo", deps, env, None, act)
}
fn migrate(deps: DepsMut, env: Env, act: Act) -> StdResult<Response> {
    run("migrate", deps, env, None, act)
}
fn reply(deps: DepsMut, env: Env, reply: Reply) -> StdResult<Response> {
    run("reply", deps, env, None, Act { tag: format!("reply{}", reply.id), ..Default::default() })
}
fn query(_: Deps, _: Env, _: Empty) -> StdResult<Binary> {
    to_json_binary(&Empty {})
}
fn contract() -> Box<dyn Contract<Empty>> {
    Box::new(ContractWrapper::new(execute, instantiate, query).with_reply(reply).with_sudo(sudo).with_migrate(migrate))
}
fn act(tag: &str, fail: bool, msgs: Vec<SubMsg>) -> Act {
    Act { tag: tag.into(), fail, data: None, msgs }
}
fn call(to: &Addr, a: Act, funds: u128) -> CosmosMsg {
    WasmMsg::Execute { contract_addr: to.to_string(), msg: to_json_binary(&a).unwrap(), funds: if funds == 0 { vec![] } else { coins(funds, "tok") } }.into()
}
fn dump<S: Storage>(s: &S) -> Vec<(Vec<u8>, Vec<u8>)> {
    s.range(None, None, Order::Ascending).collect()
}
fn keys(app: &App, a: &Addr) -> Vec<String> {
    app.dump_wasm_raw(a).into_iter().map(|(k, _)| String::from_utf8(k).unwrap()).collect()
}
fn setup() -> (App, Addr, Addr, Addr) {
    let mut app = App::default();
    let owner = app.api().addr_make("owner");
    app.init_modules(|r, _, s| r.bank.init_balance(s, &owner, coins(1000, "tok")).unwrap());
    let code = app.store_code(contract());
    let a = app.instantiate_contract(code, owner.clone(), &act("ia", false, vec![]), &coins(100, "tok"), "a", Some(owner.to_string())).unwrap();
    let b = app.instantiate_contract(code, owner.clone(), &act("ib", false, vec![]), &[], "b", None).unwrap();
    take_log();
    (app, owner, a, b)
}

// ---- C01: execute_multi order, visibility, one response per message, all-or-nothing
#[test]
fn c01_execute_multi_order_and_atomicity() {
    let (mut app, owner, a, b) = setup();
    let before = dump(app.storage());
    // message 2 can only succeed if message 1's transfer (owner -> b) is visible: b then forwards 70 to a
    let m1: CosmosMsg = BankMsg::Send { to_address: b.to_string(), amount: coins(70, "tok") }.into();
    let m2 = call(&b, act("x", false, vec![SubMsg::new(BankMsg::Send { to_address: a.to_string(), amount: coins(70, "tok") })]), 0);
    let m3 = call(&a, act("y", false, vec![]), 0);
    let rs = app.execute_multi(owner.clone(), vec![m1.clone(), m2.clone(), m3.clone()]).unwrap();
    assert_eq!(rs.len(), 3);
    assert_eq!(rs[0].events[0].ty, "transfer");
    assert_eq!(rs[1].events[0].attributes[0].value, b.to_string());
    assert_eq!(rs[2].events[0].attributes[0].value, a.to_string());
    assert_eq!(take_log().len(), 2);
    // same again but the last message fails: nothing may remain
    let mid = dump(app.storage());
    assert_ne!(mid, before);
    let m4 = call(&a, act("z", true, vec![]), 0);
    app.execute_multi(owner, vec![m1, m2, m4]).unwrap_err();
    assert_eq!(dump(app.storage()), mid);
}

// ---- C01/C02/C05: sudo, wasm_sudo: atomic, sub-messages sent by the contract, current block
#[test]
fn c01_sudo_entry_points() {
    let (mut app, _owner, a, b) = setup();
    app.update_block(|bl| bl.height += 7);
    let h = app.block_info().height;
    let before = dump(app.storage());
    let tree = act("s", false, vec![SubMsg::new(call(&b, act("sb", false, vec![]), 10)), SubMsg::new(call(&b, act("sb2", true, vec![]), 0))]);
    app.wasm_sudo(a.clone(), &tree).unwrap_err();
    assert_eq!(dump(app.storage()), before, "wasm_sudo Err leaves the state unchanged");
    app.sudo(SudoMsg::Wasm(WasmSudo::new(&a, &tree).unwrap())).unwrap_err();
    assert_eq!(dump(app.storage()), before, "sudo Err leaves the state unchanged");
    take_log();
    let tree = act("s", false, vec![SubMsg::reply_always(call(&b, act("sb", false, vec![]), 10), 5)]);
    let r = app.wasm_sudo(a.clone(), &tree).unwrap();
    assert_eq!(
        take_log(),
        vec![format!("sudo s me={a} sender=- h={h}"), format!("execute sb me={b} sender={a} h={h}"), format!("reply reply5 me={a} sender=- h={h}")]
    );
    assert_eq!(r.events.iter().map(|e| e.ty.as_str()).collect::<Vec<_>>(), ["sudo", "wasm", "execute", "wasm", "reply", "wasm"]);
    assert_eq!(keys(&app, &a), ["ia", "reply5", "s"]);
    assert_eq!(app.wrap().query_balance(&b, "tok").unwrap().amount.u128(), 10);
}

// ---- C04/C05: migrate: entry event, execute-style wrapping, sub-messages sent by the contract
#[test]
fn c04_migrate_shape() {
    let (mut app, owner, a, b) = setup();
    let code2 = app.store_code(contract());
    let mut m = act("m", false, vec![SubMsg::new(call(&b, act("mb", false, vec![]), 5))]);
    m.data = Some(Binary::from(b"dd"));
    let r = app.execute(owner.clone(), WasmMsg::Migrate { contract_addr: a.to_string(), new_code_id: code2, msg: to_json_binary(&m).unwrap() }.into()).unwrap();
    let h = app.block_info().height;
    assert_eq!(take_log(), vec![format!("migrate m me={a} sender=- h={h}"), format!("execute mb me={b} sender={a} h={h}")]);
    assert_eq!(r.events[0], Event::new("migrate").add_attribute("_contract_address", &a).add_attribute("code_id", code2.to_string()));
    assert_eq!(r.data.unwrap().as_slice(), [0x0a, 2, b'd', b'd']);
}

// ---- C04: the assumed protobuf layouts agree with the standard decoders
#[test]
fn c04_encodings_decode_with_cw_utils() {
    let (mut app, owner, a, _b) = setup();
    let mut x = act("x", false, vec![]);
    x.data = Some(Binary::from(b"hello"));
    let r = app.execute(owner.clone(), call(&a, x.clone(), 0)).unwrap();
    assert_eq!(cw_utils::parse_execute_response_data(r.data.unwrap().as_slice()).unwrap().data.unwrap().as_slice(), b"hello");
    let r = app
        .execute(owner.clone(), WasmMsg::Instantiate { admin: None, code_id: 1, msg: to_json_binary(&x).unwrap(), funds: vec![], label: "l".into() }.into())
        .unwrap();
    let p = cw_utils::parse_instantiate_response_data(r.data.unwrap().as_slice()).unwrap();
    assert_eq!(p.data.unwrap().as_slice(), b"hello");
    assert!(app.contract_data(&Addr::unchecked(p.contract_address)).is_ok());
    // no data: execute returns none, instantiate still returns the encoding
    let r = app.execute(owner.clone(), call(&a, act("n", false, vec![]), 0)).unwrap();
    assert!(r.data.is_none());
    let r = app
        .execute(owner, WasmMsg::Instantiate { admin: None, code_id: 1, msg: to_json_binary(&act("n", false, vec![])).unwrap(), funds: vec![], label: "l".into() }.into())
        .unwrap();
    assert!(cw_utils::parse_instantiate_response_data(r.data.unwrap().as_slice()).unwrap().data.is_none());
}

// ---- C01 (helpers): `instantiate_contract` may return Err although the transaction was committed.
// contracts/executor.rs inst_post allows exactly this (Ok run + unparsable data => r is Err, state = run.1).
#[test]
fn c01_helper_instantiate_err_after_commit() {
    struct EmptyAddr;
    impl AddressGenerator for EmptyAddr {
        fn contract_address(&self, _api: &dyn Api, _s: &mut dyn Storage, _code_id: u64, _instance_id: u64) -> AnyResult<Addr> {
            Ok(Addr::unchecked(""))
        }
    }
    let mut app = AppBuilder::default().with_wasm(WasmKeeper::new().with_address_generator(EmptyAddr)).build(no_init);
    let owner = app.api().addr_make("owner");
    let code = app.store_code(contract());
    let before = dump(app.storage());
    let mut x = act("x", false, vec![]);
    x.data = Some(Binary::from(b"d"));
    let r = app.instantiate_contract(code, owner, &x, &[], "l", None);
    if r.is_err() {
        assert_eq!(dump(app.storage()), before, "C01: a helper that returns Err must leave the chain state unchanged");
    }
}

// ---- C01: "either returns Ok ... or returns Err": SudoMsg::Custom panics (excluded by C01.sudo.pre)
#[test]
fn c01_sudo_custom_returns() {
    let (mut app, ..) = setup();
    let before = dump(app.storage());
    let r = catch_unwind(AssertUnwindSafe(|| app.sudo(SudoMsg::Custom(Empty {}))));
    assert_eq!(dump(app.storage()), before);
    assert!(r.is_ok(), "App::sudo(SudoMsg::Custom) panicked instead of returning Ok/Err");
}

// ---- C01 (clauses C14.app.update_block,C01 / set_block carry a precondition "queue processing succeeds"):
// when it does not, the entry point panics half-way with the block already advanced and part of the queue paid out.
#[test]
fn c01_update_block_is_not_atomic_when_queue_processing_fails() {
    let d1 = "delegator1".into_bech32();
    let d2 = "delegator2".into_bech32();
    let val = "valoper".into_bech32();
    let sink = "sink".into_bech32();
    let block = mock_env().block;
    let mut app = AppBuilder::default().build(|router, api, storage| {
        router.bank.init_balance(storage, &d1, vec![coin(100, "stake")]).unwrap();
        router.bank.init_balance(storage, &d2, vec![coin(100, "stake")]).unwrap();
        router.staking.setup(storage, StakingInfo { bonded_denom: "stake".into(), unbonding_time: 60, apr: Decimal::percent(10) }).unwrap();
        router.staking.add_validator(api, storage, &block, Validator::new(val.to_string(), Decimal::percent(10), Decimal::percent(90), Decimal::percent(1))).unwrap();
    });
    for d in [&d1, &d2] {
        app.execute(d.clone(), StakingMsg::Delegate { validator: val.to_string(), amount: coin(100, "stake") }.into()).unwrap();
        app.execute(d.clone(), StakingMsg::Undelegate { validator: val.to_string(), amount: coin(100, "stake") }.into()).unwrap();
    }
    // the module account signs a transfer (any address may sign a top-level message in the simulator)
    app.execute(Addr::unchecked("staking_module"), BankMsg::Send { to_address: sink.to_string(), amount: coins(50, "stake") }.into()).unwrap();
    let before = dump(app.storage());
    let block_before = app.block_info();
    let r = catch_unwind(AssertUnwindSafe(|| app.update_block(|b| b.time = b.time.plus_seconds(61))));
    assert!(r.is_err(), "scenario no longer fails");
    let bal = |app: &cw_multi_test::App, a: &Addr| app.wrap().query_balance(a, "stake").unwrap().amount.u128();
    let block_changed = app.block_info() != block_before;
    let storage_changed = dump(app.storage()) != before;
    let paid_first = bal(&app, &d1);
    // "repair" the module account and let the next block process the queue again
    app.execute(sink.clone(), BankMsg::Send { to_address: "staking_module".into(), amount: coins(50, "stake") }.into()).unwrap();
    let r2 = catch_unwind(AssertUnwindSafe(|| app.update_block(|b| b.time = b.time.plus_seconds(1))));
    eprintln!(
        "after failed update_block: block_changed={block_changed} storage_changed={storage_changed} d1={paid_first} d2=0; after retry (ok={}): d1={} d2={}",
        r2.is_ok(), bal(&app, &d1), bal(&app, &d2)
    );
    assert!(!block_changed && !storage_changed, "update_block failed half-way: block_changed={block_changed} storage_changed={storage_changed}");
}
