//! Audit A: randomized differential test of the statements C01..C05 against the real crate.
//! The reference model below is written from the natural-language statements only.
#![cfg(feature = "cosmwasm_1_2")]

use cosmwasm_std::{
    coins, to_json_binary, Addr, BankMsg, Binary, CosmosMsg, Deps, DepsMut, Empty, Env, Event,
    MessageInfo, Order, Reply, ReplyOn, Response, StdError, StdResult, Storage, SubMsg,
    SubMsgResult, WasmMsg,
};
use cw_multi_test::{App, Contract, ContractWrapper, Executor};
use serde::{Deserialize, Serialize};
use std::cell::RefCell;
use std::collections::{BTreeMap, BTreeSet};

thread_local! { static LOG: RefCell<Vec<String>> = RefCell::new(vec![]); }
fn log(s: String) {
    LOG.with(|l| l.borrow_mut().push(s));
}

// ---------------------------------------------------------------- scripts
#[derive(Serialize, Deserialize, Clone, Debug)]
struct Act {
    tag: String,
    fail: bool,
    attrs: u8,
    evs: u8,
    data: Option<Binary>,
    subs: Vec<Sub>,
}
#[derive(Serialize, Deserialize, Clone, Debug)]
struct Sub {
    id: u64,
    on: u8, // 0 always, 1 success, 2 error, 3 never
    kind: Kind,
    reply: Act,
}
#[derive(Serialize, Deserialize, Clone, Debug)]
enum Kind {
    Send { to: String, amount: u128 },
    Exec { to: String, funds: u128, act: Box<Act> },
    Inst { funds: u128, act: Box<Act> },
}

fn reply_on(on: u8) -> ReplyOn {
    match on {
        0 => ReplyOn::Always,
        1 => ReplyOn::Success,
        2 => ReplyOn::Error,
        _ => ReplyOn::Never,
    }
}
fn funds_of(a: u128) -> Vec<cosmwasm_std::Coin> {
    if a == 0 {
        vec![]
    } else {
        coins(a, "tok")
    }
}
fn cosmos_of(k: &Kind) -> CosmosMsg {
    match k {
        Kind::Send { to, amount } => BankMsg::Send { to_address: to.clone(), amount: coins(*amount, "tok") }.into(),
        Kind::Exec { to, funds, act } => WasmMsg::Execute { contract_addr: to.clone(), msg: to_json_binary(act).unwrap(), funds: funds_of(*funds) }.into(),
        Kind::Inst { funds, act } => WasmMsg::Instantiate { admin: None, code_id: 1, msg: to_json_binary(act).unwrap(), funds: funds_of(*funds), label: "x".into() }.into(),
    }
}

// ---------------------------------------------------------------- the scripted contract
fn run(deps: DepsMut, env: &Env, act: Act) -> StdResult<Response> {
    let _ = env;
    deps.storage.set(act.tag.as_bytes(), b"1");
    if act.fail {
        return Err(StdError::generic_err("scripted failure"));
    }
    let mut r = Response::new();
    for i in 0..act.attrs {
        r = r.add_attribute(format!("k{i}"), act.tag.clone());
    }
    for i in 0..act.evs {
        r = r.add_event(Event::new(format!("ev{i}")).add_attribute("t", act.tag.clone()));
    }
    if let Some(d) = act.data.clone() {
        r = r.set_data(d);
    }
    for s in &act.subs {
        let mut m = SubMsg::new(cosmos_of(&s.kind));
        m.id = s.id;
        m.reply_on = reply_on(s.on);
        m.payload = to_json_binary(&s.reply).unwrap();
        r = r.add_submessage(m);
    }
    Ok(r)
}
fn entry_line(entry: &str, deps: &DepsMut, env: &Env, sender: Option<&Addr>, funds: Option<&[cosmwasm_std::Coin]>, extra: String) -> String {
    let bal = deps.querier.query_balance(&env.contract.address, "tok").unwrap().amount.u128();
    let f: u128 = funds.map(|f| f.iter().map(|c| c.amount.u128()).sum()).unwrap_or(0);
    format!(
        "{entry} me={} sender={} funds={} bal={} h={} {}",
        env.contract.address,
        sender.map(|a| a.to_string()).unwrap_or("-".into()),
        f,
        bal,
        env.block.height,
        extra
    )
}
fn instantiate(deps: DepsMut, env: Env, info: MessageInfo, act: Act) -> StdResult<Response> {
    log(entry_line("instantiate", &deps, &env, Some(&info.sender), Some(&info.funds), act.tag.clone()));
    run(deps, &env, act)
}
fn execute(deps: DepsMut, env: Env, info: MessageInfo, act: Act) -> StdResult<Response> {
    log(entry_line("execute", &deps, &env, Some(&info.sender), Some(&info.funds), act.tag.clone()));
    run(deps, &env, act)
}
fn sudo(deps: DepsMut, env: Env, act: Act) -> StdResult<Response> {
    log(entry_line("sudo", &deps, &env, None, None, act.tag.clone()));
    run(deps, &env, act)
}
fn reply_info(id: u64, payload: &Binary, res: Result<(&[Event], &Option<Binary>), ()>) -> String {
    match res {
        Ok((ev, d)) => format!("id={id} payload={payload} ok events={ev:?} data={d:?}"),
        Err(()) => format!("id={id} payload={payload} err"),
    }
}
#[allow(deprecated)]
fn reply(deps: DepsMut, env: Env, reply: Reply) -> StdResult<Response> {
    let act: Act = cosmwasm_std::from_json(&reply.payload)?;
    let info = match &reply.result {
        SubMsgResult::Ok(r) => reply_info(reply.id, &reply.payload, Ok((r.events.as_slice(), &r.data))),
        SubMsgResult::Err(_) => reply_info(reply.id, &reply.payload, Err(())),
    };
    log(entry_line("reply", &deps, &env, None, None, info));
    run(deps, &env, act)
}
fn query(_: Deps, _: Env, _: Empty) -> StdResult<Binary> {
    to_json_binary(&Empty {})
}
fn contract() -> Box<dyn Contract<Empty>> {
    Box::new(ContractWrapper::new(execute, instantiate, query).with_reply(reply).with_sudo(sudo))
}

// ---------------------------------------------------------------- the reference model (from the statements)
#[derive(Clone, PartialEq, Debug)]
struct St {
    marks: BTreeSet<(String, String)>,
    bal: BTreeMap<String, u128>,
    n: usize,
}
#[derive(Debug)]
struct Out {
    events: Vec<Event>,
    data: Option<Binary>,
}
struct Model {
    table: Vec<String>, // address of the i-th contract instance
    height: u64,
    trace: Vec<String>,
}
fn pb_bytes(tag: u8, b: &[u8]) -> Vec<u8> {
    if b.is_empty() {
        return vec![];
    }
    assert!(b.len() < 128);
    let mut v = vec![tag, b.len() as u8];
    v.extend_from_slice(b);
    v
}
impl Model {
    fn pay(st: &mut St, from: &str, to: &str, amount: u128) -> Result<(), ()> {
        let b = st.bal.get(from).copied().unwrap_or(0);
        if b < amount {
            return Err(());
        }
        st.bal.insert(from.into(), b - amount);
        *st.bal.entry(to.into()).or_insert(0) += amount;
        Ok(())
    }
    // C05 + C04: a contract entry point runs
    fn entry(&mut self, st: &mut St, entry: &str, me: &str, sender: Option<&str>, funds: u128, act: &Act, first: Event, extra: String) -> Result<Out, ()> {
        self.trace.push(format!(
            "{entry} me={me} sender={} funds={funds} bal={} h={} {extra}",
            sender.unwrap_or("-"),
            st.bal.get(me).copied().unwrap_or(0),
            self.height
        ));
        if act.fail {
            return Err(());
        }
        st.marks.insert((me.into(), act.tag.clone()));
        let mut events = vec![first];
        if act.attrs > 0 {
            let mut e = Event::new("wasm").add_attribute("_contract_address", me);
            for i in 0..act.attrs {
                e = e.add_attribute(format!("k{i}"), act.tag.clone());
            }
            events.push(e);
        }
        for i in 0..act.evs {
            events.push(Event::new(format!("wasm-ev{i}")).add_attribute("_contract_address", me).add_attribute("t", act.tag.clone()));
        }
        let mut data = act.data.clone();
        for s in &act.subs {
            let o = self.sub(st, me, s)?;
            events.extend(o.events);
            if o.data.is_some() {
                data = o.data;
            }
        }
        Ok(Out { events, data })
    }
    // C02 + C03
    fn sub(&mut self, st: &mut St, me: &str, s: &Sub) -> Result<Out, ()> {
        let snapshot = st.clone();
        let payload = to_json_binary(&s.reply).unwrap();
        match self.msg(st, me, &s.kind) {
            Err(()) => {
                *st = snapshot;
                if s.on == 0 || s.on == 2 {
                    let ev = Event::new("reply").add_attribute("_contract_address", me).add_attribute("mode", "handle_failure");
                    self.entry(st, "reply", me, None, 0, &s.reply, ev, reply_info(s.id, &payload, Err(())))
                } else {
                    Err(())
                }
            }
            Ok(a) => {
                if s.on == 0 || s.on == 1 {
                    let ev = Event::new("reply").add_attribute("_contract_address", me).add_attribute("mode", "handle_success");
                    let rr = self.entry(st, "reply", me, None, 0, &s.reply, ev, reply_info(s.id, &payload, Ok((a.events.as_slice(), &a.data))))?;
                    let mut events = a.events;
                    events.extend(rr.events);
                    Ok(Out { events, data: rr.data })
                } else {
                    Ok(Out { events: a.events, data: None })
                }
            }
        }
    }
    fn msg(&mut self, st: &mut St, sender: &str, k: &Kind) -> Result<Out, ()> {
        match k {
            Kind::Send { to, amount } => {
                Self::pay(st, sender, to, *amount)?;
                Ok(Out {
                    events: vec![Event::new("transfer").add_attribute("recipient", to).add_attribute("sender", sender).add_attribute("amount", format!("{amount}tok"))],
                    data: None,
                })
            }
            Kind::Exec { to, funds, act } => {
                if *funds > 0 {
                    Self::pay(st, sender, to, *funds)?;
                }
                let ev = Event::new("execute").add_attribute("_contract_address", to);
                let o = self.entry(st, "execute", to, Some(sender), *funds, act, ev, act.tag.clone())?;
                Ok(Out { events: o.events, data: o.data.map(|d| Binary::from(pb_bytes(0x0a, d.as_slice()))) })
            }
            Kind::Inst { funds, act } => {
                let me = self.table[st.n].clone();
                st.n += 1;
                if *funds > 0 {
                    Self::pay(st, sender, &me, *funds)?;
                }
                let ev = Event::new("instantiate").add_attribute("_contract_address", &me).add_attribute("code_id", "1");
                let o = self.entry(st, "instantiate", &me, Some(sender), *funds, act, ev, act.tag.clone())?;
                let mut d = pb_bytes(0x0a, me.as_bytes());
                d.extend(pb_bytes(0x12, o.data.unwrap_or_default().as_slice()));
                Ok(Out { events: o.events, data: Some(d.into()) })
            }
        }
    }
}

// ---------------------------------------------------------------- generator
struct Rng(u64);
impl Rng {
    fn next(&mut self, n: u64) -> u64 {
        self.0 = self.0.wrapping_mul(6364136223846793005).wrapping_add(1442695040888963407);
        (self.0 >> 33) % n
    }
}
struct Gen {
    rng: Rng,
    ctr: u32,
    targets: Vec<String>,
    payees: Vec<String>,
}
impl Gen {
    fn act(&mut self, depth: u32, fail_pct: u64) -> Act {
        self.ctr += 1;
        let tag = format!("t{}", self.ctr);
        let fail = self.rng.next(100) < fail_pct;
        let data = match self.rng.next(4) {
            0 => None,
            1 => Some(Binary::default()),
            _ => Some(Binary::from(tag.as_bytes())),
        };
        let nsub = if depth == 0 { 0 } else { self.rng.next(4) };
        let subs = (0..nsub).map(|_| self.sub(depth - 1)).collect();
        Act { tag, fail, attrs: self.rng.next(3) as u8, evs: self.rng.next(3) as u8, data, subs }
    }
    fn sub(&mut self, depth: u32) -> Sub {
        let kind = match self.rng.next(5) {
            0 => Kind::Send { to: self.payees[self.rng.next(self.payees.len() as u64) as usize].clone(), amount: 1 + self.rng.next(70) as u128 },
            1 => Kind::Inst { funds: self.funds(), act: Box::new(self.act(depth, 25)) },
            _ => Kind::Exec { to: self.targets[self.rng.next(self.targets.len() as u64) as usize].clone(), funds: self.funds(), act: Box::new(self.act(depth, 25)) },
        };
        Sub { id: self.rng.next(1000), on: self.rng.next(4) as u8, kind, reply: self.act(depth.min(1), 15) }
    }
    fn funds(&mut self) -> u128 {
        match self.rng.next(3) {
            0 => 0,
            1 => 1 + self.rng.next(20) as u128,
            _ => 30 + self.rng.next(60) as u128,
        }
    }
}

fn dump(app: &App) -> Vec<(Vec<u8>, Vec<u8>)> {
    app.storage().range(None, None, Order::Ascending).collect()
}

fn one_case(seed: u64) -> (bool, usize) {
    LOG.with(|l| l.borrow_mut().clear());
    let mut app = App::default();
    let owner = app.api().addr_make("owner");
    app.init_modules(|router, _, storage| router.bank.init_balance(storage, &owner, coins(1000, "tok")).unwrap());
    let code_id = app.store_code(contract());
    assert_eq!(code_id, 1);
    // address table: the i-th instance of code 1 (depends only on code id and instance number)
    let table: Vec<String> = {
        let mut scratch = App::default();
        let o = scratch.api().addr_make("owner");
        let c = scratch.store_code(contract());
        let idle = Act { tag: "i".into(), fail: false, attrs: 0, evs: 0, data: None, subs: vec![] };
        (0..40).map(|_| scratch.instantiate_contract(c, o.clone(), &idle, &[], "x", None).unwrap().to_string()).collect()
    };
    LOG.with(|l| l.borrow_mut().clear());
    let idle = Act { tag: "init".into(), fail: false, attrs: 0, evs: 0, data: None, subs: vec![] };
    let mut targets = vec![];
    for i in 0..3 {
        let a = app.instantiate_contract(code_id, owner.clone(), &idle, &coins(50, "tok"), "x", None).unwrap();
        assert_eq!(a.as_str(), table[i]);
        targets.push(a.to_string());
    }
    LOG.with(|l| l.borrow_mut().clear());
    for _ in 0..(seed % 5) {
        app.update_block(cw_multi_test::next_block);
    }
    let mut payees = targets.clone();
    payees.push(owner.to_string());
    let mut g = Gen { rng: Rng(seed.wrapping_mul(0x9E3779B97F4A7C15) ^ 0xABCDEF), ctr: 0, targets: targets.clone(), payees };
    let depth = 1 + (seed % 3) as u32;
    let root = Kind::Exec { to: targets[0].clone(), funds: g.funds(), act: Box::new(g.act(depth, 5)) };

    // model
    let mut st = St { marks: BTreeSet::new(), bal: BTreeMap::new(), n: 3 };
    for t in &targets {
        st.marks.insert((t.clone(), "init".into()));
        st.bal.insert(t.clone(), 50);
    }
    st.bal.insert(owner.to_string(), 850);
    let st0 = st.clone();
    let mut m = Model { table: table.clone(), height: app.block_info().height, trace: vec![] };
    let expect = m.msg(&mut st, owner.as_str(), &root);
    if expect.is_err() {
        st = st0;
    }

    // real
    let before = dump(&app);
    let got = app.execute(owner.clone(), cosmos_of(&root));
    let trace: Vec<String> = LOG.with(|l| l.borrow().clone());
    assert_eq!(trace, m.trace, "seed {seed}: invocation trace (C03/C05)");
    match (&expect, &got) {
        (Ok(e), Ok(g)) => {
            assert_eq!(g.events, e.events, "seed {seed}: events (C04)");
            assert_eq!(g.data, e.data, "seed {seed}: data (C04)");
        }
        (Err(()), Err(_)) => assert_eq!(dump(&app), before, "seed {seed}: C01 state unchanged on Err"),
        _ => panic!("seed {seed}: outcome differs: model {:?} real {:?}", expect.is_ok(), got.is_ok()),
    }
    // final state (C01/C02)
    for (i, a) in table.iter().enumerate() {
        let addr = Addr::unchecked(a);
        assert_eq!(app.contract_data(&addr).is_ok(), i < st.n, "seed {seed}: registry entry {i}");
        let keys: BTreeSet<String> = app.dump_wasm_raw(&addr).into_iter().map(|(k, _)| String::from_utf8(k).unwrap()).collect();
        let want: BTreeSet<String> = st.marks.iter().filter(|(c, _)| c == a).map(|(_, t)| t.clone()).collect();
        assert_eq!(keys, want, "seed {seed}: marks of {a}");
        let bal = app.wrap().query_balance(&addr, "tok").unwrap().amount.u128();
        assert_eq!(bal, st.bal.get(a).copied().unwrap_or(0), "seed {seed}: balance of {a}");
    }
    let bal = app.wrap().query_balance(&owner, "tok").unwrap().amount.u128();
    assert_eq!(bal, st.bal[owner.as_str()], "seed {seed}: owner balance");
    (got.is_ok(), trace.len())
}

#[test]
fn random_trees_agree_with_the_statements() {
    let (mut oks, mut errs, mut calls) = (0, 0, 0);
    for seed in 0..3000u64 {
        let (ok, n) = one_case(seed);
        if ok { oks += 1 } else { errs += 1 }
        calls += n;
    }
    eprintln!("ok trees {oks}, failed trees {errs}, entry-point invocations {calls}");
    assert!(oks > 300 && errs > 300);
}
