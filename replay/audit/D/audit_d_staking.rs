//! Audit D: C14 / C15 / C16 fidelity probes against the real code (public API only).
#![cfg(feature = "staking")]

use cosmwasm_std::testing::mock_env;
use cosmwasm_std::{
    coin, Addr, AllDelegationsResponse, Decimal, DistributionMsg, StakingMsg, StakingQuery,
    Validator,
};
use cw_multi_test::{App, AppBuilder, Executor, IntoBech32, StakingInfo, StakingSudo};

const DENOM: &str = "stake";
const UNBONDING_TIME: u64 = 60;
const YEAR: u64 = 60 * 60 * 24 * 365;

fn setup(delegators: &[(&Addr, u128)], validators: &[&Addr]) -> App {
    let block = mock_env().block;
    AppBuilder::default().build(|router, api, storage| {
        for (addr, amount) in delegators {
            router
                .bank
                .init_balance(storage, addr, vec![coin(*amount, DENOM)])
                .unwrap();
        }
        router
            .staking
            .setup(
                storage,
                StakingInfo {
                    bonded_denom: DENOM.to_string(),
                    unbonding_time: UNBONDING_TIME,
                    apr: Decimal::percent(10),
                },
            )
            .unwrap();
        for v in validators {
            router
                .staking
                .add_validator(
                    api,
                    storage,
                    &block,
                    Validator::new(
                        v.to_string(),
                        Decimal::percent(10),
                        Decimal::percent(90),
                        Decimal::percent(1),
                    ),
                )
                .unwrap();
        }
    })
}

fn balance(app: &App, addr: &Addr) -> u128 {
    app.wrap()
        .query_balance(addr.clone(), DENOM)
        .unwrap()
        .amount
        .u128()
}

fn try_delegate(app: &mut App, who: &Addr, val: &str, amount: u128) -> bool {
    app.execute(
        who.clone(),
        StakingMsg::Delegate {
            validator: val.to_string(),
            amount: coin(amount, DENOM),
        }
        .into(),
    )
    .is_ok()
}
fn delegate(app: &mut App, who: &Addr, val: &Addr, amount: u128) {
    assert!(try_delegate(app, who, val.as_str(), amount));
}
fn try_undelegate(app: &mut App, who: &Addr, val: &Addr, amount: u128) -> bool {
    app.execute(
        who.clone(),
        StakingMsg::Undelegate {
            validator: val.to_string(),
            amount: coin(amount, DENOM),
        }
        .into(),
    )
    .is_ok()
}
fn undelegate(app: &mut App, who: &Addr, val: &Addr, amount: u128) {
    assert!(try_undelegate(app, who, val, amount));
}
fn try_redelegate(app: &mut App, who: &Addr, src: &str, dst: &str, amount: u128) -> bool {
    app.execute(
        who.clone(),
        StakingMsg::Redelegate {
            src_validator: src.to_string(),
            dst_validator: dst.to_string(),
            amount: coin(amount, DENOM),
        }
        .into(),
    )
    .is_ok()
}
fn slash(app: &mut App, val: &Addr, percentage: Decimal) {
    app.sudo(
        StakingSudo::Slash {
            validator: val.to_string(),
            percentage,
        }
        .into(),
    )
    .unwrap();
}
fn try_withdraw(app: &mut App, who: &Addr, val: &Addr) -> bool {
    app.execute(
        who.clone(),
        DistributionMsg::WithdrawDelegatorReward {
            validator: val.to_string(),
        }
        .into(),
    )
    .is_ok()
}
fn advance(app: &mut App, secs: u64) {
    app.update_block(|b| {
        b.height += 1;
        b.time = b.time.plus_seconds(secs);
    });
}
/// (delegation shown, pending reward shown)
fn shown(app: &App, who: &Addr, val: &Addr) -> (u128, u128) {
    match app
        .wrap()
        .query_delegation(who.clone(), val.to_string())
        .unwrap()
    {
        None => (0, 0),
        Some(d) => (
            d.amount.amount.u128(),
            d.accumulated_rewards.iter().map(|c| c.amount.u128()).sum(),
        ),
    }
}

// ------------------------------------------------------------------------------------------------
// C15: "A successful withdrawal pays exactly the pending reward shown beforehand"
// C16: a partial slash "leaves ... already accrued rewards unchanged"
// After a partial slash that leaves less than one whole token, the query shows no delegation and
// no pending reward, while a withdrawal at the same block succeeds and pays the accrued reward.
#[test]
fn t1_withdrawal_pays_what_was_shown_after_partial_slash_below_one_token() {
    let d = "delegator".into_bech32();
    let v = "validator".into_bech32();
    let mut app = setup(&[(&d, 1000)], &[&v]);
    delegate(&mut app, &d, &v, 1000);
    advance(&mut app, YEAR);
    let (st0, pend0) = shown(&app, &d, &v);
    assert_eq!((st0, pend0), (1000, 90));
    // 99.95 % slash: 1000 -> 0.5 token
    slash(&mut app, &v, Decimal::from_ratio(9995u128, 10000u128));
    let (st1, pend1) = shown(&app, &d, &v);
    eprintln!("after slash: delegation shown {st1}, pending shown {pend1}");
    let before = balance(&app, &d);
    let ok = try_withdraw(&mut app, &d, &v);
    let paid = balance(&app, &d) - before;
    eprintln!("withdraw ok={ok} paid={paid}");
    // C16: accrued rewards unchanged by the (partial) slash
    assert_eq!(pend1, pend0, "partial slash changed the pending reward shown");
    // C15: paid == shown beforehand
    if ok {
        assert_eq!(paid, pend1, "withdrawal paid something else than what was shown");
    }
}

// C16: "leaves ... already accrued rewards unchanged" -- no exception is made for p = 1.
#[test]
fn t2_full_slash_keeps_accrued_rewards() {
    let d = "delegator".into_bech32();
    let v = "validator".into_bech32();
    let mut app = setup(&[(&d, 1000)], &[&v]);
    delegate(&mut app, &d, &v, 1000);
    advance(&mut app, YEAR);
    assert_eq!(shown(&app, &d, &v), (1000, 90));
    slash(&mut app, &v, Decimal::one());
    assert_eq!(shown(&app, &d, &v).0, 0);
    let before = balance(&app, &d);
    let ok = try_withdraw(&mut app, &d, &v);
    let paid = balance(&app, &d) - before;
    eprintln!("full slash: withdraw ok={ok} paid={paid}");
    assert!(ok && paid == 90, "accrued rewards (90) were lost by the 100 % slash");
}

// C14/C15: a block update (maturing of a fully slashed unbonding) destroys accrued rewards of a
// delegation that is still positive (0.5 token).
#[test]
fn t3_block_update_keeps_accrued_rewards() {
    let d = "delegator".into_bech32();
    let v = "validator".into_bech32();
    let mut app = setup(&[(&d, 2000)], &[&v]);
    delegate(&mut app, &d, &v, 2000);
    advance(&mut app, YEAR);
    assert_eq!(shown(&app, &d, &v), (2000, 180));
    undelegate(&mut app, &d, &v, 1000);
    assert_eq!(shown(&app, &d, &v), (1000, 180));
    slash(&mut app, &v, Decimal::from_ratio(9995u128, 10000u128)); // 1000 -> 0.5 ; unbonding 1000 -> 0
    advance(&mut app, UNBONDING_TIME);
    let before = balance(&app, &d);
    let ok = try_withdraw(&mut app, &d, &v);
    let paid = balance(&app, &d) - before;
    eprintln!("after maturity: withdraw ok={ok} paid={paid}");
    assert!(ok && paid >= 180, "accrued rewards (180) lost by a block update");
}

// C14: failing operations have no effect (through App: transactional).
#[test]
fn t4_failing_ops_without_effect() {
    let d = "delegator".into_bech32();
    let v = "validator".into_bech32();
    let w = "validator2".into_bech32();
    let mut app = setup(&[(&d, 1000)], &[&v, &w]);
    delegate(&mut app, &d, &v, 100);
    advance(&mut app, YEAR / 2);
    let s0 = (shown(&app, &d, &v), shown(&app, &d, &w), balance(&app, &d));
    // redelegate to unknown validator
    assert!(!try_redelegate(&mut app, &d, v.as_str(), "nobody", 10));
    assert_eq!(s0, (shown(&app, &d, &v), shown(&app, &d, &w), balance(&app, &d)));
    // redelegate / undelegate more than delegated
    assert!(!try_redelegate(&mut app, &d, v.as_str(), w.as_str(), 101));
    assert!(!try_undelegate(&mut app, &d, &v, 101));
    // zero
    assert!(!try_delegate(&mut app, &d, v.as_str(), 0));
    assert!(!try_undelegate(&mut app, &d, &v, 0));
    // unknown validator
    assert!(!try_delegate(&mut app, &d, "nobody", 5));
    // foreign denom
    assert!(app
        .execute(
            d.clone(),
            StakingMsg::Delegate {
                validator: v.to_string(),
                amount: coin(5, "other")
            }
            .into()
        )
        .is_err());
    // more than the balance
    assert!(!try_delegate(&mut app, &d, v.as_str(), 5000));
    assert_eq!(s0, (shown(&app, &d, &v), shown(&app, &d, &w), balance(&app, &d)));
    // and the reward clock was not disturbed
    advance(&mut app, YEAR / 2);
    assert_eq!(shown(&app, &d, &v), (100, 9));
    // redelegate zero: what happens?
    let r = try_redelegate(&mut app, &d, v.as_str(), w.as_str(), 0);
    eprintln!("redelegate zero ok={r}");
    assert_eq!(shown(&app, &d, &v), (100, 9));
}

// C14: "No sequence of valid staking operations and block updates makes ... a block update fail".
// The staking pool's own address used as a delegator (contrived).
#[test]
fn t5_pool_address_as_delegator() {
    let b = "bob".into_bech32();
    let v = "validator".into_bech32();
    let pool = Addr::unchecked("staking_module");
    let mut app = setup(&[(&b, 100)], &[&v]);
    delegate(&mut app, &b, &v, 100);
    let ok = try_delegate(&mut app, &pool, v.as_str(), 100);
    eprintln!("pool self-delegation ok={ok}");
    if ok {
        undelegate(&mut app, &b, &v, 100);
        undelegate(&mut app, &pool, &v, 100);
        let r = std::panic::catch_unwind(std::panic::AssertUnwindSafe(|| {
            advance(&mut app, UNBONDING_TIME)
        }));
        assert!(r.is_ok(), "block update panicked");
    }
}

// C15: other delegators' rewards are unaffected by a withdrawal; splitting of time does not matter.
#[test]
fn t6_others_unaffected_and_path_independent() {
    let a = "alice".into_bech32();
    let b = "bob".into_bech32();
    let v = "validator".into_bech32();
    let run = |withdrawals: bool| -> (u128, u128) {
        let mut app = setup(&[(&a, 1_000_000), (&b, 1_000_000)], &[&v]);
        delegate(&mut app, &a, &v, 333_333);
        delegate(&mut app, &b, &v, 777_777);
        let mut a_paid = 0;
        for i in 0..73 {
            advance(&mut app, YEAR / 73);
            if withdrawals && i % 3 == 0 {
                let (_, pend) = shown(&app, &a, &v);
                let other0 = shown(&app, &b, &v);
                let before = balance(&app, &a);
                let ok = try_withdraw(&mut app, &a, &v);
                let paid = balance(&app, &a) - before;
                assert!(ok);
                assert_eq!(paid, pend);
                assert_eq!(shown(&app, &a, &v).1, 0);
                assert_eq!(shown(&app, &b, &v), other0);
                a_paid += paid;
            }
        }
        (a_paid + shown(&app, &a, &v).1, shown(&app, &b, &v).1)
    };
    let (a1, b1) = run(true);
    let (a0, b0) = run(false);
    eprintln!("alice with withdrawals {a1} without {a0}; bob {b1} / {b0}");
    // bound: stake * 0.1 * 0.9 * 1 year
    assert!(a0 <= 29_999 && a0 >= 29_998);
    assert!(a1 <= 29_999 && a1 + 26 >= 29_999);
    assert!(b0 <= 69_999 && b0 >= 69_998);
    assert!(b1 <= 69_999 && b1 >= 69_998);
}

// Observation: Delegation vs AllDelegations for a sub-token delegation.
#[test]
fn t7_all_delegations_vs_delegation() {
    let d = "delegator".into_bech32();
    let v = "validator".into_bech32();
    let mut app = setup(&[(&d, 10)], &[&v]);
    delegate(&mut app, &d, &v, 1);
    slash(&mut app, &v, Decimal::percent(50));
    let one = shown(&app, &d, &v);
    let all: AllDelegationsResponse = app
        .wrap()
        .query(
            &StakingQuery::AllDelegations {
                delegator: d.to_string(),
            }
            .into(),
        )
        .unwrap();
    eprintln!("Delegation shows {:?}; AllDelegations shows {:?}", one, all.delegations);
    assert_eq!(one.0, 0);
    assert!(
        all.delegations.is_empty(),
        "AllDelegations lists a delegation of amount {} that Delegation does not show",
        all.delegations[0].amount.amount
    );
}

// Observation (reading "stake" as the delegation SHOWN): rewards accrue on the hidden fraction.
#[test]
fn t8_rewards_vs_shown_stake() {
    let d = "delegator".into_bech32();
    let v = "validator".into_bech32();
    let mut app = setup(&[(&d, 10)], &[&v]);
    delegate(&mut app, &d, &v, 3);
    slash(&mut app, &v, Decimal::percent(50)); // 1.5, shown 1
    assert_eq!(shown(&app, &d, &v).0, 1);
    advance(&mut app, 20 * YEAR);
    let (st, pend) = shown(&app, &d, &v);
    eprintln!("shown stake {st}, pending {pend}; bound on shown stake = 1*0.1*0.9*20 = 1.8");
    assert!(pend <= 1);
}

// C14: after slashes with fractions, every delegator can undelegate its whole shown delegation and gets paid.
#[test]
fn t9_fractional_totals_undelegate_all() {
    let a = "alice".into_bech32();
    let b = "bob".into_bech32();
    let c = "carol".into_bech32();
    let v = "validator".into_bech32();
    let mut app = setup(&[(&a, 100), (&b, 100), (&c, 100)], &[&v]);
    delegate(&mut app, &a, &v, 3);
    delegate(&mut app, &b, &v, 5);
    delegate(&mut app, &c, &v, 1);
    slash(&mut app, &v, Decimal::percent(50)); // 1.5 2.5 0.5 ; total 4
    undelegate(&mut app, &a, &v, 1); // 0.5
    slash(&mut app, &v, Decimal::percent(10));
    advance(&mut app, UNBONDING_TIME); // a's entry (0.45) removed by housekeeping? c stays
    advance(&mut app, 1000);
    let (sb, _) = shown(&app, &b, &v);
    assert_eq!(sb, 2);
    undelegate(&mut app, &b, &v, 2);
    delegate(&mut app, &c, &v, 1);
    assert_eq!(shown(&app, &c, &v).0, 1);
    undelegate(&mut app, &c, &v, 1);
    delegate(&mut app, &a, &v, 7);
    slash(&mut app, &v, Decimal::percent(33));
    advance(&mut app, UNBONDING_TIME);
    let (sa, _) = shown(&app, &a, &v);
    undelegate(&mut app, &a, &v, sa);
    advance(&mut app, UNBONDING_TIME);
    eprintln!("balances a={} b={} c={}", balance(&app, &a), balance(&app, &b), balance(&app, &c));
}

// C15: a redelegation from a validator to itself of the whole delegation: the delegation is the same before and after
// (it "stays positive" at every observation), yet the pending reward is wiped.
#[test]
fn t10_self_redelegation_keeps_rewards() {
    let d = "delegator".into_bech32();
    let v = "validator".into_bech32();
    let mut app = setup(&[(&d, 1000)], &[&v]);
    delegate(&mut app, &d, &v, 1000);
    advance(&mut app, YEAR);
    assert_eq!(shown(&app, &d, &v), (1000, 90));
    let ok = try_redelegate(&mut app, &d, v.as_str(), v.as_str(), 1000);
    eprintln!("self-redelegation ok={ok}; shown after = {:?}", shown(&app, &d, &v));
    assert_eq!(shown(&app, &d, &v), (1000, 90));
}

// C14 / C15 / C16 sanity: pool accounting, payout timing, withdraw address, slash rejection.
#[test]
fn t11_sanity() {
    let d = "delegator".into_bech32();
    let r = "receiver".into_bech32();
    let v = "validator".into_bech32();
    let w = "validator2".into_bech32();
    let mut app = setup(&[(&d, 1000)], &[&v, &w]);
    delegate(&mut app, &d, &v, 400);
    delegate(&mut app, &d, &w, 100);
    assert_eq!(balance(&app, &d), 500);
    advance(&mut app, YEAR);
    // slash rejected without effect
    let s0 = (shown(&app, &d, &v), shown(&app, &d, &w));
    assert!(app.sudo(StakingSudo::Slash { validator: v.to_string(), percentage: Decimal::percent(101) }.into()).is_err());
    assert!(app.sudo(StakingSudo::Slash { validator: "nobody".to_string(), percentage: Decimal::percent(10) }.into()).is_err());
    assert_eq!(s0, (shown(&app, &d, &v), shown(&app, &d, &w)));
    // undelegate 200 from v, 50 from w; slash v by 25 % in the meantime
    undelegate(&mut app, &d, &v, 200);
    undelegate(&mut app, &d, &w, 50);
    assert_eq!((shown(&app, &d, &v).0, shown(&app, &d, &w).0), (200, 50));
    advance(&mut app, 30);
    slash(&mut app, &v, Decimal::percent(25));
    assert_eq!((shown(&app, &d, &v).0, shown(&app, &d, &w).0), (150, 50));
    advance(&mut app, 29);
    assert_eq!(balance(&app, &d), 500); // not before
    advance(&mut app, 1);
    assert_eq!(balance(&app, &d), 500 + 150 + 50); // at the period
    // withdraw address
    app.execute(d.clone(), DistributionMsg::SetWithdrawAddress { address: r.to_string() }.into()).unwrap();
    let pend = shown(&app, &d, &w).1;
    let total0 = app.wrap().query_supply(DENOM).map(|c| c.amount.u128()).unwrap_or(0);
    assert!(try_withdraw(&mut app, &d, &w));
    let total1 = app.wrap().query_supply(DENOM).map(|c| c.amount.u128()).unwrap_or(0);
    eprintln!("pending {pend}; receiver got {}; supply {total0} -> {total1}", balance(&app, &r));
    assert_eq!(balance(&app, &r), pend);
    assert_eq!(balance(&app, &d), 700);
    assert_eq!(total1 - total0, pend);
}
