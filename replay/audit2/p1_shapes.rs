// P1: differential check of the small constructor / builder contracts of prelude/cosmwasm.rs and contracts_lift.rs shims
use cosmwasm_std::testing::{mock_env, mock_wasmd_attr};
use cosmwasm_std::*;

#[test]
fn submsg_event_response_builders() {
    let m: CosmosMsg = BankMsg::Burn { amount: coins(1, "x") }.into();

    for (s, id, on) in [
        (SubMsg::<Empty>::new(m.clone()), 0, ReplyOn::Never),
        (SubMsg::reply_never(m.clone()), 0, ReplyOn::Never),
        (SubMsg::reply_on_success(m.clone(), 7), 7, ReplyOn::Success),
        (SubMsg::reply_on_error(m.clone(), 8), 8, ReplyOn::Error),
        (SubMsg::reply_always(m.clone(), 9), 9, ReplyOn::Always),
    ] {
        assert_eq!(s, SubMsg { id, payload: Binary::default(), msg: m.clone(), gas_limit: None, reply_on: on });
        assert!(s.payload.is_empty());
        let g = s.clone().with_gas_limit(5);
        assert_eq!(g, SubMsg { gas_limit: Some(5), ..s.clone() });
        let p = s.clone().with_payload(Binary::from(vec![1u8, 2]));
        assert_eq!(p, SubMsg { payload: Binary::from(vec![1u8, 2]), ..s.clone() });
    }
    // Event: new / add_attribute / add_attributes append in order; '_' keys do not panic here (they do in Attribute::new)
    let a = Addr::unchecked("addr");
    let e = Event::new("ty").add_attribute("_k", &a).add_attribute("k2", "v2").add_attribute("k3", String::from("v3")).add_attribute("k4", a.clone());
    assert_eq!(e.ty, "ty");
    let kv: Vec<(String, String)> = e.attributes.iter().map(|x| (x.key.clone(), x.value.clone())).collect();
    assert_eq!(kv, vec![("_k".into(), "addr".into()), ("k2".into(), "v2".into()), ("k3".into(), "v3".into()), ("k4".into(), "addr".into())]);
    let e2 = e.clone().add_attributes(vec![mock_wasmd_attr("_x", "1"), mock_wasmd_attr("y", &a)]);
    assert_eq!(e2.attributes[..4], e.attributes[..]);
    assert_eq!(e2.attributes[4..], [Attribute { key: "_x".into(), value: "1".into() }, Attribute { key: "y".into(), value: "addr".into() }]);
    // Response builders used by customize_response
    let r0 = Response::<Empty>::new();
    assert!(r0.messages.is_empty() && r0.attributes.is_empty() && r0.events.is_empty() && r0.data.is_none());
    let base = Response::<Empty>::new().add_submessage(SubMsg::new(m.clone())).add_event(Event::new("e0")).add_attributes(vec![mock_wasmd_attr("a0", "b0")]).set_data(Binary::from(vec![9u8]));
    let r = base.clone().add_submessages(vec![SubMsg::reply_always(m.clone(), 1), SubMsg::reply_on_error(m.clone(), 2)].into_iter().map(|x| x));
    assert_eq!(r.messages.len(), 3); assert_eq!(r.messages[0], base.messages[0]); assert_eq!(r.messages[2].id, 2);
    assert_eq!((r.attributes.clone(), r.events.clone(), r.data.clone()), (base.attributes.clone(), base.events.clone(), base.data.clone()));
    let r = base.clone().add_events(vec![Event::new("e1"), Event::new("e2")]);
    assert_eq!(r.events.iter().map(|e| e.ty.clone()).collect::<Vec<_>>(), ["e0", "e1", "e2"]);
    assert_eq!((r.attributes.clone(), r.messages.clone(), r.data.clone()), (base.attributes.clone(), base.messages.clone(), base.data.clone()));
    let r = base.clone().add_attributes(vec![mock_wasmd_attr("_a1", "b1")]);   // Vec<Attribute>: identity Into, no '_' panic
    assert_eq!(r.attributes.iter().map(|e| e.key.clone()).collect::<Vec<_>>(), ["a0", "_a1"]);
    let r = base.clone().set_data(Binary::from(vec![1u8]));
    assert_eq!(r.data, Some(Binary::from(vec![1u8])));
    assert_eq!((r.attributes, r.messages, r.events), (base.attributes.clone(), base.messages.clone(), base.events.clone()));
}

#[test]
fn misc_contracts() {
    // ContractResult from Result<_, E: ToString>
    let ok: ContractResult<u8> = Result::<u8, StdError>::Ok(3).into();
    assert_eq!(ok, ContractResult::Ok(3));
    let er: ContractResult<u8> = Result::<u8, StdError>::Err(StdError::generic_err("boom")).into();
    assert!(er.is_err());
    // Binary
    assert!(Binary::default().is_empty());
    let b = Binary::from(&[1u8, 2, 3][..]);
    assert_eq!(b.to_vec(), vec![1, 2, 3]); assert_eq!(b.as_slice(), &[1, 2, 3]); assert_eq!(b.len(), 3);
    assert_eq!(Option::<Binary>::None.unwrap_or_default(), Binary::default());
    // coin / Addr
    let c = coin(5, "d"); assert_eq!((c.amount.u128(), c.denom.as_str()), (5, "d"));
    let a = Addr::unchecked("Xy"); assert_eq!(a.as_str(), "Xy"); assert_eq!(a.to_string(), "Xy"); assert_eq!(String::from(&a), "Xy"); assert_eq!(a.clone().into_string(), "Xy");
    assert_eq!(a.as_bytes(), b"Xy");
    // instantiate2_address: a function of its three arguments, errors for bad lengths
    let cs = [7u8; 32]; let cr = CanonicalAddr::from(vec![1u8; 20]);
    assert_eq!(instantiate2_address(&cs, &cr, b"s").unwrap(), instantiate2_address(&cs, &cr, b"s").unwrap());
    assert!(instantiate2_address(&cs[..31], &cr, b"s").is_err());
    assert!(instantiate2_address(&cs, &cr, b"").is_err());
    assert!(instantiate2_address(&cs, &cr, &[0u8; 65]).is_err());
    // mock_env is a constant
    assert_eq!(mock_env(), mock_env());
    // response constructors
    let r = ContractInfoResponse::new(1, a.clone(), Some(a.clone()), true, Some("p".into()));
    assert_eq!((r.code_id, r.creator, r.admin, r.pinned, r.ibc_port), (1, a.clone(), Some(a.clone()), true, Some("p".to_string())));
    let k = Checksum::generate(b"x");
    let r = CodeInfoResponse::new(2, a.clone(), k);
    assert_eq!((r.code_id, r.creator, r.checksum), (2, a.clone(), k));
    assert_eq!(k.as_slice().len(), 32);
    assert_eq!(BalanceResponse::new(c.clone()).amount, c);
    assert_eq!(SupplyResponse::new(c.clone()).amount, c);
    #[allow(deprecated)]
    { assert_eq!(AllBalanceResponse::new(vec![c.clone()]).amount, vec![c.clone()]); }
    // SubMsgResult::is_ok
    assert!(!SubMsgResult::Err("e".into()).is_ok());
    // error texts differ between errors (the prelude's AnyError / StdError are unit types: one value, one text)
    let e1 = format!("{:?}", anyhow::anyhow!("first")); let e2 = format!("{:?}", anyhow::anyhow!("second"));
    assert_ne!(e1, e2);
}

#[test]
fn query_request_variants_all_features() {
    // every variant the prelude lists exists (compiles only with all features) and there is no further one in 2.2.2
    #[allow(deprecated)]
    fn name(q: &QueryRequest<Empty>) -> &'static str {
        match q {
            QueryRequest::Bank(_) => "bank", QueryRequest::Custom(_) => "custom", QueryRequest::Staking(_) => "staking",
            QueryRequest::Distribution(_) => "distribution", QueryRequest::Stargate { .. } => "stargate", QueryRequest::Ibc(_) => "ibc",
            QueryRequest::Wasm(_) => "wasm", QueryRequest::Grpc(_) => "grpc", _ => "OTHER",
        }
    }
    let q: QueryRequest<Empty> = from_json(br#"{"distribution":{"delegator_withdraw_address":{"delegator_address":"d"}}}"#).unwrap();
    assert_eq!(name(&q), "distribution");
}
