//! P3 boundary audit of /verif/prelude/staking_prelude.rs against cosmwasm-std 2.2.2
use cosmwasm_std::{
    coin, Addr, AllDelegationsResponse, AllValidatorsResponse, BondedDenomResponse, Coin, Decimal,
    Delegation, DelegationResponse, FullDelegation, Timestamp, Uint128, Uint256, Validator,
    ValidatorResponse,
};
use std::panic::catch_unwind;

const E18: u128 = 1_000_000_000_000_000_000;
const MAX: u128 = u128::MAX;
fn u256(x: u128) -> Uint256 { Uint256::from(x) }
fn fits(x: Uint256) -> Option<u128> { Uint128::try_from(x).ok().map(|v| v.u128()) }
fn d(a: u128) -> Decimal { Decimal::raw(a) }
fn panics<F: FnOnce() -> R + std::panic::UnwindSafe, R>(f: F) -> bool { catch_unwind(f).is_err() }

fn interesting() -> Vec<u128> {
    let mut v = vec![0u128, 1, 2, 3, 7, 10, E18 - 1, E18, E18 + 1, 2 * E18 - 1, 2 * E18, 2 * E18 + 1,
        MAX, MAX - 1, MAX - 2, MAX / 2, MAX / 2 + 1, MAX / E18, MAX / E18 + 1, MAX / E18 - 1,
        (MAX / E18) * E18, (MAX / E18) * E18 - 1, (MAX / E18) * E18 + 1,
        1u128 << 64, (1u128 << 64) - 1, (1u128 << 64) + 1, 1u128 << 127, u64::MAX as u128,
        18446744073709551616u128 * 1_000_000_000, // sqrt-ish sized
        E18 * E18, E18 * E18 - 1, E18 * E18 + 1,
        31_536_000, 1_000_000_000, 100_000_000_000_000_000];
    // sqrt(MAX*E18) neighbourhood: a*a/E18 ~ MAX
    let s: u128 = 18_446_744_073_709_551_615_999_999_999; // approx sqrt(MAX * 1e18)
    for k in 0..3 { v.push(s - k); v.push(s + k); }
    v
}

#[test]
fn decimal_binary_ops_exhaustive_on_boundaries() {
    let vs = interesting();
    let mut checked = 0;
    for &a in &vs {
        for &b in &vs {
            let (da, db) = (d(a), d(b));
            // Mul: fits(dmul) ==> r == dmul ; else real panics
            let m = u256(a) * u256(b) / u256(E18);
            match fits(m) {
                Some(m) => { assert_eq!((da * db).atomics().u128(), m, "mul {a} {b}"); let mut x = da; x *= db; assert_eq!(x.atomics().u128(), m); }
                None => assert!(panics(move || da * db), "mul should panic {a} {b}"),
            }
            // Div
            if b == 0 { assert!(panics(move || da / db)); }
            else {
                match fits(u256(a) * u256(E18) / u256(b)) {
                    Some(q) => assert_eq!((da / db).atomics().u128(), q, "div {a} {b}"),
                    None => assert!(panics(move || da / db), "div should panic {a} {b}"),
                }
                assert_eq!((da / Uint128::new(b)).atomics().u128(), a / b);
                match fits(u256(a) * u256(E18) / u256(b)) {
                    Some(q) => assert_eq!(Decimal::from_ratio(a, b).atomics().u128(), q),
                    None => assert!(panics(move || Decimal::from_ratio(a, b))),
                }
            }
            if b == 0 { assert!(panics(move || da / Uint128::new(b))); assert!(panics(move || Decimal::from_ratio(a, b))); }
            // Add / AddAssign
            match a.checked_add(b) {
                Some(s) => { assert_eq!((da + db).atomics().u128(), s); let mut x = da; x += db; assert_eq!(x.atomics().u128(), s);
                             assert_eq!((Uint128::new(a) + Uint128::new(b)).u128(), s); let mut y = Uint128::new(a); y += Uint128::new(b); assert_eq!(y.u128(), s); }
                None => { assert!(panics(move || da + db)); assert!(panics(move || { let mut x = da; x += db; x }));
                          assert!(panics(move || Uint128::new(a) + Uint128::new(b))); assert!(panics(move || { let mut y = Uint128::new(a); y += Uint128::new(b); y })); }
            }
            // Sub / SubAssign
            if a >= b { assert_eq!((da - db).atomics().u128(), a - b); let mut x = da; x -= db; assert_eq!(x.atomics().u128(), a - b); assert_eq!((Uint128::new(a) - Uint128::new(b)).u128(), a - b); }
            else { assert!(panics(move || da - db)); assert!(panics(move || { let mut x = da; x -= db; x })); assert!(panics(move || Uint128::new(a) - Uint128::new(b))); }
            // comparisons
            assert_eq!(da < db, a < b); assert_eq!(da <= db, a <= b); assert_eq!(da > db, a > b); assert_eq!(da >= db, a >= b); assert_eq!(da == db, a == b);
            assert_eq!(da.cmp(&db), a.cmp(&b)); assert_eq!(da.partial_cmp(&db), a.partial_cmp(&b));
            assert_eq!(Uint128::new(a) < Uint128::new(b), a < b); assert_eq!(Uint128::new(a).partial_cmp(&Uint128::new(b)), a.partial_cmp(&b));
            // mul_floor / mul_ceil
            let x = Uint128::new(a);
            match fits(u256(a) * u256(b) / u256(E18)) {
                Some(m) => assert_eq!(x.mul_floor(db).u128(), m),
                None => assert!(panics(move || x.mul_floor(db))),
            }
            match fits((u256(a) * u256(b) + u256(E18 - 1)) / u256(E18)) {
                Some(m) => assert_eq!(x.mul_ceil(db).u128(), m, "mul_ceil {a} {b}"),
                None => assert!(panics(move || x.mul_ceil(db)), "mul_ceil should panic {a} {b}"),
            }
            // checked / saturating
            let (ua, ub) = (Uint128::new(a), Uint128::new(b));
            match ua.checked_sub(ub) { Ok(r) => { assert!(a >= b); assert_eq!(r.u128(), a - b) } Err(_) => assert!(a < b) }
            match ua.checked_add(ub) { Ok(r) => { assert_eq!(Some(r.u128()), a.checked_add(b)) } Err(_) => assert!(a.checked_add(b).is_none()) }
            assert_eq!(ua.saturating_sub(ub).u128(), a.saturating_sub(b));
            // multiply_ratio with a third value
            for &c in &[0u128, 1, E18, MAX, 3] {
                if b == 0 { assert!(panics(move || Uint128::new(c).multiply_ratio(a, b))); continue; }
                match fits(u256(c) * u256(a) / u256(b)) {
                    Some(m) => assert_eq!(Uint128::new(c).multiply_ratio(a, b).u128(), m),
                    None => assert!(panics(move || Uint128::new(c).multiply_ratio(a, b))),
                }
            }
            checked += 1;
        }
    }
    println!("pairs checked: {checked}");
}

#[test]
fn decimal_unary_on_boundaries() {
    for &a in &interesting() {
        let da = d(a);
        assert_eq!(da.atomics().u128(), a);
        assert_eq!(Decimal::new(Uint128::new(a)), da);
        assert_eq!(da.to_uint_floor().u128(), a / E18);
        // prelude formula: (a + 999_999_999_999_999_999) / 10^18 in unbounded ints
        let want = fits((u256(a) + u256(E18 - 1)) / u256(E18)).unwrap();
        assert_eq!(da.to_uint_ceil().u128(), want, "ceil {a}");
        assert_eq!(da.is_zero(), a == 0);
        assert_eq!(Uint128::new(a).u128(), a);
        assert_eq!(Uint128::new(a).is_zero(), a == 0);
        // Uint128::new(1).mul_floor(d) == floor(d)
        assert_eq!(Uint128::new(1).mul_floor(da).u128(), a / E18);
    }
    for x in [0u64, 1, 10, 100, 101, u64::MAX, u64::MAX - 1] {
        assert_eq!(Decimal::percent(x).atomics().u128(), x as u128 * 10_000_000_000_000_000);
    }
    assert_eq!(Decimal::one().atomics().u128(), E18);
    assert_eq!(Decimal::zero().atomics().u128(), 0);
    assert_eq!(Uint128::zero().u128(), 0);
    assert_eq!(Decimal::default(), Decimal::zero());
    // from_ratio accepts u64 / u128 / Uint128 (the three IntoU128 impls of the prelude)
    assert_eq!(Decimal::from_ratio(7u64, 2u128).atomics().u128(), 7 * E18 / 2);
    assert_eq!(Decimal::from_ratio(Uint128::new(7), 2u128).atomics().u128(), 7 * E18 / 2);
    assert_eq!(Uint128::new(10).multiply_ratio(Uint128::new(7), 2u64).u128(), 35);
    assert!(panics(|| Decimal::from_ratio(0u128, 0u128)));
}

#[test]
fn timestamp_boundaries() {
    let cases: [(u64, u64); 8] = [(0, 0), (0, 18_446_744_073), (0, 18_446_744_074), (u64::MAX, 0), (u64::MAX, 1),
        (709_551_615, 18_446_744_073), (709_551_616, 18_446_744_073), (5, u64::MAX)];
    for (n, s) in cases {
        let t = Timestamp::from_nanos(n);
        let want = (s as u128) * 1_000_000_000 + n as u128;
        let got = catch_unwind(move || t.plus_seconds(s).nanos());
        if want <= u64::MAX as u128 { assert_eq!(got.unwrap() as u128, want); }
        else { println!("plus_seconds({n},{s}) out of range: {:?}", got.as_ref().map_err(|_| "panic")); }
        // minus_seconds: requires n >= s*1e9 (in unbounded ints)
        if (s as u128) * 1_000_000_000 <= n as u128 { assert_eq!(t.minus_seconds(s).nanos() as u128, n as u128 - (s as u128) * 1_000_000_000); }
        else { println!("minus_seconds({n},{s}) below zero: {:?}", catch_unwind(move || t.minus_seconds(s).nanos()).map_err(|_| "panic")); }
    }
    assert!(panics(|| Timestamp::from_nanos(3).minus_nanos(4)));
    assert_eq!(Timestamp::from_nanos(1_999_999_999).seconds(), 1);
    assert!(Timestamp::from_nanos(3) < Timestamp::from_nanos(4));
    assert_eq!(Timestamp::from_nanos(3).partial_cmp(&Timestamp::from_nanos(3)), Some(std::cmp::Ordering::Equal));
}

#[test]
fn records_and_constructors() {
    let c = Coin::new(5u128, "atom");
    assert_eq!((c.amount.u128(), c.denom.as_str()), (5, "atom"));
    let c = Coin::new(Uint128::new(6), String::from("x"));
    assert_eq!((c.amount.u128(), c.denom.as_str()), (6, "x"));
    let c2 = coin(0, &String::from("y"));
    assert_eq!((c2.amount.u128(), c2.denom.as_str()), (0, "y"));
    let a = Addr::unchecked("d");
    let dl = Delegation::new(a.clone(), "v".into(), c.clone());
    assert_eq!((dl.delegator.clone(), dl.validator.as_str(), dl.amount.clone()), (a.clone(), "v", c.clone()));
    let f = FullDelegation::new(a.clone(), "v".into(), c.clone(), c2.clone(), vec![c.clone()]);
    assert_eq!((f.delegator.clone(), f.validator.as_str(), f.amount.clone(), f.can_redelegate.clone(), f.accumulated_rewards.clone()), (a.clone(), "v", c.clone(), c2.clone(), vec![c.clone()]));
    assert_eq!(DelegationResponse::new(Some(f.clone())).delegation, Some(f.clone()));
    assert_eq!(AllDelegationsResponse::new(vec![dl.clone()]).delegations, vec![dl.clone()]);
    assert_eq!(BondedDenomResponse::new("T".into()).denom, "T");
    let v = Validator::new("a".into(), Decimal::percent(1), Decimal::percent(2), Decimal::percent(3));
    assert_eq!((v.address.as_str(), v.commission, v.max_commission, v.max_change_rate), ("a", Decimal::percent(1), Decimal::percent(2), Decimal::percent(3)));
    assert_eq!(AllValidatorsResponse::new(vec![v.clone()]).validators, vec![v.clone()]);
    assert_eq!(ValidatorResponse::new(Some(v.clone())).validator, Some(v));
    // Sum for Uint128 panics on overflow (fold of +)
    assert!(panics(|| [Uint128::MAX, Uint128::new(1)].iter().copied().sum::<Uint128>()));
}

#[test]
fn serde_roundtrip_of_math_types_on_boundaries() {
    use cosmwasm_std::{from_json, to_json_vec};
    for &a in &interesting() {
        let dd = d(a);
        let back: Decimal = from_json(to_json_vec(&dd).unwrap()).unwrap();
        assert_eq!(back, dd, "decimal {a}");
        let u = Uint128::new(a);
        let back: Uint128 = from_json(to_json_vec(&u).unwrap()).unwrap();
        assert_eq!(back, u);
    }
    for n in [0u64, 1, 999_999_999, 1_000_000_000, u64::MAX] {
        let t = Timestamp::from_nanos(n);
        let back: Timestamp = from_json(to_json_vec(&t).unwrap()).unwrap();
        assert_eq!(back, t);
    }
}
