//! Audit R (round 2): model-based random histories for C14/C15/C16 after the repairs 20260cc / cbf91d1 / 27419b7.
//! Model from the statements; the fractional stake is tracked as an interval [lo, hi] because the block update's
//! housekeeping may (or may not) drop a sub-token remainder.  Accrued rewards are never reset by a block update.
#![cfg(feature = "staking")]
use cosmwasm_std::testing::mock_env;
use cosmwasm_std::{coin, Addr, Decimal, DistributionMsg, StakingMsg, Validator};
use cw_multi_test::{App, AppBuilder, Executor, IntoBech32, StakingInfo, StakingSudo};

const DENOM: &str = "stake";
const UNB: u64 = 60;
const YEAR: f64 = 31_536_000.0;
const E18: u128 = 1_000_000_000_000_000_000;

struct Lcg(u64);
impl Lcg {
    fn next(&mut self) -> u64 { self.0 = self.0.wrapping_mul(6364136223846793005).wrapping_add(1442695040888963407); self.0 >> 33 }
    fn below(&mut self, n: u64) -> u64 { self.next() % n }
}
fn dmul(a: u128, b: u128) -> u128 {
    // a*b/1e18 with a,b small enough here (a < 1e27, b <= 1e18): use u128 split
    let (ah, al) = (a / E18, a % E18);
    ah * b + al * b / E18
}
#[derive(Clone)]
struct Unb { d: usize, v: usize, amount: u128, at: u64 }

fn shown(app: &App, who: &Addr, val: &Addr) -> (u128, u128) {
    match app.wrap().query_delegation(who.clone(), val.to_string()).unwrap() {
        None => (0, 0),
        Some(d) => (d.amount.amount.u128(), d.accumulated_rewards.iter().map(|c| c.amount.u128()).sum()),
    }
}
fn bal(app: &App, a: &Addr) -> u128 { app.wrap().query_balance(a.clone(), DENOM).unwrap().amount.u128() }

fn run(seed: u64, steps: usize) {
    let ds: Vec<Addr> = ["alice", "bob", "carol"].iter().map(|s| s.into_bech32()).collect();
    let vs: Vec<Addr> = ["val1", "val2"].iter().map(|s| s.into_bech32()).collect();
    let comm = [10u64, 25u64];
    let block = mock_env().block;
    let mut app: App = AppBuilder::default().build(|router, api, storage| {
        for d in &ds { router.bank.init_balance(storage, d, vec![coin(1_000_000, DENOM)]).unwrap(); }
        router.staking.setup(storage, StakingInfo { bonded_denom: DENOM.into(), unbonding_time: UNB, apr: Decimal::percent(10) }).unwrap();
        for (i, v) in vs.iter().enumerate() {
            router.staking.add_validator(api, storage, &block, Validator::new(v.to_string(), Decimal::percent(comm[i]), Decimal::percent(90), Decimal::percent(1))).unwrap();
        }
    });
    let mut rng = Lcg(seed);
    let mut stake = [[0u128; 2]; 3]; // atomics, upper end of the interval
    let mut lo = [[0u128; 2]; 3]; // lower end
    let mut fuzzy = [[false; 2]; 3];
    let mut upper = [[0f64; 2]; 3];
    let mut lower = [[0f64; 2]; 3];
    let mut paid = [[0u128; 2]; 3];
    let mut nwd = [[0u32; 2]; 3];
    let mut queue: Vec<Unb> = vec![];
    let mut now: u64 = 0;
    let mut model_bal = [1_000_000u128; 3];
    let reset = |u: &mut f64, l: &mut f64, p: &mut u128, n: &mut u32| { *u = 0.0; *l = 0.0; *p = 0; *n = 0; };
    for step in 0..steps {
        let d = rng.below(3) as usize; let v = rng.below(2) as usize;
        let ctx = format!("seed {seed} step {step}");
        match rng.below(9) {
            0 | 1 => { // delegate
                let hi = if rng.below(2) == 0 { 5 } else { 5000 }; let a = 1 + rng.below(hi) as u128;
                app.execute(ds[d].clone(), StakingMsg::Delegate { validator: vs[v].to_string(), amount: coin(a, DENOM) }.into()).expect(&ctx);
                stake[d][v] += a * E18; lo[d][v] += a * E18; model_bal[d] -= a;
            }
            2 => { // undelegate <= shown
                let (s, _) = shown(&app, &ds[d], &vs[v]);
                if s > 0 {
                    let a = 1 + rng.below(s as u64) as u128;
                    let a = if rng.below(3) == 0 { s } else { a };
                    app.execute(ds[d].clone(), StakingMsg::Undelegate { validator: vs[v].to_string(), amount: coin(a, DENOM) }.into()).expect(&ctx);
                    stake[d][v] -= a * E18; lo[d][v] = lo[d][v].saturating_sub(a * E18);
                    if stake[d][v] == 0 { fuzzy[d][v] = false; reset(&mut upper[d][v], &mut lower[d][v], &mut paid[d][v], &mut nwd[d][v]); }
                    queue.push(Unb { d, v, amount: a, at: now + UNB });
                }
            }
            3 => { // redelegate <= shown
                let (s, _) = shown(&app, &ds[d], &vs[v]);
                let w = 1 - v;
                if s > 0 {
                    let a = 1 + rng.below(s as u64) as u128;
                    app.execute(ds[d].clone(), StakingMsg::Redelegate { src_validator: vs[v].to_string(), dst_validator: vs[w].to_string(), amount: coin(a, DENOM) }.into()).expect(&ctx);
                    stake[d][v] -= a * E18; stake[d][w] += a * E18; lo[d][v] = lo[d][v].saturating_sub(a * E18); lo[d][w] += a * E18;
                    if stake[d][v] == 0 { fuzzy[d][v] = false; reset(&mut upper[d][v], &mut lower[d][v], &mut paid[d][v], &mut nwd[d][v]); }
                }
            }
            4 => { // withdraw
                let (s, pend) = shown(&app, &ds[d], &vs[v]);
                let before = bal(&app, &ds[d]);
                let r = app.execute(ds[d].clone(), DistributionMsg::WithdrawDelegatorReward { validator: vs[v].to_string() }.into());
                let got = bal(&app, &ds[d]) - before;
                if r.is_ok() {
                    assert_eq!(got, pend, "{ctx}: paid != shown"); let _ = s;
                    paid[d][v] += got; nwd[d][v] += 1; model_bal[d] += got;
                    assert_eq!(shown(&app, &ds[d], &vs[v]).1, 0, "{ctx}");
                } else { assert_eq!(got, 0); assert_eq!(pend, 0, "{ctx}: withdrawal of shown reward failed"); }
            }
            5 => { // slash
                let p = [0u64, 10, 25, 50, 75, 90, 100, 33][rng.below(8) as usize];
                let pct = if rng.below(4) == 0 { Decimal::from_ratio(9995u128, 10000u128) } else { Decimal::percent(p) };
                let before: Vec<_> = (0..3).map(|i| (shown(&app, &ds[i], &vs[1 - v]), bal(&app, &ds[i]), shown(&app, &ds[i], &vs[v]).1)).collect();
                app.sudo(StakingSudo::Slash { validator: vs[v].to_string(), percentage: pct }.into()).expect(&ctx);
                let rem = (Decimal::one() - pct).atomics().u128();
                for i in 0..3 {
                    let old = stake[i][v];
                    stake[i][v] = if rem == 0 { 0 } else { dmul(old, rem) };
                    lo[i][v] = if rem == 0 { 0 } else { dmul(lo[i][v], rem) };
                    if stake[i][v] == 0 && old != 0 { fuzzy[i][v] = false; reset(&mut upper[i][v], &mut lower[i][v], &mut paid[i][v], &mut nwd[i][v]); }
                    assert_eq!(shown(&app, &ds[i], &vs[1 - v]), before[i].0, "{ctx}: other validator touched");
                    assert_eq!(bal(&app, &ds[i]), before[i].1, "{ctx}: balance touched");
                    if stake[i][v] != 0 { assert_eq!(shown(&app, &ds[i], &vs[v]).1, before[i].2, "{ctx}: accrued rewards changed by a partial slash"); }
                }
                for u in queue.iter_mut() { if u.v == v { u.amount = dmul(u.amount * E18, rem) / E18; } }
            }
            _ => { // advance
                let dt = [1u64, 30, 59, 60, 61, 3600, 86_400 * 30, 31_536_000][rng.below(8) as usize];
                for i in 0..3 { for j in 0..2 {
                    let x = stake[i][j] as f64 / 1e18 * 0.1 * (1.0 - comm[j] as f64 / 100.0) * dt as f64 / YEAR;
                    upper[i][j] += x; if lo[i][j] >= E18 && !fuzzy[i][j] { lower[i][j] += x; }
                } }
                now += dt;
                let r = std::panic::catch_unwind(std::panic::AssertUnwindSafe(|| app.update_block(|b| { b.height += 1; b.time = b.time.plus_seconds(dt); })));
                assert!(r.is_ok(), "{ctx}: block update panicked");
                // matured
                while !queue.is_empty() && queue[0].at <= now {
                    let u = queue.remove(0);
                    model_bal[u.d] += u.amount;
                    let pending: u128 = queue.iter().filter(|x| x.d == u.d && x.v == u.v).map(|x| x.amount).sum();
                    if stake[u.d][u.v] / E18 + pending == 0 && stake[u.d][u.v] != 0 {
                        lo[u.d][u.v] = 0; fuzzy[u.d][u.v] = true; // housekeeping MAY drop the sub-token remainder; never the rewards
                    }
                }
            }
        }
        for i in 0..3 {
            assert_eq!(bal(&app, &ds[i]), model_bal[i], "{ctx}: balance of delegator {i}");
            for j in 0..2 {
                let (s, pend) = shown(&app, &ds[i], &vs[j]);
                assert!(lo[i][j] / E18 <= s && s <= stake[i][j] / E18, "{ctx}: delegation ({i},{j}) shown {s} model [{}, {}]", lo[i][j], stake[i][j]);
                let tot = (paid[i][j] + pend) as f64;
                assert!(tot <= upper[i][j] + 1e-6, "{ctx}: over-payment ({i},{j}): {tot} > {}", upper[i][j]);
                if !fuzzy[i][j] && stake[i][j] != 0 { assert!(tot > lower[i][j] - (nwd[i][j] as f64 + 1.0) - 1e-6, "{ctx}: under-payment ({i},{j}): {tot} vs {} ({} withdrawals)", lower[i][j], nwd[i][j]); }
            }
        }
    }
}
#[test]
fn fuzz_histories() {
    for seed in 1..=300u64 { run(seed, 120); }
}
