// P1: prelude/wasm_traits.rs:39-42 assumes of EVERY AddressGenerator: result is a function of (code_id, instance_id) only and
// the storage handed in is left unchanged.  The trait hands the generator `&mut dyn Storage` (the whole chain store).
use cosmwasm_std::testing::MockApi;
use cosmwasm_std::*;
use cw_multi_test::error::AnyResult;
use cw_multi_test::{no_init, AddressGenerator, AppBuilder, ContractWrapper, Executor, WasmKeeper};

struct Counting;
impl AddressGenerator for Counting {
    fn contract_address(&self, _api: &dyn Api, storage: &mut dyn Storage, _code_id: u64, _instance_id: u64) -> AnyResult<Addr> {
        let n = storage.get(b"gen_counter").map(|v| v[0]).unwrap_or(0);
        storage.set(b"gen_counter", &[n + 1]);
        Ok(MockApi::default().addr_make(&format!("contract-{n}")))
    }
}
fn noop() -> Box<dyn cw_multi_test::Contract<Empty>> {
    Box::new(ContractWrapper::new(
        |_d: DepsMut, _e: Env, _i: MessageInfo, _m: Empty| -> StdResult<Response> { Ok(Response::new()) },
        |_d: DepsMut, _e: Env, _i: MessageInfo, _m: Empty| -> StdResult<Response> { Ok(Response::new()) },
        |_d: Deps, _e: Env, _m: Empty| -> StdResult<Binary> { to_json_binary(&Empty {}) },
    ))
}
#[test]
fn generator_writes_chain_storage_and_depends_on_it() {
    let mut app = AppBuilder::default().with_wasm(WasmKeeper::new().with_address_generator(Counting)).build(no_init);
    let owner = app.api().addr_make("owner");
    let code = app.store_code(noop());
    assert!(app.storage().get(b"gen_counter").is_none());
    let a = app.instantiate_contract(code, owner.clone(), &Empty {}, &[], "l", None).unwrap();
    println!("after instantiate: storage[gen_counter] = {:?}, addr = {a}", app.storage().get(b"gen_counter"));
    assert_eq!(app.storage().get(b"gen_counter"), Some(vec![1]));
    // a failing instantiate (unknown code id fails before; use a failing init instead): the generator's write is rolled back with the rest
}

#[test]
fn enum_shapes_all_features() {
    // field-for-field construction of every variant the prelude lists (compile-time check against cosmwasm-std 2.2.2)
    let c = coin(1, "x"); let b = Binary::default(); let s = String::new();
    let _ = [
        WasmMsg::Execute { contract_addr: s.clone(), msg: b.clone(), funds: vec![] },
        WasmMsg::Instantiate { admin: None, code_id: 1, msg: b.clone(), funds: vec![], label: s.clone() },
        WasmMsg::Instantiate2 { admin: None, code_id: 1, label: s.clone(), msg: b.clone(), funds: vec![], salt: b.clone() },
        WasmMsg::Migrate { contract_addr: s.clone(), new_code_id: 1, msg: b.clone() },
        WasmMsg::UpdateAdmin { contract_addr: s.clone(), admin: s.clone() },
        WasmMsg::ClearAdmin { contract_addr: s.clone() },
    ];
    let _ = [StakingMsg::Delegate { validator: s.clone(), amount: c.clone() }, StakingMsg::Undelegate { validator: s.clone(), amount: c.clone() },
             StakingMsg::Redelegate { src_validator: s.clone(), dst_validator: s.clone(), amount: c.clone() }];
    let _ = [DistributionMsg::SetWithdrawAddress { address: s.clone() }, DistributionMsg::WithdrawDelegatorReward { validator: s.clone() }, DistributionMsg::FundCommunityPool { amount: vec![] }];
    #[allow(deprecated)]
    let _ = [BankQuery::Supply { denom: s.clone() }, BankQuery::Balance { address: s.clone(), denom: s.clone() }, BankQuery::AllBalances { address: s.clone() },
             BankQuery::DenomMetadata { denom: s.clone() }, BankQuery::AllDenomMetadata { pagination: None }];
    let _ = [StakingQuery::BondedDenom {}, StakingQuery::AllDelegations { delegator: s.clone() }, StakingQuery::Delegation { delegator: s.clone(), validator: s.clone() },
             StakingQuery::AllValidators {}, StakingQuery::Validator { address: s.clone() }];
    let _ = [WasmQuery::Smart { contract_addr: s.clone(), msg: b.clone() }, WasmQuery::Raw { contract_addr: s.clone(), key: b.clone() },
             WasmQuery::ContractInfo { contract_addr: s.clone() }, WasmQuery::CodeInfo { code_id: 1 }];
    let _ = AnyMsg { type_url: s.clone(), value: b.clone() };
    let _ = GrpcQuery { path: s.clone(), data: b.clone() };
    let _ = MsgResponse { type_url: s.clone(), value: b.clone() };
    #[allow(deprecated)]
    let _ = Reply { id: 1, payload: b.clone(), gas_used: 0, result: SubMsgResult::Ok(SubMsgResponse { events: vec![], data: None, msg_responses: vec![] }) };
    let _ = Env { block: BlockInfo { height: 1, time: Timestamp::from_nanos(1), chain_id: s.clone() }, contract: ContractInfo { address: Addr::unchecked("a") }, transaction: Some(TransactionInfo { index: 0 }) };
    let _ = MessageInfo { sender: Addr::unchecked("a"), funds: vec![] };
    let _ = SystemError::InvalidRequest { error: s.clone(), request: b.clone() };
}
