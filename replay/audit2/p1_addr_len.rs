// P1: axiom_addr_len (prelude/cosmwasm.rs:43-44) says EVERY Addr has at most 0xFF00 bytes.  Addr::unchecked has no limit;
// the axiom is what discharges the panic of to_length_prefixed_nested in contract_storage(_mut) (contracts/wasm_call.rs:18,25).
use cosmwasm_std::{coins, Addr, Decimal, Validator};
use cw_multi_test::{App, Executor, IntoAddr};

#[test]
fn long_addr_exists_and_contract_storage_panics() {
    let long = Addr::unchecked("a".repeat(0x1_0000));
    assert!(long.as_bytes().len() > 0xFF00);
    let app = App::default();
    let r = std::panic::catch_unwind(std::panic::AssertUnwindSafe(|| { let _ = app.contract_storage(&long); }));
    println!("contract_storage(long) panicked: {}", r.is_err());
    assert!(r.is_err());
    // just under the axiom's bound: fine
    let ok = Addr::unchecked("a".repeat(0xFF00));
    let _ = app.contract_storage(&ok);
}

#[test]
fn long_delegator_panics_in_composite_key() {
    // k_stake(d, v) injectivity (spec/staking_sem.rs:68) leans on the axiom; in reality the 2-byte length prefix of the
    // first key component cannot be built for such an address
    let long = Addr::unchecked("a".repeat(0x1_0000));
    let validator = "validator".into_addr();
    let mut app = App::new(|router, api, storage| {
        router.bank.init_balance(storage, &long, coins(100, "TOKEN")).unwrap();
        let v = Validator::new(validator.to_string(), Decimal::percent(10), Decimal::percent(90), Decimal::percent(1));
        router.staking.add_validator(api, storage, &cosmwasm_std::testing::mock_env().block, v).unwrap();
    });
    let r = std::panic::catch_unwind(std::panic::AssertUnwindSafe(|| {
        app.execute(long.clone(), cosmwasm_std::StakingMsg::Delegate { validator: validator.to_string(), amount: cosmwasm_std::coin(10, "TOKEN") }.into())
    }));
    match r { Err(_) => println!("delegate from long address: PANIC"), Ok(x) => println!("delegate from long address: {:?}", x.map(|_| ())) }
}
