// P1: Api::addr_validate "Ok(a) => a == input" (prelude/cosmwasm.rs:260-261) versus the Api implementations
// shipped by cw-multi-test itself (MockApiBech32 / MockApiBech32m), which return humanize(canonicalize(input)).
use cosmwasm_std::testing::MockApi;
use cosmwasm_std::{coins, Api, Storage};
use cw_multi_test::{AppBuilder, BankSudo, MockApiBech32, MockApiBech32m, SudoMsg};

#[test]
fn bech32_validate_returns_a_different_text() {
    // prefix given in upper case (nothing in MockApiBech::new rejects it)
    let api = MockApiBech32::new("JUNO");
    let lower = api.addr_make("owner").to_string();
    let upper = lower.to_uppercase();
    println!("addr_make -> {lower}");
    println!("validate(lower) = {:?}", api.addr_validate(&lower));
    let r = api.addr_validate(&upper);
    println!("MockApiBech32(JUNO).addr_validate({upper}) = {r:?}");
    let a = r.expect("uppercase bech32 accepted");
    // the prelude contract says a.as_str() == upper
    assert_eq!(a.as_str(), lower, "validated address is the NORMALISED text, not the input");
    assert_ne!(a.as_str(), upper);

    let api = MockApiBech32m::new("JUNO");
    let lower = api.addr_make("owner").to_string();
    let upper = lower.to_uppercase();
    let a = api.addr_validate(&upper).unwrap();
    println!("MockApiBech32m(JUNO).addr_validate({upper}) = {a}");
    assert_ne!(a.as_str(), upper);

    // cosmwasm_std's own MockApi does satisfy the contract (rejects non-normalised input)
    let api = MockApi::default();
    let lower = api.addr_make("owner").to_string();
    assert!(api.addr_validate(&lower.to_uppercase()).is_err());
    assert_eq!(api.addr_validate(&lower).unwrap().as_str(), lower);
}

#[test]
fn bank_mint_credits_an_address_whose_text_is_not_to_address() {
    let api = MockApiBech32::new("JUNO");
    let rcpt_lower = api.addr_make("rcpt");
    let rcpt_upper = rcpt_lower.to_string().to_uppercase();
    let mut app = AppBuilder::new().with_api(api).build(|_router, _api, _storage| {});
    app.sudo(SudoMsg::Bank(BankSudo::Mint { to_address: rcpt_upper.clone(), amount: coins(7, "x") })).unwrap();
    // contracts/bank.rs sudo_sem: mint_w(w, Addr { s: to_address }, ..): the record of Addr{s: UPPER}.  Read the ledger raw:
    fn lp(b: &[u8]) -> Vec<u8> { let mut v = vec![(b.len() >> 8) as u8, b.len() as u8]; v.extend_from_slice(b); v }
    let key = |a: &str| { let mut k = lp(b"bank"); k.extend(lp(b"balances")); k.extend_from_slice(a.as_bytes()); k };
    let upper_bal = app.storage().get(&key(&rcpt_upper)).map(|v| String::from_utf8_lossy(&v).to_string());
    let lower_bal = app.storage().get(&key(rcpt_lower.as_str())).map(|v| String::from_utf8_lossy(&v).to_string());
    println!("ledger[UPPER] = {upper_bal:?}\nledger[lower] = {lower_bal:?}");
    assert!(upper_bal.is_none());
    assert!(lower_bal.is_some());
}
