//! Audit R (round 2): probes of the repairs 20260cc / cbf91d1 / 27419b7 (public API only).
#![cfg(feature = "staking")]

use cosmwasm_std::testing::mock_env;
use cosmwasm_std::{
    coin, Addr, AllDelegationsResponse, Decimal, DistributionMsg, StakingMsg, StakingQuery,
    Validator,
};
use cw_multi_test::{App, AppBuilder, Executor, IntoBech32, StakingInfo, StakingSudo};

const DENOM: &str = "stake";
const UNBONDING_TIME: u64 = 60;
const YEAR: u64 = 60 * 60 * 24 * 365;

fn setup(delegators: &[(&Addr, u128)], validators: &[&Addr]) -> App { setup_with(delegators, validators, UNBONDING_TIME, Decimal::percent(10)) }
fn setup_with(delegators: &[(&Addr, u128)], validators: &[&Addr], unbonding: u64, apr: Decimal) -> App {
    let block = mock_env().block;
    AppBuilder::default().build(|router, api, storage| {
        for (addr, amount) in delegators {
            router
                .bank
                .init_balance(storage, addr, vec![coin(*amount, DENOM)])
                .unwrap();
        }
        router
            .staking
            .setup(
                storage,
                StakingInfo {
                    bonded_denom: DENOM.to_string(),
                    unbonding_time: unbonding,
                    apr,
                },
            )
            .unwrap();
        for v in validators {
            router
                .staking
                .add_validator(
                    api,
                    storage,
                    &block,
                    Validator::new(
                        v.to_string(),
                        Decimal::percent(10),
                        Decimal::percent(90),
                        Decimal::percent(1),
                    ),
                )
                .unwrap();
        }
    })
}

fn balance(app: &App, addr: &Addr) -> u128 {
    app.wrap()
        .query_balance(addr.clone(), DENOM)
        .unwrap()
        .amount
        .u128()
}

fn try_delegate(app: &mut App, who: &Addr, val: &str, amount: u128) -> bool {
    app.execute(
        who.clone(),
        StakingMsg::Delegate {
            validator: val.to_string(),
            amount: coin(amount, DENOM),
        }
        .into(),
    )
    .is_ok()
}
fn delegate(app: &mut App, who: &Addr, val: &Addr, amount: u128) {
    assert!(try_delegate(app, who, val.as_str(), amount));
}
fn try_undelegate(app: &mut App, who: &Addr, val: &Addr, amount: u128) -> bool {
    app.execute(
        who.clone(),
        StakingMsg::Undelegate {
            validator: val.to_string(),
            amount: coin(amount, DENOM),
        }
        .into(),
    )
    .is_ok()
}
fn undelegate(app: &mut App, who: &Addr, val: &Addr, amount: u128) {
    assert!(try_undelegate(app, who, val, amount));
}
fn try_redelegate(app: &mut App, who: &Addr, src: &str, dst: &str, amount: u128) -> bool {
    app.execute(
        who.clone(),
        StakingMsg::Redelegate {
            src_validator: src.to_string(),
            dst_validator: dst.to_string(),
            amount: coin(amount, DENOM),
        }
        .into(),
    )
    .is_ok()
}
fn slash(app: &mut App, val: &Addr, percentage: Decimal) {
    app.sudo(
        StakingSudo::Slash {
            validator: val.to_string(),
            percentage,
        }
        .into(),
    )
    .unwrap();
}
fn try_withdraw(app: &mut App, who: &Addr, val: &Addr) -> bool {
    app.execute(
        who.clone(),
        DistributionMsg::WithdrawDelegatorReward {
            validator: val.to_string(),
        }
        .into(),
    )
    .is_ok()
}
fn advance(app: &mut App, secs: u64) {
    app.update_block(|b| {
        b.height += 1;
        b.time = b.time.plus_seconds(secs);
    });
}
/// (delegation shown, pending reward shown)
fn shown(app: &App, who: &Addr, val: &Addr) -> (u128, u128) {
    match app.wrap().query_delegation(who.clone(), val.to_string()).unwrap() {
        None => (0, 0),
        Some(d) => (d.amount.amount.u128(), d.accumulated_rewards.iter().map(|c| c.amount.u128()).sum()),
    }
}
fn per_mille(x: u128) -> Decimal { Decimal::from_ratio(x, 10_000u128) }

/// cbf91d1 looks at the CREDITED rewards only.  Rewards that accrued since the validator's last reward update are
/// not in the entry yet, so the housekeeping of the block update still destroys them.
/// bob: delegate 2000, undelegate 1000, slash 99.95 % (stake 0.5, unbonding 0) -- all in the same block, so nothing
/// is credited.  carol keeps the validator's total above one token.  The unbonding period is 40 years; one block
/// update of 40 years: bob's 0.5 token earned 0.5 x 10 % x 90 % x 40 = 1.8 tokens.
#[test]
fn s2_block_update_destroys_uncredited_rewards() {
    let bob = "bob".into_bech32(); let carol = "carol".into_bech32(); let v = "val".into_bech32();
    // control: same history without the undelegation => no queue entry => no housekeeping
    let mut ctl = setup_with(&[(&bob, 10_000), (&carol, 100_000)], &[&v], 40 * YEAR, Decimal::percent(10));
    delegate(&mut ctl, &carol, &v, 100_000);
    delegate(&mut ctl, &bob, &v, 1000);
    slash(&mut ctl, &v, per_mille(9995));
    advance(&mut ctl, 40 * YEAR);
    let ctl_shown = shown(&ctl, &bob, &v);
    println!("control: bob shown {:?}", ctl_shown);

    let mut app = setup_with(&[(&bob, 10_000), (&carol, 100_000)], &[&v], 40 * YEAR, Decimal::percent(10));
    delegate(&mut app, &carol, &v, 100_000);
    delegate(&mut app, &bob, &v, 2000);
    undelegate(&mut app, &bob, &v, 1000);
    slash(&mut app, &v, per_mille(9995));
    advance(&mut app, 40 * YEAR);
    let got = shown(&app, &bob, &v);
    println!("with a matured (zero) unbonding: bob shown {:?}, withdraw ok = {}", got, try_withdraw(&mut app, &bob, &v));
    assert_eq!(ctl_shown, (0, 1), "control");
    assert_eq!(got, ctl_shown, "the block update destroyed bob's accrued (not yet credited) reward");
}

/// same defect seen as dependence on how the time is split / on another delegator's activity (C15 last clause):
/// if anything touches the validator between the slash and the payout, the reward is credited and survives.
#[test]
fn s2b_same_history_with_a_reward_update_in_between_keeps_the_reward() {
    let bob = "bob".into_bech32(); let carol = "carol".into_bech32(); let v = "val".into_bech32();
    let mut app = setup_with(&[(&bob, 10_000), (&carol, 200_000)], &[&v], 40 * YEAR, Decimal::percent(10));
    delegate(&mut app, &carol, &v, 100_000);
    delegate(&mut app, &bob, &v, 2000);
    undelegate(&mut app, &bob, &v, 1000);
    slash(&mut app, &v, per_mille(9995));
    advance(&mut app, 20 * YEAR);
    delegate(&mut app, &carol, &v, 1); // credits everybody's rewards
    advance(&mut app, 20 * YEAR);
    let got = shown(&app, &bob, &v);
    println!("bob shown {:?}", got);
    assert_eq!(got, (0, 1));
}

/// 20260cc: after a partial slash the delegations survive even when together they are below one token; the
/// validator's total is then 0 and NOTHING accrues any more, although the delegation is positive.
/// delegate 1000, slash 99.95 % (0.5 token left), 40 years: 0.5 x 10 % x 90 % x 40 = 1.8 tokens.
#[test]
fn s1_positive_delegation_below_one_token_in_total_earns_nothing() {
    let bob = "bob".into_bech32(); let v = "val".into_bech32();
    let mut app = setup(&[(&bob, 10_000)], &[&v]);
    delegate(&mut app, &bob, &v, 1000);
    slash(&mut app, &v, per_mille(9995));
    advance(&mut app, 40 * YEAR);
    let got = shown(&app, &bob, &v);
    println!("bob shown {:?}", got);
    // the delegation is still there: adding 1 token shows 1 (0.5 + 1 = 1.5), and from now on it earns on 1.5
    delegate(&mut app, &bob, &v, 1);
    advance(&mut app, 40 * YEAR);
    println!("after delegating 1 more and 40 more years: {:?}", shown(&app, &bob, &v));
    assert!(got.1 >= 1, "a positive delegation (0.5 token) earned nothing in 40 years: shown {:?}, bound 1.8", got);
}

/// 20260cc: the validator total is now summed up as a Decimal (max ~3.4e20 whole tokens); the sum of delegations
/// that each fit does not.  Before the repair the total was a Uint128 scaled by mul_floor.
#[test]
fn s3_slash_sum_overflow() {
    let bob = "bob".into_bech32(); let carol = "carol".into_bech32(); let v = "val".into_bech32();
    let big: u128 = 200_000_000_000_000_000_000; // 2e20 base units (200 tokens of an 18-decimals coin)
    let mut app = setup(&[(&bob, big), (&carol, big)], &[&v]);
    delegate(&mut app, &bob, &v, big);
    delegate(&mut app, &carol, &v, big);
    let r = std::panic::catch_unwind(std::panic::AssertUnwindSafe(|| {
        app.sudo(StakingSudo::Slash { validator: v.to_string(), percentage: Decimal::percent(1) }.into()).is_ok()
    }));
    println!("slash 1% of 2 x 2e20: {:?}", r.as_ref().map_err(|_| "panic"));
    assert!(r.is_ok(), "slash panicked");
}

/// 27419b7 + cbf91d1 together: what is shown is what is paid, and AllDelegations agrees with Delegation.
#[test]
fn s4_shown_is_paid_below_one_token() {
    let bob = "bob".into_bech32(); let v = "val".into_bech32();
    let mut app = setup(&[(&bob, 10_000)], &[&v]);
    delegate(&mut app, &bob, &v, 2000);
    advance(&mut app, YEAR);
    undelegate(&mut app, &bob, &v, 1000);
    slash(&mut app, &v, per_mille(9995));
    advance(&mut app, 61);
    let s = shown(&app, &bob, &v);
    let before = balance(&app, &bob);
    assert!(try_withdraw(&mut app, &bob, &v));
    assert_eq!(balance(&app, &bob) - before, s.1);
    assert_eq!(s, (0, 180));
    assert_eq!(shown(&app, &bob, &v), (0, 0));
    let all: AllDelegationsResponse = app.wrap().query(&StakingQuery::AllDelegations { delegator: bob.to_string() }.into()).unwrap();
    println!("all delegations after the withdrawal: {:?}", all.delegations);
}
