//! Audit P2: behaviour of the real dependencies where the /verif prelude assumes something else.
use cosmwasm_std::testing::MockStorage;
use cosmwasm_std::{
    coin, Addr, Binary, Decimal, Deps, DepsMut, Empty, Env, MessageInfo, Order, Response,
    StdResult, Storage, Timestamp, Uint128,
};
use cw_multi_test::{App, ContractWrapper, Executor};
use cw_storage_plus::{Item, Map};
use cw_utils::NativeBalance;
use serde::{Deserialize, Serialize};
use std::collections::{BTreeMap, BTreeSet, VecDeque};
use std::ops::Bound;
use std::panic::{catch_unwind, AssertUnwindSafe};

fn lp(b: &[u8]) -> Vec<u8> {
    let mut v = vec![((b.len() >> 8) & 0xff) as u8, (b.len() & 0xff) as u8];
    v.extend_from_slice(b);
    v
}

// ---- F1: Storage::set is NOT total on the base store: an empty value panics (prelude/base.rs:104 has no `requires`)
#[test]
fn f1_memory_storage_set_empty_value_panics() {
    let mut st = MockStorage::new();
    let r = catch_unwind(AssertUnwindSafe(|| st.set(b"k", b"")));
    assert!(r.is_err(), "MemoryStorage::set(k, []) returned normally");
    println!("F1a: MockStorage::set(b\"k\", b\"\") panicked");
    // get after the failed set: the key is absent (the contract promises view == old.insert(k, []))
    assert_eq!(st.get(b"k"), None);
}

fn inst_empty(deps: DepsMut, _e: Env, _i: MessageInfo, _m: Empty) -> StdResult<Response> {
    // goes into the StorageTransaction cache (no panic there) ...
    deps.storage.set(b"k", b"");
    // ... and is visible through the cache as an existing key with an empty value
    assert_eq!(deps.storage.get(b"k"), Some(vec![]));
    Ok(Response::new())
}
fn exec_noop(_d: DepsMut, _e: Env, _i: MessageInfo, _m: Empty) -> StdResult<Response> { Ok(Response::new()) }
fn query_noop(_d: Deps, _e: Env, _m: Empty) -> StdResult<Binary> { Ok(Binary::default()) }

#[test]
fn f1_commit_of_a_cached_empty_value_panics() {
    // RepLog::commit replays Op::Set{k, []} on the base MemoryStorage: panic, although [C06.commit.replays] has no precondition
    let mut app = App::default();
    let code = app.store_code(Box::new(ContractWrapper::new(exec_noop, inst_empty, query_noop)));
    let owner = app.api().addr_make("owner");
    let r = catch_unwind(AssertUnwindSafe(|| app.instantiate_contract(code, owner, &Empty {}, &[], "x", None)));
    match r {
        Err(_) => println!("F1b: instantiate whose contract stored an empty value PANICKED at commit"),
        Ok(x) => panic!("no panic: {:?}", x.map(|a| a.to_string())),
    }
}

// ---- F3: Map<&Addr, V>::range decodes the KEY too (String::from_utf8); a record whose value decodes but whose key is
// not UTF-8 yields Err, the prelude (cw_plus.rs:85) promises Ok(p) with p.0.bytes() == raw key
#[test]
fn f3_map_range_key_decode_error() {
    let mut st = MockStorage::new();
    let m: Map<&Addr, NativeBalance> = Map::new("balances");
    m.save(&mut st, &Addr::unchecked("alice"), &NativeBalance(vec![coin(1, "x")])).unwrap();
    let mut k = lp(b"balances");
    k.extend_from_slice(&[0xff, 0xfe]);
    st.set(&k, b"[]"); // a perfectly decodable NativeBalance
    let v: NativeBalance = cosmwasm_std::from_json(b"[]").unwrap();
    assert_eq!(v, NativeBalance(vec![]));
    let items: Vec<_> = m.range(&st, None, None, Order::Ascending).collect();
    assert_eq!(items.len(), 2);
    assert!(items[0].is_ok());
    println!("F3: item for raw key [0xff,0xfe] with value `[]` = {:?}", items[1]);
    assert!(items[1].is_err());
}

// ---- F4: length prefix: the real encoder panics above 0xFFFF, the model lp() wraps modulo 65536 and Map::save/load are total
#[test]
fn f4_long_key_element_panics() {
    let mut st = MockStorage::new();
    let m: Map<(&Addr, &str), u64> = Map::new("stakes");
    let long = Addr::unchecked("a".repeat(0x1_0000));
    let r = catch_unwind(AssertUnwindSafe(|| m.save(&mut st, (&long, "val"), &1)));
    println!("F4: save under a 65536-byte Addr key element: panicked = {}", r.is_err());
    assert!(r.is_err());
    // 0xFFFF still works
    let ok = Addr::unchecked("a".repeat(0xFFFF));
    m.save(&mut st, (&ok, "val"), &1).unwrap();
    let r = catch_unwind(AssertUnwindSafe(|| m.may_load(&st, (&long, "val")).map(|_| ())));
    println!("F4: may_load under the same key: panicked = {}", r.is_err());
}

// ---- JSON round trip (axiom_cw_roundtrip) on the value types the proofs instantiate, with hostile strings / extreme numbers
#[derive(Serialize, Deserialize, Clone, Debug, PartialEq)]
struct SharesLike { stake: Decimal, rewards: Decimal }
#[derive(Serialize, Deserialize, Clone, Debug, PartialEq)]
struct UnbondingLike { delegator: Addr, validator: String, amount: Uint128, payout_at: Timestamp }
#[derive(Serialize, Deserialize, Clone, Debug, PartialEq)]
struct ValidatorInfoLike { stakers: BTreeSet<Addr>, stake: Uint128, last_rewards_calculation: Timestamp }
#[derive(Serialize, Deserialize, Clone, Debug, PartialEq)]
struct ContractDataLike { code_id: u64, creator: Addr, admin: Option<Addr>, label: String, created: u64 }

#[test]
fn roundtrip_probe() {
    let mut st = MockStorage::new();
    // every scalar value below 0x3000, a few astral ones, and the JSON specials, one string per char and one big string
    let mut chars: Vec<char> = (0u32..0x3000).filter_map(char::from_u32).collect();
    chars.extend(['\u{FFFD}', '\u{FFFF}', '\u{10000}', '\u{1F600}', '\u{10FFFF}', '\u{2028}', '\u{2029}']);
    let it: Item<Addr> = Item::new("a");
    let mut bad = Vec::new();
    for c in &chars {
        let s = format!("x{c}y");
        let a = Addr::unchecked(s.clone());
        match it.save(&mut st, &a) {
            Err(e) => bad.push(format!("save U+{:04X}: {e}", *c as u32)),
            Ok(()) => match it.load(&st) {
                Ok(b) if b == a => {}
                Ok(b) => bad.push(format!("U+{:04X}: {:?} -> {:?}", *c as u32, a, b)),
                Err(e) => bad.push(format!("load U+{:04X}: {e}", *c as u32)),
            },
        }
    }
    println!("roundtrip: {} of {} one-char strings did NOT round-trip; first: {:?}", bad.len(), chars.len(), bad.iter().take(5).collect::<Vec<_>>());
    let all: String = chars.iter().collect();
    let q: Item<VecDeque<UnbondingLike>> = Item::new("q");
    let v: VecDeque<UnbondingLike> = vec![
        UnbondingLike { delegator: Addr::unchecked(all.clone()), validator: all.clone(), amount: Uint128::MAX, payout_at: Timestamp::from_nanos(u64::MAX) },
        UnbondingLike { delegator: Addr::unchecked(""), validator: String::new(), amount: Uint128::zero(), payout_at: Timestamp::from_nanos(0) },
    ].into();
    q.save(&mut st, &v).unwrap();
    println!("roundtrip VecDeque<Unbonding>: equal = {}", q.load(&st).map(|w| w == v).unwrap_or(false));
    let s: Item<SharesLike> = Item::new("s");
    for d in [Decimal::MAX, Decimal::zero(), Decimal::new(Uint128::new(1)), Decimal::new(Uint128::new(u128::MAX - 1)), Decimal::percent(10)] {
        let x = SharesLike { stake: d, rewards: Decimal::MAX };
        s.save(&mut st, &x).unwrap();
        assert_eq!(s.load(&st).unwrap(), x);
    }
    let vi: Item<ValidatorInfoLike> = Item::new("vi");
    let x = ValidatorInfoLike { stakers: [Addr::unchecked("b"), Addr::unchecked("a"), Addr::unchecked("\"\\")].into_iter().collect(), stake: Uint128::MAX, last_rewards_calculation: Timestamp::from_nanos(u64::MAX) };
    vi.save(&mut st, &x).unwrap();
    assert_eq!(vi.load(&st).unwrap(), x);
    let cd: Item<ContractDataLike> = Item::new("cd");
    for admin in [None, Some(Addr::unchecked("adm"))] {
        let x = ContractDataLike { code_id: u64::MAX, creator: Addr::unchecked("c"), admin, label: "l\n\t\"".into(), created: u64::MAX };
        cd.save(&mut st, &x).unwrap();
        assert_eq!(cd.load(&st).unwrap(), x);
    }
    let nb: Item<NativeBalance> = Item::new("nb");
    let x = NativeBalance(vec![coin(0, ""), coin(u128::MAX, "z"), coin(5, "a"), coin(5, "a")]); // not normalised: kept as is
    nb.save(&mut st, &x).unwrap();
    assert_eq!(nb.load(&st).unwrap(), x);
    assert!(bad.is_empty(), "{} strings do not round trip", bad.len());
}

// ---- NativeBalance: overflow panics (normalize / add have no `requires` in prelude/cw_utils.rs:50,64)
#[test]
fn nb_overflow_panics() {
    let r = catch_unwind(|| { let mut b = NativeBalance(vec![coin(u128::MAX, "a"), coin(1, "a")]); b.normalize(); b });
    println!("NB: normalize of [MAX a, 1 a] panicked = {}", r.is_err());
    assert!(r.is_err());
    let r = catch_unwind(|| NativeBalance(vec![coin(u128::MAX, "a")]) + NativeBalance(vec![coin(1, "a")]));
    println!("NB: add overflow panicked = {}", r.is_err());
    assert!(r.is_err());
    // add on a NON-normalised left operand: merges into the FIRST entry of that denomination, totals still add
    let s = NativeBalance(vec![coin(1, "a"), coin(2, "a")]) + NativeBalance(vec![coin(4, "a")]);
    assert_eq!(s.0, vec![coin(5, "a"), coin(2, "a")]);
    // wf (sorted, unique, positive) preserved by + of positive coins and by -
    let s = NativeBalance(vec![coin(1, "b"), coin(2, "d")]) + NativeBalance(vec![coin(4, "c"), coin(1, "a"), coin(1, "e"), coin(1, "b")]);
    assert_eq!(s.0, vec![coin(1, "a"), coin(2, "b"), coin(4, "c"), coin(2, "d"), coin(1, "e")]);
    let d = (s - vec![coin(2, "b"), coin(1, "d")]).unwrap();
    assert_eq!(d.0, vec![coin(1, "a"), coin(4, "c"), coin(1, "d"), coin(1, "e")]);
    // zero coin of an absent denomination: Err (outside axiom_nb_sub's all_pos precondition)
    assert!((NativeBalance(vec![coin(1, "a")]) - vec![coin(0, "zz")]).is_err());
}

// ---- BTreeMap::range panic conditions vs bounds_in_order (contracts/transactions.rs:128)
#[test]
fn btree_range_panics() {
    let mut m: BTreeMap<Vec<u8>, u8> = BTreeMap::new();
    for k in [vec![], vec![1], vec![1, 0], vec![2]] { m.insert(k, 0); }
    let a = vec![1u8];
    let b = vec![1u8, 0];
    let lt = |x: &Vec<u8>, y: &Vec<u8>| x < y;
    let mk = |k: u8, v: &Vec<u8>| match k { 0 => Bound::Included(v.clone()), 1 => Bound::Excluded(v.clone()), _ => Bound::Unbounded };
    for (lo, hi) in [(&a, &a), (&a, &b), (&b, &a)] {
        for kl in 0..3u8 { for kh in 0..3u8 {
            let model_ok = match (kl, kh) { (1, 1) => lt(lo, hi), (2, _) | (_, 2) => true, _ => !lt(hi, lo) };
            let got = catch_unwind(AssertUnwindSafe(|| m.range::<Vec<u8>, _>((mk(kl, lo), mk(kh, hi))).map(|x| x.0.clone()).collect::<Vec<_>>()));
            assert_eq!(got.is_ok(), model_ok, "bounds kinds {kl},{kh} on {lo:?},{hi:?}");
            if let Ok(keys) = got {
                let want: Vec<Vec<u8>> = m.keys().filter(|k| (match kl { 0 => *k >= lo, 1 => *k > lo, _ => true }) && (match kh { 0 => *k <= hi, 1 => *k < hi, _ => true })).cloned().collect();
                assert_eq!(keys, want);
            }
        } }
    }
    println!("BTreeMap::range: panics exactly when bounds_in_order is false; content as modelled");
}

// ---- Peekable over a non-fused iterator: after `None` more items can come (prelude/peekable.rs:18 says rem stays empty)
#[test]
fn peekable_non_fused() {
    struct Flip(u32);
    impl Iterator for Flip { type Item = u32; fn next(&mut self) -> Option<u32> { self.0 += 1; if self.0 % 2 == 1 { None } else { Some(self.0) } } }
    let mut p = Flip(0).peekable();
    assert_eq!(p.peek(), None);
    assert_eq!(p.next(), None);
    let again = p.next();
    println!("Peekable<non-fused>: next after None = {again:?}");
    assert_eq!(again, Some(2));
}

// ---- Vec of a zero-sized type may hold more than isize::MAX elements (axiom_vec_len is stated for every T)
#[test]
fn vec_zst_len() {
    let v: Vec<()> = vec![(); usize::MAX];
    println!("Vec<()> len = {:#x}", v.len());
    assert!(v.len() > isize::MAX as usize);
}

// ---- str facts used by std_ext.rs
#[test]
fn str_facts() {
    assert!("é".len() == 2 && "é".chars().count() == 1);
    assert!("".len() == 0);
    assert!(!"".starts_with('a') && "ab".starts_with('a') && !"ba".starts_with('a'));
    assert_eq!("\u{a0} x \u{2003}".trim(), "x"); // Unicode White_Space, not only ASCII
    assert_eq!(String::from("ab"), *"ab");
    // Addr orders as its text (byte order)
    assert!(Addr::unchecked("Z") < Addr::unchecked("a"));
    assert!(Addr::unchecked("a") < Addr::unchecked("aa"));
}

// ---- Storage::range of the base store with equal / inverted bounds is empty in both orders, no panic
#[test]
fn storage_range_degenerate() {
    let mut st = MockStorage::new();
    st.set(b"a", b"1"); st.set(b"b", b"2");
    for o in [Order::Ascending, Order::Descending] {
        assert_eq!(st.range(Some(b"a"), Some(b"a"), o).count(), 0);
        assert_eq!(st.range(Some(b"b"), Some(b"a"), o).count(), 0);
        assert_eq!(st.range(Some(b""), Some(b""), o).count(), 0);
        assert_eq!(st.range(Some(b""), None, o).count(), 2);
    }
}

// ---- Deque::push_back touches only keys under lp(namespace)
#[test]
fn deque_frame() {
    use cw_storage_plus::Deque;
    let mut st = MockStorage::new();
    st.set(b"other", b"1");
    st.set(&[lp(b"validator_map"), b"v".to_vec()].concat(), b"2");
    let before: Vec<_> = st.range(None, None, Order::Ascending).collect();
    let d: Deque<u32> = Deque::new("validators");
    d.push_back(&mut st, &7).unwrap();
    d.push_back(&mut st, &8).unwrap();
    let p = lp(b"validators");
    let after: Vec<_> = st.range(None, None, Order::Ascending).filter(|(k, _)| !k.starts_with(&p)).collect();
    assert_eq!(before, after);
    let inside: Vec<_> = st.range(None, None, Order::Ascending).filter(|(k, _)| k.starts_with(&p)).map(|(k, _)| k[p.len()..].to_vec()).collect();
    println!("Deque keys under the prefix: {inside:?}");
    // push_back on a corrupt tail counter: Err, nothing written
    st.set(&[p.clone(), b"t".to_vec()].concat(), b"xyz");
    let snap: Vec<_> = st.range(None, None, Order::Ascending).collect();
    assert!(d.push_back(&mut st, &9).is_err());
    assert_eq!(snap, st.range(None, None, Order::Ascending).collect::<Vec<_>>());
}
