use cosmwasm_std::{Addr, Binary, Deps, DepsMut, Empty, Env, MessageInfo, Response, StdResult, Order, Storage, Api};
use cw_multi_test::{App, Contract, ContractWrapper, Executor, IntoAddr, MockApiBech32};

fn ex(_: DepsMut, _: Env, _: MessageInfo, _: Empty) -> StdResult<Response> { Ok(Response::new()) }
fn qu(_: Deps, _: Env, _: Empty) -> StdResult<Binary> { Ok(Binary::default()) }
fn contract() -> Box<dyn Contract<Empty>> { Box::new(ContractWrapper::new(ex, ex, qu)) }

#[test]
fn c07_empty_path_range() {
    let mut app = App::default();
    app.storage_mut().set(b"abc", b"v");
    let view = app.prefixed_multilevel_storage(&[]);
    assert_eq!(view.get(b"abc"), Some(b"v".to_vec()));
    let all: Vec<_> = view.range(None, None, Order::Ascending).collect();
    println!("C07 empty path range -> {:?}", all);
    assert_eq!(all.len(), 1, "C07: empty path range lost entries");
}

#[test]
fn c07_ff_namespace_range() {
    let mut app = App::default();
    let ns = vec![0xFFu8; 65535];
    {
        let mut v = app.prefixed_storage_mut(&ns);
        v.set(b"k", b"v");
    }
    let view = app.prefixed_storage(&ns);
    assert_eq!(view.get(b"k"), Some(b"v".to_vec()));
    let all: Vec<_> = view.range(None, None, Order::Ascending).collect();
    assert_eq!(all.len(), 1, "C07: 0xFF namespace range lost entries");
}

#[test]
fn c11_noncontiguous_code_id() {
    let mut app = App::default();
    let creator = "creator".into_addr();
    let id = app.store_code_with_id(creator.clone(), 10, contract()).unwrap();
    assert_eq!(id, 10);
    let r = app.instantiate_contract(10, creator, &Empty {}, &[], "label", None);
    println!("C11 instantiate code 10 -> {:?}", r);
    assert!(r.is_ok(), "C11: code stored under id 10 cannot be instantiated");
}

#[test]
fn c18_uppercase() {
    let api = MockApiBech32::new("juno");
    let a = api.addr_make("alice");
    let up = a.as_str().to_uppercase();
    let r = api.addr_validate(&up);
    println!("C18 validate uppercase -> {:?}", r);
    match r { Ok(x) => assert_eq!(x.as_str(), up, "C18: validated address changed"), Err(_) => {} }
}
