use cosmwasm_std::{Order, Storage};
use cw_multi_test::App;

#[test]
fn c07_wrapped_upper_bound_reads_foreign_key() {
    let mut app = App::default();
    // namespace ending in 0xFF: prefix = [0,2,'f',0xFF], padded upper bound = [0,2,'g',0]
    app.storage_mut().set(&[0, 2, b'g'], b"foreign");
    {
        let mut v = app.prefixed_storage_mut(b"f\xff");
        v.set(b"k", b"v");
    }
    let view = app.prefixed_storage(b"f\xff");
    let all: Vec<_> = view.range(None, None, Order::Ascending).collect();
    assert_eq!(all, vec![(b"k".to_vec(), b"v".to_vec())]);
}
