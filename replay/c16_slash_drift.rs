//! C16 demo 1: a slash must also scale the pending unbondings of the slashed validator
//! when the validator's *active* stake is (or becomes) zero.
#![cfg(feature = "staking")]

use cosmwasm_std::testing::mock_env;
use cosmwasm_std::{coin, Addr, Decimal, StakingMsg, Validator};
use cw_multi_test::{App, AppBuilder, Executor, IntoBech32, StakingInfo, StakingSudo};

const BONDED_DENOM: &str = "stake";
const UNBONDING_TIME: u64 = 60;

fn setup(delegators: &[(&Addr, u128)], validators: &[&Addr]) -> App {
    let block = mock_env().block;
    AppBuilder::default().build(|router, api, storage| {
        for (addr, amount) in delegators {
            router
                .bank
                .init_balance(storage, addr, vec![coin(*amount, BONDED_DENOM)])
                .unwrap();
        }
        router
            .staking
            .setup(
                storage,
                StakingInfo {
                    bonded_denom: BONDED_DENOM.to_string(),
                    unbonding_time: UNBONDING_TIME,
                    apr: Decimal::percent(10),
                },
            )
            .unwrap();
        for v in validators {
            router
                .staking
                .add_validator(
                    api,
                    storage,
                    &block,
                    Validator::new(
                        v.to_string(),
                        Decimal::percent(10),
                        Decimal::percent(90),
                        Decimal::percent(1),
                    ),
                )
                .unwrap();
        }
    })
}

fn balance(app: &App, addr: &Addr) -> u128 {
    app.wrap()
        .query_balance(addr.clone(), BONDED_DENOM)
        .unwrap()
        .amount
        .u128()
}

fn delegate(app: &mut App, who: &Addr, val: &Addr, amount: u128) {
    app.execute(
        who.clone(),
        StakingMsg::Delegate {
            validator: val.to_string(),
            amount: coin(amount, BONDED_DENOM),
        }
        .into(),
    )
    .unwrap();
}

fn undelegate(app: &mut App, who: &Addr, val: &Addr, amount: u128) {
    app.execute(
        who.clone(),
        StakingMsg::Undelegate {
            validator: val.to_string(),
            amount: coin(amount, BONDED_DENOM),
        }
        .into(),
    )
    .unwrap();
}

fn slash(app: &mut App, val: &Addr, percentage: Decimal) {
    app.sudo(
        StakingSudo::Slash {
            validator: val.to_string(),
            percentage,
        }
        .into(),
    )
    .unwrap();
}

/// Everything delegated to the validator is already unbonding when the slash arrives:
/// the pending unbonding must still be halved.

fn delegation(app: &App, who: &Addr, val: &Addr) -> Option<u128> {
    app.wrap().query_delegation(who.clone(), val.to_string()).unwrap().map(|d| d.amount.amount.u128())
}

#[test]
fn repeated_partial_slashes_keep_whole_token_delegation() {
    let delegator = "delegator".into_bech32();
    let validator = "validator".into_bech32();
    let mut app = setup(&[(&delegator, 100)], &[&validator]);
    delegate(&mut app, &delegator, &validator, 5);
    slash(&mut app, &validator, Decimal::percent(50)); // 2.5
    assert_eq!(delegation(&app, &delegator, &validator), Some(2));
    slash(&mut app, &validator, Decimal::percent(20)); // 2.0
    assert_eq!(delegation(&app, &delegator, &validator), Some(2));
    slash(&mut app, &validator, Decimal::percent(50)); // 1.0 exactly
    assert_eq!(delegation(&app, &delegator, &validator), Some(1));
}

#[test]
fn undelegating_the_whole_delegation_after_slashes_succeeds() {
    let delegator = "delegator".into_bech32();
    let validator = "validator".into_bech32();
    let mut app = setup(&[(&delegator, 100)], &[&validator]);
    delegate(&mut app, &delegator, &validator, 5);
    slash(&mut app, &validator, Decimal::percent(50)); // 2.5
    slash(&mut app, &validator, Decimal::percent(20)); // 2.0
    assert_eq!(delegation(&app, &delegator, &validator), Some(2));
    app.execute(delegator.clone(), StakingMsg::Undelegate { validator: validator.to_string(), amount: coin(2, BONDED_DENOM) }.into()).unwrap();
}
