#![cfg(feature = "staking")]
use cosmwasm_std::{coin, coins, Addr, Binary, Decimal, Deps, DepsMut, Empty, Env, MessageInfo, Response, StdResult, Validator, StakingMsg, CosmosMsg, GovMsg, VoteOption, SubMsg, BlockInfo};
use cw_multi_test::{App, AppBuilder, Contract, ContractWrapper, Executor, IntoAddr, IntoBech32, StakingInfo, StakingSudo, SudoMsg, GovAcceptingModule};

#[test]
fn c14_panic_history() {
    let d = "delegator".into_addr();
    let e = "other".into_addr();
    let val = "val".into_bech32_with_prefix("cosmwasmvaloper").to_string();
    let mut app = AppBuilder::default().build(|router, api, storage| {
        router.bank.init_balance(storage, &d, coins(1000, "TOKEN")).unwrap();
        router.bank.init_balance(storage, &e, coins(1000, "TOKEN")).unwrap();
        router.staking.setup(storage, StakingInfo { bonded_denom: "TOKEN".into(), unbonding_time: 60, apr: Decimal::percent(10) }).unwrap();
        let block = cosmwasm_std::testing::mock_env().block;
        router.staking.add_validator(api, storage, &block, Validator::new(val.clone(), Decimal::percent(10), Decimal::percent(90), Decimal::percent(1))).unwrap();
    });
    app.execute(d.clone(), StakingMsg::Delegate { validator: val.clone(), amount: coin(3, "TOKEN") }.into()).unwrap();
    app.execute(e.clone(), StakingMsg::Delegate { validator: val.clone(), amount: coin(100, "TOKEN") }.into()).unwrap();
    app.sudo(SudoMsg::Staking(StakingSudo::Slash { validator: val.clone(), percentage: Decimal::percent(50) })).unwrap();
    // d now has 1.5; undelegate 1 leaves 0.5
    app.execute(d.clone(), StakingMsg::Undelegate { validator: val.clone(), amount: coin(1, "TOKEN") }.into()).unwrap();
    app.update_block(|b: &mut BlockInfo| { b.time = b.time.plus_seconds(100); b.height += 1; });
    // any reward update on this validator
    let r = std::panic::catch_unwind(std::panic::AssertUnwindSafe(|| {
        app.execute(e.clone(), StakingMsg::Delegate { validator: val.clone(), amount: coin(1, "TOKEN") }.into())
    }));
    println!("C14 result: {:?}", r.as_ref().map(|x| x.is_ok()).map_err(|_| "PANIC"));
    assert!(r.is_ok(), "C14: simulator panicked");
}

#[cfg(feature = "stargate")]
mod gov {
    use super::*;
    fn ex(_: DepsMut, _: Env, _: MessageInfo, _: Empty) -> StdResult<Response> {
        Ok(Response::new().add_message(CosmosMsg::Gov(GovMsg::Vote { proposal_id: 1, option: VoteOption::Yes })))
    }
    fn inst(_: DepsMut, _: Env, _: MessageInfo, _: Empty) -> StdResult<Response> { Ok(Response::new()) }
    fn qu(_: Deps, _: Env, _: Empty) -> StdResult<Binary> { Ok(Binary::default()) }
    #[test]
    fn c17_gov_from_empty_contract() {
        // chain with custom msg type so wrapper lifting is exercised
        let mut app = cw_multi_test::BasicAppBuilder::<cosmwasm_std::Empty, cosmwasm_std::Empty>::new_custom().with_gov(GovAcceptingModule::new()).build(cw_multi_test::no_init);
        let code: Box<dyn Contract<Empty>> = Box::new(ContractWrapper::<_,_,_,_,_,_,Empty,Empty>::new_with_empty(ex, inst, qu));
        let id = app.store_code(code);
        let owner = "owner".into_addr();
        let c = app.instantiate_contract(id, owner.clone(), &Empty{}, &[], "l", None).unwrap();
        let r = std::panic::catch_unwind(std::panic::AssertUnwindSafe(|| app.execute_contract(owner, c, &Empty{}, &[])));
        println!("C17 result: {:?}", r.as_ref().map(|x| x.is_ok()).map_err(|_| "PANIC"));
        assert!(r.is_ok(), "C17: panic lifting gov msg");
    }
}
