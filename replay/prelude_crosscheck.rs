//! Differential cross-check of the ASSUMED prelude contracts (/verif/prelude/*.rs) against the real dependencies
//! (cosmwasm-std, cw-storage-plus, cw-utils as pinned by /repo/Cargo.lock).  This is a TEST of the trusted base, not a
//! proof: every formula the prelude states is evaluated on pseudo-random and boundary inputs and compared with what
//! the dependency computes.  Run by `vx/crosscheck_driver.py` (thorough tier) inside a scratch copy of /repo.
use cosmwasm_std::testing::MockStorage;
use cosmwasm_std::{coin, Addr, Coin, Decimal, Order, Storage, Timestamp, Uint128, Uint256};
use cw_storage_plus::{Item, Map};
use cw_utils::NativeBalance;

struct Rng(u64);
impl Rng {
    fn next(&mut self) -> u64 {
        // xorshift64*
        self.0 ^= self.0 >> 12;
        self.0 ^= self.0 << 25;
        self.0 ^= self.0 >> 27;
        self.0.wrapping_mul(0x2545F4914F6CDD1D)
    }
    /// a number with a random magnitude (so that small, medium and huge values are all frequent)
    fn mag(&mut self, max_bits: u32) -> u128 {
        let bits = (self.next() % (max_bits as u64 + 1)) as u32;
        let raw = ((self.next() as u128) << 64) | self.next() as u128;
        if bits == 0 { 0 } else if bits >= 128 { raw } else { raw & ((1u128 << bits) - 1) }
    }
}
const E18: u128 = 1_000_000_000_000_000_000;
fn u256(x: u128) -> Uint256 { Uint256::from(x) }
fn fits(x: Uint256) -> Option<u128> { Uint128::try_from(x).ok().map(|v| v.u128()) }

#[test]
fn decimal_and_uint128_formulas() {
    let mut r = Rng(0x9E3779B97F4A7C15);
    let mut n = 0u32;
    for _ in 0..20000 {
        let a = r.mag(100);
        let b = r.mag(100);
        let da = Decimal::new(Uint128::new(a));
        let db = Decimal::new(Uint128::new(b));
        // Decimal * Decimal = floor(a*b / 10^18)
        if let Some(m) = fits(u256(a) * u256(b) / u256(E18)) {
            assert_eq!((da * db).atomics().u128(), m, "mul {a} {b}");
            n += 1;
        }
        // Decimal / Decimal = floor(a * 10^18 / b)
        if b != 0 {
            if let Some(q) = fits(u256(a) * u256(E18) / u256(b)) {
                assert_eq!((da / db).atomics().u128(), q, "div {a} {b}");
                n += 1;
            }
        }
        // Decimal / Uint128 = floor(a / b)
        if b != 0 { assert_eq!((da / Uint128::new(b)).atomics().u128(), a / b); }
        // from_ratio(n, d) = floor(n * 10^18 / d)
        if b != 0 {
            if let Some(q) = fits(u256(a) * u256(E18) / u256(b)) {
                assert_eq!(Decimal::from_ratio(a, b).atomics().u128(), q, "from_ratio {a} {b}");
                n += 1;
            }
        }
        // + and - (when defined)
        if let Some(s) = a.checked_add(b) { assert_eq!((da + db).atomics().u128(), s); }
        if a >= b { assert_eq!((da - db).atomics().u128(), a - b); let mut x = da; x -= db; assert_eq!(x.atomics().u128(), a - b); }
        // Uint128::mul_floor / mul_ceil (x, Decimal d) = floor / ceil (x*d / 10^18)
        let x = r.mag(90);
        if let Some(m) = fits(u256(x) * u256(b) / u256(E18)) {
            assert_eq!(Uint128::new(x).mul_floor(db).u128(), m, "mul_floor {x} {b}");
            n += 1;
        }
        if let Some(m) = fits((u256(x) * u256(b) + u256(E18 - 1)) / u256(E18)) {
            assert_eq!(Uint128::new(x).mul_ceil(db).u128(), m, "mul_ceil {x} {b}");
        }
        // to_uint_floor / ceil, is_zero, percent, comparison
        assert_eq!(da.to_uint_floor().u128(), a / E18);
        assert_eq!(da.to_uint_ceil().u128(), (a / E18) + if a % E18 == 0 { 0 } else { 1 });
        assert_eq!(da.is_zero(), a == 0);
        assert_eq!(da < db, a < b);
        assert_eq!(da <= db, a <= b);
        assert_eq!(da == db, a == b);
        // Uint128 checked ops / multiply_ratio
        assert_eq!(Uint128::new(a).checked_sub(Uint128::new(b)).is_ok(), a >= b);
        assert_eq!(Uint128::new(a).checked_add(Uint128::new(b)).is_ok(), a.checked_add(b).is_some());
        if b != 0 {
            if let Some(m) = fits(u256(x) * u256(a) / u256(b)) {
                assert_eq!(Uint128::new(x).multiply_ratio(a, b).u128(), m);
            }
        }
    }
    assert_eq!(Decimal::one().atomics().u128(), E18);
    assert_eq!(Decimal::percent(10).atomics().u128(), 10 * 10_000_000_000_000_000);
    assert_eq!(Decimal::zero().atomics().u128(), 0);
    assert!(n > 40000, "only {n} arithmetic cases were in range");
}

#[test]
fn timestamp_formulas() {
    let mut r = Rng(7);
    for _ in 0..20000 {
        let n = r.next() >> (r.next() % 40);
        let t = Timestamp::from_nanos(n);
        assert_eq!(t.nanos(), n);
        assert_eq!(t.seconds(), n / 1_000_000_000);
        let s = r.next() % 4_000_000_000;
        if let Some(sum) = (s.checked_mul(1_000_000_000)).and_then(|x| n.checked_add(x)) {
            assert_eq!(t.plus_seconds(s).nanos(), sum);
        }
        let m = r.next() >> (r.next() % 40);
        if n >= m { assert_eq!(t.minus_nanos(m).nanos(), n - m); }
        assert_eq!(t <= Timestamp::from_nanos(m), n <= m);
        assert_eq!(t >= Timestamp::from_nanos(m), n >= m);
    }
}

fn lp(b: &[u8]) -> Vec<u8> {
    let mut v = vec![((b.len() >> 8) & 0xff) as u8, (b.len() & 0xff) as u8];
    v.extend_from_slice(b);
    v
}

#[test]
fn cw_storage_plus_key_layout_and_update() {
    let addr = Addr::unchecked("cosmwasm1delegatoraddress");
    let m2: Map<(&Addr, &str), u64> = Map::new("stakes");
    let mut want = lp(b"stakes");
    want.extend(lp(addr.as_bytes()));
    want.extend_from_slice(b"validator-1");
    assert_eq!(&*m2.key((&addr, "validator-1")), &want[..]);
    let m1: Map<&str, u64> = Map::new("validator_info");
    let mut want = lp(b"validator_info");
    want.extend_from_slice("val".as_bytes());
    assert_eq!(&*m1.key("val"), &want[..]);
    let ma: Map<&Addr, u64> = Map::new("balances");
    let mut want = lp(b"balances");
    want.extend_from_slice(addr.as_bytes());
    assert_eq!(&*ma.key(&addr), &want[..]);
    let it: Item<u64> = Item::new("unbonding_queue");
    assert_eq!(it.as_slice(), b"unbonding_queue");
    assert_eq!(addr.as_bytes(), addr.as_str().as_bytes());

    // load / may_load / save / remove / update act on exactly that raw key; update writes only on Ok
    let mut st = MockStorage::new();
    assert!(m1.may_load(&st, "val").unwrap().is_none());
    assert!(m1.load(&st, "val").is_err());
    m1.save(&mut st, "val", &7).unwrap();
    assert!(st.get(&want_key(&m1, "val")).is_some());
    assert_eq!(m1.load(&st, "val").unwrap(), 7);
    let r: Result<u64, cosmwasm_std::StdError> = m1.update(&mut st, "val", |o| Err(cosmwasm_std::StdError::generic_err(format!("{o:?}"))));
    assert!(r.is_err());
    assert_eq!(m1.load(&st, "val").unwrap(), 7);
    let r: Result<u64, cosmwasm_std::StdError> = m1.update(&mut st, "val", |o| Ok(o.unwrap() + 1));
    assert_eq!(r.unwrap(), 8);
    assert_eq!(m1.load(&st, "val").unwrap(), 8);
    m1.remove(&mut st, "val");
    assert!(st.get(&want_key(&m1, "val")).is_none());
    // an undecodable record: may_load is Err
    st.set(&want_key(&m1, "bad"), b"not json");
    assert!(m1.may_load(&st, "bad").is_err());
    // Item
    assert!(it.may_load(&st).unwrap().is_none());
    it.save(&mut st, &5).unwrap();
    assert_eq!(st.get(b"unbonding_queue").unwrap(), b"5");

    // Map::range over all entries: raw-key order of the namespace window, each decoded
    let a1 = Addr::unchecked("aaa");
    let a2 = Addr::unchecked("aab");
    let a3 = Addr::unchecked("b");
    ma.save(&mut st, &a3, &3).unwrap();
    ma.save(&mut st, &a1, &1).unwrap();
    ma.save(&mut st, &a2, &2).unwrap();
    let all: Vec<(Addr, u64)> = ma.range(&st, None, None, Order::Ascending).collect::<Result<_, _>>().unwrap();
    assert_eq!(all, vec![(a1.clone(), 1), (a2.clone(), 2), (a3.clone(), 3)]);
    let mut k = lp(b"balances");
    k.extend_from_slice(b"zzz");
    st.set(&k, b"{");
    assert!(ma.range(&st, None, None, Order::Ascending).collect::<Result<Vec<_>, _>>().is_err());
}
fn want_key(m: &Map<&str, u64>, k: &str) -> Vec<u8> { m.key(k).to_vec() }

fn amt(v: &[Coin], d: &str) -> u128 { v.iter().filter(|c| c.denom == d).map(|c| c.amount.u128()).sum() }

#[test]
fn native_balance_axioms() {
    let denoms = ["atom", "btc", "eth", "x"];
    let mut r = Rng(99);
    for _ in 0..5000 {
        let mk = |r: &mut Rng, zero_ok: bool| -> Vec<Coin> {
            let n = r.next() % 5;
            (0..n).map(|_| {
                let a = if zero_ok && r.next() % 4 == 0 { 0 } else { 1 + (r.next() % 50) as u128 };
                coin(a, denoms[(r.next() % 4) as usize])
            }).collect()
        };
        let a = mk(&mut r, true);
        let b = mk(&mut r, false);
        // normalize: totals kept, no zero amounts, each denomination once
        let mut na = NativeBalance(a.clone());
        na.normalize();
        for d in denoms { assert_eq!(amt(&na.0, d), amt(&a, d)); }
        assert!(na.0.iter().all(|c| !c.amount.is_zero()));
        for i in 0..na.0.len() { for j in i + 1..na.0.len() { assert_ne!(na.0[i].denom, na.0[j].denom); } }
        // a + b adds denomination-wise
        let sum = na.clone() + NativeBalance(b.clone());
        for d in denoms { assert_eq!(amt(&sum.0, d), amt(&na.0, d) + amt(&b, d)); }
        // a - b (coin by coin) succeeds iff every denomination's total is covered (for positive coins)
        let diff = na.clone() - b.clone();
        let covered = denoms.iter().all(|d| amt(&b, d) <= amt(&na.0, d));
        assert_eq!(diff.is_ok(), covered, "{:?} - {:?}", na.0, b);
        if let Ok(dv) = diff { for d in denoms { assert_eq!(amt(&dv.0, d), amt(&na.0, d) - amt(&b, d)); } }
    }
}

#[test]
fn storage_range_contract_and_vec_order() {
    // the Storage contract the proofs assume of a base store: range = the keys within [start, end) in lexicographic order
    let mut st = MockStorage::new();
    let mut r = Rng(5);
    let mut keys: Vec<Vec<u8>> = Vec::new();
    for _ in 0..200 {
        let n = r.next() % 4;
        let k: Vec<u8> = (0..n).map(|_| [0u8, 1, 0x7f, 0xff][(r.next() % 4) as usize]).collect();
        st.set(&k, b"v");
        if !keys.contains(&k) { keys.push(k); }
    }
    keys.sort();
    for _ in 0..500 {
        let lo: Option<Vec<u8>> = if r.next() % 3 == 0 { None } else { Some(keys[(r.next() % keys.len() as u64) as usize].clone()) };
        let hi: Option<Vec<u8>> = if r.next() % 3 == 0 { None } else { Some(keys[(r.next() % keys.len() as u64) as usize].clone()) };
        let want: Vec<Vec<u8>> = keys.iter().filter(|k| lo.as_ref().map_or(true, |l| l <= *k) && hi.as_ref().map_or(true, |h| *k < h)).cloned().collect();
        let asc: Vec<Vec<u8>> = st.range(lo.as_deref(), hi.as_deref(), Order::Ascending).map(|x| x.0).collect();
        let mut desc: Vec<Vec<u8>> = st.range(lo.as_deref(), hi.as_deref(), Order::Descending).map(|x| x.0).collect();
        desc.reverse();
        assert_eq!(asc, want);
        assert_eq!(desc, want);
    }
    // Ord for Vec<u8> is the lexicographic byte order, a proper prefix sorts first
    assert!(vec![1u8] < vec![1u8, 0]);
    assert!(vec![1u8, 0xff] < vec![2u8]);
    assert!(Vec::<u8>::new() < vec![0u8]);
}
